import ZbossModel.Frag
/-! Helper lemmas for C09: the index-based fragmenter in normal form and the
    slice algebra behind "the bodies concatenate to the message". -/
namespace Zboss.Frag
open Gen

theorem bodyMax_eq : Gen.bodyMax = 247 := rfl

theorem range_succ_succ (n : Nat) :
    List.range (n + 2) = 0 :: ((List.range n).map (· + 1) ++ [n + 1]) := by
  rw [List.range_succ_eq_map, List.range_succ]
  simp

/-- a window followed by the rest is the rest from the window's start -/
theorem slice_append_drop (l : List α) (x s : Nat) (h : x + s ≤ l.length) :
    slice l x (x + s) ++ l.drop (x + s) = l.drop x := by
  unfold slice
  conv => rhs; rw [← List.take_append_drop (x + s) l]
  rw [List.drop_append_of_le_length (by simp; omega)]

/-- consecutive windows of width `s` starting at `a`, then the rest -/
theorem windows_append_drop (l : List α) (a s k : Nat) (h : a + s * k ≤ l.length) :
    ((List.range k).map fun j => slice l (a + s * j) (a + s * j + s)).flatten ++ l.drop (a + s * k) = l.drop a := by
  induction k with
  | zero => simp
  | succ k ih =>
    have hk : a + s * k ≤ l.length := by
      have : s * k ≤ s * (k + 1) := Nat.mul_le_mul_left s (by omega)
      omega
    rw [List.range_succ, List.map_append, List.flatten_append, List.append_assoc]
    simp only [List.map_cons, List.map_nil, List.flatten_cons, List.flatten_nil, List.append_nil]
    have e : a + s * (k + 1) = a + s * k + s := by rw [Nat.mul_succ]; omega
    rw [e, slice_append_drop l (a + s * k) s (by omega)]
    exact ih hk

theorem slice_length (l : List α) (x s : Nat) (h : x + s ≤ l.length) : (slice l x (x + s)).length = s := by
  simp [slice]; omega

/-- normal form of the fragment list for `count = n + 2` -/
def fragmentsNF (p : HLPacket) (n : Nat) : List Frame :=
  let ser := p.body
  let first := firstSize ser.length
  firstFrag p first ::
    ((List.range n).map (fun j => midFrag ser (first + Gen.bodyMax * j)) ++
      [lastFrag (ser.drop (first + Gen.bodyMax * (nIdx ser.length - 1)))])

theorem fragments_eq_nf (whole : Frame) (p : HLPacket) (n : Nat) (hc : count p = n + 2) :
    fragments whole p = fragmentsNF p n := by
  unfold fragments fragmentsNF
  have h1 : ¬ count p ≤ 1 := by omega
  have h2 : ¬ n + 2 ≤ 1 := by omega
  simp only [h2, if_false, hc, range_succ_succ, List.map_cons, List.map_append, List.map_map,
    List.map_nil, if_true]
  congr 1
  congr 1
  · apply List.map_congr_left
    intro j hj
    have hj' : j < n := by simpa using hj
    simp only [Function.comp]
    have e2 : ¬ (j = n) := by omega
    simp [e2]

/-- arithmetic of the index computation, for a body that does not fit one frame -/
theorem idx_facts (total : Nat) (n : Nat) (hc : ceilDiv total Gen.bodyMax = n + 2) :
    4 ≤ firstSize total ∧ firstSize total ≤ 247 ∧ nIdx total = n + 1 ∧
    firstSize total + 247 * n < total ∧ total ≤ firstSize total + 247 * n + 247 := by
  unfold nIdx firstSize ceilDiv at *
  simp only [bodyMax_eq] at *
  by_cases h0 : total % 247 = 0
  · simp only [h0, if_true]; omega
  · simp only [h0, if_false]; omega

end Zboss.Frag
