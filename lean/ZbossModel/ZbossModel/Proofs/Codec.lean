import ZbossModel.Codec
import ZbossModel.Proofs.Wire
/-! Helper lemmas for C04 / C15: the `from_frame` loop on the bytes `to_frame` produced. -/
namespace Zboss.Codec
open Wire

theorem decW_empty (w : WT) (hg : w.isGreedy = false) (hm : 0 < minSize w) : decW w [] = .error .valueError := by
  cases w with
  | sc t => simp only [minSize] at hm; simp [decW, decS_short t [] (by simpa using hm)]
  | lvBytes h => simp only [minSize] at hm; simp [decW, hm]
  | lvList h ts => simp only [minSize] at hm; simp [decW, hm]
  | greedy ts => simp [WT.isGreedy] at hg
  | simpleDesc =>
    have := decRec_short [ST.uint 1, .uint 2, .uint 2, .uint 1, .uint 1, .uint 1] [] (by decide)
    simp only [decW, this]

theorem decW_greedy_empty (ts : List ST) : decW (.greedy ts) [] = .ok (.rows [], []) := by
  simp [decW, decRowsAll]

theorem encW_greedy_rows (ts : List ST) (x : Val) (b : Bytes) (h : encW (.greedy ts) x = some b) :
    ∃ rs, x = .rows rs := by
  cases x with
  | rows rs => exact ⟨rs, rfl⟩
  | sc _ => simp [encW] at h
  | bytes _ => simp [encW] at h
  | sd _ _ _ _ _ _ => simp [encW] at h

theorem dropParam_id (done : List FView) (acc : Assign) (p : Nat) (hlen : acc.length = done.length)
    (h : ∀ g ∈ done, g.param ≠ p) : dropParam done acc p = acc := by
  induction done generalizing acc with
  | nil => cases acc with
    | nil => rfl
    | cons _ _ => simp at hlen
  | cons g done ih =>
    cases acc with
    | nil => simp at hlen
    | cons x acc =>
      simp only [dropParam, List.zip_cons_cons, List.map_cons]
      have hg : g.param ≠ p := h g (by simp)
      simp only [hg, if_false]
      congr 1
      exact ih acc (by simpa using hlen) (fun g' hg' => h g' (by simp [hg']))

theorem encParams_nones (fs : List FView) (xs : Assign) (h : xs.all (·.isNone) = true) : encParams fs xs = [] := by
  induction fs generalizing xs with
  | nil => cases xs <;> simp [encParams]
  | cons f fs ih =>
    cases xs with
    | nil => simp [encParams]
    | cons x xs =>
      simp only [List.all_cons, Bool.and_eq_true] at h
      cases x with
      | none => simp only [encParams]; exact ih xs h.2
      | some _ => simp at h

theorem pad_eq (fs : List FView) (xs : Assign) (hl : xs.length = fs.length) (h : xs.all (·.isNone) = true) :
    fs.map (fun _ => (none : Option Val)) = xs := by
  induction fs generalizing xs with
  | nil => cases xs with
    | nil => rfl
    | cons _ _ => simp at hl
  | cons f fs ih =>
    cases xs with
    | nil => simp at hl
    | cons x xs =>
      simp only [List.all_cons, Bool.and_eq_true] at h
      cases x with
      | some _ => simp at h
      | none => simp only [List.map_cons]; rw [ih xs (by simpa using hl) h.2]

end Zboss.Codec

namespace Zboss.Codec
open Wire

theorem canon_some (f : FView) (fs : List FView) (x : Val) (xs : Assign) :
    canon (f :: fs) (some x :: xs) = some x :: canon fs xs := rfl

/-- the `from_frame` loop run on the parameter bytes `to_frame` produced for a valid assignment -/
theorem parse_roundtrip (v : View)
    (hst : ctype v = 1 → v.statusIdx = some 2)
    (h3 : ctype v = 1 → ∀ pre f post, v.fields = pre ++ f :: post → f.optional = true → 3 ≤ pre.length)
    (hown : ∀ pre f post, v.fields = pre ++ f :: post → f.optional = true → ∀ g ∈ pre, g.param ≠ f.param) :
    ∀ (fs : List FView) (as : Assign) (done : List FView) (acc : Assign),
      v.fields = done ++ fs → acc.length = done.length →
      (∀ i, i < acc.length → (acc.getD i none).isSome = true) →
      fieldsOk fs = true → assignOk fs as = true →
      mkOk v (acc ++ canon fs as) = true → allEnc v.fields (acc ++ canon fs as) = true →
      ∃ d, parseLoop v done fs acc (encParams fs as) = .ok d ∧ d.assign = acc ++ canon fs as := by
  intro fs
  induction fs with
  | nil =>
    intro as done acc _ _ _ _ hok hmk _
    cases as with
    | nil =>
      simp only [canon, List.append_nil] at hmk ⊢
      exact ⟨.full acc, by simp [parseLoop, encParams, finish, hmk], rfl⟩
    | cons _ _ => simp [assignOk] at hok
  | cons f rest ih =>
    intro as done acc hfields hlen hsome hfok hok hmk hall
    cases as with
    | nil => simp [assignOk] at hok
    | cons x xs =>
      cases x with
      | some x =>
        simp only [assignOk, Bool.and_eq_true] at hok
        obtain ⟨b, hb⟩ := Option.isSome_iff_exists.mp hok.1
        have hfields' : v.fields = (done ++ [f]) ++ rest := by rw [hfields]; simp
        have hlen' : (acc ++ [some x]).length = (done ++ [f]).length := by simp [hlen]
        have hsome' : ∀ i, i < (acc ++ [some x]).length → ((acc ++ [some x]).getD i none).isSome = true := by
          intro i hi
          by_cases hia : i < acc.length
          · have := hsome i hia
            simp only [List.getD_eq_getElem?_getD] at this ⊢
            rw [List.getElem?_append_left hia]; exact this
          · have : i = acc.length := by simp at hi; omega
            subst this
            simp [List.getD_eq_getElem?_getD]
        have hcanon : acc ++ canon (f :: rest) (some x :: xs) = (acc ++ [some x]) ++ canon rest xs := by
          rw [canon_some]; simp
        by_cases hg : f.wt.isGreedy = true
        · -- a greedy list can only be the last field
          have hrest : rest = [] := by
            cases rest with
            | nil => rfl
            | cons g r => simp [fieldsOk, hg] at hfok
          subst hrest
          have hxs : xs = [] := by
            cases xs with
            | nil => rfl
            | cons _ _ => simp [assignOk] at hok
          subst hxs
          cases hw : f.wt with
          | greedy ts =>
            rw [hw] at hb
            obtain ⟨rs, rfl⟩ := encW_greedy_rows ts x b hb
            have hpos : 0 < recSize ts := by simp [fieldsOk, hw, greedyOk] at hfok; exact hfok.1
            have hd := decW_encW_greedy ts hpos rs b hb
            refine ⟨.full (acc ++ [some (.rows rs)]), ?_, by simp [Decoded.assign, canon]⟩
            have hmk' : mkOk v (acc ++ [some (.rows rs)]) = true := by simpa [canon] using hmk
            simp only [encParams, hw, hb, Option.getD_some, List.append_nil, parseLoop, hd, List.isEmpty_nil, if_true,
              finish, hmk']
          | sc _ => simp [hw, WT.isGreedy] at hg
          | lvBytes _ => simp [hw, WT.isGreedy] at hg
          | lvList _ _ => simp [hw, WT.isGreedy] at hg
          | simpleDesc => simp [hw, WT.isGreedy] at hg
        · have hg' : f.wt.isGreedy = false := by simpa using hg
          have hfok' : fieldsOk rest = true := by
            cases rest with
            | nil => simp [fieldsOk]
            | cons g r => simp only [fieldsOk, Bool.and_eq_true] at hfok; exact hfok.2
          have hstep : parseLoop v done (f :: rest) acc (encParams (f :: rest) (some x :: xs)) =
              parseLoop v (done ++ [f]) rest (acc ++ [some x]) (encParams rest xs) := by
            simp only [encParams, hb, Option.getD_some]
            rw [parseLoop, decW_encW f.wt x b (encParams rest xs) hg' hb]
          rw [hstep, hcanon]
          rw [hcanon] at hmk hall
          exact ih xs (done ++ [f]) (acc ++ [some x]) hfields' hlen' hsome' hfok' hok.2 hmk hall
      | none =>
        simp only [assignOk, Bool.and_eq_true, beq_iff_eq] at hok
        obtain ⟨⟨hopt, hnones⟩, hxl⟩ := hok
        have henc : encParams (f :: rest) (none :: xs) = [] := by
          simp only [encParams]; exact encParams_nones rest xs hnones
        rw [henc]
        by_cases hg : f.wt.isGreedy = true
        · have hrest : rest = [] := by
            cases rest with
            | nil => rfl
            | cons g r => simp [fieldsOk, hg] at hfok
          subst hrest
          have hxs : xs = [] := by
            cases xs with
            | nil => rfl
            | cons _ _ => simp at hxl
          subst hxs
          cases hw : f.wt with
          | greedy ts =>
            have hc : canon [f] [none] = [some (.rows [])] := by simp [canon, hw, WT.isGreedy]
            rw [hc] at hmk ⊢
            refine ⟨.full (acc ++ [some (.rows [])]), ?_, rfl⟩
            simp only [parseLoop, hw, decW_greedy_empty, List.isEmpty_nil, if_true, finish, hmk]
          | sc _ => simp [hw, WT.isGreedy] at hg
          | lvBytes _ => simp [hw, WT.isGreedy] at hg
          | lvList _ _ => simp [hw, WT.isGreedy] at hg
          | simpleDesc => simp [hw, WT.isGreedy] at hg
        · have hg' : f.wt.isGreedy = false := by simpa using hg
          have hmin : 0 < minSize f.wt := by
            cases rest with
            | nil => simp [fieldsOk, hg', hopt] at hfok; exact hfok.2
            | cons g r => simp [fieldsOk, hg', hopt] at hfok; exact hfok.1.1
          have hc : canon (f :: rest) (none :: xs) = none :: xs := by simp [canon, hg']
          rw [hc] at hmk hall ⊢
          have hpad : (f :: rest).map (fun _ => (none : Option Val)) = none :: xs := by
            simp only [List.map_cons]; rw [pad_eq rest xs hxl hnones]
          have hdrop : dropParam done acc f.param = acc :=
            dropParam_id done acc f.param hlen (hown done f rest hfields hopt)
          have hderr := decW_empty f.wt hg' hmin
          by_cases hct : ctype v = 1
          · have hsi := hst hct
            have h3' := h3 hct done f rest hfields hopt
            have hget : (acc.getD 2 none).isSome = true := hsome 2 (by omega)
            have hcond : 2 < acc.length ∧ (acc.getD 2 none).isSome = true := ⟨by omega, hget⟩
            by_cases hz : isZeroStatus (acc.getD 2 none) = true
            · refine ⟨.full (acc ++ (none :: xs)), ?_, rfl⟩
              rw [parseLoop, hderr]
              simp only [hct, if_true, hsi, hdrop, hpad, hcond, and_self, hz, Bool.not_true, Bool.false_eq_true, if_false,
                List.isEmpty_nil, hopt, Bool.and_self, finish, hmk]
            · refine ⟨.partialCmd (acc ++ (none :: xs)), ?_, rfl⟩
              rw [parseLoop, hderr]
              simp only [hct, if_true, hsi, hdrop, hpad, hcond, and_self, hz, Bool.not_false, finish, hall]
          · refine ⟨.full (acc ++ (none :: xs)), ?_, rfl⟩
            rw [parseLoop, hderr]
            simp only [hct, if_false, hdrop, hpad, List.isEmpty_nil, hopt, Bool.and_self, if_true, finish, hmk]

end Zboss.Codec

namespace Zboss.Codec
open Wire

theorem assignOk_length (fs : List FView) (a : Assign) (h : assignOk fs a = true) : a.length = fs.length := by
  induction fs generalizing a with
  | nil => cases a with
    | nil => rfl
    | cons _ _ => simp [assignOk] at h
  | cons f fs ih =>
    cases a with
    | nil => simp [assignOk] at h
    | cons x xs =>
      cases x with
      | some x => simp only [assignOk, Bool.and_eq_true] at h; simp [ih xs h.2]
      | none => simp only [assignOk, Bool.and_eq_true, beq_iff_eq] at h; simp [h.2]

theorem canon_length (fs : List FView) (a : Assign) : (canon fs a).length = a.length := by
  induction fs generalizing a with
  | nil => cases a <;> simp [canon]
  | cons f fs ih =>
    cases a with
    | nil => simp [canon]
    | cons x xs =>
      cases x with
      | some x => simp [canon, ih xs]
      | none => simp only [canon]; split <;> simp

def slotOk (p : FView × Option Val) : Bool :=
  match p.2 with
  | none => p.1.optional
  | some val => (encW p.1.wt val).isSome

theorem optionals_trailing (f : FView) (fs : List FView) (hf : fieldsOk (f :: fs) = true) (hopt : f.optional = true)
    (hg : f.wt.isGreedy = false) : fs.all (·.optional) = true := by
  cases fs with
  | nil => rfl
  | cons g r => simp [fieldsOk, hg, hopt] at hf; simpa using hf.1.2

theorem fieldsOk_tail (f : FView) (fs : List FView) (hf : fieldsOk (f :: fs) = true) : fieldsOk fs = true := by
  cases fs with
  | nil => simp [fieldsOk]
  | cons g r => simp only [fieldsOk, Bool.and_eq_true] at hf; exact hf.2

theorem greedy_last (f : FView) (fs : List FView) (hf : fieldsOk (f :: fs) = true) (hg : f.wt.isGreedy = true) : fs = [] := by
  cases fs with
  | nil => rfl
  | cons g r => simp [fieldsOk, hg] at hf

theorem nones_slots (fs : List FView) (xs : Assign) (hopt : fs.all (·.optional) = true) (hn : xs.all (·.isNone) = true) :
    (fs.zip xs).all slotOk = true ∧ (fs.zip xs).all (fun p => !p.1.optional || p.2.isNone) = true ∧
    optPrefixOk fs xs = true ∧ (fs.zip xs).all (fun p => match p.2 with | none => true | some val => (encW p.1.wt val).isSome) = true := by
  induction fs generalizing xs with
  | nil => simp [optPrefixOk]
  | cons f fs ih =>
    cases xs with
    | nil => simp [optPrefixOk]
    | cons x xs =>
      simp only [List.all_cons, Bool.and_eq_true] at hopt hn
      cases x with
      | some _ => simp at hn
      | none =>
        obtain ⟨a, b, c, d⟩ := ih xs hopt.2 hn.2
        simp only [List.zip_cons_cons, List.all_cons, slotOk, hopt.1, a, b, optPrefixOk, Option.isNone_none,
          Bool.and_self, Bool.or_true, if_true, c, d, and_self]

/-- a valid assignment stays constructible after `canon` (the decoded command can be built) -/
theorem canon_ok (fs : List FView) (a : Assign) (hf : fieldsOk fs = true) (h : assignOk fs a = true) :
    (fs.zip (canon fs a)).all slotOk = true ∧ optPrefixOk fs (canon fs a) = true ∧
    (fs.zip (canon fs a)).all (fun p => match p.2 with | none => true | some val => (encW p.1.wt val).isSome) = true := by
  induction fs generalizing a with
  | nil => cases a <;> simp [canon, optPrefixOk]
  | cons f fs ih =>
    cases a with
    | nil => simp [assignOk] at h
    | cons x xs =>
      cases x with
      | some x =>
        simp only [assignOk, Bool.and_eq_true] at h
        obtain ⟨a1, a2, a3⟩ := ih xs (fieldsOk_tail f fs hf) h.2
        simp only [canon, List.zip_cons_cons, List.all_cons, slotOk, h.1, a1, optPrefixOk, Option.isNone_some,
          Bool.and_false, Bool.false_eq_true, if_false, a2, a3, Bool.and_self, and_self]
      | none =>
        simp only [assignOk, Bool.and_eq_true, beq_iff_eq] at h
        obtain ⟨⟨hopt, hn⟩, hl⟩ := h
        by_cases hg : f.wt.isGreedy = true
        · have := greedy_last f fs hf hg
          subst this
          have hxs : xs = [] := by cases xs with
            | nil => rfl
            | cons _ _ => simp at hl
          subst hxs
          cases hw : f.wt with
          | greedy ts => simp [canon, hw, WT.isGreedy, slotOk, encW, encRows, optPrefixOk]
          | sc _ => simp [hw, WT.isGreedy] at hg
          | lvBytes _ => simp [hw, WT.isGreedy] at hg
          | lvList _ _ => simp [hw, WT.isGreedy] at hg
          | simpleDesc => simp [hw, WT.isGreedy] at hg
        · have hg' : f.wt.isGreedy = false := by simpa using hg
          obtain ⟨b1, b2, b3, b4⟩ := nones_slots fs xs (optionals_trailing f fs hf hopt hg') hn
          simp only [canon, hg', Bool.false_eq_true, if_false, List.zip_cons_cons, List.all_cons, slotOk, hopt, b1,
            optPrefixOk, Option.isNone_none, Bool.and_self, if_true, b2, b3, b4, and_self]

theorem mkOk_canon (v : View) (a : Assign) (hf : fieldsOk v.fields = true) (h : assignOk v.fields a = true) :
    mkOk v (canon v.fields a) = true ∧ allEnc v.fields (canon v.fields a) = true := by
  obtain ⟨c1, c2, c3⟩ := canon_ok v.fields a hf h
  have hl : (canon v.fields a).length = v.fields.length := by rw [canon_length, assignOk_length _ _ h]
  constructor
  · unfold mkOk
    simp only [hl, beq_self_eq_true, Bool.true_and, Bool.and_eq_true]
    refine ⟨?_, c2⟩
    rw [← c1]; congr 1
  · unfold allEnc
    rw [List.all_eq_true] at c3 ⊢
    intro p hp
    have := c3 p hp
    obtain ⟨f, x⟩ := p
    cases x <;> simpa using this

end Zboss.Codec
