import ZbossModel.Proofs.Rx
/-! The receiver's ordered log of writes and hand-ups is a function of the accepted frames alone
    (helper lemmas for C01, C02, C06). -/
namespace Zboss.Rx
open Gen

theorem runWith_resyncPy : runWith resyncPy tryFrame = run tryFrame := by
  have : resyncPy = resync := funext resyncPy_eq
  rw [this]

theorem handle_out (h : Frame → Bool) (st : RxState) (f : Frame) :
    (handleFrame h st f).2 = outsOf st.transport f ∧
    (handleFrame h st f).1.transport = st.transport ∧ (handleFrame h st f).1.buf = st.buf := by
  unfold handleFrame outsOf isAck seqOf
  by_cases ha : Frame.hasFlag (LL.flags f.ll) Gen.flagisACK = true
  · simp only [ha, if_true]
    split <;> simp
  · simp only [ha, if_false]
    cases f.hl with
    | none => simp
    | some p => simp

theorem foldl_handle (h : Frame → Bool) (frames : List Frame) (st : RxState) (log : List Out) :
    let r := frames.foldl (fun acc f => let s := handleFrame h acc.1 f; (s.1, acc.2 ++ s.2)) (st, log)
    r.2 = log ++ frames.flatMap (outsOf st.transport) ∧ r.1.transport = st.transport ∧ r.1.buf = st.buf := by
  induction frames generalizing st log with
  | nil => simp
  | cons f fs ih =>
    obtain ⟨h1, h2, h3⟩ := handle_out h st f
    have := ih (handleFrame h st f).1 (log ++ (handleFrame h st f).2)
    simp only [List.foldl_cons, List.flatMap_cons]
    simp only [h1, h2, h3] at this ⊢
    obtain ⟨a, b, c⟩ := this
    exact ⟨by rw [a]; simp, b, c⟩

theorem dataReceived_out (h : Frame → Bool) (st : RxState) (data : Bytes) :
    (dataReceived h st data).2 = (run tryFrame (st.buf ++ data)).1.flatMap (outsOf st.transport) ∧
    (dataReceived h st data).1.buf = (run tryFrame (st.buf ++ data)).2 ∧
    (dataReceived h st data).1.transport = st.transport := by
  unfold dataReceived
  rw [runWith_resyncPy]
  have := foldl_handle h (run tryFrame (st.buf ++ data)).1 { st with buf := (run tryFrame (st.buf ++ data)).2 } []
  simp only [List.nil_append] at this
  exact ⟨this.1, this.2.2, this.2.1⟩

/-- the whole session: the log is determined by the frames the scanner accepts, chunk after chunk -/
theorem session_out (h : Frame → Bool) (chunks : List Bytes) (st : RxState) (log : List Out) (acc : List Frame) :
    let r := chunks.foldl (fun a c => let r := dataReceived h a.1 c; (r.1, a.2 ++ r.2)) (st, log)
    let g := chunks.foldl (feed tryFrame) (acc, st.buf)
    r.2 = log ++ (g.1.drop acc.length).flatMap (outsOf st.transport) ∧ r.1.buf = g.2 ∧
      r.1.transport = st.transport ∧ acc <+: g.1 := by
  induction chunks generalizing st log acc with
  | nil => simp
  | cons c cs ih =>
    obtain ⟨h1, h2, h3⟩ := dataReceived_out h st c
    have := ih (dataReceived h st c).1 (log ++ (dataReceived h st c).2) (acc ++ (run tryFrame (st.buf ++ c)).1)
    simp only [List.foldl_cons]
    simp only [h1, h2, h3] at this ⊢
    obtain ⟨a, b, c', d⟩ := this
    have hfeed : feed tryFrame (acc, st.buf) c = (acc ++ (run tryFrame (st.buf ++ c)).1, (run tryFrame (st.buf ++ c)).2) := rfl
    rw [hfeed]
    refine ⟨?_, b, c', ?_⟩
    · rw [a]
      obtain ⟨t, ht⟩ := d
      rw [← ht]
      simp [List.append_assoc]
    · exact List.IsPrefix.trans (List.prefix_append _ _) d

end Zboss.Rx
