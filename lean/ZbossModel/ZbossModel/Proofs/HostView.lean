import ZbossModel.Proofs.Host
/-! Task steps of the request machine seen through a small *view* of the state: per request its id, phase,
    fragment counter and fragment count, the output log and the transport flag.  `runReq` is decomposed into
    single micro-steps (`runReq_cases`, `runReq_ind`), each of which is one of four kinds of view change
    (`MicroStep`).  Used by the trace theorems of `Proofs/HostTrace.lean`. -/
namespace Zboss.Host

structure Core where
  id : Nat
  phase : Phase
  frag : Nat
  nfrags : Nat
  deriving DecidableEq, Repr

def core (r : Req) : Core := ⟨r.id, r.phase, r.frag, r.nfrags⟩

structure View where
  cores : List Core
  out : List Out
  transport : Bool

def view (st : St) : View := ⟨st.reqs.map core, st.out, st.transport⟩

def View.upd (v : View) (i : Nat) (g : Core → Core) : View :=
  { v with cores := v.cores.map fun c => if (c.id == i) = true then g c else c }

def View.emit (v : View) (o : Out) : View := { v with out := v.out ++ [o] }

theorem core_setHold (r : Req) (l : Lock) (b : Bool) : core (setHold r l b) = core r := by cases l <;> rfl

@[simp] theorem view_setQueue (st : St) (l : Lock) (q : List Nat) : view (setQueue st l q) = view st := by
  cases l <;> rfl

@[simp] theorem view_ready (st : St) (rd : List Nat) : view { st with ready := rd } = view st := rfl

theorem view_updReq (st : St) (i : Nat) (f : Req → Req) (g : Core → Core) (h : ∀ r, core (f r) = g (core r)) :
    view (updReq st i f) = (view st).upd i g := by
  simp only [view, updReq, View.upd, List.map_map]
  congr 1
  apply List.map_congr_left
  intro r _
  simp only [Function.comp]
  have : (core r).id = r.id := rfl
  rw [this]
  split
  · exact h r
  · rfl

theorem View.upd_id (v : View) (i : Nat) : v.upd i (fun c => c) = v := by
  simp only [View.upd]
  have : (v.cores.map fun c => if (c.id == i) = true then c else c) = v.cores := by
    conv => rhs; rw [← List.map_id v.cores]
    apply List.map_congr_left
    intro c _; split <;> rfl
  rw [this]

@[simp] theorem view_updReq_hold (st : St) (i : Nat) (l : Lock) (b : Bool) :
    view (updReq st i (setHold · l b)) = view st := by
  rw [view_updReq st i _ (fun c => c) (fun r => core_setHold r l b), View.upd_id]

@[simp] theorem view_emit (st : St) (o : Out) : view (emit st o) = (view st).emit o := rfl

@[simp] theorem view_acquire (st : St) (l : Lock) (i : Nat) : view (acquire st l i).1 = view st := by
  unfold acquire
  simp only []
  generalize (if (queue st l).contains i = true then queue st l else queue st l ++ [i]) = q'
  by_cases hc : q'.head? = some i
  · simp only [hc, if_true, view_updReq_hold, view_setQueue]
  · simp only [hc, if_false, view_setQueue]

@[simp] theorem view_release (st : St) (l : Lock) (i : Nat) : view (release st l i) = view st := by
  unfold release
  simp only []
  split
  · simp only [view_ready, view_updReq_hold, view_setQueue]
  · simp only [view_updReq_hold, view_setQueue]

@[simp] theorem view_unwindLock (st : St) (l : Lock) (i : Nat) : view (unwindLock st l i) = view st := by
  unfold unwindLock
  simp only []
  split
  · rfl
  · cases getReq st i with
    | none => rfl
    | some r =>
      simp only []
      split
      · exact view_release st l i
      · split
        · split
          · simp only [view_ready, view_setQueue]
          · simp only [view_setQueue]
        · simp only [view_setQueue]

def toDone (c : Core) : Core := { c with phase := .done }

theorem view_finish (st : St) (i : Nat) (o : Outcome) :
    view (finish st i o) = ((view st).upd i toDone).emit (.done i o) := by
  unfold finish
  simp only []
  have h := view_updReq st i (fun r => { r with phase := .done }) toDone (fun _ => rfl)
  simp only [view, emit, View.emit, View.upd] at h ⊢
  simp only [updReq] at h ⊢
  injection h with h1 h2 h3
  rw [h1]

theorem view_unwind (st : St) (i : Nat) (o : Outcome) :
    view (unwind st i o) = ((view st).upd i toDone).emit (.done i o) := by
  unfold unwind
  rw [view_finish, view_unwindLock, view_unwindLock, view_unwindLock]

/-! ## one micro-step at a time -/

/-- `runReq` with `fuel + 1` either stops after its first micro-step or continues from it -/
theorem runReq_cases (fuel : Nat) (st : St) (i : Nat) :
    runReq (fuel + 1) st i = runReq 1 st i ∨ runReq (fuel + 1) st i = runReq fuel (runReq 1 st i) i := by
  rw [runReq, runReq]
  cases getReq st i with
  | none => left; rfl
  | some r =>
    simp only []
    cases r.phase with
    | done => left; rfl
    | waitAck => left; rfl
    | waitB =>
      simp only []
      split
      · generalize acquire st .B i = a
        obtain ⟨st', ok⟩ := a
        simp only []
        split
        · right; simp only [runReq]
        · left; rfl
      · right; simp only [runReq]
    | waitM =>
      simp only []
      generalize acquire st .M i = a
      obtain ⟨st', ok⟩ := a
      simp only []
      split
      · right; simp only [runReq]
      · left; rfl
    | sendfrag =>
      simp only []
      split
      · left; rfl
      · right; simp only [runReq]
    | waitT =>
      simp only []
      generalize acquire st .T i = a
      obtain ⟨st', ok⟩ := a
      simp only []
      split
      · left; rfl
      · split
        · left; rfl
        · right; simp only [runReq]
    | acked =>
      simp only []
      split
      · right; simp only [runReq]
      · right; simp only [runReq]
    | waitRsp =>
      simp only []
      cases r.got <;> first | (left; rfl) | (left; trivial)

/-- induction principle: what every micro-step preserves, `runReq` preserves -/
theorem runReq_ind (P : St → Prop) (i : Nat) (h1 : ∀ st, P st → P (runReq 1 st i)) (fuel : Nat) (st : St) (h : P st) :
    P (runReq fuel st i) := by
  induction fuel generalizing st with
  | zero => exact h
  | succ fuel ih =>
    rcases runReq_cases fuel st i with hc | hc
    · rw [hc]; exact h1 st h
    · rw [hc]; exact ih _ (h1 st h)

theorem settle_ind (P : St → Prop) (hready : ∀ st rd, P st → P { st with ready := rd })
    (h1 : ∀ st i, P st → P (runReq 1 st i)) (fuel : Nat) (st : St) (h : P st) : P (settle fuel st) := by
  induction fuel generalizing st with
  | zero => exact h
  | succ fuel ih =>
    unfold settle
    cases hr : st.ready with
    | nil => exact h
    | cons i rest => exact ih _ (runReq_ind P i (fun s hs => h1 s i hs) 64 _ (hready st rest h))

/-- the legal silent moves of one request (whose core is `c0`) -/
def Allowed (transport : Bool) (c0 : Core) (g : Core → Core) : Prop :=
  (c0.phase = .waitB ∧ g = fun c => { c with phase := .waitM }) ∨
  (c0.phase = .waitM ∧ g = fun c => { c with phase := .sendfrag }) ∨
  (c0.phase = .sendfrag ∧ g = fun c => { c with phase := .waitT }) ∨
  (c0.phase = .waitT ∧ transport = false ∧ g = fun c => { c with phase := .acked }) ∨
  (c0.phase = .acked ∧ c0.frag + 1 < c0.nfrags ∧ g = fun c => { c with frag := c0.frag + 1, phase := .sendfrag }) ∨
  (c0.phase = .acked ∧ ¬ c0.frag + 1 < c0.nfrags ∧ g = fun c => { c with frag := c0.frag + 1, phase := .waitRsp })

/-- the four kinds of change one micro-step of request `i` (whose core is `c0`) makes to the view -/
inductive MicroStep (v : View) (i : Nat) (c0 : Core) : View → Prop
  | stay : MicroStep v i c0 v
  | move (g : Core → Core) (h : Allowed v.transport c0 g) : MicroStep v i c0 (v.upd i g)
  | write (s : Nat) (hp : c0.phase = .waitT) (ht : v.transport = true) :
      MicroStep v i c0 ((v.emit (.write i c0.frag s c0.nfrags)).upd i fun c => { c with phase := .waitAck })
  | fin (o : Outcome) : MicroStep v i c0 ((v.upd i toDone).emit (.done i o))

theorem micro_view (st : St) (i : Nat) (r : Req) (hg : getReq st i = some r) :
    MicroStep (view st) i (core r) (view (runReq 1 st i)) := by
  rw [runReq]
  simp only [hg, runReq]
  cases hp : r.phase with
  | done => exact .stay
  | waitAck => exact .stay
  | waitB =>
    simp only []
    split
    · have hv := view_acquire st .B i
      generalize acquire st .B i = a at hv
      obtain ⟨st', ok⟩ := a
      simp only [] at hv ⊢
      split
      · rw [view_updReq st' i _ (fun c => { c with phase := .waitM }) (fun x => rfl), hv]
        exact .move _ (Or.inl ⟨hp, rfl⟩)
      · rw [hv]; exact .stay
    · rw [view_updReq st i _ (fun c => { c with phase := .waitM }) (fun x => rfl)]
      exact .move _ (Or.inl ⟨hp, rfl⟩)
  | waitM =>
    simp only []
    have hv := view_acquire st .M i
    generalize acquire st .M i = a at hv
    obtain ⟨st', ok⟩ := a
    simp only [] at hv ⊢
    split
    · rw [view_updReq st' i _ (fun c => { c with phase := .sendfrag }) (fun x => rfl), hv]
      exact .move _ (Or.inr (Or.inl ⟨hp, rfl⟩))
    · rw [hv]; exact .stay
  | sendfrag =>
    simp only []
    split
    · rw [view_unwind]; exact .fin _
    · rw [view_updReq st i _ (fun c => { c with phase := .waitT }) (fun x => rfl)]
      exact .move _ (Or.inr (Or.inr (Or.inl ⟨hp, rfl⟩)))
  | waitT =>
    simp only []
    have hv := view_acquire st .T i
    have htr : (acquire st .T i).1.transport = st.transport := (frame_acquire st .T i).transport
    generalize acquire st .T i = a at hv htr
    obtain ⟨st', ok⟩ := a
    simp only [] at hv htr ⊢
    split
    · rw [hv]; exact .stay
    · split
      · rename_i ht
        rw [view_updReq _ i _ (fun c => { c with phase := .waitAck }) (fun x => rfl), view_emit, hv]
        exact .write _ hp (by show st.transport = true; rw [← htr]; exact ht)
      · rename_i ht
        rw [view_updReq st' i _ (fun c => { c with phase := .acked }) (fun x => rfl), hv]
        refine .move _ (Or.inr (Or.inr (Or.inr (Or.inl ⟨hp, ?_, rfl⟩))))
        have : st'.transport = false := by simpa using ht
        show st.transport = false
        rw [← htr]; exact this
  | acked =>
    simp only []
    split
    · rename_i hlt
      rw [view_updReq _ i _ (fun c => { c with frag := r.frag + 1, phase := .sendfrag }) (fun x => rfl), view_release]
      exact .move _ (Or.inr (Or.inr (Or.inr (Or.inr (Or.inl ⟨hp, hlt, rfl⟩)))))
    · rename_i hlt
      rw [view_updReq _ i _ (fun c => { c with frag := r.frag + 1, phase := .waitRsp }) (fun x => rfl), view_release,
        view_release]
      exact .move _ (Or.inr (Or.inr (Or.inr (Or.inr (Or.inr ⟨hp, hlt, rfl⟩)))))
  | waitRsp =>
    simp only []
    cases r.got with
    | nothing => exact .stay
    | cancelled => simp only []; rw [view_unwind]; exact .fin _
    | rsp =>
      simp only []
      split
      · rw [view_finish, view_release]; exact .fin _
      · rw [view_finish]; exact .fin _

end Zboss.Host
