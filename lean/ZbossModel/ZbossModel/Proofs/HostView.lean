import ZbossModel.Proofs.Host
/-! Task steps of the request machine seen through a small *view* of the state: per request its id, phase,
    fragment counter and fragment count, the output log and the transport flag.  `runReq` is decomposed into
    single micro-steps (`runReq_cases`, `runReq_ind`), each of which is one of four kinds of view change
    (`MicroStep`).  Used by the trace theorems of `Proofs/HostTrace.lean`. -/
namespace Zboss.Host

structure Core where
  id : Nat
  phase : Phase
  frag : Nat
  nfrags : Nat
  key : Nat
  got : Got
  deriving DecidableEq, Repr

def core (r : Req) : Core := ⟨r.id, r.phase, r.frag, r.nfrags, r.key, r.got⟩

structure View where
  cores : List Core
  out : List Out
  transport : Bool
  listeners : List (Nat × Nat)
  gen : Nat                      -- connections opened so far (0: the first connection)

def view (st : St) : View := ⟨st.reqs.map core, st.out, st.transport, st.listeners, st.gen⟩

def View.upd (v : View) (i : Nat) (g : Core → Core) : View :=
  { v with cores := v.cores.map fun c => if (c.id == i) = true then g c else c }

def View.emit (v : View) (o : Out) : View := { v with out := v.out ++ [o] }

/-- the done-callback of the response future removes the request's listener -/
def View.dropL (v : View) (i : Nat) : View := { v with listeners := v.listeners.filter (·.1 != i) }

theorem core_setHold (r : Req) (l : Lock) (b : Bool) : core (setHold r l b) = core r := by cases l <;> rfl

@[simp] theorem view_setQueue (st : St) (l : Lock) (q : List Nat) : view (setQueue st l q) = view st := by
  cases l <;> rfl

@[simp] theorem view_ready (st : St) (rd : List Nat) : view { st with ready := rd } = view st := rfl

theorem view_updReq (st : St) (i : Nat) (f : Req → Req) (g : Core → Core) (h : ∀ r, core (f r) = g (core r)) :
    view (updReq st i f) = (view st).upd i g := by
  simp only [view, updReq, View.upd, List.map_map]
  congr 1
  apply List.map_congr_left
  intro r _
  simp only [Function.comp]
  have : (core r).id = r.id := rfl
  rw [this]
  split
  · exact h r
  · rfl

theorem View.upd_id (v : View) (i : Nat) : v.upd i (fun c => c) = v := by
  simp only [View.upd]
  have : (v.cores.map fun c => if (c.id == i) = true then c else c) = v.cores := by
    conv => rhs; rw [← List.map_id v.cores]
    apply List.map_congr_left
    intro c _; split <;> rfl
  rw [this]

@[simp] theorem view_updReq_hold (st : St) (i : Nat) (l : Lock) (b : Bool) :
    view (updReq st i (setHold · l b)) = view st := by
  rw [view_updReq st i _ (fun c => c) (fun r => core_setHold r l b), View.upd_id]

@[simp] theorem view_emit (st : St) (o : Out) : view (emit st o) = (view st).emit o := rfl

@[simp] theorem view_acquire (st : St) (l : Lock) (i : Nat) : view (acquire st l i).1 = view st := by
  unfold acquire
  simp only []
  generalize (if (queue st l).contains i = true then queue st l else queue st l ++ [i]) = q'
  by_cases hc : q'.head? = some i
  · simp only [hc, if_true, view_updReq_hold, view_setQueue]
  · simp only [hc, if_false, view_setQueue]

@[simp] theorem view_release (st : St) (l : Lock) (i : Nat) : view (release st l i) = view st := by
  unfold release
  simp only []
  split
  · simp only [view_ready, view_updReq_hold, view_setQueue]
  · simp only [view_updReq_hold, view_setQueue]

@[simp] theorem view_unwindLock (st : St) (l : Lock) (i : Nat) : view (unwindLock st l i) = view st := by
  unfold unwindLock
  simp only []
  split
  · rfl
  · cases getReq st i with
    | none => rfl
    | some r =>
      simp only []
      split
      · exact view_release st l i
      · split
        · split
          · simp only [view_ready, view_setQueue]
          · simp only [view_setQueue]
        · simp only [view_setQueue]

def toDone (c : Core) : Core := { c with phase := .done }

theorem view_finish (st : St) (i : Nat) (o : Outcome) :
    view (finish st i o) = (((view st).upd i toDone).dropL i).emit (.done i o) := by
  unfold finish
  simp only []
  have h := view_updReq st i (fun r => { r with phase := .done }) toDone (fun _ => rfl)
  simp only [view, emit, View.emit, View.upd, View.dropL] at h ⊢
  simp only [updReq] at h ⊢
  injection h with h1 h2 h3 h4
  rw [h1]

theorem view_unwind (st : St) (i : Nat) (o : Outcome) :
    view (unwind st i o) = (((view st).upd i toDone).dropL i).emit (.done i o) := by
  unfold unwind
  rw [view_finish, view_unwindLock, view_unwindLock, view_unwindLock]

/-! ## one micro-step at a time -/

/-- `runReq` with `fuel + 1` either stops after its first micro-step or continues from it -/
theorem runReq_cases (fuel : Nat) (st : St) (i : Nat) :
    runReq (fuel + 1) st i = runReq 1 st i ∨ runReq (fuel + 1) st i = runReq fuel (runReq 1 st i) i := by
  rw [runReq, runReq]
  cases getReq st i with
  | none => left; rfl
  | some r =>
    simp only []
    cases r.phase with
    | done => left; rfl
    | waitAck => left; rfl
    | waitB =>
      simp only []
      split
      · generalize acquire st .B i = a
        obtain ⟨st', ok⟩ := a
        simp only []
        split
        · right; simp only [runReq]
        · left; rfl
      · right; simp only [runReq]
    | waitM =>
      simp only []
      generalize acquire st .M i = a
      obtain ⟨st', ok⟩ := a
      simp only []
      split
      · right; simp only [runReq]
      · left; rfl
    | sendfrag =>
      simp only []
      split
      · left; rfl
      · right; simp only [runReq]
    | waitT =>
      simp only []
      generalize acquire st .T i = a
      obtain ⟨st', ok⟩ := a
      simp only []
      split
      · left; rfl
      · split
        · left; rfl
        · right; simp only [runReq]
    | acked =>
      simp only []
      split
      · right; simp only [runReq]
      · right; simp only [runReq]
    | waitRsp =>
      simp only []
      cases r.got <;> first | (left; rfl) | (left; trivial)

/-- induction principle: what every micro-step preserves, `runReq` preserves -/
theorem runReq_ind (P : St → Prop) (i : Nat) (h1 : ∀ st, P st → P (runReq 1 st i)) (fuel : Nat) (st : St) (h : P st) :
    P (runReq fuel st i) := by
  induction fuel generalizing st with
  | zero => exact h
  | succ fuel ih =>
    rcases runReq_cases fuel st i with hc | hc
    · rw [hc]; exact h1 st h
    · rw [hc]; exact ih _ (h1 st h)

theorem settle_ind (P : St → Prop) (hready : ∀ st rd, P st → P { st with ready := rd })
    (h1 : ∀ st i, P st → P (runReq 1 st i)) (fuel : Nat) (st : St) (h : P st) : P (settle fuel st) := by
  induction fuel generalizing st with
  | zero => exact h
  | succ fuel ih =>
    unfold settle
    cases hr : st.ready with
    | nil => exact h
    | cons i rest => exact ih _ (runReq_ind P i (fun s hs => h1 s i hs) 64 _ (hready st rest h))

/-- the legal silent moves of one request (whose core is `c0`) -/
def Allowed (transport : Bool) (c0 : Core) (g : Core → Core) : Prop :=
  (c0.phase = .waitB ∧ g = fun c => { c with phase := .waitM }) ∨
  (c0.phase = .waitM ∧ g = fun c => { c with phase := .sendfrag }) ∨
  (c0.phase = .sendfrag ∧ g = fun c => { c with phase := .waitT }) ∨
  (c0.phase = .waitT ∧ transport = false ∧ g = fun c => { c with phase := .acked }) ∨
  (c0.phase = .acked ∧ c0.frag + 1 < c0.nfrags ∧ g = fun c => { c with frag := c0.frag + 1, phase := .sendfrag }) ∨
  (c0.phase = .acked ∧ ¬ c0.frag + 1 < c0.nfrags ∧ g = fun c => { c with frag := c0.frag + 1, phase := .waitRsp })

/-- the four kinds of change one micro-step of request `i` (whose core is `c0`) makes to the view -/
inductive MicroStep (v : View) (i : Nat) (c0 : Core) : View → Prop
  | stay : MicroStep v i c0 v
  | move (g : Core → Core) (h : Allowed v.transport c0 g) : MicroStep v i c0 (v.upd i g)
  | write (s : Nat) (hp : c0.phase = .waitT) (ht : v.transport = true) :
      MicroStep v i c0 ((v.emit (.write i c0.frag s c0.nfrags)).upd i fun c => { c with phase := .waitAck })
  | fin (o : Outcome) (hp : c0.phase = .sendfrag ∨ c0.phase = .waitRsp) :
      MicroStep v i c0 (((v.upd i toDone).dropL i).emit (.done i o))

theorem micro_view (st : St) (i : Nat) (r : Req) (hg : getReq st i = some r) :
    MicroStep (view st) i (core r) (view (runReq 1 st i)) := by
  rw [runReq]
  simp only [hg, runReq]
  cases hp : r.phase with
  | done => exact .stay
  | waitAck => exact .stay
  | waitB =>
    simp only []
    split
    · have hv := view_acquire st .B i
      generalize acquire st .B i = a at hv
      obtain ⟨st', ok⟩ := a
      simp only [] at hv ⊢
      split
      · rw [view_updReq st' i _ (fun c => { c with phase := .waitM }) (fun x => rfl), hv]
        exact .move _ (Or.inl ⟨hp, rfl⟩)
      · rw [hv]; exact .stay
    · rw [view_updReq st i _ (fun c => { c with phase := .waitM }) (fun x => rfl)]
      exact .move _ (Or.inl ⟨hp, rfl⟩)
  | waitM =>
    simp only []
    have hv := view_acquire st .M i
    generalize acquire st .M i = a at hv
    obtain ⟨st', ok⟩ := a
    simp only [] at hv ⊢
    split
    · rw [view_updReq st' i _ (fun c => { c with phase := .sendfrag }) (fun x => rfl), hv]
      exact .move _ (Or.inr (Or.inl ⟨hp, rfl⟩))
    · rw [hv]; exact .stay
  | sendfrag =>
    simp only []
    split
    · rw [view_unwind]; exact .fin _ (Or.inl hp)
    · rw [view_updReq st i _ (fun c => { c with phase := .waitT }) (fun x => rfl)]
      exact .move _ (Or.inr (Or.inr (Or.inl ⟨hp, rfl⟩)))
  | waitT =>
    simp only []
    have hv := view_acquire st .T i
    have htr : (acquire st .T i).1.transport = st.transport := (frame_acquire st .T i).transport
    generalize acquire st .T i = a at hv htr
    obtain ⟨st', ok⟩ := a
    simp only [] at hv htr ⊢
    split
    · rw [hv]; exact .stay
    · split
      · rename_i ht
        rw [view_updReq _ i _ (fun c => { c with phase := .waitAck }) (fun x => rfl), view_emit, hv]
        exact .write _ hp (by show st.transport = true; rw [← htr]; exact ht)
      · rename_i ht
        rw [view_updReq st' i _ (fun c => { c with phase := .acked }) (fun x => rfl), hv]
        refine .move _ (Or.inr (Or.inr (Or.inr (Or.inl ⟨hp, ?_, rfl⟩))))
        have : st'.transport = false := by simpa using ht
        show st.transport = false
        rw [← htr]; exact this
  | acked =>
    simp only []
    split
    · rename_i hlt
      rw [view_updReq _ i _ (fun c => { c with frag := r.frag + 1, phase := .sendfrag }) (fun x => rfl), view_release]
      exact .move _ (Or.inr (Or.inr (Or.inr (Or.inr (Or.inl ⟨hp, hlt, rfl⟩)))))
    · rename_i hlt
      rw [view_updReq _ i _ (fun c => { c with frag := r.frag + 1, phase := .waitRsp }) (fun x => rfl), view_release,
        view_release]
      exact .move _ (Or.inr (Or.inr (Or.inr (Or.inr (Or.inr ⟨hp, hlt, rfl⟩)))))
  | waitRsp =>
    simp only []
    cases r.got with
    | nothing => exact .stay
    | cancelled => simp only []; rw [view_unwind]; exact .fin _ (Or.inr hp)
    | rsp =>
      simp only []
      split
      · rw [view_finish, view_release]; exact .fin _ (Or.inr hp)
      · rw [view_finish]; exact .fin _ (Or.inr hp)

/-! ## an event = its immediate effect, then the run of the ready tasks -/

/-- the immediate effect of an event, before any task runs; the flag says whether tasks are run afterwards -/
def pre (st0 : St) (e : Ev) : St × Bool :=
  let st := { st0 with out := [] }
  match e with
  | .start id key blocking nfrags timeout =>
    if st.reqs.any (·.id == id) then (st, false) else
    if !st.isOpen then (emit st (.done id .runtimeError), false) else
    ({ st with reqs := st.reqs ++ [{ id, key, blocking, nfrags, timeout }],
               listeners := st.listeners ++ [(id, key)], ready := st.ready ++ [id] }, true)
  | .rxAck k =>
    if k = st.pack then
      let woken := (st.reqs.filter fun r => r.phase == .waitAck && r.gen == st.gen).map (·.id)
      ({ st with pack := st.pack % 3 + 1,
                 reqs := st.reqs.map fun r => if r.phase == .waitAck && r.gen == st.gen then { r with phase := .acked } else r,
                 ready := st.ready ++ woken }, true)
    else (st, true)
  | .rxRsp key =>
    let st := if st.transport then emit st .wack else st
    match st.listeners.find? (fun l => l.2 == key) with
    | none => (st, true)
    | some (i, _) =>
      let waiting := (getReq st i).map (·.phase == .waitRsp) |>.getD false
      let st := updReq { st with listeners := st.listeners.filter (·.1 != i) } i fun r => { r with got := .rsp }
      ((if waiting then { st with ready := st.ready ++ [i] } else st), true)
  | .tick =>
    match nextDeadline st with
    | none => (st, false)
    | some d =>
      let st := { st with now := max st.now d }
      let expiredAck := (st.reqs.filter fun (r : Req) => r.phase == Phase.waitAck && r.deadline ≤ st.now).map (·.id)
      let st := { st with reqs := st.reqs.map fun (r : Req) =>
                            if r.phase == Phase.waitAck && r.deadline ≤ st.now then { r with phase := Phase.acked } else r,
                          ready := st.ready ++ expiredAck }
      let expiredRsp := (st.reqs.filter fun (r : Req) => r.phase == Phase.waitRsp && r.deadline ≤ st.now && r.got == Got.nothing).map (·.id)
      (expiredRsp.foldl (fun s i => unwind s i .timeoutError) st, true)
  | .cancel id =>
    match getReq st id with
    | none => (st, false)
    | some r => if r.phase == .done then (st, false) else (unwind st id .cancelled, true)
  | .close =>
    if st.resetting then
      ((if st.isOpen then { (emit st .closeOut) with transport := false, pack := 0, isOpen := false } else st), true)
    else
      let waiting := (st.listeners.filter fun l => ((getReq st l.1).map (·.phase == .waitRsp)).getD false).map (·.1)
      let ids := st.listeners.map (·.1)
      let st := { st with reqs := st.reqs.map fun r => if ids.contains r.id then { r with got := .cancelled } else r,
                          listeners := [], ready := st.ready ++ waiting }
      ((if st.isOpen then { (emit st .closeOut) with transport := false, pack := 0, isOpen := false } else st), true)
  | .lost =>
    let st := { st with isOpen := false }
    ((if st.resetting then st else emit st .appLost), true)
  | .setReset b => ({ st with resetting := b }, false)
  | .connect =>
    ((if st.isOpen then st else { st with isOpen := true, transport := true, pack := 0, gen := st.gen + 1 }), false)

theorem step_eq_pre (st : St) (e : Ev) :
    step st e = cond (pre st e).2 (settleAll (pre st e).1) (pre st e).1 := by
  cases e with
  | start id key blocking nfrags timeout =>
    simp only [step, pre]
    split
    · rfl
    · split <;> rfl
  | rxAck k => simp only [step, pre]; split <;> rfl
  | rxRsp key =>
    simp only [step, pre]
    generalize (if ({ st with out := [] } : St).transport = true then emit ({ st with out := [] } : St) Out.wack
      else ({ st with out := [] } : St)) = st1
    cases st1.listeners.find? (fun l => l.2 == key) with
    | none => rfl
    | some p => obtain ⟨i, k⟩ := p; rfl
  | tick =>
    simp only [step, pre]
    split
    · rename_i h; rw [h]; rfl
    · rename_i d h; rw [h]; rfl
  | cancel id =>
    simp only [step, pre]
    split
    · rename_i h; rw [h]; rfl
    · rename_i r h; rw [h]; simp only []; split <;> rfl
  | close => simp only [step, pre]; split <;> rfl
  | lost => simp only [step, pre]; rfl
  | setReset b => rfl
  | connect => simp only [step, pre]; split <;> rfl

end Zboss.Host
