import ZbossModel.Scanner
/-! Chunk independence of the generic resynchronising scanner (helper lemmas for C01/C02/C06). -/
namespace Zboss.Rx

theorem skip_length_le (l : Bytes) : (skip l).length ≤ l.length := by
  induction l with
  | nil => simp [skip]
  | cons x t ih => simp only [skip]; split <;> simp <;> omega

theorem canon_skip (l : Bytes) : canon (skip l) = true := by
  induction l with
  | nil => simp [skip, canon]
  | cons x t ih => simp only [skip]; split <;> simp_all

theorem skip_of_canon {l : Bytes} (h : canon l = true) : skip l = l := by
  cases l with
  | nil => rfl
  | cons x t => simp [skip, h]

theorem skip_skip (l : Bytes) : skip (skip l) = skip l := skip_of_canon (canon_skip l)

theorem canon_append_of_not {x : UInt8} {t : Bytes} (b : Bytes) (h : canon (x :: t) = false) :
    canon (x :: t ++ b) = false := by
  cases t with
  | nil =>
    simp [canon] at h
    cases b with
    | nil => simp [canon, h]
    | cons y b' => simp [canon, h]
  | cons y t' => simpa [canon] using h

/-- key algebraic fact: skipping commutes with extension once the head was normalised -/
theorem skip_append (a b : Bytes) : skip (a ++ b) = skip (skip a ++ b) := by
  induction a with
  | nil => simp [skip]
  | cons x t ih =>
    by_cases hc : canon (x :: t) = true
    · simp [skip, hc]
    · have hc' : canon (x :: t) = false := by simpa using hc
      have hs : skip (x :: t) = skip t := by simp [skip, hc']
      have h2 : skip (x :: t ++ b) = skip (t ++ b) := by
        have := canon_append_of_not b hc'
        simp only [List.cons_append] at this ⊢
        simp [skip, this]
      rw [hs, ← ih, h2]

theorem resync_length_lt (buf : Bytes) (h : 0 < buf.length) : (resync buf).length < buf.length := by
  unfold resync
  have := skip_length_le buf.tail
  simp at this; omega

variable {α : Type} (S : Scanner α)

theorem invalid_len {a : Bytes} (h : S.tryFrame a = .invalid) : 7 ≤ a.length := by
  rcases Nat.lt_or_ge a.length 7 with hl | hl
  · rw [S.short_of_lt _ hl] at h; cases h
  · exact hl

/-- enough fuel: the result does not depend on it (termination of `_extract_frames`) -/
theorem extract_fuel (f1 f2 : Nat) (buf : Bytes) (h1 : buf.length < f1) (h2 : buf.length < f2) :
    extract S.tryFrame f1 buf = extract S.tryFrame f2 buf := by
  induction f1 generalizing f2 buf with
  | zero => omega
  | succ f1 ih =>
    cases f2 with
    | zero => omega
    | succ f2 =>
      simp only [extract, extractWith]
      cases hT : S.tryFrame buf with
      | short => rfl
      | raised => rfl
      | invalid =>
        have hl := invalid_len S hT
        have := resync_length_lt buf (by omega)
        exact ih _ _ (by omega) (by omega)
      | ok f n =>
        have := S.ok_le _ _ _ hT
        have hd : (buf.drop n).length < buf.length := by simp; omega
        simp only []
        rw [show extractWith resync S.tryFrame f1 (buf.drop n) = extractWith resync S.tryFrame f2 (buf.drop n) from
          ih f2 (buf.drop n) (by omega) (by omega)]

theorem run_eq (buf : Bytes) :
    run S.tryFrame buf = match S.tryFrame buf with
      | .short => ([], buf)
      | .raised => ([], buf)
      | .invalid => run S.tryFrame (resync buf)
      | .ok f n => (f :: (run S.tryFrame (buf.drop n)).1, (run S.tryFrame (buf.drop n)).2) := by
  have hrun : ∀ b, run S.tryFrame b = extract S.tryFrame (b.length + 1) b := fun _ => rfl
  rw [hrun buf]
  simp only [extract, extractWith]
  cases hT : S.tryFrame buf with
  | short => rfl
  | raised => rfl
  | invalid =>
    have hl := invalid_len S hT
    have := resync_length_lt buf (by omega)
    simp only [hrun]
    exact extract_fuel S _ _ _ (by omega) (by omega)
  | ok f n =>
    have := S.ok_le _ _ _ hT
    have hd : (buf.drop n).length < buf.length := by simp; omega
    simp only [hrun]
    have := extract_fuel S buf.length ((buf.drop n).length + 1) (buf.drop n) (by omega) (by omega)
    simp only [extract] at this
    rw [this]

/-- same deliveries, remainders equal up to pending garbage -/
def Rel (x y : List α × Bytes) : Prop := x.1 = y.1 ∧ skip x.2 = skip y.2

theorem Rel.refl (x : List α × Bytes) : Rel x x := ⟨rfl, rfl⟩
theorem Rel.symm {x y : List α × Bytes} (h : Rel x y) : Rel y x := ⟨h.1.symm, h.2.symm⟩
theorem Rel.trans {x y z : List α × Bytes} (h1 : Rel x y) (h2 : Rel y z) : Rel x z :=
  ⟨h1.1.trans h2.1, h1.2.trans h2.2⟩

theorem startsSig_eq_false_of_not_canon {l : Bytes} (h : canon l = false) : startsSig l = false := by
  match l with
  | [] => rfl
  | [x] => rfl
  | x :: y :: t => simpa [canon, startsSig] using h

/-- Lemma L: running on a buffer or on its normal form is the same -/
theorem run_skip (l : Bytes) : Rel (run S.tryFrame l) (run S.tryFrame (skip l)) := by
  induction l with
  | nil => exact Rel.refl _
  | cons x t ih =>
    by_cases hc : canon (x :: t) = true
    · rw [skip_of_canon hc]; exact Rel.refl _
    · have hc' : canon (x :: t) = false := by simpa using hc
      have hs : skip (x :: t) = skip t := by simp [skip, hc']
      rw [hs]
      rcases Nat.lt_or_ge (x :: t).length 7 with hlen | hlen
      · have h1 : run S.tryFrame (x :: t) = ([], x :: t) := by rw [run_eq, S.short_of_lt _ hlen]
        have hlen2 : (skip t).length < 7 := by
          have := skip_length_le t; simp at hlen; omega
        have h2 : run S.tryFrame (skip t) = ([], skip t) := by rw [run_eq, S.short_of_lt _ hlen2]
        rw [h1, h2]
        exact ⟨rfl, by simp [hs, skip_skip]⟩
      · have hinv := S.invalid_of_nosig _ hlen (startsSig_eq_false_of_not_canon hc')
        have h1 : run S.tryFrame (x :: t) = run S.tryFrame (skip t) := by rw [run_eq, hinv]; rfl
        rw [h1]; exact Rel.refl _

theorem run_congr (r r' c : Bytes) (h : skip r = skip r') :
    Rel (run S.tryFrame (r ++ c)) (run S.tryFrame (r' ++ c)) := by
  have e1 := run_skip S (r ++ c)
  have e2 := run_skip S (r' ++ c)
  rw [skip_append, h, ← skip_append] at e1
  exact Rel.trans e1 (Rel.symm e2)

theorem run_append (a b : Bytes) :
    Rel (run S.tryFrame (a ++ b))
      ((run S.tryFrame a).1 ++ (run S.tryFrame ((run S.tryFrame a).2 ++ b)).1,
        (run S.tryFrame ((run S.tryFrame a).2 ++ b)).2) := by
  induction hn : a.length using Nat.strongRecOn generalizing a with
  | _ n ih =>
    cases hT : S.tryFrame a with
    | short =>
      have h1 : run S.tryFrame a = ([], a) := by rw [run_eq, hT]
      rw [h1]; exact ⟨by simp, rfl⟩
    | raised => exact absurd hT (S.never_raises a)
    | invalid =>
      have hl := invalid_len S hT
      have h1 : run S.tryFrame a = run S.tryFrame (resync a) := by rw [run_eq, hT]
      have h2 : run S.tryFrame (a ++ b) = run S.tryFrame (resync (a ++ b)) := by
        rw [run_eq, S.invalid_ext a b hT]
      have hlt : (resync a).length < n := by
        have := resync_length_lt a (by omega); omega
      have hres : resync (a ++ b) = skip (a.tail ++ b) := by
        unfold resync
        cases a with
        | nil => simp at hl
        | cons x t => rfl
      rw [h1, h2, hres]
      have key : Rel (run S.tryFrame (skip (a.tail ++ b))) (run S.tryFrame (resync a ++ b)) := by
        have e := run_skip S (resync a ++ b)
        unfold resync at e ⊢
        rw [← skip_append] at e
        exact Rel.symm e
      exact Rel.trans key (ih _ hlt (resync a) rfl)
    | ok f k =>
      have hk := S.ok_le _ _ _ hT
      have h1 : run S.tryFrame a = (f :: (run S.tryFrame (a.drop k)).1, (run S.tryFrame (a.drop k)).2) := by
        rw [run_eq, hT]
      have h2 : run S.tryFrame (a ++ b) =
          (f :: (run S.tryFrame ((a ++ b).drop k)).1, (run S.tryFrame ((a ++ b).drop k)).2) := by
        rw [run_eq, S.ok_ext a b f k hT]
      have hdrop : (a ++ b).drop k = a.drop k ++ b := by
        rw [List.drop_append_of_le_length hk.2]
      have hlt : (a.drop k).length < n := by simp; omega
      have := ih _ hlt (a.drop k) rfl
      rw [h1, h2, hdrop]
      exact ⟨by simp [this.1], this.2⟩

theorem feed_rel (st : List α × Bytes) (pre c : Bytes) (h : Rel st (run S.tryFrame pre)) :
    Rel (feed S.tryFrame st c) (run S.tryFrame (pre ++ c)) := by
  have e1 := run_append S pre c
  have e2 := run_congr S st.2 (run S.tryFrame pre).2 c h.2
  refine Rel.trans ?_ (Rel.symm e1)
  exact ⟨by simp [feed, h.1, e2.1], e2.2⟩

/-- after every chunk the cumulative deliveries are those of the offline parse of the prefix fed so far -/
theorem chunking_prefix (chunks : List Bytes) (st : List α × Bytes) (pre : Bytes)
    (h : Rel st (run S.tryFrame pre)) :
    Rel (chunks.foldl (feed S.tryFrame) st) (run S.tryFrame (pre ++ chunks.flatten)) := by
  induction chunks generalizing st pre with
  | nil => simpa using h
  | cons c cs ih =>
    have := ih (feed S.tryFrame st c) (pre ++ c) (feed_rel S st pre c h)
    simpa [List.append_assoc] using this

theorem rel_init : Rel (([], []) : List α × Bytes) (run S.tryFrame []) := by
  rw [run_eq, S.short_of_lt [] (by simp)]; exact Rel.refl _

/-- chunk independence: any way of cutting a stream delivers what the whole stream delivers -/
theorem chunking (chunks : List Bytes) :
    Rel (chunks.foldl (feed S.tryFrame) ([], [])) (run S.tryFrame chunks.flatten) := by
  simpa using chunking_prefix S chunks ([], []) [] (rel_init S)

end Zboss.Rx
