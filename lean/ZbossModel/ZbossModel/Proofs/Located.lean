import ZbossModel.Proofs.Scanner
/-! Soundness and completeness of the resynchronising scanner with respect to stream positions
    (helper lemmas for the declarative part of C01). -/
namespace Zboss.Rx

theorem skip_suffix (l : Bytes) : skip l = l.drop (l.length - (skip l).length) := by
  induction l with
  | nil => simp [skip]
  | cons x t ih =>
    simp only [skip]
    split
    · simp
    · have hle := skip_length_le t
      have : (x :: t).length - (skip t).length = (t.length - (skip t).length) + 1 := by simp; omega
      rw [this, List.drop_succ_cons, ← ih]

/-- `skip` stops at the first canonical suffix -/
theorem skip_minimal (l : Bytes) (m : Nat) (hm : m ≤ l.length) (hc : canon (l.drop m) = true) :
    l.length - (skip l).length ≤ m := by
  induction l generalizing m with
  | nil => simp [skip]
  | cons x t ih =>
    simp only [skip]
    split
    · simp
    · rename_i hnc
      cases m with
      | zero => simp at hc; exact absurd hc hnc
      | succ k =>
        have := ih k (by simpa using hm) (by simpa using hc)
        have hle := skip_length_le t
        simp; omega

theorem resync_suffix (b : Bytes) (hb : 0 < b.length) :
    resync b = b.drop (b.length - (resync b).length) ∧ 0 < b.length - (resync b).length := by
  have hlt := resync_length_lt b hb
  refine ⟨?_, by omega⟩
  unfold resync at *
  cases b with
  | nil => simp at hb
  | cons x t =>
    simp only [List.tail_cons] at *
    have hle := skip_length_le t
    have : (x :: t).length - (skip t).length = (t.length - (skip t).length) + 1 := by
      simp only [List.length_cons]; omega
    rw [this, List.drop_succ_cons, ← skip_suffix]

variable {α : Type} (S : Scanner α)

/-- the frames of the positioned scan are the frames of the plain scan -/
theorem extractAt_frames (fuel off : Nat) (buf : Bytes) :
    (extractAt S.tryFrame fuel off buf).map (·.2.1) = (extract S.tryFrame fuel buf).1 := by
  induction fuel generalizing off buf with
  | zero => rfl
  | succ fuel ih =>
    simp only [extractAt, extract, extractWith]
    cases S.tryFrame buf with
    | short => rfl
    | raised => rfl
    | invalid => exact ih _ _
    | ok f n => simp only [List.map_cons]; rw [ih]

theorem located_frames (s : Bytes) : (located S.tryFrame s).map (·.2.1) = (run S.tryFrame s).1 :=
  extractAt_frames S _ 0 s

/-- **soundness with positions**: every entry of the positioned scan of `s.drop off₀` started at `off₀` is a
    frame the parser accepts at that position of the stream, positions do not go backwards and frames do not
    overlap -/
theorem extractAt_sound (s : Bytes) (fuel off : Nat) (hoff : off ≤ s.length) :
    ∀ e ∈ extractAt S.tryFrame fuel off (s.drop off),
      off ≤ e.1 ∧ e.1 + e.2.2 ≤ s.length ∧ S.tryFrame (s.drop e.1) = .ok e.2.1 e.2.2 := by
  induction fuel generalizing off with
  | zero => intro e he; simp [extractAt] at he
  | succ fuel ih =>
    intro e he
    simp only [extractAt] at he
    cases hT : S.tryFrame (s.drop off) with
    | short => rw [hT] at he; simp at he
    | raised => rw [hT] at he; simp at he
    | invalid =>
      rw [hT] at he
      simp only [] at he
      have hl := invalid_len S hT
      obtain ⟨hsuf, hpos⟩ := resync_suffix (s.drop off) (by omega)
      have hlen : (s.drop off).length = s.length - off := by simp
      have hlr := resync_length_lt (s.drop off) (by omega)
      generalize hk : (s.drop off).length - (resync (s.drop off)).length = k at *
      have hk' : k ≤ s.length - off := by omega
      have hd : resync (s.drop off) = s.drop (off + k) := by rw [hsuf, List.drop_drop]
      rw [hd] at he
      have := ih (off + k) (by omega) e he
      exact ⟨by omega, this.2.1, this.2.2⟩
    | ok f n =>
      rw [hT] at he
      simp only [List.mem_cons] at he
      have hn := S.ok_le _ _ _ hT
      have hlen : (s.drop off).length = s.length - off := by simp
      rcases he with he | he
      · subst he; exact ⟨Nat.le_refl _, by simp only []; omega, hT⟩
      · have hd : (s.drop off).drop n = s.drop (off + n) := by rw [List.drop_drop]
        rw [hd] at he
        have := ih (off + n) (by omega) e he
        exact ⟨by omega, this.2.1, this.2.2⟩

/-- consecutive entries: the next frame starts at or after the end of the previous one -/
def Ordered : Nat → List (Nat × α × Nat) → Prop
  | _, [] => True
  | lo, e :: rest => lo ≤ e.1 ∧ Ordered (e.1 + e.2.2) rest

theorem extractAt_ordered (s : Bytes) (fuel off : Nat) (hoff : off ≤ s.length) :
    Ordered off (extractAt S.tryFrame fuel off (s.drop off)) := by
  induction fuel generalizing off with
  | zero => simp [extractAt, Ordered]
  | succ fuel ih =>
    simp only [extractAt]
    cases hT : S.tryFrame (s.drop off) with
    | short => simp [Ordered]
    | raised => simp [Ordered]
    | invalid =>
      simp only []
      have hl := invalid_len S hT
      obtain ⟨hsuf, hpos⟩ := resync_suffix (s.drop off) (by omega)
      have hlen : (s.drop off).length = s.length - off := by simp
      have hlr := resync_length_lt (s.drop off) (by omega)
      generalize hk : (s.drop off).length - (resync (s.drop off)).length = k at *
      have hd : resync (s.drop off) = s.drop (off + k) := by rw [hsuf, List.drop_drop]
      rw [hd]
      have := ih (off + k) (by omega)
      -- weaken the lower bound
      have weaken : ∀ (l : List (Nat × α × Nat)) (a b : Nat), a ≤ b → Ordered b l → Ordered a l := by
        intro l a b hab h
        cases l with
        | nil => trivial
        | cons e r => exact ⟨by have := h.1; omega, h.2⟩
      exact weaken _ off (off + k) (by omega) this
    | ok f n =>
      simp only []
      have hn := S.ok_le _ _ _ hT
      have hlen : (s.drop off).length = s.length - off := by simp
      have hd : (s.drop off).drop n = s.drop (off + n) := by rw [List.drop_drop]
      rw [hd]
      exact ⟨Nat.le_refl _, ih (off + n) (by omega)⟩

end Zboss.Rx

namespace Zboss.Rx

/-- declared extent of a header that passes the header checks, as a function of the buffer's first bytes -/
structure Extent {α : Type} (S : Scanner α) where
  ext : Bytes → Option Nat
  short_ext : ∀ b, S.tryFrame b = .short → 7 ≤ b.length → ∃ e, ext b = some e ∧ b.length < e
  ok_ext : ∀ b f n, S.tryFrame b = .ok f n → ∃ e, ext b = some e ∧ n ≤ e
  prefix_ext : ∀ a c, 7 ≤ a.length → ext (a ++ c) = ext a

variable {α : Type} (S : Scanner α) (E : Extent S)

theorem startsSig_of_ok (b : Bytes) (f : α) (n : Nat) (h : S.tryFrame b = .ok f n) : startsSig b = true := by
  have hl := S.ok_le _ _ _ h
  cases hs : startsSig b with
  | true => rfl
  | false =>
    have := S.invalid_of_nosig b (by omega) hs
    rw [this] at h; cases h

theorem canon_of_startsSig (b : Bytes) (h : startsSig b = true) : canon b = true := by
  match b, h with
  | x :: y :: t, h => simpa [canon, startsSig] using h

/-- **completeness with positions**: a frame the parser accepts at position `i` is found by the scan, provided
    no earlier position carries a valid header whose declared extent reaches over `i` -/
theorem extractAt_complete (s : Bytes) (i n : Nat) (f : α) (hok : S.tryFrame (s.drop i) = .ok f n)
    (hfree : ∀ j, j < i → ∀ e, E.ext (s.drop j) = some e → j + e ≤ i) :
    ∀ fuel off, off ≤ i → s.length - off < fuel → (i, f, n) ∈ extractAt S.tryFrame fuel off (s.drop off) := by
  have hn := S.ok_le _ _ _ hok
  have hlen_i : (s.drop i).length = s.length - i := by simp
  have hi : i + n ≤ s.length := by omega
  intro fuel
  induction fuel with
  | zero => intro off _ h; omega
  | succ fuel ih =>
    intro off hoff hfuel
    have hlen : (s.drop off).length = s.length - off := by simp
    simp only [extractAt]
    rcases Nat.lt_or_ge off i with hlt | hge
    · -- strictly before the frame
      cases hT : S.tryFrame (s.drop off) with
      | short =>
        exfalso
        obtain ⟨e, he, hshort⟩ := E.short_ext _ hT (by omega)
        have := hfree off hlt e he
        omega
      | raised => exact absurd hT (S.never_raises _)
      | invalid =>
        simp only []
        have hl := invalid_len S hT
        obtain ⟨hsuf, hpos⟩ := resync_suffix (s.drop off) (by omega)
        have hlr := resync_length_lt (s.drop off) (by omega)
        -- the resynchronisation cannot jump over position `i`: the buffer is canonical there
        have hmin : (s.drop off).length - (resync (s.drop off)).length ≤ i - off := by
          have hc : canon (((s.drop off).tail).drop (i - off - 1)) = true := by
            have : ((s.drop off).tail).drop (i - off - 1) = s.drop i := by
              rw [List.tail_drop, List.drop_drop]; congr 1; omega
            rw [this]
            exact canon_of_startsSig _ (startsSig_of_ok S _ _ _ hok)
          have htl : ((s.drop off).tail).length = s.length - off - 1 := by simp; omega
          have := skip_minimal (s.drop off).tail (i - off - 1) (by omega) hc
          unfold resync
          omega
        generalize hk : (s.drop off).length - (resync (s.drop off)).length = k at *
        have hd : resync (s.drop off) = s.drop (off + k) := by rw [hsuf, List.drop_drop]
        rw [hd]
        exact ih (off + k) (by omega) (by omega)
      | ok f' n' =>
        simp only [List.mem_cons]
        right
        have hn' := S.ok_le _ _ _ hT
        obtain ⟨e, he, hne⟩ := E.ok_ext _ _ _ hT
        have := hfree off hlt e he
        have hd : (s.drop off).drop n' = s.drop (off + n') := by rw [List.drop_drop]
        rw [hd]
        exact ih (off + n') (by omega) (by omega)
    · have : off = i := by omega
      subst this
      rw [hok]
      simp

theorem located_complete (s : Bytes) (i n : Nat) (f : α) (hok : S.tryFrame (s.drop i) = .ok f n)
    (hfree : ∀ j, j < i → ∀ e, E.ext (s.drop j) = some e → j + e ≤ i) : (i, f, n) ∈ located S.tryFrame s := by
  have := extractAt_complete S E s i n f hok hfree (s.length + 1) 0 (by omega) (by omega)
  simpa [located] using this

end Zboss.Rx
