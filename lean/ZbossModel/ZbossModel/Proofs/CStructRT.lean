import ZbossModel.CStruct
import ZbossModel.Proofs.Wire
/-! Round trip of the C-struct codec (types/cstruct.py), aligned or packed, nested to any depth. -/
namespace Zboss.CStruct
open Wire

mutual
theorem encC_roundtrip (al : Bool) (t : CTy) (v : CVal) (b r : Bytes) (h : encC al t v = some b) :
    b.length = t.size al ∧ decC al t (b ++ r) = .ok (v, r) := by
  cases t with
  | int k sg =>
    cases v with
    | num n =>
      simp only [encC] at h
      refine ⟨by have := encS_length _ _ b h; cases sg <;> simpa [CTy.size, ST.size] using this, ?_⟩
      simp only [decC, decS_encS _ _ b r h]
    | raw x => simp [encC] at h
    | struct vs => simp [encC] at h
  | blob m =>
    cases v with
    | raw x =>
      simp only [encC] at h
      refine ⟨by simpa [CTy.size, ST.size] using encS_length _ _ b h, ?_⟩
      simp only [decC, decS_encS _ _ b r h]
    | num n => simp [encC] at h
    | struct vs => simp [encC] at h
  | struct fs =>
    cases v with
    | struct vs =>
      simp only [encC] at h
      cases hf : encFields al fs vs 0 with
      | none => simp [hf] at h
      | some fb =>
        simp only [hf, Option.some.injEq] at h
        subst h
        obtain ⟨hl, hd⟩ := encFields_roundtrip al fs vs 0 fb (List.replicate (pad fb.length (alignList al fs)) 0xFF ++ r) hf
        have hl' : fb.length = layoutEnd al fs 0 := by omega
        refine ⟨by simp [CTy.size, hl'], ?_⟩
        have hexp : (CTy.struct fs).size al = fb.length + pad fb.length (alignList al fs) := by simp [CTy.size, hl']
        simp only [decC, hexp, List.append_assoc]
        have hlen : ¬ (fb ++ (List.replicate (pad fb.length (alignList al fs)) 0xFF ++ r)).length <
            fb.length + pad fb.length (alignList al fs) := by simp
        simp only [hlen, if_false, hd, Nat.zero_add]
        have : fb.length + pad fb.length (alignList al fs) - fb.length = pad fb.length (alignList al fs) := by omega
        rw [this, List.drop_left' (by simp)]
    | num n => simp [encC] at h
    | raw x => simp [encC] at h
termination_by sizeOf t

theorem encFields_roundtrip (al : Bool) (fs : List CTy) (vs : List CVal) (off : Nat) (b r : Bytes)
    (h : encFields al fs vs off = some b) :
    off + b.length = layoutEnd al fs off ∧ decFields al fs (b ++ r) off = .ok (vs, r, off + b.length) := by
  cases fs with
  | nil =>
    cases vs with
    | nil =>
      simp only [encFields, Option.some.injEq] at h
      subst h
      simp [layoutEnd, decFields]
    | cons _ _ => simp [encFields] at h
  | cons f fs =>
    cases vs with
    | nil => simp [encFields] at h
    | cons v vs =>
      simp only [encFields] at h
      cases hc : encC al f v with
      | none => simp [hc] at h
      | some fb =>
        simp only [hc] at h
        cases hr : encFields al fs vs (off + pad off (f.align al) + fb.length) with
        | none => simp [hr] at h
        | some rest =>
          simp only [hr, Option.some.injEq] at h
          subst h
          obtain ⟨c1, c2⟩ := encC_roundtrip al f v fb (rest ++ r) hc
          obtain ⟨d1, d2⟩ := encFields_roundtrip al fs vs (off + pad off (f.align al) + fb.length) rest r hr
          refine ⟨?_, ?_⟩
          · simp only [layoutEnd, List.length_append, List.length_replicate]
            rw [← c1, ← d1]; omega
          · simp only [decFields, List.append_assoc]
            rw [List.drop_left' (by simp), c2]
            simp only []
            have hu : (fb ++ (rest ++ r)).length - (rest ++ r).length = fb.length := by simp
            rw [hu, d2]
            simp only [List.length_append, List.length_replicate]
            congr 3
            omega
termination_by sizeOf fs
end

end Zboss.CStruct
