import ZbossModel.Proofs.Wire
/-! The decoders never invent bytes: whenever a decoded value is one the encoder accepts, re-encoding it gives
    back exactly the bytes that were consumed (used by C15: "never mis-parsed"). -/
namespace Zboss.Wire

theorem toLE_fromLE_take (data : Bytes) (k : Nat) (h : k ≤ data.length) : toLE k (fromLE (data.take k)) = data.take k := by
  have hl : (data.take k).length = k := by simp; omega
  have := toLE_fromLE (data.take k)
  rw [hl] at this; exact this

theorem decS_sound (t : ST) (data : Bytes) (v : SV) (rest b : Bytes) (h : decS t data = .ok (v, rest))
    (he : encS t v = some b) : data = b ++ rest := by
  unfold decS at h
  split at h
  · cases h
  · rename_i hlen
    cases t with
    | uint k =>
      simp only [ST.size] at hlen
      simp only [Except.ok.injEq, Prod.mk.injEq] at h
      obtain ⟨hv, hr⟩ := h
      subst hv hr
      simp only [encS] at he
      split at he
      · injection he with he
        subst he
        have e : (Int.ofNat (fromLE (data.take k))).toNat = fromLE (data.take k) := rfl
        rw [e, toLE_fromLE_take data k (by omega), List.take_append_drop]
      · cases he
    | sint k =>
      simp only [ST.size] at hlen
      simp only [Except.ok.injEq, Prod.mk.injEq] at h
      obtain ⟨hv, hr⟩ := h
      subst hv hr
      have hlt : fromLE (data.take k) < 256 ^ k := by
        have := fromLE_lt (data.take k)
        have hl : (data.take k).length = k := by simp; omega
        rwa [hl] at this
      have hlt' : (Int.ofNat (fromLE (data.take k))) < pow256 k := by
        unfold pow256; exact Int.ofNat_lt.mpr hlt
      have hnn : ¬ (Int.ofNat (fromLE (data.take k)) < 0) := by simp
      have e : (Int.ofNat (fromLE (data.take k))).toNat = fromLE (data.take k) := rfl
      simp only [encS] at he
      by_cases hc : Int.ofNat (fromLE (data.take k)) < pow256 k / 2
      · simp only [if_pos hc] at he
        by_cases hcond : -(pow256 k / 2) ≤ Int.ofNat (fromLE (data.take k)) ∧ Int.ofNat (fromLE (data.take k)) < pow256 k / 2
        · rw [if_pos hcond] at he
          injection he with he
          subst he
          simp only [hnn, if_false]
          rw [e, toLE_fromLE_take data k (by omega), List.take_append_drop]
        · rw [if_neg hcond] at he; cases he
      · simp only [if_neg hc] at he
        by_cases hcond : -(pow256 k / 2) ≤ Int.ofNat (fromLE (data.take k)) - pow256 k ∧
            Int.ofNat (fromLE (data.take k)) - pow256 k < pow256 k / 2
        · rw [if_pos hcond] at he
          injection he with he
          subst he
          have hneg : Int.ofNat (fromLE (data.take k)) - pow256 k < 0 := by omega
          simp only [hneg, if_true]
          have e2 : (Int.ofNat (fromLE (data.take k)) - pow256 k + pow256 k).toNat = fromLE (data.take k) := by
            rw [Int.sub_add_cancel]; rfl
          rw [e2, toLE_fromLE_take data k (by omega), List.take_append_drop]
        · rw [if_neg hcond] at he; cases he
    | blob m =>
      simp only [ST.size] at hlen
      simp only [Except.ok.injEq, Prod.mk.injEq] at h
      obtain ⟨hv, hr⟩ := h
      subst hv hr
      simp only [encS] at he
      split at he
      · injection he with he
        subst he
        rw [List.take_append_drop]
      · cases he

theorem encRec_cons (t : ST) (ts : List ST) (v : SV) (vs : List SV) (b : Bytes) (h : encRec (t :: ts) (v :: vs) = some b) :
    ∃ a c, encS t v = some a ∧ encRec ts vs = some c ∧ b = a ++ c := by
  simp only [encRec] at h
  cases ha : encS t v with
  | none => simp [ha] at h
  | some a =>
    cases hc : encRec ts vs with
    | none => simp [ha, hc] at h
    | some c => simp [ha, hc] at h; exact ⟨a, c, rfl, rfl, h.symm⟩

theorem decRec_sound (ts : List ST) (data : Bytes) (vs : List SV) (rest b : Bytes) (h : decRec ts data = .ok (vs, rest))
    (he : encRec ts vs = some b) : data = b ++ rest := by
  induction ts generalizing data vs b with
  | nil =>
    simp only [decRec, Except.ok.injEq, Prod.mk.injEq] at h
    obtain ⟨hv, hr⟩ := h
    subst hv hr
    simp only [encRec] at he
    injection he with he; subst he; rfl
  | cons t ts ih =>
    simp only [decRec] at h
    cases h1 : decS t data with
    | error e => simp [h1] at h
    | ok p =>
      obtain ⟨v, r1⟩ := p
      simp only [h1] at h
      cases h2 : decRec ts r1 with
      | error e => simp [h2] at h
      | ok q =>
        obtain ⟨vs', r2⟩ := q
        simp only [h2, Except.ok.injEq, Prod.mk.injEq] at h
        obtain ⟨hv, hr⟩ := h
        subst hv hr
        obtain ⟨a, c, ha, hc, hb⟩ := encRec_cons t ts v vs' b he
        rw [decS_sound t data v r1 a h1 ha, ih r1 vs' c h2 hc, hb, List.append_assoc]

theorem encRows_cons (ts : List ST) (r : List SV) (rs : List (List SV)) (b : Bytes) (h : encRows ts (r :: rs) = some b) :
    ∃ a c, encRec ts r = some a ∧ encRows ts rs = some c ∧ b = a ++ c := by
  simp only [encRows] at h
  cases ha : encRec ts r with
  | none => simp [ha] at h
  | some a =>
    cases hc : encRows ts rs with
    | none => simp [ha, hc] at h
    | some c => simp [ha, hc] at h; exact ⟨a, c, rfl, rfl, h.symm⟩

theorem decRowsN_sound (ts : List ST) (n : Nat) (data : Bytes) (rs : List (List SV)) (rest b : Bytes)
    (h : decRowsN ts n data = .ok (rs, rest)) (he : encRows ts rs = some b) : data = b ++ rest ∧ rs.length = n := by
  induction n generalizing data rs b with
  | zero =>
    simp only [decRowsN, Except.ok.injEq, Prod.mk.injEq] at h
    obtain ⟨hv, hr⟩ := h
    subst hv hr
    simp only [encRows] at he
    injection he with he; subst he; exact ⟨rfl, rfl⟩
  | succ n ih =>
    simp only [decRowsN] at h
    cases h1 : decRec ts data with
    | error e => simp [h1] at h
    | ok p =>
      obtain ⟨r, r1⟩ := p
      simp only [h1] at h
      cases h2 : decRowsN ts n r1 with
      | error e => simp [h2] at h
      | ok q =>
        obtain ⟨rs', r2⟩ := q
        simp only [h2, Except.ok.injEq, Prod.mk.injEq] at h
        obtain ⟨hv, hr⟩ := h
        subst hv hr
        obtain ⟨a, c, ha, hc, hb⟩ := encRows_cons ts r rs' b he
        obtain ⟨i1, i2⟩ := ih r1 rs' c h2 hc
        exact ⟨by rw [decRec_sound ts data r r1 a h1 ha, i1, hb, List.append_assoc], by simp [i2]⟩

theorem decRowsN_length (ts : List ST) (n : Nat) (data : Bytes) (rs : List (List SV)) (rest : Bytes)
    (h : decRowsN ts n data = .ok (rs, rest)) : rs.length = n := by
  induction n generalizing data rs rest with
  | zero => simp only [decRowsN, Except.ok.injEq, Prod.mk.injEq] at h; rw [← h.1]; rfl
  | succ n ih =>
    simp only [decRowsN] at h
    cases h1 : decRec ts data with
    | error e => simp [h1] at h
    | ok p =>
      obtain ⟨r, r1⟩ := p
      simp only [h1] at h
      cases h2 : decRowsN ts n r1 with
      | error e => simp [h2] at h
      | ok q =>
        obtain ⟨rs', r2⟩ := q
        simp only [h2, Except.ok.injEq, Prod.mk.injEq] at h
        rw [← h.1]; simp [ih r1 rs' r2 h2]

theorem decRowsAll_sound (ts : List ST) (hpos : 0 < recSize ts) (fuel : Nat) (data : Bytes) (rs : List (List SV)) (b : Bytes)
    (hf : data.length ≤ fuel) (h : decRowsAll ts fuel data = .ok rs) (he : encRows ts rs = some b) : data = b := by
  induction fuel generalizing data rs b with
  | zero =>
    have : data = [] := List.eq_nil_of_length_eq_zero (by omega)
    subst this
    simp only [decRowsAll, Except.ok.injEq] at h
    subst h
    simp only [encRows] at he
    injection he with he
  | succ fuel ih =>
    simp only [decRowsAll] at h
    split at h
    · rename_i hemp
      simp only [Except.ok.injEq] at h
      subst h
      simp only [encRows] at he
      injection he with he
      subst he
      simpa using hemp
    · cases h1 : decRec ts data with
      | error e => simp [h1] at h
      | ok p =>
        obtain ⟨r, r1⟩ := p
        simp only [h1] at h
        cases h2 : decRowsAll ts fuel r1 with
        | error e => simp [h2] at h
        | ok rs' =>
          simp only [h2, Except.ok.injEq] at h
          subst h
          obtain ⟨a, c, ha, hc, hb⟩ := encRows_cons ts r rs' b he
          have hd := decRec_sound ts data r r1 a h1 ha
          have hal := encRec_length ts r a ha
          have hr1 : r1.length ≤ fuel := by
            have : data.length = a.length + r1.length := by rw [hd]; simp
            omega
          rw [hd, ih r1 rs' c hr1 h2 hc, hb]

/-! ## parameter types -/

theorem decS_uint_canon (k : Nat) (data : Bytes) (v : SV) (r : Bytes) (h : decS (.uint k) data = .ok (v, r)) :
    SV.num (Int.ofNat (natOf v)) = v := by
  unfold decS at h
  split at h
  · cases h
  · simp only [Except.ok.injEq, Prod.mk.injEq] at h
    rw [← h.1]; rfl

theorem decRec_uints_canon (ts : List ST) (hu : ∀ t ∈ ts, ∃ k, t = .uint k) (data : Bytes) (vs : List SV) (r : Bytes)
    (h : decRec ts data = .ok (vs, r)) : vs.map (fun v => SV.num (Int.ofNat (natOf v))) = vs := by
  induction ts generalizing data vs r with
  | nil => simp only [decRec, Except.ok.injEq, Prod.mk.injEq] at h; rw [← h.1]; rfl
  | cons t ts ih =>
    simp only [decRec] at h
    cases h1 : decS t data with
    | error e => simp [h1] at h
    | ok p =>
      obtain ⟨v, r1⟩ := p
      simp only [h1] at h
      cases h2 : decRec ts r1 with
      | error e => simp [h2] at h
      | ok q =>
        obtain ⟨vs', r2⟩ := q
        simp only [h2, Except.ok.injEq, Prod.mk.injEq] at h
        rw [← h.1]
        obtain ⟨k, hk⟩ := hu t (by simp)
        subst hk
        simp only [List.map_cons, decS_uint_canon k data v r1 h1, ih (fun t ht => hu t (by simp [ht])) r1 vs' r2 h2]

theorem decRowsN_u16_canon (n : Nat) (data : Bytes) (cl : List (List SV)) (r : Bytes)
    (h : decRowsN [.uint 2] n data = .ok (cl, r)) : u16s (cl.map fun r => natOf (r.headD (.num 0))) = cl := by
  induction n generalizing data cl r with
  | zero => simp only [decRowsN, Except.ok.injEq, Prod.mk.injEq] at h; rw [← h.1]; rfl
  | succ n ih =>
    simp only [decRowsN] at h
    cases h1 : decRec [.uint 2] data with
    | error e => simp [h1] at h
    | ok p =>
      obtain ⟨row, r1⟩ := p
      simp only [h1] at h
      cases h2 : decRowsN [.uint 2] n r1 with
      | error e => simp [h2] at h
      | ok q =>
        obtain ⟨cl', r2⟩ := q
        simp only [h2, Except.ok.injEq, Prod.mk.injEq] at h
        rw [← h.1]
        have hc := decRec_uints_canon [.uint 2] (by simp) data row r1 h1
        -- the row is a single canonical number
        simp only [decRec] at h1
        cases h3 : decS (.uint 2) data with
        | error e => simp [h3] at h1
        | ok p3 =>
          obtain ⟨v, r3⟩ := p3
          simp only [h3, Except.ok.injEq, Prod.mk.injEq] at h1
          have hrow : row = [v] := h1.1.symm
          subst hrow
          have := decS_uint_canon 2 data v r3 h3
          simp only [List.map_cons, u16s, List.headD_cons, this]
          have ih' := ih r1 cl' r2 h2
          simp only [u16s] at ih'
          rw [ih']

theorem decRec_vlength (ts : List ST) (data : Bytes) (vs : List SV) (r : Bytes) (h : decRec ts data = .ok (vs, r)) :
    vs.length = ts.length := by
  induction ts generalizing data vs r with
  | nil => simp only [decRec, Except.ok.injEq, Prod.mk.injEq] at h; rw [← h.1]; rfl
  | cons t ts ih =>
    simp only [decRec] at h
    cases h1 : decS t data with
    | error e => simp [h1] at h
    | ok p =>
      obtain ⟨v, r1⟩ := p
      simp only [h1] at h
      cases h2 : decRec ts r1 with
      | error e => simp [h2] at h
      | ok q =>
        obtain ⟨vs', r2⟩ := q
        simp only [h2, Except.ok.injEq, Prod.mk.injEq] at h
        rw [← h.1]; simp [ih r1 vs' r2 h2]

theorem list_len6 {α} (l : List α) (h : l.length = 6) : ∃ a b c d e f, l = [a, b, c, d, e, f] := by
  rcases l with _ | ⟨a, _ | ⟨b, _ | ⟨c, _ | ⟨d, _ | ⟨e, _ | ⟨f, _ | ⟨g, t⟩⟩⟩⟩⟩⟩⟩ <;> simp at h
  exact ⟨a, b, c, d, e, f, rfl⟩

theorem decW_sound (w : WT) (data : Bytes) (val : Val) (rest b : Bytes)
    (hgr : ∀ ts, w = .greedy ts → 0 < recSize ts)
    (h : decW w data = .ok (val, rest)) (he : encW w val = some b) : data = b ++ rest := by
  cases w with
  | sc t =>
    simp only [decW] at h
    cases h1 : decS t data with
    | error e => simp [h1] at h
    | ok p =>
      obtain ⟨v, r⟩ := p
      simp only [h1, Except.ok.injEq, Prod.mk.injEq] at h
      obtain ⟨hv, hr⟩ := h
      subst hv hr
      exact decS_sound t data v r b h1 (by simpa [encW] using he)
  | lvBytes hd =>
    simp only [decW] at h
    split at h
    · cases h
    · rename_i h1
      split at h
      · cases h
      · rename_i h2
        simp only [Except.ok.injEq, Prod.mk.injEq] at h
        obtain ⟨hv, hr⟩ := h
        subst hv hr
        have hlen : ((data.drop hd).take (fromLE (data.take hd))).length = fromLE (data.take hd) := by
          simp; omega
        simp only [encW, hlen] at he
        split at he
        · injection he with he
          subst he
          rw [toLE_fromLE_take data hd (by omega), List.append_assoc]
          conv => lhs; rw [← List.take_append_drop hd data]
          congr 1
          conv => lhs; rw [← List.take_append_drop (fromLE (data.take hd)) (data.drop hd)]
          rw [List.drop_drop]
        · cases he
  | lvList hd ts =>
    simp only [decW] at h
    split at h
    · cases h
    · rename_i h1
      cases h2 : decRowsN ts (fromLE (data.take hd)) (data.drop hd) with
      | error e => simp [h2] at h
      | ok p =>
        obtain ⟨rs, r⟩ := p
        simp only [h2, Except.ok.injEq, Prod.mk.injEq] at h
        obtain ⟨hv, hr⟩ := h
        subst hv hr
        simp only [encW] at he
        split at he
        · cases h3 : encRows ts rs with
          | none => simp [h3] at he
          | some c =>
            simp only [h3, Option.map_some, Option.some.injEq] at he
            subst he
            obtain ⟨i1, i2⟩ := decRowsN_sound ts _ _ rs r c h2 h3
            rw [i2, toLE_fromLE_take data hd (by omega), List.append_assoc, ← i1, List.take_append_drop]
        · cases he
  | greedy ts =>
    simp only [decW] at h
    cases h2 : decRowsAll ts data.length data with
    | error e => simp [h2] at h
    | ok rs =>
      simp only [h2, Except.ok.injEq, Prod.mk.injEq] at h
      obtain ⟨hv, hr⟩ := h
      subst hv hr
      simp only [encW] at he
      rw [decRowsAll_sound ts (hgr ts rfl) data.length data rs b (Nat.le_refl _) h2 he]
      simp
  | simpleDesc =>
    simp only [decW] at h
    cases h1 : decRec [.uint 1, .uint 2, .uint 2, .uint 1, .uint 1, .uint 1] data with
    | error e => simp [h1] at h
    | ok p =>
      obtain ⟨hdv, r1⟩ := p
      simp only [h1] at h
      have hcan := decRec_uints_canon _ (by simp) data hdv r1 h1
      obtain ⟨ep, pr, dt, dv, ic, oc, hshape⟩ := list_len6 hdv (decRec_vlength _ data hdv r1 h1)
      subst hshape
      simp only [] at h
      generalize h2 : decRowsN [.uint 2] (natOf ic + natOf oc) r1 = R at h
      rcases R with e | ⟨cl, r2⟩
      · cases h
      ·
        simp only [Except.ok.injEq, Prod.mk.injEq] at h
        obtain ⟨hv, hr⟩ := h
        subst hv hr
        have hcl := decRowsN_length _ _ _ cl r2 h2
        have hcc := decRowsN_u16_canon _ _ cl r2 h2
        generalize hcs : (cl.map fun r => natOf (r.headD (.num 0))) = cs at *
        have hcsl : cs.length = natOf ic + natOf oc := by rw [← hcs]; simp [hcl]
        have ht : (cs.take (natOf ic)).length = natOf ic := by simp; omega
        have hd : (cs.drop (natOf ic)).length = natOf oc := by simp; omega
        simp only [encW] at he
        unfold encSD at he
        have hl : [SV.num (Int.ofNat (natOf ep)), SV.num (Int.ofNat (natOf pr)), SV.num (Int.ofNat (natOf dt)),
            SV.num (Int.ofNat (natOf dv)), SV.num (Int.ofNat (natOf ic)), SV.num (Int.ofNat (natOf oc))] =
            [ep, pr, dt, dv, ic, oc] := hcan
        rw [ht, hd, hl, List.take_append_drop, hcc] at he
        cases h3 : encRec [.uint 1, .uint 2, .uint 2, .uint 1, .uint 1, .uint 1] [ep, pr, dt, dv, ic, oc] with
        | none => simp [h3] at he
        | some a =>
          cases h4 : encRows [.uint 2] cl with
          | none => simp [h3, h4] at he
          | some c =>
            simp only [h3, h4, Option.some.injEq] at he
            subst he
            rw [decRec_sound _ data _ r1 a h1 h3, (decRowsN_sound _ _ r1 cl r2 c h2 h4).1, List.append_assoc]

end Zboss.Wire
