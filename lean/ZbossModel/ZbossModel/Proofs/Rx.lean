import ZbossModel.Rx
import ZbossModel.Proofs.Scanner
import ZbossModel.Proofs.Header
/-! The concrete `_extract_frame` model is a `Scanner`: the five laws the chunking
    theorem needs, plus `resyncPy = resync` (the code's find-based resynchronisation
    is the canonical-suffix skip). -/
namespace Zboss.Rx
open Gen

theorem sig_bytes : toLE 2 Gen.signature = [0xDE, 0xAD] := by decide

/-! ## resynchronisation as written = canonical skip -/

theorem findSig_none_skip : ∀ (l : Bytes) (i : Nat), findSig l i = none →
    skip l = (if l.getLast? = some 0xDE then [0xDE] else [])
  | [], _, _ => by simp [skip]
  | [x], _, _ => by
    by_cases hx : x = 0xDE
    · subst hx; simp [skip, canon]
    · simp [skip, canon, hx]
  | x :: y :: t, i, h => by
    unfold findSig at h
    by_cases hc : (x == 0xDE && y == 0xAD) = true
    · simp [hc] at h
    · simp only [hc] at h
      have ih := findSig_none_skip (y :: t) (i + 1) (by simpa using h)
      have hcan : canon (x :: y :: t) = false := by simpa [canon] using hc
      simp only [skip, hcan]
      simp only [skip] at ih
      rw [show (if false = true then x :: y :: t else if canon (y :: t) = true then y :: t else skip t) =
        (if canon (y :: t) = true then y :: t else skip t) from rfl, ih]
      simp [List.getLast?_cons_cons]

theorem findSig_some_skip : ∀ (l : Bytes) (i k : Nat), findSig l i = some k →
    i ≤ k ∧ skip l = l.drop (k - i)
  | [], _, _, h => by simp [findSig] at h
  | [x], _, _, h => by simp [findSig] at h
  | x :: y :: t, i, k, h => by
    unfold findSig at h
    by_cases hc : (x == 0xDE && y == 0xAD) = true
    · simp only [hc, if_true, Option.some.injEq] at h
      subst h
      have : canon (x :: y :: t) = true := by simpa [canon] using hc
      simp [skip, this]
    · simp only [hc] at h
      have ⟨hle, ih⟩ := findSig_some_skip (y :: t) (i + 1) k (by simpa using h)
      have hcan : canon (x :: y :: t) = false := by simpa [canon] using hc
      refine ⟨by omega, ?_⟩
      have : k - i = (k - (i + 1)) + 1 := by omega
      rw [this, List.drop_succ_cons, ← ih]
      simp [skip, hcan]

theorem resyncPy_eq (b : Bytes) : resyncPy b = resync b := by
  unfold resyncPy resync
  cases b with
  | nil => simp [findSig, skip]
  | cons x t =>
    simp only [List.tail_cons]
    cases hf : findSig t 1 with
    | none =>
      rw [findSig_none_skip t 1 hf]
      by_cases hl : t.getLast? = some 0xDE
      · simp only [hl, if_true]
        have hne : t ≠ [] := by intro h; simp [h] at hl
        have : (x :: t).drop ((x :: t).length - 1) = [0xDE] := by
          have h2 : (x :: t).length - 1 = t.length := by simp
          rw [h2]
          have : (x :: t).drop t.length = t.drop (t.length - 1) := by
            cases t with
            | nil => exact absurd rfl hne
            | cons y t' => simp
          rw [this]
          have := List.getLast?_eq_getElem? (l := t)
          rw [this] at hl
          rw [List.drop_eq_getElem_cons (by cases t with | nil => exact absurd rfl hne | cons _ _ => simp)]
          simp only [List.getElem?_eq_getElem (show t.length - 1 < t.length by
            cases t with | nil => exact absurd rfl hne | cons _ _ => simp)] at hl
          simp at hl
          simp [hl]
          omega
        simpa using this
      · simp [hl]
    | some k =>
      have ⟨hle, hs⟩ := findSig_some_skip t 1 k hf
      rw [hs]
      obtain ⟨j, rfl⟩ : ∃ j, k = j + 1 := ⟨k - 1, by omega⟩
      simp

/-! ## the header checks look at the first seven bytes only -/

theorem take_append_le {α} (a b : List α) (k : Nat) (h : k ≤ a.length) : (a ++ b).take k = a.take k :=
  List.take_append_of_le_length h

theorem getD_append_lt (a b : Bytes) (k : Nat) (h : k < a.length) : (a ++ b).getD k 0 = a.getD k 0 := by
  simp [List.getD_eq_getElem?_getD, List.getElem?_append_left h]

theorem slice_append_le (a b : Bytes) (i j : Nat) (h : j ≤ a.length) : slice (a ++ b) i j = slice a i j := by
  simp [slice, take_append_le a b j h]

theorem ofBytes_append (a b : Bytes) (h : 7 ≤ a.length) : LL.ofBytes (a ++ b) = LL.ofBytes a := by
  simp [LL.ofBytes, take_append_le a b 7 h]

/-- the length field `uint16_t.deserialize(buffer[2:4])` is the header's size field -/
theorem size_ofBytes (a : Bytes) (h : 7 ≤ a.length) : LL.size (LL.ofBytes a) = fromLE (slice a 2 4) := by
  match a, h with
  | b0 :: b1 :: b2 :: b3 :: b4 :: b5 :: b6 :: t, _ =>
    rw [LL.size_eq]
    simp only [LL.ofBytes, slice, List.take_succ_cons, List.take_zero, List.drop_succ_cons, List.drop_zero, fromLE,
      BitVec.toNat_ofNat]
    have := b0.toNat_lt; have := b1.toNat_lt; have := b2.toNat_lt; have := b3.toNat_lt
    have := b4.toNat_lt; have := b5.toNat_lt; have := b6.toNat_lt
    omega

theorem deserialize_append (a b : Bytes) (h7 : 7 ≤ a.length)
    (hL5 : 5 ≤ LL.size (LL.ofBytes a)) (hLen : LL.size (LL.ofBytes a) + 2 ≤ a.length) :
    Frame.deserialize (a ++ b) =
      match Frame.deserialize a with
      | .ok (f, r) => .ok (f, r ++ b)
      | .error e => .error e := by
  have h1 : ¬ (a ++ b).length < 7 := by simp; omega
  have h2 : ¬ a.length < 7 := by omega
  have hdrop : (a ++ b).drop 7 = a.drop 7 ++ b := List.drop_append_of_le_length h7
  simp only [Frame.deserialize, h1, h2, if_false, ofBytes_append a b h7, hdrop]
  generalize hll : LL.ofBytes a = ll at *
  by_cases c1 : LL.sig ll ≠ Gen.signature
  · simp [c1]
  by_cases c2 : LL.crcOf ll ≠ LL.crc ll
  · simp [c1, c2]
  by_cases c3 : Frame.hasFlag (LL.flags ll) Gen.flagisACK = true
  · simp [c1, c2, c3]
  have hk : ((LL.size ll : Int) - 5) = ((LL.size ll - 5 : Nat) : Int) := by omega
  have hrl : LL.size ll - 5 ≤ (a.drop 7).length := by simp; omega
  have ht : Frame.pyTake (a.drop 7 ++ b) ((LL.size ll : Int) - 5) = Frame.pyTake (a.drop 7) ((LL.size ll : Int) - 5) := by
    rw [hk]; simp [Frame.pyTake, take_append_le _ _ _ hrl]
  have hd : Frame.pyDrop (a.drop 7 ++ b) ((LL.size ll : Int) - 5) =
      Frame.pyDrop (a.drop 7) ((LL.size ll : Int) - 5) ++ b := by
    rw [hk]; simp [Frame.pyDrop, List.drop_append_of_le_length hrl]
  simp only [c1, c2, c3, ht, hd, if_false]
  by_cases c4 : Frame.hasFlag (LL.flags ll) Gen.flagFirstFrag = true
  · simp only [c4, if_true]
    cases HLPacket.deserialize (Frame.pyTake (a.drop 7) ((LL.size ll : Int) - 5)) <;> rfl
  · simp [c4]

/-- what `Frame.deserialize` leaves over, for a buffer that holds the announced extent -/
theorem deserialize_rest (a : Bytes) (f : Frame) (r : Bytes) (h7 : 7 ≤ a.length)
    (hL5 : 5 ≤ LL.size (LL.ofBytes a)) (hLen : LL.size (LL.ofBytes a) + 2 ≤ a.length)
    (h : Frame.deserialize a = .ok (f, r)) :
    (r.length = a.length - 7 ∨ r.length = a.length - (LL.size (LL.ofBytes a) + 2)) ∧ f.ll = LL.ofBytes a := by
  have h2 : ¬ a.length < 7 := by omega
  simp only [Frame.deserialize, h2, if_false] at h
  generalize hll : LL.ofBytes a = ll at *
  by_cases c1 : LL.sig ll ≠ Gen.signature
  · simp [c1] at h
  by_cases c2 : LL.crcOf ll ≠ LL.crc ll
  · simp [c1, c2] at h
  by_cases c3 : Frame.hasFlag (LL.flags ll) Gen.flagisACK = true
  · simp [c1, c2, c3] at h
    obtain ⟨rfl, rfl⟩ := h
    exact ⟨Or.inl (by simp), rfl⟩
  have hk : ((LL.size ll : Int) - 5) = ((LL.size ll - 5 : Nat) : Int) := by omega
  have hd : (Frame.pyDrop (a.drop 7) ((LL.size ll : Int) - 5)).length = a.length - (LL.size ll + 2) := by
    rw [hk]; simp [Frame.pyDrop]; omega
  simp only [c1, c2, c3, if_false] at h
  by_cases c4 : Frame.hasFlag (LL.flags ll) Gen.flagFirstFrag = true
  · simp only [c4, if_true] at h
    cases hp : HLPacket.deserialize (Frame.pyTake (a.drop 7) ((LL.size ll : Int) - 5)) with
    | error e => rw [hp] at h; simp at h
    | ok p =>
      rw [hp] at h
      simp at h
      obtain ⟨rfl, rfl⟩ := h
      exact ⟨Or.inr hd, rfl⟩
  · simp [c4] at h
    obtain ⟨rfl, rfl⟩ := h
    exact ⟨Or.inr hd, rfl⟩

theorem deserialize_no_keyError (a : Bytes) : Frame.deserialize a ≠ .error .keyError := by
  unfold Frame.deserialize
  split
  · simp
  · simp only []
    split
    · simp
    · split
      · simp
      · split
        · simp
        · split
          · cases hp : HLPacket.deserialize (Frame.pyTake (a.drop 7) ((LL.size (LL.ofBytes a) : Int) - 5)) with
            | ok p => simp
            | error e =>
              simp only [ne_eq, Except.error.injEq]
              intro he
              subst he
              unfold HLPacket.deserialize at hp
              split at hp
              · simp at hp
              · simp only [] at hp
                split at hp
                · simp at hp
                · split at hp <;> simp at hp
          · simp

/-! ## the Scanner laws for the concrete `_extract_frame` -/

theorem tryFrame_short_of_lt (a : Bytes) (h : a.length < 7) : tryFrame a = .short := by
  simp [tryFrame, h]

theorem tryFrame_invalid_of_nosig (a : Bytes) (h7 : 7 ≤ a.length) (hs : startsSig a = false) :
    tryFrame a = .invalid := by
  match a, h7 with
  | x :: y :: t, h7 =>
    have h2 : ¬ (x :: y :: t).length < 7 := by omega
    have : (x :: y :: t).take 2 ≠ toLE 2 Gen.signature := by
      rw [sig_bytes]
      simp only [List.take_succ_cons, List.take_zero, ne_eq, List.cons.injEq, and_true]
      simp only [startsSig, Bool.and_eq_false_imp, beq_iff_eq] at hs
      intro ⟨hx, hy⟩
      have := hs hx
      simp [hy] at this
    simp only [tryFrame, if_neg h2, if_pos this]

/-- once `_extract_frame` has reached a verdict other than "too short", more bytes do not change it -/
theorem tryFrame_append (a b : Bytes) (hns : tryFrame a ≠ .short) : tryFrame (a ++ b) = tryFrame a := by
  by_cases h7 : a.length < 7
  · exact absurd (tryFrame_short_of_lt a h7) hns
  have h7' : 7 ≤ a.length := by omega
  have h1 : ¬ (a ++ b).length < 7 := by simp; omega
  unfold tryFrame at hns ⊢
  simp only [h1, h7, if_false, take_append_le a b 2 (by omega), getD_append_lt a b 4 (by omega),
    getD_append_lt a b 6 (by omega), slice_append_le a b 2 6 (by omega), slice_append_le a b 2 4 (by omega)] at hns ⊢
  by_cases c1 : a.take 2 ≠ toLE 2 Gen.signature
  · simp only [if_pos c1]
  simp only [if_neg c1] at hns ⊢
  by_cases c2 : (a.getD 4 0).toNat ≠ Gen.typeHL
  · simp only [if_pos c2]
  simp only [if_neg c2] at hns ⊢
  by_cases c3 : (Crc.crc8B (slice a 2 6)).toNat ≠ (a.getD 6 0).toNat
  · simp only [if_pos c3]
  simp only [if_neg c3] at hns ⊢
  by_cases c4 : fromLE (slice a 2 4) < 5
  · simp only [if_pos c4]
  simp only [if_neg c4] at hns ⊢
  by_cases c5 : a.length < fromLE (slice a 2 4) + 2
  · simp only [if_pos c5] at hns; exact absurd rfl hns
  have c5' : ¬ (a ++ b).length < fromLE (slice a 2 4) + 2 := by simp; omega
  have hsz := size_ofBytes a h7'
  have hda := deserialize_append a b h7' (by omega) (by omega)
  simp only [if_neg c5, if_neg c5', hda]
  cases hd : Frame.deserialize a with
  | error e => cases e <;> rfl
  | ok fr =>
    obtain ⟨f, r⟩ := fr
    simp only []
    have hl : (a ++ b).length - (r ++ b).length = a.length - r.length := by simp; omega
    rw [hl]

theorem tryFrame_never_raises (a : Bytes) : tryFrame a ≠ .raised := by
  unfold tryFrame
  split
  · simp
  split
  · simp
  split
  · simp
  split
  · simp
  simp only []
  split
  · simp
  split
  · simp
  have hk := deserialize_no_keyError a
  cases hd : Frame.deserialize a with
  | error e =>
    cases e with
    | keyError => exact absurd hd hk
    | invalidFrame => simp
    | valueError => simp
  | ok fr =>
    obtain ⟨f, r⟩ := fr
    simp only []
    split
    · simp
    · cases f.hl with
      | none => simp
      | some p =>
        simp only []
        split
        · simp
        · split <;> simp

theorem tryFrame_ok_le (a : Bytes) (f : Frame) (n : Nat) (h : tryFrame a = .ok f n) : 7 ≤ n ∧ n ≤ a.length := by
  by_cases h7 : a.length < 7
  · rw [tryFrame_short_of_lt a h7] at h; cases h
  have h7' : 7 ≤ a.length := by omega
  unfold tryFrame at h
  simp only [h7, if_false] at h
  by_cases c1 : a.take 2 ≠ toLE 2 Gen.signature
  · simp only [if_pos c1] at h; cases h
  simp only [if_neg c1] at h
  by_cases c2 : (a.getD 4 0).toNat ≠ Gen.typeHL
  · simp only [if_pos c2] at h; cases h
  simp only [if_neg c2] at h
  by_cases c3 : (Crc.crc8B (slice a 2 6)).toNat ≠ (a.getD 6 0).toNat
  · simp only [if_pos c3] at h; cases h
  simp only [if_neg c3] at h
  by_cases c4 : fromLE (slice a 2 4) < 5
  · simp only [if_pos c4] at h; cases h
  simp only [if_neg c4] at h
  by_cases c5 : a.length < fromLE (slice a 2 4) + 2
  · simp only [if_pos c5] at h; cases h
  simp only [if_neg c5] at h
  have hsz := size_ofBytes a h7'
  cases hd : Frame.deserialize a with
  | error e => rw [hd] at h; cases e <;> simp at h
  | ok fr =>
    obtain ⟨f0, r⟩ := fr
    have hr := (deserialize_rest a f0 r h7' (by omega) (by omega) hd).1
    rw [hd] at h
    simp only [] at h
    have hn : 7 ≤ a.length - r.length ∧ a.length - r.length ≤ a.length := by
      rcases hr with hr | hr <;> omega
    split at h
    · simp at h; omega
    · cases hhl : f0.hl with
      | none => rw [hhl] at h; simp at h; omega
      | some p =>
        rw [hhl] at h
        simp only [] at h
        split at h
        · simp at h
        · split at h
          · simp at h
          · simp at h; omega

/-- the concrete receiver is a `Scanner` -/
def zbossScanner : Scanner Frame where
  tryFrame := tryFrame
  short_of_lt := tryFrame_short_of_lt
  invalid_of_nosig := tryFrame_invalid_of_nosig
  ok_le := tryFrame_ok_le
  ok_ext := fun a b f n h => by rw [tryFrame_append a b (by rw [h]; simp), h]
  invalid_ext := fun a b h => by rw [tryFrame_append a b (by rw [h]; simp), h]
  never_raises := tryFrame_never_raises

end Zboss.Rx
