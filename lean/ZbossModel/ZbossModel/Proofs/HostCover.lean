import ZbossModel.Proofs.HostAck
/-! The converse of "no residue": a running request that has neither been answered nor cancelled still has its
    response listener registered.  Hence once `close()` has emptied the listener table, every running request
    carries a cancelled (or resolved) response future: none of them can sit out its response timeout. -/
namespace Zboss.Host

def CoveredV (v : View) : Prop :=
  ∀ c ∈ v.cores, c.phase ≠ .done → c.got = .nothing → (c.id, c.key) ∈ v.listeners

theorem allowed_keeps (t : Bool) (c0 : Core) (g : Core → Core) (ha : Allowed t c0 g) :
    (g c0).id = c0.id ∧ (g c0).key = c0.key ∧ (g c0).got = c0.got ∧ c0.phase ≠ .done := by
  rcases ha with ⟨hp, rfl⟩ | ⟨hp, rfl⟩ | ⟨hp, rfl⟩ | ⟨hp, _, rfl⟩ | ⟨hp, _, rfl⟩ | ⟨hp, _, rfl⟩ <;>
    exact ⟨rfl, rfl, rfl, by rw [hp]; decide⟩

theorem cov_fin (v : View) (i : Nat) (o : Outcome) (h : CoveredV v) :
    CoveredV (((v.upd i toDone).dropL i).emit (.done i o)) := by
  intro x hx hph hgot
  obtain ⟨c, hc, rfl⟩ := mem_upd (v := v) (i := i) (g := toDone) hx
  by_cases hi : (c.id == i) = true
  · rw [if_pos hi] at hph; exact absurd rfl hph
  · rw [if_neg hi] at hph hgot ⊢
    have := h c hc hph hgot
    show (c.id, c.key) ∈ v.listeners.filter (·.1 != i)
    exact List.mem_filter.mpr ⟨this, by simpa using hi⟩

theorem cov_micro (v v' : View) (i : Nat) (c0 : Core) (h : CoveredV v) (hu : Uniq v.cores) (h0 : c0 ∈ v.cores)
    (hi : c0.id = i) (hs : MicroStep v i c0 v') : CoveredV v' := by
  have key : ∀ g : Core → Core, (g c0).id = c0.id → (g c0).key = c0.key → (g c0).got = c0.got → c0.phase ≠ .done →
      ∀ x ∈ (v.upd i g).cores, x.phase ≠ .done → x.got = .nothing → (x.id, x.key) ∈ v.listeners := by
    intro g h1 h2 h3 h4 x hx hph hgot
    obtain ⟨c, hc, rfl⟩ := mem_upd hx
    by_cases hci : (c.id == i) = true
    · have : c = c0 := hu.id c hc c0 h0 (by rw [hi]; simpa using hci)
      subst this
      rw [if_pos hci] at hgot ⊢
      rw [h1, h2]
      exact h c hc h4 (by rw [← h3]; exact hgot)
    · rw [if_neg hci] at hph hgot ⊢
      exact h c hc hph hgot
  cases hs with
  | stay => exact h
  | move g ha =>
    obtain ⟨h1, h2, h3, h4⟩ := allowed_keeps _ c0 g ha
    exact key g h1 h2 h3 h4
  | write s hp _ => exact key _ rfl rfl rfl (by rw [hp]; decide)
  | fin o _ => exact cov_fin v i o h

theorem cov_runReq1 (st : St) (i : Nat) (hinv : Inv2 st) (h : CoveredV (view st)) : CoveredV (view (runReq 1 st i)) := by
  cases hg : getReq st i with
  | none =>
    have : runReq 1 st i = st := by rw [runReq]; simp only [hg]
    rw [this]; exact h
  | some r =>
    obtain ⟨hrm, hrid⟩ := getReq_mem st i r hg
    exact cov_micro _ _ i (core r) h (uniq_of_inv2 st hinv) (List.mem_map.mpr ⟨r, hrm, rfl⟩) hrid (micro_view st i r hg)

/-- a per-request change that keeps id and key, answers or cancels at most, and revives nobody -/
theorem cov_map_reqs (st st' : St) (g : Req → Req) (hr : st'.reqs = st.reqs.map g)
    (hl : ∀ l ∈ st.listeners, l ∈ st'.listeners)
    (hg : ∀ r, (g r).id = r.id ∧ (g r).key = r.key ∧ ((g r).got = .nothing → r.got = .nothing) ∧
      ((g r).phase ≠ .done → r.phase ≠ .done))
    (h : CoveredV (view st)) : CoveredV (view st') := by
  intro x hx hph hgot
  simp only [view, hr, List.map_map, List.mem_map] at hx
  obtain ⟨r, hrm, rfl⟩ := hx
  obtain ⟨h1, h2, h3, h4⟩ := hg r
  have := h (core r) (List.mem_map.mpr ⟨r, hrm, rfl⟩) (h4 hph) (h3 hgot)
  show ((g r).id, (g r).key) ∈ st'.listeners
  rw [h1, h2]; exact hl _ this

theorem cov_same (st st' : St) (hr : st'.reqs = st.reqs) (hl : ∀ l ∈ st.listeners, l ∈ st'.listeners)
    (h : CoveredV (view st)) : CoveredV (view st') :=
  cov_map_reqs st st' id (by simpa using hr) hl (fun _ => ⟨rfl, rfl, id, id⟩) h

theorem cov_unwind (st : St) (i : Nat) (o : Outcome) (h : CoveredV (view st)) : CoveredV (view (unwind st i o)) := by
  rw [view_unwind]; exact cov_fin _ i o h

theorem cov_foldl_unwind (ids : List Nat) (st : St) (o : Outcome) (h : CoveredV (view st)) :
    CoveredV (view (ids.foldl (fun s i => unwind s i o) st)) := by
  induction ids generalizing st with
  | nil => exact h
  | cons i is ih => exact ih _ (cov_unwind st i o h)

theorem keep_toAcked (c : Req → Bool) (hc : ∀ r, c r = true → r.phase = .waitAck) (r : Req) :
    (if c r = true then { r with phase := Phase.acked } else r).id = r.id ∧
    (if c r = true then { r with phase := Phase.acked } else r).key = r.key ∧
    ((if c r = true then { r with phase := Phase.acked } else r).got = .nothing → r.got = .nothing) ∧
    ((if c r = true then { r with phase := Phase.acked } else r).phase ≠ .done → r.phase ≠ .done) := by
  by_cases h : c r = true
  · rw [if_pos h]; exact ⟨rfl, rfl, id, fun _ => by rw [hc r h]; decide⟩
  · rw [if_neg h]; exact ⟨rfl, rfl, id, id⟩

/-- the immediate effect of every event keeps the invariant -/
theorem cov_pre (st : St) (e : Ev) (h : CoveredV (view st)) : CoveredV (view (pre st e).1) := by
  have h0 : CoveredV (view ({ st with out := [] } : St)) := cov_same st _ rfl (fun _ hl => hl) h
  cases e with
  | start id key blocking nfrags timeout =>
    simp only [pre]
    split
    · exact h0
    split
    · exact cov_same st _ rfl (fun _ hl => hl) h
    · intro x hx hph hgot
      simp only [view, List.map_append, List.mem_append, List.map_cons, List.map_nil, List.mem_singleton] at hx
      show (x.id, x.key) ∈ st.listeners ++ [(id, key)]
      rcases hx with hx | hx
      · exact List.mem_append_left _ (h x hx hph hgot)
      · subst hx; exact List.mem_append_right _ (by simp [core])
  | rxAck k =>
    simp only [pre]
    split
    · exact cov_map_reqs st _ _ rfl (fun _ hl => hl)
        (keep_toAcked (fun r => r.phase == Phase.waitAck && r.gen == st.gen) (fun r hc => by simp at hc; exact hc.1)) h
    · exact h0
  | rxRsp key =>
    simp only [pre]
    generalize hst1 : (if ({ st with out := [] } : St).transport = true then emit { st with out := [] } Out.wack else { st with out := [] }) = st1
    have h1 : CoveredV (view st1) := by
      rw [← hst1]; split
      · exact cov_same st _ rfl (fun _ hl => hl) h
      · exact h0
    cases hfind : st1.listeners.find? (fun l => l.2 == key) with
    | none => exact h1
    | some p =>
      obtain ⟨i, k⟩ := p
      simp only []
      have h2 : CoveredV (view (updReq { st1 with listeners := st1.listeners.filter (·.1 != i) } i fun r => { r with got := .rsp })) := by
        intro x hx hph hgot
        simp only [view, updReq, List.map_map, List.mem_map] at hx
        obtain ⟨r, hrm, rfl⟩ := hx
        by_cases hri : (r.id == i) = true
        · simp only [Function.comp, hri, if_true, core] at hgot; cases hgot
        · simp only [Function.comp, hri] at hph hgot ⊢
          have := h1 (core r) (List.mem_map.mpr ⟨r, hrm, rfl⟩) hph hgot
          show (r.id, r.key) ∈ st1.listeners.filter (·.1 != i)
          exact List.mem_filter.mpr ⟨this, by simpa using hri⟩
      split
      · exact cov_same _ _ rfl (fun _ hl => hl) h2
      · exact h2
  | tick =>
    simp only [pre]
    cases nextDeadline ({ st with out := [] } : St) with
    | none => exact h0
    | some d =>
      simp only []
      apply cov_foldl_unwind
      exact cov_map_reqs st _ _ rfl (fun _ hl => hl)
        (keep_toAcked (fun r => r.phase == Phase.waitAck && decide (r.deadline ≤ max st.now d))
          (fun r hc => by simp at hc; exact hc.1)) h
  | cancel id =>
    simp only [pre]
    cases getReq ({ st with out := [] } : St) id with
    | none => exact h0
    | some r =>
      simp only []
      split
      · exact h0
      · exact cov_unwind _ _ _ h0
  | close =>
    simp only [pre]
    split
    · split
      · exact cov_same st _ rfl (fun _ hl => hl) h
      · exact h0
    · have hm : ∀ (s' : St), s'.reqs = st.reqs.map (fun r => if (st.listeners.map (·.1)).contains r.id = true then { r with got := Got.cancelled } else r) →
          CoveredV (view s') := by
        intro s' e1 x hx hph hgot
        simp only [view, e1, List.map_map, List.mem_map] at hx
        obtain ⟨r, hrm, rfl⟩ := hx
        by_cases hc : (st.listeners.map (·.1)).contains r.id = true
        · simp only [Function.comp, hc, if_true, core] at hgot; cases hgot
        · simp only [Function.comp, hc] at hph hgot
          have := h (core r) (List.mem_map.mpr ⟨r, hrm, rfl⟩) hph hgot
          exfalso; apply hc
          simp only [List.contains_eq_mem, List.mem_map, decide_eq_true_eq]
          exact ⟨(r.id, r.key), this, rfl⟩
      split
      · exact hm _ rfl
      · exact hm _ rfl
  | lost =>
    simp only [pre]
    split
    · exact cov_same st _ rfl (fun _ hl => hl) h
    · exact cov_same st _ rfl (fun _ hl => hl) h
  | setReset b => exact cov_same st _ rfl (fun _ hl => hl) h
  | connect =>
    simp only [pre]
    split
    · exact h0
    · exact cov_same st _ rfl (fun _ hl => hl) h

/-- every state the event loop can be in, under every scheduling order -/
theorem mreach_cov (hist : List Out) (st : St) (h : MReach hist st) : CoveredV (view st) := by
  induction h with
  | init => intro c hc; cases hc
  | event hist st e _ ih => exact cov_pre st e ih
  | sched hist st st' hm hs ih =>
    cases hs with
    | task i => exact cov_runReq1 st i (mreach_inv hist st hm).1.1 ih
    | ready rd => exact ih

/-- with the listener table empty, every running request carries a resolved or cancelled response future -/
theorem no_listener_no_wait (hist : List Out) (st : St) (h : MReach hist st) (hl : st.listeners = []) (r : Req)
    (hr : r ∈ st.reqs) (hp : r.phase ≠ .done) : r.got ≠ .nothing := by
  intro hg
  have := mreach_cov hist st h (core r) (List.mem_map.mpr ⟨r, hr, rfl⟩) hp hg
  simp only [view] at this
  rw [hl] at this; cases this

/-! ### once closed, closed for good -/

/-- the API is closed and its listener table empty -/
def Shut (st : St) : Prop := st.isOpen = false ∧ st.listeners = []

theorem shut_of_frame {st st' : St} (hf : Frame st st') (h : Shut st) : Shut st' := by
  refine ⟨by rw [hf.isOpen]; exact h.1, ?_⟩
  apply List.eq_nil_iff_forall_not_mem.mpr
  intro l hl'
  have := hf.listeners l hl'
  rw [h.2] at this; cases this

theorem shut_foldl_unwind (ids : List Nat) (st : St) (o : Outcome) (h : Shut st) :
    Shut (ids.foldl (fun s i => unwind s i o) st) := shut_of_frame (frame_foldl_unwind ids st o) h

theorem shut_pre (st : St) (e : Ev) (hne : e ≠ .connect) (h : Shut st) : Shut (pre st e).1 := by
  obtain ⟨ho, hl⟩ := h
  cases e with
  | start id key blocking nfrags timeout =>
    simp only [pre]
    split
    · exact ⟨ho, hl⟩
    split
    · exact ⟨ho, hl⟩
    · rename_i hopen; simp [ho] at hopen
  | rxAck k => simp only [pre]; split <;> exact ⟨ho, hl⟩
  | rxRsp key =>
    simp only [pre]
    generalize hst1 : (if ({ st with out := [] } : St).transport = true then emit { st with out := [] } Out.wack else { st with out := [] }) = st1
    have h1 : st1.isOpen = false ∧ st1.listeners = [] := by rw [← hst1]; split <;> exact ⟨ho, hl⟩
    have : st1.listeners.find? (fun l => l.2 == key) = none := by rw [h1.2]; rfl
    rw [this]; exact h1
  | tick =>
    simp only [pre]
    cases nextDeadline ({ st with out := [] } : St) with
    | none => exact ⟨ho, hl⟩
    | some d =>
      simp only []
      exact shut_foldl_unwind _ _ _ ⟨ho, hl⟩
  | cancel id =>
    simp only [pre]
    cases getReq ({ st with out := [] } : St) id with
    | none => exact ⟨ho, hl⟩
    | some r =>
      simp only []
      split
      · exact ⟨ho, hl⟩
      · exact shut_foldl_unwind [id] _ _ ⟨ho, hl⟩
  | close =>
    simp only [pre]
    split
    · split
      · rename_i hopen; simp [ho] at hopen
      · exact ⟨ho, hl⟩
    · split
      · rename_i hopen; simp [ho] at hopen
      · exact ⟨ho, rfl⟩
  | lost => simp only [pre]; split <;> exact ⟨rfl, hl⟩
  | setReset b => exact ⟨ho, hl⟩
  | connect => exact absurd rfl hne

theorem shut_sched (st st' : St) (h : Shut st) (hs : Sched st st') : Shut st' := by
  cases hs with
  | task i => exact shut_of_frame (frame_runReq 1 st i) h
  | ready rd => exact h

theorem shut_settle (fuel : Nat) (st : St) (h : Shut st) : Shut (settle fuel st) :=
  shut_of_frame (frame_settle fuel st) h

theorem shut_step (st : St) (e : Ev) (hne : e ≠ .connect) (h : Shut st) : Shut (step st e) := by
  rw [step_eq_pre]
  cases (pre st e).2
  · exact shut_pre st e hne h
  · exact shut_settle _ _ (shut_pre st e hne h)

/-! ### what a task step does to a request whose response future is no longer pending -/

/-- a request waiting for its response whose future is resolved or cancelled ends at its next task step -/
theorem waitRsp_step_ends (st : St) (i : Nat) (r : Req) (hg : getReq st i = some r) (hp : r.phase = .waitRsp)
    (hgot : r.got ≠ .nothing) : ∃ o, (runReq 1 st i).out = st.out ++ [.done i o] := by
  rw [runReq]
  simp only [hg, hp]
  cases hgt : r.got with
  | nothing => exact absurd hgt hgot
  | cancelled => exact ⟨.cancelled, congrArg View.out (view_unwind st i .cancelled)⟩
  | rsp =>
    simp only []
    split
    · refine ⟨.ret, ?_⟩
      have h1 : (finish (release st .B i) i .ret).out = (release st .B i).out ++ [.done i .ret] :=
        congrArg View.out (view_finish (release st .B i) i .ret)
      have h2 : (release st .B i).out = st.out := congrArg View.out (view_release st .B i)
      rw [h1, h2]
    · exact ⟨.ret, congrArg View.out (view_finish st i .ret)⟩

/-- a request about to hand a frame to a link that is gone ends with `RuntimeError` at that very step -/
theorem sendfrag_step_ends (st : St) (i : Nat) (r : Req) (hg : getReq st i = some r) (hp : r.phase = .sendfrag)
    (hclosed : st.isOpen = false) : (runReq 1 st i).out = st.out ++ [.done i .runtimeError] := by
  rw [runReq]
  simp only [hg, hp, hclosed, Bool.not_false, if_true]
  exact congrArg View.out (view_unwind st i .runtimeError)

end Zboss.Host
