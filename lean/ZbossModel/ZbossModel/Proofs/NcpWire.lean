import ZbossModel.Props.C10
/-! The reference NCP on the bytes the host writes for one message, with acknowledgement frames interleaved. -/
namespace Zboss.Reasm
open Zboss.Rx Zboss

theorem ack_flag_all : ∀ (s : Fin 4) (b : Bool),
    Frame.hasFlag (LL.flags (Frame.ack s.val b).ll) (Gen.flagisACK ||| Gen.flagFirstFrag) = true := by decide +kernel

/-- `_extract_frame` on the bytes of an acknowledgement frame, followed by anything: that ACK, 7 bytes consumed -/
theorem tryFrame_ack (seq : Fin 4) (rt : Bool) (r : Bytes) :
    tryFrame ((Frame.ack seq.val rt).serialize ++ r) = .ok (Frame.ack seq.val rt) 7 := by
  obtain ⟨hser, hdes⟩ := C05_ack seq rt r
  have hflag := ack_flag_all seq rt
  unfold tryFrame
  rw [hdes]
  simp only [hflag, if_true]
  rw [hser]
  generalize UInt8.ofNat ((seq.val <<< 4) ||| 1 ||| (if rt then 2 else 0)) = F
  have hsig : toLE 2 Gen.signature = [0xDE, 0xAD] := by decide
  simp [slice, hsig, fromLE, Gen.typeHL]
  rw [if_neg (by omega), if_neg (by omega)]
  congr 1; omega

/-- `ws'` is `ws` with acknowledgement frames (the host's ACKs for whatever the NCP sent meanwhile) inserted anywhere -/
inductive WithAcks : List Frame → List Frame → Prop
  | nil : WithAcks [] []
  | frame (w : Frame) {ws ws' : List Frame} : WithAcks ws ws' → WithAcks (w :: ws) (w :: ws')
  | ack (seq : Fin 4) (rt : Bool) {ws ws' : List Frame} : WithAcks ws ws' → WithAcks ws (Frame.ack seq.val rt :: ws')

/-- the stream decoder returns this frame from its byte image, whatever follows -/
def Decodes (w : Frame) : Prop := ∀ r : Bytes, tryFrame (w.serialize ++ r) = .ok w w.serialize.length

theorem decodes_ack (seq : Fin 4) (rt : Bool) : Decodes (Frame.ack seq.val rt) := by
  intro r
  rw [tryFrame_ack seq rt r, (C05_ack seq rt []).1]; rfl

theorem decodes_stamped (fs ws : List Frame) (hst : Stamped fs ws) (hok : ∀ f ∈ fs, WireOK f) : ∀ w ∈ ws, Decodes w := by
  induction hst with
  | nil => intro w hw; cases hw
  | cons s f hrest ih =>
    intro w hw
    rcases List.mem_cons.mp hw with rfl | hw
    · intro r; exact hok f (by simp) s r
    · exact ih (fun g hg => hok g (by simp [hg])) w hw

theorem run_decodes (l : List Frame) (h : ∀ w ∈ l, Decodes w) :
    run tryFrame (l.map Frame.serialize).flatten = (l, []) := by
  induction l with
  | nil => exact run_nil
  | cons w l ih =>
    have hre := run_eq zbossScanner ((w :: l).map Frame.serialize).flatten
    simp only [zbossScanner] at hre
    rw [hre]
    simp only [List.map_cons, List.flatten_cons]
    rw [h w (by simp) _]
    simp only [List.drop_left]
    rw [ih (fun g hg => h g (by simp [hg]))]

def good (w : Frame) : Bool := !isAck w && w.hl.isSome

theorem deliveredOf_filter (tr : Bool) (l : List Frame) : deliveredOf (l.flatMap (outsOf tr)) = l.filter good := by
  induction l with
  | nil => rfl
  | cons w l ih =>
    rw [List.flatMap_cons, deliveredOf_append, ih]
    by_cases ha : isAck w = true
    · simp [outsOf, ha, good, deliveredOf]
    · have ha' : isAck w = false := by simpa using ha
      cases hh : w.hl with
      | none => cases tr <;> simp [outsOf, ha', good, deliveredOf, hh]
      | some p => cases tr <;> simp [outsOf, ha', good, deliveredOf, hh]

theorem isAck_ack : ∀ (s : Fin 4) (b : Bool), isAck (Frame.ack s.val b) = true := by decide +kernel

theorem withAcks_filter (ws ws' : List Frame) (h : WithAcks ws ws') (hg : ∀ w ∈ ws, good w = true) :
    ws'.filter good = ws := by
  induction h with
  | nil => rfl
  | frame w _ ih =>
    rw [List.filter_cons, if_pos (hg w (by simp)), ih (fun x hx => hg x (by simp [hx]))]
  | ack s b _ ih =>
    have : good (Frame.ack s.val b) = false := by simp [good, isAck_ack s b]
    rw [List.filter_cons, if_neg (by rw [this]; simp), ih hg]

theorem withAcks_decodes (ws ws' : List Frame) (h : WithAcks ws ws') (hd : ∀ w ∈ ws, Decodes w) : ∀ w ∈ ws', Decodes w := by
  induction h with
  | nil => intro w hw; cases hw
  | frame w _ ih =>
    intro x hx
    rcases List.mem_cons.mp hx with rfl | hx
    · exact hd _ (by simp)
    · exact ih (fun y hy => hd y (by simp [hy])) x hx
  | ack s b _ ih =>
    intro x hx
    rcases List.mem_cons.mp hx with rfl | hx
    · exact decodes_ack s b
    · exact ih hd x hx

end Zboss.Reasm
