import ZbossModel.Frame
import Mathlib.Tactic.IntervalCases
/-! Helper lemmas for C05: bit-field laws of the generated accessor code and
    the byte image of a header. -/
namespace Zboss
open Gen

/-- decides a get/set law of the generated bit-field code bit by bit -/
macro "bitfield" : tactic => `(tactic|
  (ext i hi
   simp only [LLHeader.signature, LLHeader.size, LLHeader.frame_type, LLHeader.flags, LLHeader.crc8,
     LLHeader.with_signature, LLHeader.with_size, LLHeader.with_type, LLHeader.with_flags, LLHeader.with_crc8,
     HLHeader.version, HLHeader.control_type, HLHeader.id, HLHeader.with_id, HLHeader.with_type, HLHeader.with_version,
     BitVec.getElem_and, BitVec.getElem_or, BitVec.getElem_ushiftRight, BitVec.getElem_shiftLeft,
     BitVec.getLsbD_and, BitVec.getLsbD_or, BitVec.getLsbD_shiftLeft, BitVec.getLsbD_ushiftRight]
   interval_cases i <;> simp (decide := true)))

/-! ## the 25 + 9 get/set laws (restated as property theorems in Props/C05) -/
namespace Gen
@[simp] theorem LLHeader.signature_with_signature (h v : BitVec 56) :
    LLHeader.signature (LLHeader.with_signature h v) = v &&& 0xFFFF#56 := by bitfield
@[simp] theorem LLHeader.signature_with_size (h v : BitVec 56) :
    LLHeader.signature (LLHeader.with_size h v) = LLHeader.signature h := by bitfield
@[simp] theorem LLHeader.signature_with_type (h v : BitVec 56) :
    LLHeader.signature (LLHeader.with_type h v) = LLHeader.signature h := by bitfield
@[simp] theorem LLHeader.signature_with_flags (h v : BitVec 56) :
    LLHeader.signature (LLHeader.with_flags h v) = LLHeader.signature h := by bitfield
@[simp] theorem LLHeader.signature_with_crc8 (h v : BitVec 56) :
    LLHeader.signature (LLHeader.with_crc8 h v) = LLHeader.signature h := by bitfield
@[simp] theorem LLHeader.size_with_signature (h v : BitVec 56) :
    LLHeader.size (LLHeader.with_signature h v) = LLHeader.size h := by bitfield
@[simp] theorem LLHeader.size_with_size (h v : BitVec 56) :
    LLHeader.size (LLHeader.with_size h v) = v &&& 0xFFFF#56 := by bitfield
@[simp] theorem LLHeader.size_with_type (h v : BitVec 56) :
    LLHeader.size (LLHeader.with_type h v) = LLHeader.size h := by bitfield
@[simp] theorem LLHeader.size_with_flags (h v : BitVec 56) :
    LLHeader.size (LLHeader.with_flags h v) = LLHeader.size h := by bitfield
@[simp] theorem LLHeader.size_with_crc8 (h v : BitVec 56) :
    LLHeader.size (LLHeader.with_crc8 h v) = LLHeader.size h := by bitfield
@[simp] theorem LLHeader.frame_type_with_signature (h v : BitVec 56) :
    LLHeader.frame_type (LLHeader.with_signature h v) = LLHeader.frame_type h := by bitfield
@[simp] theorem LLHeader.frame_type_with_size (h v : BitVec 56) :
    LLHeader.frame_type (LLHeader.with_size h v) = LLHeader.frame_type h := by bitfield
@[simp] theorem LLHeader.frame_type_with_type (h v : BitVec 56) :
    LLHeader.frame_type (LLHeader.with_type h v) = v &&& 0xFF#56 := by bitfield
@[simp] theorem LLHeader.frame_type_with_flags (h v : BitVec 56) :
    LLHeader.frame_type (LLHeader.with_flags h v) = LLHeader.frame_type h := by bitfield
@[simp] theorem LLHeader.frame_type_with_crc8 (h v : BitVec 56) :
    LLHeader.frame_type (LLHeader.with_crc8 h v) = LLHeader.frame_type h := by bitfield
@[simp] theorem LLHeader.flags_with_signature (h v : BitVec 56) :
    LLHeader.flags (LLHeader.with_signature h v) = LLHeader.flags h := by bitfield
@[simp] theorem LLHeader.flags_with_size (h v : BitVec 56) :
    LLHeader.flags (LLHeader.with_size h v) = LLHeader.flags h := by bitfield
@[simp] theorem LLHeader.flags_with_type (h v : BitVec 56) :
    LLHeader.flags (LLHeader.with_type h v) = LLHeader.flags h := by bitfield
@[simp] theorem LLHeader.flags_with_flags (h v : BitVec 56) :
    LLHeader.flags (LLHeader.with_flags h v) = v &&& 0xFF#56 := by bitfield
@[simp] theorem LLHeader.flags_with_crc8 (h v : BitVec 56) :
    LLHeader.flags (LLHeader.with_crc8 h v) = LLHeader.flags h := by bitfield
@[simp] theorem LLHeader.crc8_with_signature (h v : BitVec 56) :
    LLHeader.crc8 (LLHeader.with_signature h v) = LLHeader.crc8 h := by bitfield
@[simp] theorem LLHeader.crc8_with_size (h v : BitVec 56) :
    LLHeader.crc8 (LLHeader.with_size h v) = LLHeader.crc8 h := by bitfield
@[simp] theorem LLHeader.crc8_with_type (h v : BitVec 56) :
    LLHeader.crc8 (LLHeader.with_type h v) = LLHeader.crc8 h := by bitfield
@[simp] theorem LLHeader.crc8_with_flags (h v : BitVec 56) :
    LLHeader.crc8 (LLHeader.with_flags h v) = LLHeader.crc8 h := by bitfield
@[simp] theorem LLHeader.crc8_with_crc8 (h v : BitVec 56) :
    LLHeader.crc8 (LLHeader.with_crc8 h v) = v &&& 0xFF#56 := by bitfield
@[simp] theorem HLHeader.version_with_version (h v : BitVec 32) :
    HLHeader.version (HLHeader.with_version h v) = v &&& 0xFF#32 := by bitfield
@[simp] theorem HLHeader.version_with_type (h v : BitVec 32) :
    HLHeader.version (HLHeader.with_type h v) = HLHeader.version h := by bitfield
@[simp] theorem HLHeader.version_with_id (h v : BitVec 32) :
    HLHeader.version (HLHeader.with_id h v) = HLHeader.version h := by bitfield
@[simp] theorem HLHeader.control_type_with_version (h v : BitVec 32) :
    HLHeader.control_type (HLHeader.with_version h v) = HLHeader.control_type h := by bitfield
@[simp] theorem HLHeader.control_type_with_type (h v : BitVec 32) :
    HLHeader.control_type (HLHeader.with_type h v) = v &&& 0xFF#32 := by bitfield
@[simp] theorem HLHeader.control_type_with_id (h v : BitVec 32) :
    HLHeader.control_type (HLHeader.with_id h v) = HLHeader.control_type h := by bitfield
@[simp] theorem HLHeader.id_with_version (h v : BitVec 32) :
    HLHeader.id (HLHeader.with_version h v) = HLHeader.id h := by bitfield
@[simp] theorem HLHeader.id_with_type (h v : BitVec 32) :
    HLHeader.id (HLHeader.with_type h v) = HLHeader.id h := by bitfield
@[simp] theorem HLHeader.id_with_id (h v : BitVec 32) :
    HLHeader.id (HLHeader.with_id h v) = v &&& 0xFFFF#32 := by bitfield
/-- set-set law: the later write wins -/
theorem LLHeader.with_flags_with_flags (h a b : BitVec 56) :
    LLHeader.with_flags (LLHeader.with_flags h a) b = LLHeader.with_flags h b := by bitfield
end Gen

/-! ## values of the getters as arithmetic on the 56-bit integer -/

theorem and_mask (n : Nat) (k : Nat) : n &&& (2 ^ k - 1) = n % 2 ^ k := Nat.and_two_pow_sub_one_eq_mod n k

theorem LL.sig_eq (h : LL) : LL.sig h = h.toNat % 65536 := by
  simp only [LL.sig, LLHeader.signature, BitVec.toNat_and, BitVec.toNat_ofNat]
  exact and_mask h.toNat 16
theorem LL.size_eq (h : LL) : LL.size h = h.toNat / 65536 % 65536 := by
  simp only [LL.size, LLHeader.size, BitVec.toNat_and, BitVec.toNat_ushiftRight, BitVec.toNat_ofNat,
    Nat.shiftRight_eq_div_pow]
  exact and_mask (h.toNat / 2 ^ 16) 16
theorem LL.ftype_eq (h : LL) : LL.ftype h = h.toNat / 4294967296 % 256 := by
  simp only [LL.ftype, LLHeader.frame_type, BitVec.toNat_and, BitVec.toNat_ushiftRight, BitVec.toNat_ofNat,
    Nat.shiftRight_eq_div_pow]
  exact and_mask (h.toNat / 2 ^ 32) 8
theorem LL.flags_eq (h : LL) : LL.flags h = h.toNat / 1099511627776 % 256 := by
  simp only [LL.flags, LLHeader.flags, BitVec.toNat_and, BitVec.toNat_ushiftRight, BitVec.toNat_ofNat,
    Nat.shiftRight_eq_div_pow]
  exact and_mask (h.toNat / 2 ^ 40) 8
theorem LL.crc_eq (h : LL) : LL.crc h = h.toNat / 281474976710656 := by
  simp only [LL.crc, LLHeader.crc8, BitVec.toNat_ushiftRight, Nat.shiftRight_eq_div_pow]

theorem u8 (n : Nat) : (UInt8.ofNat (n % 256)).toNat = n % 256 := by simp [UInt8.toNat_ofNat']

/-- byte image of any header: marker, length, type, flags, crc - all little-endian -/
theorem LL.bytes_eq (h : LL) :
    LL.bytes h = toLE 2 (LL.sig h) ++ toLE 2 (LL.size h) ++
      [UInt8.ofNat (LL.ftype h), UInt8.ofNat (LL.flags h), UInt8.ofNat (LL.crc h)] := by
  have hlt : h.toNat < 2 ^ 56 := h.isLt
  simp only [LL.bytes, toLE, LL.sig_eq, LL.size_eq, LL.ftype_eq, LL.flags_eq, LL.crc_eq,
    List.cons_append, List.nil_append, List.cons.injEq, and_true]
  refine ⟨?_, ?_, ?_, ?_, ?_, ?_, ?_⟩ <;> congr 1 <;> omega

theorem LL.bytes_length (h : LL) : (LL.bytes h).length = 7 := by simp [LL.bytes]

theorem LL.ofBytes_bytes (h : LL) : LL.ofBytes (LL.bytes h ++ r) = h := by
  have hl := LL.bytes_length h
  simp only [LL.ofBytes, List.take_left' hl]
  simp only [LL.bytes]
  rw [fromLE_toLE _ _ (by have := h.isLt; simpa using this)]
  simp

theorem LL.bytes_ofBytes (bs : Bytes) (h7 : 7 ≤ bs.length) : LL.bytes (LL.ofBytes bs) = bs.take 7 := by
  have hl : (bs.take 7).length = 7 := by simp; omega
  have hlt := fromLE_lt (bs.take 7)
  rw [hl] at hlt
  simp only [LL.bytes, LL.ofBytes, BitVec.toNat_ofNat, Nat.mod_eq_of_lt hlt]
  have := toLE_fromLE (bs.take 7)
  rwa [hl] at this


theorem HLH.bytes_length (h : HLH) : (HLH.bytes h).length = 4 := by simp [HLH.bytes]

theorem HLH.ofBytes_bytes (h : HLH) (r : Bytes) : HLH.ofBytes (HLH.bytes h ++ r) = h := by
  have hl := HLH.bytes_length h
  simp only [HLH.ofBytes, List.take_left' hl]
  simp only [HLH.bytes]
  rw [fromLE_toLE _ _ (by have := h.isLt; simpa using this)]
  simp

/-! ## Nat-level views of the setters -/

theorem ofNat56_and (v : Nat) (k : Nat) (hk : k ≤ 56) :
    (BitVec.ofNat 56 v &&& BitVec.ofNat 56 (2 ^ k - 1)).toNat = v % 2 ^ k := by
  rw [BitVec.toNat_and, BitVec.toNat_ofNat, BitVec.toNat_ofNat]
  have h1 : (2 ^ k - 1) % 2 ^ 56 = 2 ^ k - 1 := by
    apply Nat.mod_eq_of_lt
    have : 2 ^ k ≤ 2 ^ 56 := Nat.pow_le_pow_right (by omega) hk
    have : 0 < 2 ^ k := Nat.two_pow_pos k
    omega
  rw [h1, and_mask]
  exact Nat.mod_mod_of_dvd v (Nat.pow_dvd_pow 2 hk)

@[simp] theorem LL.sig_withSig (h : LL) (v : Nat) : LL.sig (LL.withSig h v) = v % 65536 := by
  simp only [LL.sig, LL.withSig, LLHeader.signature_with_signature]; exact ofNat56_and v 16 (by omega)
@[simp] theorem LL.size_withSize (h : LL) (v : Nat) : LL.size (LL.withSize h v) = v % 65536 := by
  simp only [LL.size, LL.withSize, LLHeader.size_with_size]; exact ofNat56_and v 16 (by omega)
@[simp] theorem LL.ftype_withType (h : LL) (v : Nat) : LL.ftype (LL.withType h v) = v % 256 := by
  simp only [LL.ftype, LL.withType, LLHeader.frame_type_with_type]; exact ofNat56_and v 8 (by omega)
@[simp] theorem LL.flags_withFlags (h : LL) (v : Nat) : LL.flags (LL.withFlags h v) = v % 256 := by
  simp only [LL.flags, LL.withFlags, LLHeader.flags_with_flags]; exact ofNat56_and v 8 (by omega)
@[simp] theorem LL.crc_withCrc (h : LL) (v : Nat) : LL.crc (LL.withCrc h v) = v % 256 := by
  simp only [LL.crc, LL.withCrc, LLHeader.crc8_with_crc8]; exact ofNat56_and v 8 (by omega)

@[simp] theorem LL.sig_withSize (h : LL) (v : Nat) : LL.sig (LL.withSize h v) = LL.sig h := by simp [LL.sig, LL.withSize]
@[simp] theorem LL.sig_withType (h : LL) (v : Nat) : LL.sig (LL.withType h v) = LL.sig h := by simp [LL.sig, LL.withType]
@[simp] theorem LL.sig_withFlags (h : LL) (v : Nat) : LL.sig (LL.withFlags h v) = LL.sig h := by simp [LL.sig, LL.withFlags]
@[simp] theorem LL.sig_withCrc (h : LL) (v : Nat) : LL.sig (LL.withCrc h v) = LL.sig h := by simp [LL.sig, LL.withCrc]
@[simp] theorem LL.size_withSig (h : LL) (v : Nat) : LL.size (LL.withSig h v) = LL.size h := by simp [LL.size, LL.withSig]
@[simp] theorem LL.size_withType (h : LL) (v : Nat) : LL.size (LL.withType h v) = LL.size h := by simp [LL.size, LL.withType]
@[simp] theorem LL.size_withFlags (h : LL) (v : Nat) : LL.size (LL.withFlags h v) = LL.size h := by simp [LL.size, LL.withFlags]
@[simp] theorem LL.size_withCrc (h : LL) (v : Nat) : LL.size (LL.withCrc h v) = LL.size h := by simp [LL.size, LL.withCrc]
@[simp] theorem LL.ftype_withSig (h : LL) (v : Nat) : LL.ftype (LL.withSig h v) = LL.ftype h := by simp [LL.ftype, LL.withSig]
@[simp] theorem LL.ftype_withSize (h : LL) (v : Nat) : LL.ftype (LL.withSize h v) = LL.ftype h := by simp [LL.ftype, LL.withSize]
@[simp] theorem LL.ftype_withFlags (h : LL) (v : Nat) : LL.ftype (LL.withFlags h v) = LL.ftype h := by simp [LL.ftype, LL.withFlags]
@[simp] theorem LL.ftype_withCrc (h : LL) (v : Nat) : LL.ftype (LL.withCrc h v) = LL.ftype h := by simp [LL.ftype, LL.withCrc]
@[simp] theorem LL.flags_withSig (h : LL) (v : Nat) : LL.flags (LL.withSig h v) = LL.flags h := by simp [LL.flags, LL.withSig]
@[simp] theorem LL.flags_withSize (h : LL) (v : Nat) : LL.flags (LL.withSize h v) = LL.flags h := by simp [LL.flags, LL.withSize]
@[simp] theorem LL.flags_withType (h : LL) (v : Nat) : LL.flags (LL.withType h v) = LL.flags h := by simp [LL.flags, LL.withType]
@[simp] theorem LL.flags_withCrc (h : LL) (v : Nat) : LL.flags (LL.withCrc h v) = LL.flags h := by simp [LL.flags, LL.withCrc]
@[simp] theorem LL.crc_withSig (h : LL) (v : Nat) : LL.crc (LL.withSig h v) = LL.crc h := by simp [LL.crc, LL.withSig]
@[simp] theorem LL.crc_withSize (h : LL) (v : Nat) : LL.crc (LL.withSize h v) = LL.crc h := by simp [LL.crc, LL.withSize]
@[simp] theorem LL.crc_withType (h : LL) (v : Nat) : LL.crc (LL.withType h v) = LL.crc h := by simp [LL.crc, LL.withType]
@[simp] theorem LL.crc_withFlags (h : LL) (v : Nat) : LL.crc (LL.withFlags h v) = LL.crc h := by simp [LL.crc, LL.withFlags]

/-- header of an all-zero value: every field 0 -/
theorem LL.zero_fields : LL.sig 0#56 = 0 ∧ LL.size 0#56 = 0 ∧ LL.ftype 0#56 = 0 ∧ LL.flags 0#56 = 0 ∧ LL.crc 0#56 = 0 := by
  decide

/-- the checksummed part of a header's byte image -/
theorem LL.crcOf_eq (h : LL) :
    LL.crcOf h = (Crc.crc8B (toLE 2 (LL.size h) ++ [UInt8.ofNat (LL.ftype h), UInt8.ofNat (LL.flags h)])).toNat := by
  simp only [LL.crcOf, LL.bytes_eq, slice, toLE]
  rfl

/-- sealing only writes the crc field, and the checksummed bytes do not contain it -/
theorem LL.crcOf_withCrc (h : LL) (v : Nat) : LL.crcOf (LL.withCrc h v) = LL.crcOf h := by
  simp [LL.crcOf_eq]

end Zboss
