import ZbossModel.Proofs.HostLoss
/-! The model's event loop comes to rest.  `settle` runs ready tasks with a fuel; here the fuel `step` gives it
    (`settleFuel`) is shown to be enough, for every reachable state: a measure - four times the number of steps the
    requests can still take before they block (`mrank`, at most six per request) plus the length of the ready list -
    drops with every task run.  Hence after every event of every history the ready list is empty: the hypothesis
    `ready = []` of the theorems about successive events holds in every reachable state. -/
namespace Zboss.Host

/-- steps a request in this phase can still take before it blocks or ends, plus one while it is running -/
def mrank (tr : Bool) : Phase → Nat
  | .done => 0
  | .waitB => 6
  | .waitM => 5
  | .acked => if tr then 4 else 3
  | .sendfrag => if tr then 3 else 2
  | .waitT => if tr then 2 else 4
  | .waitAck => 1
  | .waitRsp => 1

def Mv (v : View) : Nat := (v.cores.map fun c => mrank v.transport c.phase).sum

theorem mrank_le (tr : Bool) (p : Phase) : mrank tr p ≤ 6 := by
  cases p <;> cases tr <;> simp [mrank]

theorem Mv_upd_le (v : View) (i : Nat) (g : Core → Core)
    (h : ∀ c ∈ v.cores, c.id = i → mrank v.transport (g c).phase ≤ mrank v.transport c.phase) : Mv (v.upd i g) ≤ Mv v := by
  simp only [Mv, View.upd, List.map_map]
  apply sum_map_le
  intro c hc
  simp only [Function.comp]
  split
  · rename_i hi; exact h c hc (by simpa using hi)
  · exact Nat.le_refl _

theorem Mv_upd_lt (v : View) (i : Nat) (g : Core → Core)
    (h : ∀ c ∈ v.cores, c.id = i → mrank v.transport (g c).phase ≤ mrank v.transport c.phase)
    (a : Core) (ha : a ∈ v.cores) (hai : a.id = i) (hlt : mrank v.transport (g a).phase < mrank v.transport a.phase) :
    Mv (v.upd i g) + 1 ≤ Mv v := by
  simp only [Mv, View.upd, List.map_map]
  apply Nat.succ_le_of_lt
  apply sum_map_lt _ _ _ _ a ha
  · simp only [Function.comp]; rw [if_pos (by simpa using hai)]; exact hlt
  · intro c hc
    simp only [Function.comp]
    split
    · rename_i hi; exact h c hc (by simpa using hi)
    · exact Nat.le_refl _

@[simp] theorem Mv_emit (v : View) (o : Out) : Mv (v.emit o) = Mv v := rfl
@[simp] theorem Mv_dropL (v : View) (i : Nat) : Mv (v.dropL i) = Mv v := rfl

theorem Mv_done_le (v : View) (i : Nat) (o : Outcome) : Mv (((v.upd i toDone).dropL i).emit (.done i o)) ≤ Mv v := by
  rw [Mv_emit, Mv_dropL]
  exact Mv_upd_le v i toDone (fun c _ _ => by simp [toDone, mrank])

theorem Mv_done_lt (v : View) (i : Nat) (o : Outcome) (a : Core) (ha : a ∈ v.cores) (hai : a.id = i) (hp : a.phase ≠ .done) :
    Mv (((v.upd i toDone).dropL i).emit (.done i o)) + 1 ≤ Mv v := by
  rw [Mv_emit, Mv_dropL]
  refine Mv_upd_lt v i toDone (fun c _ _ => by simp [toDone, mrank]) a ha hai ?_
  simp only [toDone]
  cases h : a.phase <;> first | exact absurd h hp | (cases v.transport <;> simp [mrank])

/-- a move of the one request with id `i` -/
theorem Mv_move (st : St) (i : Nat) (r : Req) (hinv : Inv2 st) (hg : getReq st i = some r) (g : Core → Core) :
    (mrank st.transport (g (core r)).phase ≤ mrank st.transport r.phase → Mv ((view st).upd i g) ≤ Mv (view st)) ∧
    (mrank st.transport (g (core r)).phase < mrank st.transport r.phase → Mv ((view st).upd i g) + 1 ≤ Mv (view st)) := by
  obtain ⟨hrm, hrid⟩ := getReq_mem st i r hg
  have hu := uniq_of_inv2 st hinv
  have h0 : core r ∈ (view st).cores := List.mem_map.mpr ⟨r, hrm, rfl⟩
  have hall : ∀ c ∈ (view st).cores, c.id = i → c = core r := fun c hc hci =>
    hu.id c hc _ h0 (by show c.id = r.id; rw [hrid]; exact hci)
  constructor
  · intro hle
    exact Mv_upd_le _ i g (fun c hc hci => by rw [hall c hc hci]; exact hle)
  · intro hlt
    exact Mv_upd_lt _ i g (fun c hc hci => by rw [hall c hc hci]; exact Nat.le_of_lt hlt) (core r) h0 hrid hlt

/-- no task micro-step raises the measure -/
theorem Mv_micro (st : St) (i : Nat) (hinv : Inv2 st) (hf : FlagInv st) :
    Mv (view (runReq 1 st i)) ≤ Mv (view st) := by
  cases hg : getReq st i with
  | none =>
    have : runReq 1 st i = st := by rw [runReq]; simp only [hg]
    rw [this]; exact Nat.le_refl _
  | some r =>
    by_cases hsf : r.phase = .sendfrag
    · by_cases ho : st.isOpen = true
      · have htr : st.transport = true := by
          cases h : st.transport
          · have := hf h; rw [ho] at this; cases this
          · rfl
        have : runReq 1 st i = updReq st i fun r => { r with phase := .waitT } := by
          rw [runReq]; simp only [hg, hsf, ho, Bool.not_true, runReq]; rfl
        rw [this, view_updReq st i _ (fun c => { c with phase := .waitT }) (fun x => rfl)]
        exact (Mv_move st i r hinv hg _).1 (by show mrank _ Phase.waitT ≤ _; rw [hsf, htr]; simp [mrank])
      · have hc : st.isOpen = false := by simpa using ho
        have : runReq 1 st i = unwind st i .runtimeError := by
          rw [runReq]; simp only [hg, hsf, hc, Bool.not_false, if_true]
        rw [this, view_unwind]; exact Mv_done_le _ i _
    · have hm := micro_view st i r hg
      generalize view (runReq 1 st i) = v' at hm
      have key : ∀ g : Core → Core, mrank st.transport (g (core r)).phase ≤ mrank st.transport r.phase →
          Mv ((view st).upd i g) ≤ Mv (view st) := fun g => (Mv_move st i r hinv hg g).1
      cases hm with
      | stay => exact Nat.le_refl _
      | move g ha =>
        rcases ha with ⟨hp, rfl⟩ | ⟨hp, rfl⟩ | ⟨hp, _⟩ | ⟨hp, ht, rfl⟩ | ⟨hp, _, rfl⟩ | ⟨hp, _, rfl⟩
        · exact key _ (by have : r.phase = .waitB := hp
                          rw [this]; cases st.transport <;> simp [mrank])
        · exact key _ (by have : r.phase = .waitM := hp
                          rw [this]; cases st.transport <;> simp [mrank])
        · exact absurd hp hsf
        · exact key _ (by have : r.phase = .waitT := hp
                          have ht' : st.transport = false := ht
                          rw [this, ht']; simp [mrank])
        · exact key _ (by have : r.phase = .acked := hp
                          rw [this]; cases st.transport <;> simp [mrank])
        · exact key _ (by have : r.phase = .acked := hp
                          rw [this]; cases st.transport <;> simp [mrank])
      | write s hp ht =>
        have : Mv (((view st).emit (.write i (core r).frag s (core r).nfrags)).upd i fun c => { c with phase := .waitAck })
            = Mv ((view st).upd i fun c => { c with phase := .waitAck }) := rfl
        rw [this]
        exact key _ (by have : r.phase = .waitT := hp
                        have ht' : st.transport = true := ht
                        rw [this, ht']; simp [mrank])
      | fin o _ => exact Mv_done_le _ i o

/-! ### the ready list under the primitives -/

@[simp] theorem ready_updReq (st : St) (i : Nat) (f : Req → Req) : (updReq st i f).ready = st.ready := rfl
@[simp] theorem ready_emit (st : St) (o : Out) : (emit st o).ready = st.ready := rfl
@[simp] theorem ready_setQueue (st : St) (l : Lock) (q : List Nat) : (setQueue st l q).ready = st.ready := by
  cases l <;> rfl

@[simp] theorem ready_acquire (st : St) (l : Lock) (i : Nat) : (acquire st l i).1.ready = st.ready := by
  unfold acquire
  simp only []
  generalize (if (queue st l).contains i = true then queue st l else queue st l ++ [i]) = q'
  by_cases hc : q'.head? = some i
  · rw [if_pos hc]; simp
  · rw [if_neg hc]; simp

theorem ready_release_le (st : St) (l : Lock) (i : Nat) : (release st l i).ready.length ≤ st.ready.length + 1 := by
  unfold release
  simp only []
  split <;> simp

theorem ready_unwindLock_le (st : St) (l : Lock) (i : Nat) : (unwindLock st l i).ready.length ≤ st.ready.length + 1 := by
  unfold unwindLock
  simp only []
  split
  · omega
  · split
    · omega
    · split
      · exact ready_release_le st l i
      · split
        · split <;> simp
        · simp

@[simp] theorem ready_finish (st : St) (i : Nat) (o : Outcome) : (finish st i o).ready = st.ready := rfl

theorem ready_unwind_le (st : St) (i : Nat) (o : Outcome) : (unwind st i o).ready.length ≤ st.ready.length + 3 := by
  unfold unwind
  rw [ready_finish]
  have h1 := ready_unwindLock_le st .T i
  have h2 := ready_unwindLock_le (unwindLock st .T i) .M i
  have h3 := ready_unwindLock_le (unwindLock (unwindLock st .T i) .M i) .B i
  omega

/-- **one task micro-step**: either the ready list is untouched, or the measure drops and at most three tasks are
    woken -/
theorem micro_measure (st : St) (i : Nat) (hinv : Inv2 st) :
    (runReq 1 st i).ready = st.ready ∨
    (Mv (view (runReq 1 st i)) + 1 ≤ Mv (view st) ∧ (runReq 1 st i).ready.length ≤ st.ready.length + 3) := by
  cases hg : getReq st i with
  | none => left; rw [runReq]; simp only [hg]
  | some r =>
    obtain ⟨hrm, hrid⟩ := getReq_mem st i r hg
    have h0 : core r ∈ (view st).cores := List.mem_map.mpr ⟨r, hrm, rfl⟩
    have hfin : ∀ o, r.phase ≠ .done →
        Mv (view (unwind st i o)) + 1 ≤ Mv (view st) ∧ (unwind st i o).ready.length ≤ st.ready.length + 3 := by
      intro o hp
      refine ⟨?_, ready_unwind_le st i o⟩
      rw [view_unwind]; exact Mv_done_lt _ i o (core r) h0 hrid hp
    rw [runReq]
    simp only [hg, runReq]
    cases hp : r.phase with
    | done => left; rfl
    | waitAck => left; rfl
    | waitB =>
      left
      simp only []
      split
      · have hv := ready_acquire st .B i
        generalize acquire st .B i = a at hv
        obtain ⟨st', ok⟩ := a
        simp only [] at hv ⊢
        split
        · rw [ready_updReq]; exact hv
        · exact hv
      · rfl
    | waitM =>
      left
      simp only []
      have hv := ready_acquire st .M i
      generalize acquire st .M i = a at hv
      obtain ⟨st', ok⟩ := a
      simp only [] at hv ⊢
      split
      · rw [ready_updReq]; exact hv
      · exact hv
    | sendfrag =>
      simp only []
      split
      · right; exact hfin _ (by rw [hp]; decide)
      · left; rfl
    | waitT =>
      left
      simp only []
      have hv := ready_acquire st .T i
      generalize acquire st .T i = a at hv
      obtain ⟨st', ok⟩ := a
      simp only [] at hv ⊢
      split
      · exact hv
      · split
        · rw [ready_updReq, ready_emit]; exact hv
        · rw [ready_updReq]; exact hv
    | acked =>
      right
      simp only []
      split
      · rename_i hlt
        refine ⟨?_, ?_⟩
        · rw [view_updReq _ i _ (fun c => { c with frag := r.frag + 1, phase := .sendfrag }) (fun x => rfl), view_release]
          exact (Mv_move st i r hinv hg _).2 (by show mrank _ Phase.sendfrag < _; rw [hp]; cases st.transport <;> simp [mrank])
        · rw [ready_updReq]
          have := ready_release_le st .T i
          omega
      · rename_i hlt
        refine ⟨?_, ?_⟩
        · rw [view_updReq _ i _ (fun c => { c with frag := r.frag + 1, phase := .waitRsp }) (fun x => rfl), view_release,
            view_release]
          exact (Mv_move st i r hinv hg _).2 (by show mrank _ Phase.waitRsp < _; rw [hp]; cases st.transport <;> simp [mrank])
        · rw [ready_updReq]
          have h1 := ready_release_le st .T i
          have h2 := ready_release_le (release st .T i) .M i
          omega
    | waitRsp =>
      simp only []
      cases hgot : r.got with
      | nothing => left; rfl
      | cancelled => right; simp only []; exact hfin _ (by rw [hp]; decide)
      | rsp =>
        right
        simp only []
        split
        · refine ⟨?_, ?_⟩
          · rw [view_finish, view_release]; exact Mv_done_lt _ i _ (core r) h0 hrid (by show r.phase ≠ _; rw [hp]; decide)
          · rw [ready_finish]
            have := ready_release_le st .B i
            omega
        · refine ⟨?_, ?_⟩
          · rw [view_finish]; exact Mv_done_lt _ i _ (core r) h0 hrid (by show r.phase ≠ _; rw [hp]; decide)
          · rw [ready_finish]; omega

/-! ### the measure -/

def nu (st : St) : Nat := 4 * Mv (view st) + st.ready.length

theorem nu_micro (st : St) (i : Nat) (hinv : Inv2 st) (hf : FlagInv st) : nu (runReq 1 st i) ≤ nu st := by
  unfold nu
  have hle := Mv_micro st i hinv hf
  rcases micro_measure st i hinv with h | ⟨h1, h2⟩
  · rw [h]; omega
  · omega

theorem nu_runReq (fuel : Nat) (st : St) (i : Nat) (hinv : Inv2 st) (hf : FlagInv st) : nu (runReq fuel st i) ≤ nu st := by
  have := runReq_ind (fun s => Inv2 s ∧ FlagInv s ∧ nu s ≤ nu st) i
    (fun s hs => ⟨inv2_runReq 1 s i hs.1, flag_runReq 1 s i hs.2.1, Nat.le_trans (nu_micro s i hs.1 hs.2.1) hs.2.2⟩)
    fuel st ⟨hinv, hf, Nat.le_refl _⟩
  exact this.2.2

/-- **the loop comes to rest**: with at least `nu st` task runs allowed, `settle` ends with an empty ready list -/
theorem settle_rest (fuel : Nat) (st : St) (hinv : Inv2 st) (hf : FlagInv st) (h : nu st ≤ fuel) :
    (settle fuel st).ready = [] := by
  induction fuel generalizing st with
  | zero =>
    have : st.ready.length = 0 := by unfold nu at h; omega
    show st.ready = []
    exact List.eq_nil_of_length_eq_zero this
  | succ fuel ih =>
    unfold settle
    cases hr : st.ready with
    | nil => simp only []; exact hr
    | cons i rest =>
      simp only []
      have hinv' : Inv2 ({ st with ready := rest } : St) := inv2_congr st _ rfl rfl rfl rfl hinv
      have hf' : FlagInv ({ st with ready := rest } : St) := hf
      have hn : nu ({ st with ready := rest } : St) + 1 = nu st := by
        unfold nu
        rw [view_ready, hr]
        simp only [List.length_cons]
        omega
      apply ih _ (inv2_runReq 64 _ i hinv') (flag_runReq 64 _ i hf')
      have := nu_runReq 64 _ i hinv' hf'
      omega

theorem Mv_le (v : View) : Mv v ≤ 6 * v.cores.length := by
  unfold Mv
  have : ∀ (l : List Core), (l.map fun c => mrank v.transport c.phase).sum ≤ 6 * l.length := by
    intro l
    induction l with
    | nil => simp
    | cons a t ih =>
      simp only [List.map_cons, List.sum_cons, List.length_cons]
      have := mrank_le v.transport a.phase
      omega
  exact this _

theorem nu_le_fuel (st : St) : nu st ≤ settleFuel st := by
  unfold nu settleFuel
  have := Mv_le (view st)
  have hl : (view st).cores.length = st.reqs.length := by simp [view]
  omega

/-- the fuel `step` gives to `settle` is enough -/
theorem settleAll_rest (st : St) (hinv : Inv2 st) (hf : FlagInv st) : (settleAll st).ready = [] :=
  settle_rest _ st hinv hf (nu_le_fuel st)

/-- events that run no task leave the ready list alone -/
theorem pre_ready_of_false (st : St) (e : Ev) (h : (pre st e).2 = false) : (pre st e).1.ready = st.ready := by
  cases e with
  | start id key blocking nfrags timeout =>
    simp only [pre] at h ⊢
    split
    · rfl
    · split
      · rfl
      · rename_i h1 h2; simp only [h1, h2] at h; cases h
  | rxAck k => simp only [pre] at h; split at h <;> cases h
  | rxRsp key =>
    simp only [pre] at h
    split at h <;> cases h
  | tick =>
    simp only [pre] at h ⊢
    split
    · rfl
    · rename_i d hd; simp only [hd] at h; cases h
  | cancel id =>
    simp only [pre] at h ⊢
    split
    · rfl
    · split
      · rfl
      · rename_i r hr hp; simp only [hr, hp] at h; cases h
  | close => simp only [pre] at h; split at h <;> cases h
  | lost => simp only [pre] at h; cases h
  | setReset b => rfl
  | connect => simp only [pre]; split <;> rfl

/-- **after every event the loop is at rest** -/
theorem rest_step (st : St) (e : Ev) (hg : Good st) (hq : st.ready = []) : (step st e).ready = [] := by
  obtain ⟨⟨hist, hb⟩, _, hf, _⟩ := good_pre st e hg
  rw [step_eq_pre]
  cases h2 : (pre st e).2
  · show (pre st e).1.ready = []
    rw [pre_ready_of_false st e h2]; exact hq
  · exact settleAll_rest _ hb.1 hf

/-- **in every reachable state the ready list is empty**: the hypothesis `ready = []` of the theorems about successive
    events is met after every event of every history -/
theorem rest_reachable (evs : List Ev) : (runEvents {} evs).1.ready = [] := by
  unfold runEvents
  rw [runEvents_fst]
  have : ∀ (evs : List Ev) (st : St), Good st → st.ready = [] → (evs.foldl step st).ready = [] := by
    intro evs
    induction evs with
    | nil => intro st _ h; exact h
    | cons e es ih => intro st hg h; exact ih _ (good_step st e hg) (rest_step st e hg h)
  exact this evs {} good_init rfl

theorem good_ticks (k : Nat) (st : St) (hg : Good st) : Good (ticks k st) := by
  induction k generalizing st with
  | zero => exact hg
  | succ k ih => exact ih _ (good_step st .tick hg)

theorem rest_ticks (k : Nat) (st : St) (hg : Good st) (hq : st.ready = []) : (ticks k st).ready = [] := by
  induction k generalizing st with
  | zero => exact hq
  | succ k ih => exact ih _ (good_step st .tick hg) (rest_step st .tick hg hq)

/-! ### the connection counter -/

theorem gen_pre (st : St) (e : Ev) (hne : e ≠ .connect) : (pre st e).1.gen = st.gen := by
  cases e with
  | start id key blocking nfrags timeout =>
    simp only [pre]
    split
    · rfl
    · split <;> rfl
  | rxAck k => simp only [pre]; split <;> rfl
  | rxRsp key =>
    simp only [pre]
    generalize hst1 : (if ({ st with out := [] } : St).transport = true then emit ({ st with out := [] } : St) Out.wack else ({ st with out := [] } : St)) = st1
    have h1 : st1.gen = st.gen := by rw [← hst1]; split <;> rfl
    cases st1.listeners.find? (fun l => l.2 == key) with
    | none => exact h1
    | some p =>
      obtain ⟨i, k⟩ := p
      simp only []
      split <;> exact h1
  | tick =>
    simp only [pre]
    cases nextDeadline ({ st with out := [] } : St) with
    | none => rfl
    | some d => simp only []; rw [(frame_foldl_unwind _ _ _).gen]
  | cancel id =>
    simp only [pre]
    cases getReq ({ st with out := [] } : St) id with
    | none => rfl
    | some r =>
      simp only []
      split
      · rfl
      · rw [(frame_unwind _ _ _).gen]
  | close => simp only [pre]; split <;> split <;> rfl
  | lost => simp only [pre]; split <;> rfl
  | setReset b => rfl
  | connect => exact absurd rfl hne

theorem gen_step (st : St) (e : Ev) (hne : e ≠ .connect) : (step st e).gen = st.gen := by
  rw [step_eq_pre]
  cases (pre st e).2
  · exact gen_pre st e hne
  · show (settle _ (pre st e).1).gen = st.gen
    rw [(frame_settle _ _).gen]; exact gen_pre st e hne

/-- a history without `connect()` stays on the first connection -/
theorem gen_zero (evs : List Ev) (hnc : ∀ e ∈ evs, e ≠ .connect) : (runEvents {} evs).1.gen = 0 := by
  unfold runEvents
  rw [runEvents_fst]
  have : ∀ (evs : List Ev) (st : St), (∀ e ∈ evs, e ≠ .connect) → (evs.foldl step st).gen = st.gen := by
    intro evs
    induction evs with
    | nil => intro st _; rfl
    | cons e es ih =>
      intro st h
      simp only [List.foldl_cons]
      rw [ih _ (fun x hx => h x (List.mem_cons_of_mem _ hx)), gen_step st e (h e (List.mem_cons_self ..))]
  exact this evs {} hnc

end Zboss.Host
