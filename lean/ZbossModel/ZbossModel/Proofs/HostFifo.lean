import ZbossModel.Proofs.HostTimers
import ZbossModel.Proofs.HostTrace2
/-! First come, first served - as a statement about whole histories.  `asyncio.Lock` wakes its waiters in the order in
    which they queued; here: the blocking lock's queue is always ordered like the *issue order* of the requests
    (a sub-list of the request list), because a request joins it on its very first step, when it is still the newest
    request.  With the lock discipline (the holder is the head of the queue) and no-lost-wake-up + rest (a blocking request
    still waiting for the lock is in the queue) this gives: a blocking request never gets past the blocking lock while a
    blocking request issued earlier is still waiting for it. -/
namespace Zboss.Host

/-! ### how one task step changes the blocking lock's queue -/

@[simp] theorem bq_updReq (st : St) (i : Nat) (f : Req → Req) : (updReq st i f).bq = st.bq := rfl
@[simp] theorem bq_emit (st : St) (o : Out) : (emit st o).bq = st.bq := rfl
@[simp] theorem bq_finish (st : St) (i : Nat) (o : Outcome) : (finish st i o).bq = st.bq := rfl

theorem bq_setQueue (st : St) (l : Lock) (q : List Nat) : (setQueue st l q).bq = if l = .B then q else st.bq := by
  cases l <;> rfl

theorem bq_acquire (st : St) (l : Lock) (i : Nat) :
    (acquire st l i).1.bq = if l = .B then (if st.bq.contains i then st.bq else st.bq ++ [i]) else st.bq := by
  unfold acquire
  simp only []
  generalize hq : (if (queue st l).contains i = true then queue st l else queue st l ++ [i]) = q'
  have : (setQueue st l q').bq = if l = .B then q' else st.bq := bq_setQueue st l q'
  by_cases hc : q'.head? = some i
  · rw [if_pos hc]; simp only [bq_updReq]; rw [this]; cases l <;> simp_all [queue]
  · rw [if_neg hc]; simp only []; rw [this]; cases l <;> simp_all [queue]

theorem bq_release (st : St) (l : Lock) (i : Nat) : (release st l i).bq = if l = .B then st.bq.drop 1 else st.bq := by
  unfold release
  simp only []
  split <;> (cases l <;> simp [setQueue, updReq, queue])

/-- leaving the blocking lock: the queue stays, loses its head (`i`, the holder), or loses `i` -/
theorem bq_unwindLock_B (st : St) (i : Nat) :
    (unwindLock st .B i).bq = st.bq ∨ (st.bq.head? = some i ∧ (unwindLock st .B i).bq = st.bq.drop 1) ∨
    (unwindLock st .B i).bq = st.bq.filter (· != i) := by
  unfold unwindLock
  simp only []
  split
  · left; rfl
  · cases getReq st i with
    | none => left; rfl
    | some r =>
      simp only []
      split
      · rename_i hc
        right; left
        refine ⟨?_, by rw [bq_release]; simp⟩
        simp only [Bool.and_eq_true, decide_eq_true_eq] at hc
        exact hc.1
      · right; right
        split
        · split <;> simp [setQueue, queue]
        · simp [setQueue, queue]

theorem bq_unwindLock_other (st : St) (l : Lock) (i : Nat) (hl : l ≠ .B) : (unwindLock st l i).bq = st.bq := by
  have := queue_unwindLock_other st l .B i (by intro h; exact hl h.symm)
  simpa [queue] using this

theorem bq_unwind (st : St) (i : Nat) (o : Outcome) :
    (unwind st i o).bq = st.bq ∨ (st.bq.head? = some i ∧ (unwind st i o).bq = st.bq.drop 1) ∨
    (unwind st i o).bq = st.bq.filter (· != i) := by
  unfold unwind
  rw [bq_finish]
  have h1 : (unwindLock st .T i).bq = st.bq := bq_unwindLock_other st .T i (by decide)
  have h2 : (unwindLock (unwindLock st .T i) .M i).bq = st.bq := by
    rw [bq_unwindLock_other _ .M i (by decide), h1]
  have := bq_unwindLock_B (unwindLock (unwindLock st .T i) .M i) i
  rw [h2] at this
  exact this

/-- request `i` has ended -/
def Fin (i : Nat) (s : St) : Prop := ∀ r' ∈ s.reqs, r'.id = i → r'.phase = .done

theorem fin_finish (st : St) (i : Nat) (o : Outcome) : Fin i (finish st i o) := by
  intro r' hr' hid
  simp only [finish, emit, updReq, List.mem_map] at hr'
  obtain ⟨r, _, rfl⟩ := hr'
  split
  · rfl
  · rename_i hne
    split at hid
    · rename_i h; exact absurd h hne
    · exact absurd (by simpa using hid) hne

theorem fin_unwind (st : St) (i : Nat) (o : Outcome) : Fin i (unwind st i o) := by
  unfold unwind; exact fin_finish _ i o

/-- what one task micro-step does to the blocking lock's queue -/
theorem bq_micro (st : St) (i : Nat) (hinv : Inv2 st) :
    (runReq 1 st i).bq = st.bq ∨
    (∃ r, getReq st i = some r ∧ r.phase = .waitB ∧ i ∉ st.bq ∧ (runReq 1 st i).bq = st.bq ++ [i]) ∨
    (st.bq.head? = some i ∧ (runReq 1 st i).bq = st.bq.drop 1 ∧ Fin i (runReq 1 st i)) ∨
    ((runReq 1 st i).bq = st.bq.filter (· != i) ∧ Fin i (runReq 1 st i)) := by
  cases hg : getReq st i with
  | none => left; rw [runReq]; simp only [hg]
  | some r =>
    obtain ⟨hrm, hrid⟩ := getReq_mem st i r hg
    obtain ⟨hHH, hPH⟩ := hinv.2 r hrm
    rw [runReq]
    simp only [hg, runReq]
    cases hp : r.phase with
    | done => left; rfl
    | waitAck => left; rfl
    | waitB =>
      simp only []
      split
      · have hv := bq_acquire st .B i
        generalize acquire st .B i = a at hv
        obtain ⟨st', ok⟩ := a
        simp only [if_true] at hv ⊢
        have hres : (if ok = true then updReq st' i fun r => { r with phase := Phase.waitM } else st').bq = st'.bq := by
          split <;> rfl
        rw [hres, hv]
        by_cases hc : st.bq.contains i = true
        · left; rw [if_pos hc]
        · right; left
          rw [if_neg hc]
          exact ⟨r, rfl, hp, by simpa using hc, rfl⟩
      · left; rfl
    | waitM =>
      left
      simp only []
      have hv := bq_acquire st .M i
      generalize acquire st .M i = a at hv
      obtain ⟨st', ok⟩ := a
      simp only [] at hv ⊢
      split
      · rw [bq_updReq]; simpa using hv
      · simpa using hv
    | sendfrag =>
      simp only []
      split
      · rcases bq_unwind st i .runtimeError with h | h | h
        · exact Or.inl h
        · exact Or.inr (Or.inr (Or.inl ⟨h.1, h.2, fin_unwind st i _⟩))
        · exact Or.inr (Or.inr (Or.inr ⟨h, fin_unwind st i _⟩))
      · left; rfl
    | waitT =>
      left
      simp only []
      have hv := bq_acquire st .T i
      generalize acquire st .T i = a at hv
      obtain ⟨st', ok⟩ := a
      simp only [] at hv ⊢
      split
      · simpa using hv
      · split
        · rw [bq_updReq, bq_emit]; simpa using hv
        · rw [bq_updReq]; simpa using hv
    | acked =>
      left
      simp only []
      split
      · rw [bq_updReq, bq_release]; simp
      · rw [bq_updReq, bq_release, bq_release]; simp
    | waitRsp =>
      simp only []
      cases hgot : r.got with
      | nothing => left; rfl
      | cancelled =>
        simp only []
        rcases bq_unwind st i .cancelled with h | h | h
        · exact Or.inl h
        · exact Or.inr (Or.inr (Or.inl ⟨h.1, h.2, fin_unwind st i _⟩))
        · exact Or.inr (Or.inr (Or.inr ⟨h, fin_unwind st i _⟩))
      | rsp =>
        simp only []
        split
        · -- the blocking request that got its response holds the lock: it is the head
          rename_i hbl
          rw [bq_finish, bq_release]
          simp only [if_true]
          have hh : st.bq.head? = some i := by
            have := hHH .B (hPH.2.2 hbl (by rw [hp]; rfl))
            rw [hrid] at this; exact this
          exact Or.inr (Or.inr (Or.inl ⟨hh, trivial, fin_finish _ i _⟩))
        · left; rfl

/-! ### the invariant -/

theorem sublist_snoc_last {l ids : List Nat} {x : Nat} (h : l.Sublist ids) (hl : ids.getLast? = some x) (hx : x ∉ l) :
    (l ++ [x]).Sublist ids := by
  have hids : ids = ids.dropLast ++ [x] := by
    have hne : ids ≠ [] := by intro h0; rw [h0] at hl; cases hl
    have h1 := List.dropLast_concat_getLast hne
    have h2 : ids.getLast hne = x := by
      have := List.getLast?_eq_some_getLast hne
      rw [hl] at this
      exact (Option.some.inj this).symm
    rw [h2] at h1
    exact h1.symm
  rw [hids] at h ⊢
  obtain ⟨l1, l2, rfl, h1, h2⟩ := List.sublist_append_iff.mp h
  have : l2 = [] := by
    cases l2 with
    | nil => rfl
    | cons a t =>
      have ha : a ∈ [x] := h2.subset (List.mem_cons_self ..)
      simp only [List.mem_singleton] at ha
      subst ha
      exact absurd (List.mem_append_right _ (List.mem_cons_self ..)) hx
  subst this
  simp only [List.append_nil]
  exact List.Sublist.append h1 (List.Sublist.refl _)

theorem head_of_mem_not_drop {l : List Nat} {x : Nat} (h : x ∈ l) (hn : x ∉ l.drop 1) : l.head? = some x := by
  cases l with
  | nil => cases h
  | cons a t =>
    simp only [List.drop_succ_cons, List.drop_zero] at hn
    rcases List.mem_cons.mp h with rfl | ht
    · rfl
    · exact absurd ht hn

theorem eq_of_mem_not_filter {l : List Nat} {x i : Nat} (h : x ∈ l) (hn : x ∉ l.filter (· != i)) : x = i := by
  apply Classical.byContradiction
  intro hne
  exact hn (List.mem_filter.mpr ⟨h, by simpa using hne⟩)

/-- the blocking lock's queue is ordered like the issue order of the requests; a request in its first phase that has not
    joined the queue yet is the newest request -/
structure QU (st : St) : Prop where
  sub : st.bq.Sublist (st.reqs.map (·.id))
  late : ∀ r ∈ st.reqs, r.phase = .waitB → r.id ∉ st.bq → (st.reqs.map (·.id)).getLast? = some r.id

theorem view_ids (st : St) : (view st).cores.map (·.id) = st.reqs.map (·.id) := by
  simp only [view, List.map_map]; rfl

theorem upd_ids (v : View) (i : Nat) (g : Core → Core) (hg : ∀ c, (g c).id = c.id) :
    (v.upd i g).cores.map (·.id) = v.cores.map (·.id) := by
  simp only [View.upd, List.map_map]
  apply List.map_congr_left
  intro c _
  simp only [Function.comp]
  split
  · exact hg c
  · rfl

/-- a task micro-step renames nobody and brings nobody (back) to the first phase -/
theorem phases_micro (st : St) (i : Nat) (hinv : Inv2 st) :
    (runReq 1 st i).reqs.map (·.id) = st.reqs.map (·.id) ∧
    ∀ r' ∈ (runReq 1 st i).reqs, r'.phase = .waitB → ∃ r ∈ st.reqs, r.id = r'.id ∧ r.phase = .waitB := by
  cases hg : getReq st i with
  | none =>
    have : runReq 1 st i = st := by rw [runReq]; simp only [hg]
    rw [this]; exact ⟨rfl, fun r' hr' hp => ⟨r', hr', rfl, hp⟩⟩
  | some r =>
    have hm := micro_view st i r hg
    rw [← view_ids, ← view_ids]
    have hcore : ∀ (s : St) (r' : Req), r' ∈ s.reqs → core r' ∈ (view s).cores := fun s r' h => List.mem_map.mpr ⟨r', h, rfl⟩
    have back : ∀ c ∈ (view st).cores, c.phase = .waitB → ∃ r0 ∈ st.reqs, r0.id = c.id ∧ r0.phase = .waitB := by
      intro c hc hp
      obtain ⟨r0, hr0, rfl⟩ := List.mem_map.mp hc
      exact ⟨r0, hr0, rfl, hp⟩
    suffices hs : (view (runReq 1 st i)).cores.map (·.id) = (view st).cores.map (·.id) ∧
        ∀ c' ∈ (view (runReq 1 st i)).cores, c'.phase = .waitB → ∃ c ∈ (view st).cores, c.id = c'.id ∧ c.phase = .waitB by
      refine ⟨hs.1, fun r' hr' hp => ?_⟩
      obtain ⟨c, hc, hid, hcp⟩ := hs.2 (core r') (hcore _ r' hr') hp
      obtain ⟨r0, hr0, h1, h2⟩ := back c hc hcp
      exact ⟨r0, hr0, h1.trans hid, h2⟩
    generalize view (runReq 1 st i) = v' at hm
    have key : ∀ g : Core → Core, (∀ c, (g c).id = c.id) → (∀ c, (g c).phase ≠ .waitB) →
        ((view st).upd i g).cores.map (·.id) = (view st).cores.map (·.id) ∧
        ∀ c' ∈ ((view st).upd i g).cores, c'.phase = .waitB → ∃ c ∈ (view st).cores, c.id = c'.id ∧ c.phase = .waitB := by
      intro g hgid hgp
      refine ⟨upd_ids _ i g hgid, fun c' hc' hp => ?_⟩
      obtain ⟨c, hc, rfl⟩ := mem_upd hc'
      split at hp
      · exact absurd hp (hgp c)
      · rename_i hne; rw [if_neg hne]; exact ⟨c, hc, rfl, hp⟩
    cases hm with
    | stay => exact ⟨rfl, fun c' hc' hp => ⟨c', hc', rfl, hp⟩⟩
    | move g ha =>
      rcases ha with ⟨_, rfl⟩ | ⟨_, rfl⟩ | ⟨_, rfl⟩ | ⟨_, _, rfl⟩ | ⟨_, _, rfl⟩ | ⟨_, _, rfl⟩ <;>
        exact key _ (fun c => rfl) (fun c => by simp)
    | write s hp _ => exact key _ (fun c => rfl) (fun c => by simp)
    | fin o _ => exact key toDone (fun c => rfl) (fun c => by simp [toDone])

/-- the abstract step: same ids, nobody new in the first phase, the queue changed in one of the four ways -/
theorem qu_abs (st s' : St) (i : Nat) (hids : s'.reqs.map (·.id) = st.reqs.map (·.id))
    (hph : ∀ r' ∈ s'.reqs, r'.phase = .waitB → ∃ r ∈ st.reqs, r.id = r'.id ∧ r.phase = .waitB)
    (hbq : s'.bq = st.bq ∨
      (∃ r, getReq st i = some r ∧ r.phase = .waitB ∧ i ∉ st.bq ∧ s'.bq = st.bq ++ [i]) ∨
      (st.bq.head? = some i ∧ s'.bq = st.bq.drop 1 ∧ Fin i s') ∨
      (s'.bq = st.bq.filter (· != i) ∧ Fin i s'))
    (h : QU st) : QU s' := by
  constructor
  · rw [hids]
    rcases hbq with e | ⟨r, hg, hp, hni, e⟩ | ⟨_, e, _⟩ | ⟨e, _⟩
    · rw [e]; exact h.sub
    · rw [e]
      obtain ⟨hrm, hrid⟩ := getReq_mem st i r hg
      have := h.late r hrm hp (by rw [hrid]; exact hni)
      rw [hrid] at this
      exact sublist_snoc_last h.sub this hni
    · rw [e]; exact (List.drop_sublist 1 _).trans h.sub
    · rw [e]; exact List.filter_sublist.trans h.sub
  · intro r' hr' hp hni
    rw [hids]
    obtain ⟨r, hr, hid, hrp⟩ := hph r' hr' hp
    rw [← hid]
    by_cases hin : r.id ∈ st.bq
    · -- it was queued and is not any more: only the task itself leaves the queue, and then it has ended
      exfalso
      rcases hbq with e | ⟨_, _, _, _, e⟩ | ⟨hh, e, hfin⟩ | ⟨e, hfin⟩
      · rw [e, ← hid] at hni; exact hni hin
      · rw [e, ← hid] at hni; exact hni (List.mem_append_left _ hin)
      · rw [e, ← hid] at hni
        have := head_of_mem_not_drop hin hni
        rw [hh] at this
        have hri : r'.id = i := by rw [← hid]; exact (Option.some.inj this).symm
        have := hfin r' hr' hri
        rw [hp] at this; cases this
      · rw [e, ← hid] at hni
        have hri : r'.id = i := by rw [← hid]; exact eq_of_mem_not_filter hin hni
        have := hfin r' hr' hri
        rw [hp] at this; cases this
    · exact h.late r hr hrp hin

theorem qu_micro (st : St) (i : Nat) (hinv : Inv2 st) (h : QU st) : QU (runReq 1 st i) := by
  obtain ⟨hids, hph⟩ := phases_micro st i hinv
  exact qu_abs st _ i hids hph (bq_micro st i hinv) h

theorem qu_settle (fuel : Nat) (st : St) (hinv : Inv2 st) (h : QU st) : QU (settle fuel st) := by
  have := settle_ind (fun s => Inv2 s ∧ QU s)
    (fun s rd hs => ⟨inv2_congr s _ rfl rfl rfl rfl hs.1, ⟨hs.2.sub, hs.2.late⟩⟩)
    (fun s i hs => ⟨inv2_runReq 1 s i hs.1, qu_micro s i hs.1 hs.2⟩) fuel st ⟨hinv, h⟩
  exact this.2

/-- a request ends by unwinding -/
theorem qu_unwind (st : St) (i : Nat) (o : Outcome) (h : QU st) : QU (unwind st i o) := by
  apply qu_abs st _ i (ids_unwind st i o) _ _ h
  · intro r' hr' hp
    have hc : core r' ∈ (view (unwind st i o)).cores := List.mem_map.mpr ⟨r', hr', rfl⟩
    rw [view_unwind] at hc
    obtain ⟨c, hcm, he⟩ := mem_upd (v := view st) (i := i) (g := toDone) hc
    obtain ⟨r, hr, rfl⟩ := List.mem_map.mp hcm
    by_cases hi : ((core r).id == i) = true
    · rw [if_pos hi] at he
      have : (core r').phase = .done := by rw [he]; rfl
      have hp' : (core r').phase = .waitB := hp
      rw [this] at hp'; cases hp'
    · rw [if_neg hi] at he
      refine ⟨r, hr, ?_, ?_⟩
      · have : (core r').id = (core r).id := by rw [he]
        exact this.symm
      · have : (core r').phase = (core r).phase := by rw [he]
        exact this.symm.trans hp
  · rcases bq_unwind st i o with e | ⟨hh, e⟩ | e
    · exact Or.inl e
    · exact Or.inr (Or.inr (Or.inl ⟨hh, e, fin_unwind st i o⟩))
    · exact Or.inr (Or.inr (Or.inr ⟨e, fin_unwind st i o⟩))

theorem qu_foldl_unwind (ids : List Nat) (st : St) (o : Outcome) (h : QU st) :
    QU (ids.foldl (fun s i => unwind s i o) st) := by
  induction ids generalizing st with
  | nil => exact h
  | cons i is ih => exact ih _ (qu_unwind st i o h)

/-- the requests changed by a map that renames nobody and brings nobody to the first phase; the queue untouched -/
theorem qu_map (st st' : St) (g : Req → Req) (hid : ∀ r, (g r).id = r.id) (hw : ∀ r, (g r).phase = .waitB → r.phase = .waitB)
    (hr : st'.reqs = st.reqs.map g) (hb : st'.bq = st.bq) (h : QU st) : QU st' := by
  have hids : st'.reqs.map (·.id) = st.reqs.map (·.id) := by
    rw [hr, List.map_map]; apply List.map_congr_left; intro r _; exact hid r
  constructor
  · rw [hids, hb]; exact h.sub
  · intro r' hr' hp hni
    rw [hr] at hr'
    obtain ⟨r, hrm, rfl⟩ := List.mem_map.mp hr'
    rw [hids, hid r]
    exact h.late r hrm (hw r hp) (by rw [← hid r, ← hb]; exact hni)

theorem qu_same (st st' : St) (hr : st'.reqs = st.reqs) (hb : st'.bq = st.bq) (h : QU st) : QU st' :=
  qu_map st st' id (fun _ => rfl) (fun _ hp => hp) (by simpa using hr) hb h

/-- at rest, every request still in its first phase has joined the blocking lock's queue -/
theorem waitB_queued_at_rest (st : St) (hg : Good st) (hq : st.ready = []) :
    ∀ r ∈ st.reqs, r.phase = .waitB → r.id ∈ st.bq := by
  intro r hrm hp
  rcases hg.live.wake r hrm (by rw [hp]; decide) (by simp) with hw | hw
  · rw [hq] at hw; cases hw
  · rcases hw with ⟨l, h1, h2, _⟩ | hw | ⟨hw, _⟩
    · have : l = .B := by rw [hp] at h1; cases l <;> first | rfl | cases h1
      subst this
      exact h2
    · rw [hp] at hw; cases hw
    · rw [hp] at hw; cases hw

theorem toAcked_waitB (c : Req → Bool) (hc : ∀ r, c r = true → r.phase = .waitAck) (r : Req)
    (hp : (if c r = true then { r with phase := Phase.acked } else r).phase = .waitB) : r.phase = .waitB := by
  by_cases h : c r = true
  · rw [if_pos h] at hp; cases hp
  · rw [if_neg h] at hp; exact hp

theorem qu_pre (st : St) (e : Ev) (hg : Good st) (hq : st.ready = []) (h : QU st) : QU (pre st e).1 := by
  have h0 : QU ({ st with out := [] } : St) := ⟨h.sub, h.late⟩
  cases e with
  | start id key blocking nfrags timeout =>
    simp only [pre]
    split
    · exact h0
    split
    · exact ⟨h.sub, h.late⟩
    · constructor
      · show st.bq.Sublist ((st.reqs ++ [({ id, key, blocking, nfrags, timeout } : Req)]).map (·.id))
        rw [List.map_append]
        exact h.sub.trans (List.sublist_append_left _ _)
      · intro r hr hp hni
        show ((st.reqs ++ [({ id, key, blocking, nfrags, timeout } : Req)]).map (·.id)).getLast? = some r.id
        rcases List.mem_append.mp hr with hm | hm
        · exact absurd (waitB_queued_at_rest st hg hq r hm hp) hni
        · simp only [List.mem_singleton] at hm
          subst hm
          simp [List.map_append]
  | rxAck k =>
    simp only [pre]
    split
    · exact qu_map ({ st with out := [] } : St) _ _ (fun r => by split <;> rfl)
        (toAcked_waitB (fun r => r.phase == Phase.waitAck && r.gen == st.gen) (fun r hc => by simp at hc; exact hc.1)) rfl rfl h0
    · exact h0
  | rxRsp key =>
    simp only [pre]
    generalize hst1 : (if ({ st with out := [] } : St).transport = true then emit ({ st with out := [] } : St) Out.wack else ({ st with out := [] } : St)) = st1
    have h1 : QU st1 := by rw [← hst1]; split <;> exact ⟨h.sub, h.late⟩
    cases hfind : st1.listeners.find? (fun l => l.2 == key) with
    | none => exact h1
    | some p =>
      obtain ⟨i, k⟩ := p
      simp only []
      have h2 : QU (updReq { st1 with listeners := st1.listeners.filter (·.1 != i) } i fun r => { r with got := .rsp }) :=
        qu_map st1 _ (fun r => if (r.id == i) = true then { r with got := Got.rsp } else r)
          (fun r => by split <;> rfl) (fun r hp => by split at hp <;> exact hp) rfl rfl h1
      split
      · exact ⟨h2.sub, h2.late⟩
      · exact h2
  | tick =>
    simp only [pre]
    cases nextDeadline ({ st with out := [] } : St) with
    | none => exact h0
    | some d =>
      simp only []
      apply qu_foldl_unwind
      exact qu_map ({ st with out := [] } : St) _ _ (fun r => by split <;> rfl)
        (toAcked_waitB (fun r => r.phase == Phase.waitAck && decide (r.deadline ≤ max ({ st with out := [] } : St).now d))
          (fun r hc => by simp at hc; exact hc.1)) rfl rfl h0
  | cancel id =>
    simp only [pre]
    cases getReq ({ st with out := [] } : St) id with
    | none => exact h0
    | some r =>
      simp only []
      split
      · exact h0
      · exact qu_unwind _ _ _ h0
  | close =>
    simp only [pre]
    split
    · split
      · exact qu_same ({ st with out := [] } : St) _ rfl rfl h0
      · exact h0
    · have hm : ∀ (ids : List Nat) (s' : St), s'.reqs = ({ st with out := [] } : St).reqs.map (fun r => if ids.contains r.id = true then { r with got := Got.cancelled } else r) →
          s'.bq = st.bq → QU s' := fun ids s' e1 e2 =>
        qu_map ({ st with out := [] } : St) s' _ (fun r => by split <;> rfl) (fun r hp => by split at hp <;> exact hp) e1 e2 h0
      split
      · exact qu_same _ _ rfl rfl (hm (({ st with out := [] } : St).listeners.map (·.1)) _ rfl rfl)
      · exact hm (({ st with out := [] } : St).listeners.map (·.1)) _ rfl rfl
  | lost =>
    simp only [pre]
    split
    · exact qu_same ({ st with out := [] } : St) _ rfl rfl h0
    · exact qu_same ({ st with out := [] } : St) _ rfl rfl h0
  | setReset b => exact qu_same ({ st with out := [] } : St) _ rfl rfl h0
  | connect =>
    simp only [pre]
    split
    · exact h0
    · exact qu_same ({ st with out := [] } : St) _ rfl rfl h0

theorem qu_step (st : St) (e : Ev) (hg : Good st) (hq : st.ready = []) (h : QU st) : QU (step st e) := by
  have hp := qu_pre st e hg hq h
  obtain ⟨⟨hh, hb⟩, _, _, _⟩ := good_pre st e hg
  rw [step_eq_pre]
  cases (pre st e).2
  · exact hp
  · exact qu_settle _ _ hb.1 hp

theorem qu_reachable (evs : List Ev) : QU (runEvents {} evs).1 := by
  unfold runEvents
  rw [runEvents_fst]
  have : ∀ (evs : List Ev) (st : St), Good st → st.ready = [] → QU st → QU (evs.foldl step st) := by
    intro evs
    induction evs with
    | nil => intro st _ _ h; exact h
    | cons e es ih =>
      intro st hg hq h
      exact ih _ (good_step st e hg) (rest_step st e hg hq) (qu_step st e hg hq h)
  exact this evs {} good_init rfl ⟨List.Sublist.refl _, fun r hr => by cases hr⟩

/-! ### first come, first served -/

/-- in a duplicate-free list where `y` comes before `x`, no sub-list has `x` in front of `y` -/
theorem no_swap {ids : List Nat} (hn : ids.Nodup) {pre post : List Nat} {x y : Nat} (he : ids = pre ++ y :: post)
    (hx : x ∈ post) {t : List Nat} (hs : (x :: t).Sublist ids) (hy : y ∈ t) : False := by
  subst he
  have hnd := List.nodup_append.mp hn
  have hyp : y ∉ post := (List.nodup_cons.mp hnd.2.1).1
  have hxy : x ≠ y := by intro h; subst h; exact hyp hx
  obtain ⟨l1, l2, hl, h1, h2⟩ := List.sublist_append_iff.mp hs
  cases l1 with
  | nil =>
    simp only [List.nil_append] at hl
    subst hl
    -- x :: t <+ y :: post with x ≠ y: so x :: t <+ post, and then y ∈ post
    cases h2 with
    | cons _ h3 => exact hyp (h3.subset (List.mem_cons_of_mem _ hy))
    | cons_cons _ _ => exact hxy rfl
  | cons a l1' =>
    simp only [List.cons_append, List.cons.injEq] at hl
    obtain ⟨rfl, _⟩ := hl
    -- x ∈ pre and x ∈ post: the list has a duplicate
    have hxpre : x ∈ pre := h1.subset (List.mem_cons_self ..)
    exact hnd.2.2 x hxpre x (List.mem_cons_of_mem _ hx) rfl

/-- **first come, first served - every history**: let blocking request `r1` have been issued before blocking request `r2`
    (it stands earlier in the request list).  As long as `r1` is still waiting for the blocking lock, `r2` is not past it:
    no frame of `r2` is written, `r2` does not await its response, before `r1` has had its turn (or has ended). -/
theorem fcfs (evs : List Ev) (r1 r2 : Req) (pre post : List Req)
    (horder : (runEvents {} evs).1.reqs = pre ++ r1 :: post) (h2 : r2 ∈ post)
    (hb2 : r2.blocking = true) (hw1 : r1.phase = .waitB) : afterB r2.phase = false := by
  have hg := good_reachable evs
  have hq := rest_reachable evs
  have hqu := qu_reachable evs
  have hinv := hg.inv
  generalize (runEvents {} evs).1 = st at *
  have hr1 : r1 ∈ st.reqs := by rw [horder]; exact List.mem_append_right _ (List.mem_cons_self ..)
  have hr2 : r2 ∈ st.reqs := by rw [horder]; exact List.mem_append_right _ (List.mem_cons_of_mem _ h2)
  cases hA : afterB r2.phase with
  | false => rfl
  | true =>
    exfalso
    -- r1 is queued; r2 holds the lock, so it heads the queue
    have hq1 : r1.id ∈ st.bq := waitB_queued_at_rest st hg hq r1 hr1 hw1
    obtain ⟨hHH, hPH⟩ := hinv.2 r2 hr2
    have hhead : st.bq.head? = some r2.id := hHH .B (hPH.2.2 hb2 hA)
    cases hbq : st.bq with
    | nil => rw [hbq] at hq1; cases hq1
    | cons a t =>
      rw [hbq] at hhead hq1
      have ha : a = r2.id := by simpa using hhead
      subst ha
      have hne : r1.id ≠ r2.id := by
        intro he
        have := unique_of_id st hinv.1 r1 r2 hr1 hr2 he
        subst this
        rw [hw1] at hA; cases hA
      have hin : r1.id ∈ t := by
        rcases List.mem_cons.mp hq1 with h | h
        · exact absurd h hne
        · exact h
      have hsub := hqu.sub
      rw [hbq] at hsub
      have hids : st.reqs.map (·.id) = pre.map (·.id) ++ r1.id :: post.map (·.id) := by
        rw [horder]; simp
      exact no_swap hinv.1 hids (List.mem_map.mpr ⟨r2, h2, rfl⟩) hsub hin

end Zboss.Host
