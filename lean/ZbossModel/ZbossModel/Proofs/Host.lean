import ZbossModel.Host
/-! Invariants of the request machine (helper lemmas for C11 / C13 / C14 / C20).

Every state transformer of the model is a composition of a few primitives (`updReq`, `setQueue`,
`emit`, changes of `ready` / `listeners` / flags).  An invariant is shown to be preserved by each
primitive and then by `acquire`, `release`, `finish`, `unwind`, `runReq`, `settle` and `step`. -/
namespace Zboss.Host

/-! ## no residue: every registered one-shot listener belongs to a request that is still running -/

def NoResidue (st : St) : Prop :=
  ∀ l ∈ st.listeners, ∃ r ∈ st.reqs, r.id = l.1 ∧ r.phase ≠ .done

/-- an update that keeps ids and never turns a running request into a finished one -/
def Alive (f : Req → Req) : Prop := ∀ r, (f r).id = r.id ∧ (r.phase ≠ .done → (f r).phase ≠ .done)

theorem nr_updReq (st : St) (i : Nat) (f : Req → Req) (hf : Alive f) (h : NoResidue st) : NoResidue (updReq st i f) := by
  intro l hl
  obtain ⟨r, hr, hid, hph⟩ := h l hl
  by_cases hi : (r.id == i) = true
  · refine ⟨f r, ?_, ?_, ?_⟩
    · simp only [updReq, List.mem_map]; exact ⟨r, hr, by simp [hi]⟩
    · rw [(hf r).1]; exact hid
    · exact (hf r).2 hph
  · refine ⟨r, ?_, hid, hph⟩
    simp only [updReq, List.mem_map]; exact ⟨r, hr, by simp [hi]⟩

theorem nr_setQueue (st : St) (l : Lock) (q : List Nat) (h : NoResidue st) : NoResidue (setQueue st l q) := by
  cases l <;> exact h

theorem nr_emit (st : St) (o : Out) (h : NoResidue st) : NoResidue (emit st o) := h

theorem nr_ready (st : St) (rd : List Nat) (h : NoResidue st) : NoResidue { st with ready := rd } := h

theorem alive_setHold (l : Lock) (b : Bool) : Alive (setHold · l b) := by
  intro r; cases l <;> exact ⟨rfl, id⟩

theorem alive_phase (p : Phase) (hp : p ≠ .done) (g : Req → Req) (hg : ∀ r, (g r).id = r.id ∧ (g r).phase = p) : Alive g := by
  intro r; exact ⟨(hg r).1, fun _ => by rw [(hg r).2]; exact hp⟩

theorem nr_acquire (st : St) (l : Lock) (i : Nat) (h : NoResidue st) : NoResidue (acquire st l i).1 := by
  unfold acquire
  simp only []
  generalize (if (queue st l).contains i = true then queue st l else queue st l ++ [i]) = q'
  by_cases hc : q'.head? = some i
  · simp only [hc, if_true]
    exact nr_updReq _ _ _ (alive_setHold l true) (nr_setQueue _ _ _ h)
  · simp only [hc, if_false]
    exact nr_setQueue _ _ _ h

theorem nr_release (st : St) (l : Lock) (i : Nat) (h : NoResidue st) : NoResidue (release st l i) := by
  unfold release
  simp only []
  have := nr_updReq _ i _ (alive_setHold l false) (nr_setQueue st l ((queue st l).drop 1) h)
  split
  · exact this
  · exact this

/-- `finish` is the only place a request becomes done - and it removes the request's listener -/
theorem nr_finish (st : St) (i : Nat) (o : Outcome) (h : NoResidue st) : NoResidue (finish st i o) := by
  intro l hl
  simp only [finish, emit, List.mem_filter] at hl
  obtain ⟨hl1, hl2⟩ := hl
  have hne : l.1 ≠ i := by simpa using hl2
  have hl1' : l ∈ st.listeners := by simpa [updReq] using hl1
  obtain ⟨r, hr, hid, hph⟩ := h l hl1'
  refine ⟨r, ?_, hid, hph⟩
  simp only [finish, emit, updReq, List.mem_map]
  refine ⟨r, hr, ?_⟩
  have : (r.id == i) = false := by simp [hid, hne]
  simp [this]

theorem nr_unwindLock (st : St) (l : Lock) (i : Nat) (h : NoResidue st) : NoResidue (unwindLock st l i) := by
  unfold unwindLock
  simp only []
  split
  · exact h
  · cases getReq st i with
    | none => exact h
    | some r =>
      simp only []
      split
      · exact nr_release _ _ _ h
      · split
        · split
          · exact nr_setQueue _ _ _ h
          · exact nr_setQueue _ _ _ h
        · exact nr_setQueue _ _ _ h

theorem nr_unwind (st : St) (i : Nat) (o : Outcome) (h : NoResidue st) : NoResidue (unwind st i o) :=
  nr_finish _ _ _ (nr_unwindLock _ _ _ (nr_unwindLock _ _ _ (nr_unwindLock _ _ _ h)))

theorem nr_runReq (fuel : Nat) (st : St) (i : Nat) (h : NoResidue st) : NoResidue (runReq fuel st i) := by
  induction fuel generalizing st with
  | zero => exact h
  | succ fuel ih =>
    unfold runReq
    cases hg : getReq st i with
    | none => exact h
    | some r =>
      simp only []
      cases hp : r.phase with
      | done => exact h
      | waitB =>
        simp only []
        split
        · have ha := nr_acquire st .B i h
          generalize acquire st .B i = a at ha
          obtain ⟨st', ok⟩ := a
          simp only []
          split
          · exact ih _ (nr_updReq _ _ _ (alive_phase .waitM (by decide) _ (fun _ => ⟨rfl, rfl⟩)) ha)
          · exact ha
        · exact ih _ (nr_updReq _ _ _ (alive_phase .waitM (by decide) _ (fun _ => ⟨rfl, rfl⟩)) h)
      | waitM =>
        simp only []
        have ha := nr_acquire st .M i h
        generalize acquire st .M i = a at ha
        obtain ⟨st', ok⟩ := a
        simp only []
        split
        · exact ih _ (nr_updReq _ _ _ (alive_phase .sendfrag (by decide) _ (fun _ => ⟨rfl, rfl⟩)) ha)
        · exact ha
      | sendfrag =>
        simp only []
        split
        · exact nr_unwind _ _ _ h
        · exact ih _ (nr_updReq _ _ _ (alive_phase .waitT (by decide) _ (fun _ => ⟨rfl, rfl⟩)) h)
      | waitT =>
        simp only []
        have ha := nr_acquire st .T i h
        generalize acquire st .T i = a at ha
        obtain ⟨st', ok⟩ := a
        simp only []
        split
        · exact ha
        · split
          · exact nr_updReq _ _ _ (alive_phase .waitAck (by decide) _ (fun _ => ⟨rfl, rfl⟩)) (nr_emit _ _ ha)
          · exact ih _ (nr_updReq _ _ _ (alive_phase .acked (by decide) _ (fun _ => ⟨rfl, rfl⟩)) ha)
      | acked =>
        simp only []
        split
        · exact ih _ (nr_updReq _ _ _ (alive_phase .sendfrag (by decide) _ (fun _ => ⟨rfl, rfl⟩)) (nr_release _ _ _ h))
        · exact ih _ (nr_updReq _ _ _ (alive_phase .waitRsp (by decide) _ (fun _ => ⟨rfl, rfl⟩))
            (nr_release _ _ _ (nr_release _ _ _ h)))
      | waitAck => exact h
      | waitRsp =>
        simp only []
        cases r.got with
        | nothing => exact h
        | cancelled => exact nr_unwind _ _ _ h
        | rsp =>
          simp only []
          split
          · exact nr_finish _ _ _ (nr_release _ _ _ h)
          · exact nr_finish _ _ _ h

theorem nr_settle (fuel : Nat) (st : St) (h : NoResidue st) : NoResidue (settle fuel st) := by
  induction fuel generalizing st with
  | zero => exact h
  | succ fuel ih =>
    unfold settle
    cases hr : st.ready with
    | nil => exact h
    | cons i rest => exact ih _ (nr_runReq 64 _ i (nr_ready st rest h))

end Zboss.Host

namespace Zboss.Host

theorem alive_ite (c : Req → Bool) (f : Req → Req) (hf : Alive f) : Alive (fun r => if c r then f r else r) := by
  intro r; by_cases h : c r = true
  · simp only [h, if_true]; exact hf r
  · simp only [h]; exact ⟨rfl, id⟩

theorem nr_foldl_unwind (ids : List Nat) (st : St) (o : Outcome) (h : NoResidue st) :
    NoResidue (ids.foldl (fun s i => unwind s i o) st) := by
  induction ids generalizing st with
  | nil => exact h
  | cons i is ih => exact ih _ (nr_unwind st i o h)

/-- the invariant only reads `reqs` and `listeners` -/
theorem nr_congr (st st' : St) (f : Req → Req) (hf : Alive f) (hr : st'.reqs = st.reqs.map f)
    (hl : ∀ l ∈ st'.listeners, l ∈ st.listeners) (h : NoResidue st) : NoResidue st' := by
  intro l hl'
  obtain ⟨r, hr', hid, hph⟩ := h l (hl l hl')
  exact ⟨f r, by rw [hr]; exact List.mem_map.mpr ⟨r, hr', rfl⟩, by rw [(hf r).1]; exact hid, (hf r).2 hph⟩

theorem alive_toAcked (c : Req → Bool) : Alive (fun r => if c r = true then { r with phase := Phase.acked } else r) := by
  intro r; by_cases h : c r = true
  · simp [h]
  · simp [h]

theorem alive_id : Alive id := fun _ => ⟨rfl, id⟩

theorem nr_same (st st' : St) (hr : st'.reqs = st.reqs) (hl : ∀ l ∈ st'.listeners, l ∈ st.listeners)
    (h : NoResidue st) : NoResidue st' :=
  nr_congr st st' id alive_id (by simp [hr]) hl h

/-- the invariant survives every external event -/
theorem nr_step (st : St) (e : Ev) (h : NoResidue st) : NoResidue (step st e) := by
  have h0 : NoResidue { st with out := [] } := h
  cases e with
  | start id key blocking nfrags timeout =>
    simp only [step]
    split
    · exact h0
    split
    · exact h0
    · apply nr_settle
      intro l hl
      simp only [List.mem_append, List.mem_singleton] at hl
      rcases hl with hl | hl
      · obtain ⟨r, hr, hid, hph⟩ := h l hl
        exact ⟨r, List.mem_append_left _ hr, hid, hph⟩
      · refine ⟨{ id, key, blocking, nfrags, timeout }, List.mem_append_right _ (by simp), by rw [hl], by simp⟩
  | rxAck k =>
    simp only [step]
    split
    · apply nr_settle
      exact nr_congr st _ _ (alive_toAcked (fun r => r.phase == Phase.waitAck && r.gen == st.gen)) rfl (fun l hl => hl) h
    · exact nr_settle _ _ h0
  | rxRsp key =>
    simp only [step]
    generalize hst1 : (if ({ st with out := [] } : St).transport = true then emit { st with out := [] } Out.wack else { st with out := [] }) = st1
    have h1 : NoResidue st1 := by rw [← hst1]; split <;> exact h0
    cases hfind : st1.listeners.find? (fun l => l.2 == key) with
    | none => exact nr_settle _ _ h1
    | some p =>
      obtain ⟨i, k⟩ := p
      simp only []
      apply nr_settle
      have h2 : NoResidue (updReq { st1 with listeners := st1.listeners.filter (·.1 != i) } i fun r => { r with got := .rsp }) :=
        nr_updReq _ _ _ (fun r => ⟨rfl, id⟩) (nr_same st1 _ rfl (fun l hl => (List.mem_filter.mp hl).1) h1)
      split
      · exact nr_same _ _ rfl (fun l hl => hl) h2
      · exact h2
  | tick =>
    simp only [step]
    cases nextDeadline { st with out := [] } with
    | none => exact h0
    | some d =>
      simp only []
      apply nr_settle
      apply nr_foldl_unwind
      exact nr_congr st _ _ (alive_toAcked (fun r => r.phase == Phase.waitAck && decide (r.deadline ≤ max st.now d))) rfl
        (fun l hl => hl) h
  | cancel id =>
    simp only [step]
    cases getReq { st with out := [] } id with
    | none => exact h0
    | some r =>
      simp only []
      split
      · exact h0
      · exact nr_settle _ _ (nr_unwind _ _ _ h0)
  | close =>
    simp only [step]
    split
    · apply nr_settle
      split
      · exact nr_same st _ rfl (fun l hl => hl) h
      · exact h0
    · apply nr_settle
      have hempty : ∀ (s : St), s.listeners = [] → NoResidue s := fun s hs l hl => by rw [hs] at hl; simp at hl
      split
      · exact hempty _ rfl
      · exact hempty _ rfl
  | lost =>
    simp only [step]
    apply nr_settle
    split
    · exact nr_same st _ rfl (fun l hl => hl) h
    · exact nr_same st _ rfl (fun l hl => hl) h
  | setReset b => exact h0
  | connect =>
    simp only [step]
    split
    · exact h0
    · exact nr_same st _ rfl (fun l hl => hl) h

theorem nr_init : NoResidue {} := fun l hl => by simp at hl

theorem nr_reachable (evs : List Ev) : NoResidue (runEvents {} evs).1 := by
  suffices h : ∀ (st : St) (log : List (List Out)), NoResidue st →
      NoResidue (evs.foldl (fun acc e => let s := step acc.1 e; (s, acc.2 ++ [s.out])) (st, log)).1 by
    exact h {} [] nr_init
  induction evs with
  | nil => intro st log h; exact h
  | cons e es ih => intro st log h; exact ih _ _ (nr_step st e h)

end Zboss.Host

namespace Zboss.Host

/-! ## lock discipline: a hold flag implies being at the head of that lock's queue; the phase determines
    which locks a request must hold -/

def inTransmit : Phase → Bool
  | .sendfrag | .waitT | .waitAck | .acked => true
  | _ => false

def ackPhase : Phase → Bool
  | .waitAck | .acked => true
  | _ => false

def afterB : Phase → Bool
  | .waitM | .sendfrag | .waitT | .waitAck | .acked | .waitRsp => true
  | _ => false

def HoldHead (st : St) (r : Req) : Prop := ∀ l, holds r l = true → (queue st l).head? = some r.id

def PhaseHold (r : Req) : Prop :=
  (inTransmit r.phase = true → r.holdM = true) ∧ (ackPhase r.phase = true → r.holdT = true) ∧
  (r.blocking = true → afterB r.phase = true → r.holdB = true)

def Inv2 (st : St) : Prop :=
  (st.reqs.map (·.id)).Nodup ∧ ∀ r ∈ st.reqs, HoldHead st r ∧ PhaseHold r

@[simp] theorem queue_setQueue (st : St) (l l' : Lock) (q : List Nat) :
    queue (setQueue st l q) l' = if l' = l then q else queue st l' := by
  cases l <;> cases l' <;> simp [queue, setQueue]

@[simp] theorem queue_updReq (st : St) (i : Nat) (f : Req → Req) (l : Lock) : queue (updReq st i f) l = queue st l := by
  cases l <;> rfl

@[simp] theorem holds_setHold (r : Req) (l l' : Lock) (b : Bool) :
    holds (setHold r l b) l' = if l' = l then b else holds r l' := by
  cases l <;> cases l' <;> simp [holds, setHold]

@[simp] theorem reqs_setQueue (st : St) (l : Lock) (q : List Nat) : (setQueue st l q).reqs = st.reqs := by
  cases l <;> rfl

theorem ids_updReq (st : St) (i : Nat) (f : Req → Req) (hf : ∀ r, (f r).id = r.id) :
    (updReq st i f).reqs.map (·.id) = st.reqs.map (·.id) := by
  simp only [updReq, List.map_map]
  apply List.map_congr_left
  intro r _
  simp only [Function.comp]
  split
  · exact hf r
  · rfl

theorem getReq_mem (st : St) (i : Nat) (r : Req) (h : getReq st i = some r) : r ∈ st.reqs ∧ r.id = i := by
  unfold getReq at h
  exact ⟨List.mem_of_find?_eq_some h, by simpa using List.find?_some h⟩

theorem unique_of_id' (l : List Req) (hn : (l.map (·.id)).Nodup) (r r' : Req) (hr : r ∈ l) (hr' : r' ∈ l)
    (hid : r.id = r'.id) : r = r' := by
  induction l with
  | nil => simp at hr
  | cons a as ih =>
    simp only [List.map_cons, List.nodup_cons, List.mem_map, not_exists, not_and] at hn
    rcases List.mem_cons.mp hr with h1 | h1 <;> rcases List.mem_cons.mp hr' with h2 | h2
    · rw [h1, h2]
    · exact absurd (by rw [← h1, hid]) (hn.1 r' h2)
    · exact absurd (by rw [← h2, ← hid]) (hn.1 r h1)
    · exact ih hn.2 h1 h2

/-- with unique ids, the request found by id is the only one with that id -/
theorem unique_of_id (st : St) (hn : (st.reqs.map (·.id)).Nodup) (r r' : Req) (hr : r ∈ st.reqs) (hr' : r' ∈ st.reqs)
    (hid : r.id = r'.id) : r = r' := unique_of_id' st.reqs hn r r' hr hr' hid

end Zboss.Host

namespace Zboss.Host

/-- the invariant with the phase obligations of request `i` suspended (inside its own task step) -/
def Inv2X (st : St) (i : Nat) : Prop :=
  (st.reqs.map (·.id)).Nodup ∧ ∀ r ∈ st.reqs, HoldHead st r ∧ (r.id ≠ i → PhaseHold r)

theorem x_of_inv2 (st : St) (i : Nat) (h : Inv2 st) : Inv2X st i :=
  ⟨h.1, fun r hr => ⟨(h.2 r hr).1, fun _ => (h.2 r hr).2⟩⟩

theorem inv2_of_x (st : St) (i : Nat) (h : Inv2X st i) (hi : ∀ r ∈ st.reqs, r.id = i → PhaseHold r) : Inv2 st :=
  ⟨h.1, fun r hr => ⟨(h.2 r hr).1, by
    by_cases hid : r.id = i
    · exact hi r hr hid
    · exact (h.2 r hr).2 hid⟩⟩

theorem mem_updReq (st : St) (i : Nat) (f : Req → Req) (r' : Req) (h : r' ∈ (updReq st i f).reqs) :
    ∃ r ∈ st.reqs, r' = if (r.id == i) = true then f r else r := by
  simp only [updReq, List.mem_map] at h
  obtain ⟨r, hr, he⟩ := h
  exact ⟨r, hr, he.symm⟩

theorem x_updReq (st : St) (i : Nat) (f : Req → Req) (h : Inv2X st i) (hid : ∀ r, (f r).id = r.id)
    (hh : ∀ r ∈ st.reqs, r.id = i → HoldHead st (f r)) : Inv2X (updReq st i f) i := by
  refine ⟨by rw [ids_updReq st i f hid]; exact h.1, ?_⟩
  intro r' hr'
  obtain ⟨r, hr, he⟩ := mem_updReq st i f r' hr'
  by_cases hi : (r.id == i) = true
  · rw [he, if_pos hi]
    have hi' : r.id = i := by simpa using hi
    refine ⟨?_, fun hne => absurd (by rw [hid r]; exact hi') hne⟩
    intro l hl
    have := hh r hr hi' l hl
    simpa using this
  · rw [he, if_neg hi]
    refine ⟨?_, (h.2 r hr).2⟩
    intro l hl
    have := (h.2 r hr).1 l hl
    simpa using this

theorem head_ite_append (q : List Nat) (c : Bool) (i x : Nat) (h : q.head? = some x) :
    (if c = true then q else q ++ [i]).head? = some x := by
  cases q with
  | nil => simp at h
  | cons a t => split <;> simpa using h

theorem x_acquire (st : St) (l : Lock) (i : Nat) (h : Inv2X st i) : Inv2X (acquire st l i).1 i := by
  unfold acquire
  simp only []
  generalize hq' : (if (queue st l).contains i = true then queue st l else queue st l ++ [i]) = q'
  have hkeep : ∀ x, (queue st l).head? = some x → q'.head? = some x := by
    intro x hx; rw [← hq']; exact head_ite_append _ _ _ _ hx
  -- the state with the waiter appended still satisfies the invariant
  have hsq : Inv2X (setQueue st l q') i := by
    refine ⟨by simpa using h.1, ?_⟩
    intro r hr
    have hr' : r ∈ st.reqs := by simpa using hr
    refine ⟨?_, (h.2 r hr').2⟩
    intro l' hl'
    have := (h.2 r hr').1 l' hl'
    by_cases hll : l' = l
    · subst hll; simp; exact hkeep _ this
    · simp [hll]; exact this
  by_cases hc : q'.head? = some i
  · simp only [hc, if_true]
    apply x_updReq _ _ _ hsq (fun r => by cases l <;> rfl)
    intro r hr hid l' hl'
    have hr' : r ∈ st.reqs := by simpa using hr
    have e : (setHold r l true).id = r.id := by cases l <;> rfl
    by_cases hll : l' = l
    · subst hll; rw [queue_setQueue, if_pos rfl, hc, e, hid]
    · simp only [holds_setHold, hll, if_false] at hl'
      have := (h.2 r hr').1 l' hl'
      simp [hll, e]; exact this
  · simp only [hc, if_false]; exact hsq

theorem x_release (st : St) (l : Lock) (i : Nat) (h : Inv2X st i) (hhead : (queue st l).head? = some i) :
    Inv2X (release st l i) i := by
  unfold release
  simp only []
  have hbase : Inv2X (updReq (setQueue st l ((queue st l).drop 1)) i (setHold · l false)) i := by
    refine ⟨by rw [ids_updReq _ _ _ (fun r => by cases l <;> rfl)]; simpa using h.1, ?_⟩
    intro r' hr'
    obtain ⟨r, hr, he⟩ := mem_updReq _ i _ r' hr'
    have hr0 : r ∈ st.reqs := by simpa using hr
    by_cases hi : (r.id == i) = true
    · rw [he, if_pos hi]
      have hi' : r.id = i := by simpa using hi
      have e : (setHold r l false).id = r.id := by cases l <;> rfl
      refine ⟨?_, fun hne => absurd (by rw [e]; exact hi') hne⟩
      intro l' hl'
      by_cases hll : l' = l
      · subst hll; simp at hl'
      · simp only [holds_setHold, hll, if_false] at hl'
        have := (h.2 r hr0).1 l' hl'
        simp [hll, e]; exact this
    · rw [he, if_neg hi]
      refine ⟨?_, (h.2 r hr0).2⟩
      intro l' hl'
      have := (h.2 r hr0).1 l' hl'
      by_cases hll : l' = l
      · subst hll
        -- another request claiming to hold the lock would be its head, but the head is `i`
        rw [hhead] at this
        have : r.id = i := by simpa using this.symm
        exact absurd (by simp [this]) hi
      · simp [hll]; exact this
  split
  · exact ⟨hbase.1, hbase.2⟩
  · exact hbase

theorem head_filter_ne (q : List Nat) (i x : Nat) (h : q.head? = some x) (hne : x ≠ i) :
    (q.filter (· != i)).head? = some x := by
  cases q with
  | nil => simp at h
  | cons a t =>
    simp only [List.head?_cons, Option.some.injEq] at h
    subst h
    have : (a != i) = true := by simpa using hne
    simp [List.filter, this]

theorem x_unwindLock (st : St) (l : Lock) (i : Nat) (h : Inv2X st i) : Inv2X (unwindLock st l i) i := by
  unfold unwindLock
  simp only []
  split
  · exact h
  · cases hg : getReq st i with
    | none => exact h
    | some r =>
      simp only []
      obtain ⟨hrm, hrid⟩ := getReq_mem st i r hg
      by_cases hc : ((queue st l).head? = some i && holds r l) = true
      · simp only [hc, if_true]
        have : (queue st l).head? = some i := by
          simp only [Bool.and_eq_true, decide_eq_true_eq] at hc; exact hc.1
        exact x_release st l i h this
      · rw [if_neg hc]
        -- `i` does not hold the lock: it just leaves the queue
        have hnot : holds r l = false := by
          cases hh : holds r l with
          | false => rfl
          | true =>
            have := (h.2 r hrm).1 l hh
            rw [hrid] at this
            simp [this, hh] at hc
        have hsq : Inv2X (setQueue st l ((queue st l).filter (· != i))) i := by
          refine ⟨by simpa using h.1, ?_⟩
          intro r' hr'
          have hr0 : r' ∈ st.reqs := by simpa using hr'
          refine ⟨?_, (h.2 r' hr0).2⟩
          intro l' hl'
          have hd := (h.2 r' hr0).1 l' hl'
          by_cases hll : l' = l
          · subst hll
            rw [queue_setQueue, if_pos rfl]
            by_cases hid : r'.id = i
            · have : r' = r := unique_of_id st h.1 r' r hr0 hrm (by rw [hid, hrid])
              rw [this, hnot] at hl'; cases hl'
            · exact head_filter_ne _ _ _ hd hid
          · simp [hll]; exact hd
        split
        · split
          · exact ⟨hsq.1, hsq.2⟩
          · exact hsq
        · exact hsq

theorem queue_finish (st : St) (i : Nat) (o : Outcome) (l : Lock) : queue (finish st i o) l = queue st l := by
  cases l <;> rfl

/-- `finish` closes the suspended obligations: a finished request has none -/
theorem inv2_finish (st : St) (i : Nat) (o : Outcome) (h : Inv2X st i) : Inv2 (finish st i o) := by
  have hx : Inv2X (updReq st i fun r => { r with phase := .done }) i :=
    x_updReq st i _ h (fun _ => rfl) (fun r hr _ l hl => (h.2 r hr).1 l hl)
  refine ⟨hx.1, ?_⟩
  intro r' hr'
  have hr'' : r' ∈ (updReq st i fun r => { r with phase := .done }).reqs := hr'
  refine ⟨fun l hl => by
    have := (hx.2 r' hr'').1 l hl
    rw [queue_updReq] at this
    rw [queue_finish]; exact this, ?_⟩
  by_cases hid : r'.id = i
  · obtain ⟨r, hr, he⟩ := mem_updReq st i _ r' hr''
    have : (r.id == i) = true := by
      by_cases hri : (r.id == i) = true
      · exact hri
      · rw [if_neg hri] at he; rw [he] at hid; simp [hid] at hri
    rw [if_pos this] at he
    rw [he]
    exact ⟨by simp [inTransmit], by simp [ackPhase], by simp [afterB]⟩
  · exact (hx.2 r' hr'').2 hid

theorem inv2_unwind (st : St) (i : Nat) (o : Outcome) (h : Inv2 st) : Inv2 (unwind st i o) :=
  inv2_finish _ _ _ (x_unwindLock _ _ _ (x_unwindLock _ _ _ (x_unwindLock _ _ _ (x_of_inv2 st i h))))

end Zboss.Host

namespace Zboss.Host

theorem find_map_upd (l : List Req) (i : Nat) (f : Req → Req) (hf : ∀ r, (f r).id = r.id) :
    (l.map fun r => if (r.id == i) = true then f r else r).find? (·.id == i) = (l.find? (·.id == i)).map f := by
  induction l with
  | nil => rfl
  | cons a t ih =>
    by_cases ha : (a.id == i) = true
    · have h2 : ((f a).id == i) = true := by rw [hf a]; exact ha
      rw [List.map_cons, if_pos ha]
      simp only [List.find?_cons, h2, ha]
      rfl
    · have h3 : ¬ ((a.id == i) = true) := ha
      have h4 : (a.id == i) = false := by simpa using ha
      rw [List.map_cons, if_neg ha]
      simp only [List.find?_cons, h4]
      exact ih

theorem getReq_updReq (st : St) (i : Nat) (f : Req → Req) (hf : ∀ r, (f r).id = r.id) :
    getReq (updReq st i f) i = (getReq st i).map f := find_map_upd st.reqs i f hf

theorem getReq_setQueue (st : St) (l : Lock) (q : List Nat) (i : Nat) : getReq (setQueue st l q) i = getReq st i := by
  cases l <;> rfl

theorem id_setHold (r : Req) (l : Lock) (b : Bool) : (setHold r l b).id = r.id := by cases l <;> rfl
theorem phase_setHold (r : Req) (l : Lock) (b : Bool) : (setHold r l b).phase = r.phase := by cases l <;> rfl
theorem blocking_setHold (r : Req) (l : Lock) (b : Bool) : (setHold r l b).blocking = r.blocking := by cases l <;> rfl

theorem getReq_acquire (st : St) (l : Lock) (i : Nat) (r : Req) (h : getReq st i = some r) :
    getReq (acquire st l i).1 i = some (if (acquire st l i).2 = true then setHold r l true else r) := by
  have key : ∀ q' : List Nat,
      getReq (if q'.head? = some i then (updReq (setQueue st l q') i (setHold · l true), true) else (setQueue st l q', false)).1 i =
      some (if (if q'.head? = some i then (updReq (setQueue st l q') i (setHold · l true), true) else (setQueue st l q', false)).2 = true
        then setHold r l true else r) := by
    intro q'
    by_cases hc : q'.head? = some i
    · simp only [hc, if_true]
      rw [getReq_updReq _ _ _ (fun r => id_setHold r l true), getReq_setQueue, h]; rfl
    · simp only [hc, if_false, Bool.false_eq_true]
      rw [getReq_setQueue, h]
  exact key _

theorem getReq_release (st : St) (l : Lock) (i : Nat) (r : Req) (h : getReq st i = some r) :
    getReq (release st l i) i = some (setHold r l false) := by
  unfold release
  simp only []
  have : getReq (updReq (setQueue st l ((queue st l).drop 1)) i (setHold · l false)) i = some (setHold r l false) := by
    rw [getReq_updReq _ _ _ (fun r => id_setHold r l false), getReq_setQueue, h]; rfl
  split
  · exact this
  · exact this

theorem queue_release_other (st : St) (l l' : Lock) (i : Nat) (h : l' ≠ l) : queue (release st l i) l' = queue st l' := by
  unfold release
  simp only []
  split <;> (cases l <;> cases l' <;> simp_all [queue, setQueue, updReq])

theorem getReq_of_mem (st : St) (hn : (st.reqs.map (·.id)).Nodup) (r : Req) (hr : r ∈ st.reqs) : getReq st r.id = some r := by
  cases hg : getReq st r.id with
  | none =>
    unfold getReq at hg
    have := List.find?_eq_none.mp hg r hr
    simp at this
  | some r' =>
    obtain ⟨hm, hid⟩ := getReq_mem st r.id r' hg
    rw [unique_of_id st hn r' r hm hr hid]

/-- closing lemma: the invariant holds again once request `i` has been given a phase compatible with the
    locks it holds at that point -/
theorem inv2_close (st : St) (i : Nat) (f : Req → Req) (r : Req) (h : Inv2X st i) (hg : getReq st i = some r)
    (hid : ∀ x, (f x).id = x.id) (hh : ∀ l, holds (f r) l = true → holds r l = true) (hp : PhaseHold (f r)) :
    Inv2 (updReq st i f) := by
  obtain ⟨hrm, hrid⟩ := getReq_mem st i r hg
  have hx : Inv2X (updReq st i f) i := by
    apply x_updReq st i f h hid
    intro x hx hxi l hl
    have : x = r := unique_of_id st h.1 x r hx hrm (by rw [hxi, hrid])
    subst this
    have := (h.2 x hx).1 l (hh l hl)
    rw [hid x]; exact this
  apply inv2_of_x _ i hx
  intro r' hr' hid'
  obtain ⟨x, hx', he⟩ := mem_updReq st i f r' hr'
  have hxi : (x.id == i) = true := by
    by_cases hxi : (x.id == i) = true
    · exact hxi
    · rw [if_neg hxi] at he; rw [he] at hid'; simp [hid'] at hxi
  rw [if_pos hxi] at he
  have : x = r := unique_of_id st h.1 x r hx' hrm (by rw [hrid]; simpa using hxi)
  rw [he, this]; exact hp

end Zboss.Host

namespace Zboss.Host

theorem inv2_congr (st st' : St) (hr : st'.reqs = st.reqs) (hb : st'.bq = st.bq) (hm : st'.mq = st.mq) (ht : st'.tq = st.tq)
    (h : Inv2 st) : Inv2 st' := by
  refine ⟨by rw [hr]; exact h.1, ?_⟩
  intro r hr'
  rw [hr] at hr'
  refine ⟨?_, (h.2 r hr').2⟩
  intro l hl
  have := (h.2 r hr').1 l hl
  cases l <;> simp only [queue] at this ⊢
  · rw [hb]; exact this
  · rw [hm]; exact this
  · rw [ht]; exact this

theorem x_congr (st st' : St) (i : Nat) (hr : st'.reqs = st.reqs) (hb : st'.bq = st.bq) (hm : st'.mq = st.mq) (ht : st'.tq = st.tq)
    (h : Inv2X st i) : Inv2X st' i := by
  refine ⟨by rw [hr]; exact h.1, ?_⟩
  intro r hr'
  rw [hr] at hr'
  refine ⟨?_, (h.2 r hr').2⟩
  intro l hl
  have := (h.2 r hr').1 l hl
  cases l <;> simp only [queue] at this ⊢
  · rw [hb]; exact this
  · rw [hm]; exact this
  · rw [ht]; exact this

/-- an unsuccessful `acquire` leaves request `i` as it was -/
theorem inv2_acquire_fail (st : St) (l : Lock) (i : Nat) (r : Req) (h : Inv2 st) (hg : getReq st i = some r)
    (hfail : (acquire st l i).2 = false) : Inv2 (acquire st l i).1 := by
  have hx := x_acquire st l i (x_of_inv2 st i h)
  apply inv2_of_x _ i hx
  intro r' hr' hid
  have h1 := getReq_of_mem _ hx.1 r' hr'
  rw [hid, getReq_acquire st l i r hg, hfail] at h1
  simp only [Bool.false_eq_true, if_false, Option.some.injEq] at h1
  rw [← h1]
  exact (h.2 r (getReq_mem st i r hg).1).2

theorem holds_B (r : Req) : holds r .B = r.holdB := rfl
theorem holds_M (r : Req) : holds r .M = r.holdM := rfl
theorem holds_T (r : Req) : holds r .T = r.holdT := rfl

/-- the lock invariant survives a task step of any request -/
theorem inv2_runReq (fuel : Nat) (st : St) (i : Nat) (h : Inv2 st) : Inv2 (runReq fuel st i) := by
  induction fuel generalizing st with
  | zero => exact h
  | succ fuel ih =>
    unfold runReq
    cases hg : getReq st i with
    | none => exact h
    | some r =>
      obtain ⟨hrm, hrid⟩ := getReq_mem st i r hg
      obtain ⟨hHH, hPH⟩ := h.2 r hrm
      simp only []
      cases hp : r.phase with
      | done => exact h
      | waitAck => exact h
      | waitB =>
        simp only []
        by_cases hb : r.blocking = true
        · simp only [hb, if_true]
          cases hok : (acquire st .B i).2 with
          | false =>
            have := inv2_acquire_fail st .B i r h hg hok
            generalize hacq : acquire st .B i = a at this hok
            obtain ⟨st', ok⟩ := a
            simp only [] at hok this ⊢
            simp only [hok, Bool.false_eq_true, if_false]; exact this
          | true =>
            have hx := x_acquire st .B i (x_of_inv2 st i h)
            have hg' := getReq_acquire st .B i r hg
            rw [hok] at hg'
            generalize hacq : acquire st .B i = a at hx hg' hok
            obtain ⟨st', ok⟩ := a
            simp only [] at hok hx hg' ⊢
            simp only [hok, if_true]
            apply ih
            apply inv2_close st' i _ (setHold r .B true) hx hg' (by intro x; rfl) (by intro l hl; exact hl)
            refine ⟨by simp [inTransmit], by simp [ackPhase], fun _ _ => by simp [setHold]⟩
        · simp only [hb]
          apply ih
          apply inv2_close st i _ r (x_of_inv2 st i h) hg (by intro x; rfl) (by intro l hl; exact hl)
          exact ⟨by simp [inTransmit], by simp [ackPhase], fun hbl => absurd hbl hb⟩
      | waitM =>
        simp only []
        cases hok : (acquire st .M i).2 with
        | false =>
          have := inv2_acquire_fail st .M i r h hg hok
          generalize hacq : acquire st .M i = a at this hok
          obtain ⟨st', ok⟩ := a
          simp only [] at hok this ⊢
          simp only [hok, Bool.false_eq_true, if_false]; exact this
        | true =>
          have hx := x_acquire st .M i (x_of_inv2 st i h)
          have hg' := getReq_acquire st .M i r hg
          rw [hok] at hg'
          generalize hacq : acquire st .M i = a at hx hg' hok
          obtain ⟨st', ok⟩ := a
          simp only [] at hok hx hg' ⊢
          simp only [hok, if_true]
          apply ih
          apply inv2_close st' i _ (setHold r .M true) hx hg' (by intro x; rfl) (by intro l hl; exact hl)
          refine ⟨fun _ => by simp [setHold], by simp [ackPhase], fun hbl _ => ?_⟩
          have := hPH.2.2 hbl (by rw [hp]; rfl)
          simpa [setHold] using this
      | sendfrag =>
        simp only []
        split
        · exact inv2_unwind _ _ _ h
        · apply ih
          apply inv2_close st i _ r (x_of_inv2 st i h) hg (by intro x; rfl) (by intro l hl; exact hl)
          have hM := hPH.1 (by rw [hp]; rfl)
          exact ⟨fun _ => hM, by simp [ackPhase], fun hbl _ => hPH.2.2 hbl (by rw [hp]; rfl)⟩
      | waitT =>
        simp only []
        have hM := hPH.1 (by rw [hp]; rfl)
        cases hok : (acquire st .T i).2 with
        | false =>
          have := inv2_acquire_fail st .T i r h hg hok
          generalize hacq : acquire st .T i = a at this hok
          obtain ⟨st', ok⟩ := a
          simp only [] at hok this ⊢
          simp only [hok, Bool.not_false, if_true]; exact this
        | true =>
          have hx := x_acquire st .T i (x_of_inv2 st i h)
          have hg' := getReq_acquire st .T i r hg
          rw [hok] at hg'
          generalize hacq : acquire st .T i = a at hx hg' hok
          obtain ⟨st', ok⟩ := a
          simp only [] at hok hx hg' ⊢
          simp only [hok, Bool.not_true, Bool.false_eq_true, if_false]
          have hph : ∀ (p : Phase) (d g : Nat), PhaseHold { setHold r .T true with phase := p, deadline := d, gen := g } := by
            intro p d g
            refine ⟨fun _ => by simpa [setHold] using hM, fun _ => by simp [setHold], fun hbl _ => ?_⟩
            have := hPH.2.2 hbl (by rw [hp]; rfl)
            simpa [setHold] using this
          split
          · have hxe : Inv2X (emit st' (.write i r.frag st'.pack r.nfrags)) i := x_congr st' _ i rfl rfl rfl rfl hx
            exact inv2_close _ i _ (setHold r .T true) hxe hg' (by intro x; rfl) (by intro l hl; exact hl) (hph _ _ _)
          · apply ih
            have := inv2_close st' i (fun r => { r with phase := Phase.acked }) (setHold r .T true) hx hg' (by intro x; rfl)
              (by intro l hl; exact hl) (hph Phase.acked (setHold r .T true).deadline (setHold r .T true).gen)
            exact this
      | acked =>
        simp only []
        have hM := hPH.1 (by rw [hp]; rfl)
        have hT := hPH.2.1 (by rw [hp]; rfl)
        have hheadT : (queue st .T).head? = some i := by rw [← hrid]; exact hHH .T hT
        have hheadM : (queue st .M).head? = some i := by rw [← hrid]; exact hHH .M hM
        have hx1 := x_release st .T i (x_of_inv2 st i h) hheadT
        have hg1 := getReq_release st .T i r hg
        split
        · apply ih
          apply inv2_close _ i _ (setHold r .T false) hx1 hg1 (by intro x; rfl) (by intro l hl; exact hl)
          refine ⟨fun _ => by simpa [setHold] using hM, by simp [ackPhase], fun hbl _ => ?_⟩
          have := hPH.2.2 hbl (by rw [hp]; rfl)
          simpa [setHold] using this
        · have hheadM' : (queue (release st .T i) .M).head? = some i := by
            rw [queue_release_other st .T .M i (by decide)]; exact hheadM
          have hx2 := x_release _ .M i hx1 hheadM'
          have hg2 := getReq_release _ .M i _ hg1
          apply ih
          apply inv2_close _ i _ _ hx2 hg2 (by intro x; rfl) (by intro l hl; exact hl)
          refine ⟨by simp [inTransmit], by simp [ackPhase], fun hbl _ => ?_⟩
          have := hPH.2.2 hbl (by rw [hp]; rfl)
          simpa [setHold] using this
      | waitRsp =>
        simp only []
        cases r.got with
        | nothing => exact h
        | cancelled => exact inv2_unwind _ _ _ h
        | rsp =>
          simp only []
          split
          · rename_i hbl
            have hB := hPH.2.2 hbl (by rw [hp]; rfl)
            have hheadB : (queue st .B).head? = some i := by rw [← hrid]; exact hHH .B hB
            exact inv2_finish _ _ _ (x_release st .B i (x_of_inv2 st i h) hheadB)
          · exact inv2_finish _ _ _ (x_of_inv2 st i h)

theorem inv2_settle (fuel : Nat) (st : St) (h : Inv2 st) : Inv2 (settle fuel st) := by
  induction fuel generalizing st with
  | zero => exact h
  | succ fuel ih =>
    unfold settle
    cases hr : st.ready with
    | nil => exact h
    | cons i rest => exact ih _ (inv2_runReq 64 _ i (inv2_congr st _ rfl rfl rfl rfl h))

end Zboss.Host

namespace Zboss.Host

/-- any per-request update that keeps id, hold flags and the phase obligations -/
theorem inv2_map (st st' : St) (g : Req → Req) (h : Inv2 st) (hr : st'.reqs = st.reqs.map g)
    (hb : st'.bq = st.bq) (hm : st'.mq = st.mq) (ht : st'.tq = st.tq)
    (hid : ∀ r, (g r).id = r.id) (hh : ∀ r l, holds (g r) l = holds r l) (hp : ∀ r, PhaseHold r → PhaseHold (g r)) :
    Inv2 st' := by
  refine ⟨?_, ?_⟩
  · rw [hr, List.map_map]
    have : ((fun x => x.id) ∘ g) = (fun x : Req => x.id) := by funext r; exact hid r
    rw [this]; exact h.1
  · intro r' hr'
    rw [hr] at hr'
    obtain ⟨r, hrm, rfl⟩ := List.mem_map.mp hr'
    refine ⟨?_, hp r (h.2 r hrm).2⟩
    intro l hl
    rw [hh r l] at hl
    have := (h.2 r hrm).1 l hl
    rw [hid r]
    cases l <;> simp only [queue] at this ⊢
    · rw [hb]; exact this
    · rw [hm]; exact this
    · rw [ht]; exact this

theorem phaseHold_toAcked (c : Req → Bool) (hc : ∀ r, c r = true → r.phase = .waitAck) (r : Req) (h : PhaseHold r) :
    PhaseHold (if c r = true then { r with phase := Phase.acked } else r) := by
  by_cases hcr : c r = true
  · simp only [hcr, if_true]
    have hp := hc r hcr
    refine ⟨fun _ => h.1 (by rw [hp]; rfl), fun _ => h.2.1 (by rw [hp]; rfl), fun hbl _ => h.2.2 hbl (by rw [hp]; rfl)⟩
  · simp only [hcr]; exact h

theorem inv2_foldl_unwind (ids : List Nat) (st : St) (o : Outcome) (h : Inv2 st) :
    Inv2 (ids.foldl (fun s i => unwind s i o) st) := by
  induction ids generalizing st with
  | nil => exact h
  | cons i is ih => exact ih _ (inv2_unwind st i o h)

theorem inv2_step (st : St) (e : Ev) (h : Inv2 st) : Inv2 (step st e) := by
  have h0 : Inv2 { st with out := [] } := inv2_congr st _ rfl rfl rfl rfl h
  cases e with
  | start id key blocking nfrags timeout =>
    simp only [step]
    split
    · exact h0
    rename_i hfresh
    split
    · exact inv2_congr st _ rfl rfl rfl rfl h
    · apply inv2_settle
      have hnotin : id ∉ st.reqs.map (·.id) := by
        intro hin
        obtain ⟨r, hr, hri⟩ := List.mem_map.mp hin
        apply hfresh
        simp only [List.any_eq_true]
        exact ⟨r, hr, by simp [hri]⟩
      refine ⟨?_, ?_⟩
      · simp only [List.map_append, List.map_cons, List.map_nil]
        exact List.nodup_append.mpr ⟨h.1, by simp, fun a ha b hb => by
          simp at hb; subst hb; intro he; subst he; exact hnotin ha⟩
      · intro r hr
        simp only [List.mem_append, List.mem_singleton] at hr
        rcases hr with hr | hr
        · exact ⟨fun l hl => by have := (h.2 r hr).1 l hl; cases l <;> exact this, (h.2 r hr).2⟩
        · subst hr
          exact ⟨fun l hl => by cases l <;> simp [holds] at hl, by simp [inTransmit], by simp [ackPhase], by simp [afterB]⟩
  | rxAck k =>
    simp only [step]
    split
    · apply inv2_settle
      exact inv2_map st _ (fun r => if (r.phase == Phase.waitAck && r.gen == st.gen) = true then { r with phase := Phase.acked } else r) h rfl rfl rfl rfl
        (fun r => by split <;> rfl) (fun r l => by split <;> (cases l <;> rfl))
        (phaseHold_toAcked (fun r => r.phase == Phase.waitAck && r.gen == st.gen) (fun r hc => by simp at hc; exact hc.1))
    · exact inv2_settle _ _ h0
  | rxRsp key =>
    simp only [step]
    generalize hst1 : (if ({ st with out := [] } : St).transport = true then emit { st with out := [] } Out.wack else { st with out := [] }) = st1
    have h1 : Inv2 st1 := by rw [← hst1]; split <;> exact inv2_congr st _ rfl rfl rfl rfl h
    cases hfind : st1.listeners.find? (fun l => l.2 == key) with
    | none => exact inv2_settle _ _ h1
    | some p =>
      obtain ⟨i, k⟩ := p
      simp only []
      apply inv2_settle
      have h2 : Inv2 (updReq { st1 with listeners := st1.listeners.filter (·.1 != i) } i fun r => { r with got := .rsp }) :=
        inv2_map st1 _ (fun r => if (r.id == i) = true then { r with got := Got.rsp } else r) h1 rfl rfl rfl rfl
          (fun r => by split <;> rfl) (fun r l => by split <;> (cases l <;> rfl)) (fun r hp => by split <;> exact hp)
      split
      · exact inv2_congr _ _ rfl rfl rfl rfl h2
      · exact h2
  | tick =>
    simp only [step]
    cases nextDeadline { st with out := [] } with
    | none => exact h0
    | some d =>
      simp only []
      apply inv2_settle
      apply inv2_foldl_unwind
      exact inv2_map st _ (fun r => if (r.phase == Phase.waitAck && decide (r.deadline ≤ max st.now d)) = true
          then { r with phase := Phase.acked } else r) h rfl rfl rfl rfl
        (fun r => by split <;> rfl) (fun r l => by split <;> (cases l <;> rfl))
        (phaseHold_toAcked _ (fun r hc => by simp at hc; exact hc.1))
  | cancel id =>
    simp only [step]
    cases getReq { st with out := [] } id with
    | none => exact h0
    | some r =>
      simp only []
      split
      · exact h0
      · exact inv2_settle _ _ (inv2_unwind _ _ _ h0)
  | close =>
    simp only [step]
    split
    · apply inv2_settle
      split
      · exact inv2_congr st _ rfl rfl rfl rfl h
      · exact h0
    · apply inv2_settle
      have hm : ∀ (ids : List Nat) (s' : St), s'.reqs = st.reqs.map (fun r => if ids.contains r.id = true then { r with got := Got.cancelled } else r) →
          s'.bq = st.bq → s'.mq = st.mq → s'.tq = st.tq → Inv2 s' := fun ids s' e1 e2 e3 e4 =>
        inv2_map st s' _ h e1 e2 e3 e4 (fun r => by split <;> rfl) (fun r l => by split <;> (cases l <;> rfl))
          (fun r hp => by split <;> exact hp)
      split
      · exact hm _ _ rfl rfl rfl rfl
      · exact hm _ _ rfl rfl rfl rfl
  | lost =>
    simp only [step]
    apply inv2_settle
    split
    · exact inv2_congr st _ rfl rfl rfl rfl h
    · exact inv2_congr st _ rfl rfl rfl rfl h
  | setReset b => exact inv2_congr st _ rfl rfl rfl rfl h
  | connect =>
    simp only [step]
    split
    · exact h0
    · exact inv2_congr st _ rfl rfl rfl rfl h

theorem inv2_init : Inv2 {} := ⟨by simp, fun r hr => by simp at hr⟩

theorem inv2_reachable (evs : List Ev) : Inv2 (runEvents {} evs).1 := by
  suffices h : ∀ (st : St) (log : List (List Out)), Inv2 st →
      Inv2 (evs.foldl (fun acc e => let s := step acc.1 e; (s, acc.2 ++ [s.out])) (st, log)).1 by
    exact h {} [] inv2_init
  induction evs with
  | nil => intro st log h; exact h
  | cons e es ih => intro st log h; exact ih _ _ (inv2_step st e h)

end Zboss.Host

namespace Zboss.Host

/-! ## frame: what task steps never touch -/

def isWD : Out → Bool
  | .write _ _ _ _ => true
  | .done _ _ => true
  | _ => false

structure Frame (st st' : St) : Prop where
  isOpen : st'.isOpen = st.isOpen
  transport : st'.transport = st.transport
  resetting : st'.resetting = st.resetting
  pack : st'.pack = st.pack
  now : st'.now = st.now
  gen : st'.gen = st.gen
  listeners : ∀ l ∈ st'.listeners, l ∈ st.listeners
  out : ∃ extra, st'.out = st.out ++ extra ∧ ∀ o ∈ extra, isWD o = true

theorem Frame.refl (st : St) : Frame st st := ⟨rfl, rfl, rfl, rfl, rfl, rfl, fun _ h => h, [], by simp, by simp⟩

theorem Frame.trans {a b c : St} (h1 : Frame a b) (h2 : Frame b c) : Frame a c := by
  obtain ⟨e1, he1, hw1⟩ := h1.out
  obtain ⟨e2, he2, hw2⟩ := h2.out
  exact ⟨h2.isOpen.trans h1.isOpen, h2.transport.trans h1.transport, h2.resetting.trans h1.resetting,
    h2.pack.trans h1.pack, h2.now.trans h1.now, h2.gen.trans h1.gen, fun l hl => h1.listeners l (h2.listeners l hl),
    e1 ++ e2, by rw [he2, he1, List.append_assoc], fun o ho => by
      rcases List.mem_append.mp ho with h | h
      · exact hw1 o h
      · exact hw2 o h⟩

theorem frame_updReq (st : St) (i : Nat) (f : Req → Req) : Frame st (updReq st i f) :=
  ⟨rfl, rfl, rfl, rfl, rfl, rfl, fun _ h => h, [], by simp [updReq], by simp⟩

theorem frame_setQueue (st : St) (l : Lock) (q : List Nat) : Frame st (setQueue st l q) := by
  cases l <;> exact ⟨rfl, rfl, rfl, rfl, rfl, rfl, fun _ h => h, [], by simp [setQueue], by simp⟩

theorem frame_ready (st : St) (rd : List Nat) : Frame st { st with ready := rd } :=
  ⟨rfl, rfl, rfl, rfl, rfl, rfl, fun _ h => h, [], by simp, by simp⟩

theorem frame_emit (st : St) (o : Out) (ho : isWD o = true) : Frame st (emit st o) :=
  ⟨rfl, rfl, rfl, rfl, rfl, rfl, fun _ h => h, [o], rfl, by simpa using ho⟩

theorem frame_acquire (st : St) (l : Lock) (i : Nat) : Frame st (acquire st l i).1 := by
  unfold acquire
  simp only []
  generalize (if (queue st l).contains i = true then queue st l else queue st l ++ [i]) = q'
  by_cases hc : q'.head? = some i
  · simp only [hc, if_true]; exact (frame_setQueue st l q').trans (frame_updReq _ _ _)
  · simp only [hc, if_false]; exact frame_setQueue st l q'

theorem frame_release (st : St) (l : Lock) (i : Nat) : Frame st (release st l i) := by
  unfold release
  simp only []
  have := (frame_setQueue st l ((queue st l).drop 1)).trans (frame_updReq _ i (setHold · l false))
  split
  · exact this.trans (frame_ready _ _)
  · exact this

theorem frame_finish (st : St) (i : Nat) (o : Outcome) : Frame st (finish st i o) :=
  ⟨rfl, rfl, rfl, rfl, rfl, rfl, fun l hl => by
      simp only [finish, emit, List.mem_filter] at hl; simpa [updReq] using hl.1,
    [.done i o], by simp [finish, emit, updReq], by simp [isWD]⟩

theorem frame_unwindLock (st : St) (l : Lock) (i : Nat) : Frame st (unwindLock st l i) := by
  unfold unwindLock
  simp only []
  split
  · exact Frame.refl st
  · cases getReq st i with
    | none => exact Frame.refl st
    | some r =>
      simp only []
      split
      · exact frame_release st l i
      · split
        · split
          · exact (frame_setQueue st l _).trans (frame_ready _ _)
          · exact frame_setQueue st l _
        · exact frame_setQueue st l _

theorem frame_unwind (st : St) (i : Nat) (o : Outcome) : Frame st (unwind st i o) :=
  (((frame_unwindLock st .T i).trans (frame_unwindLock _ .M i)).trans (frame_unwindLock _ .B i)).trans (frame_finish _ i o)

theorem frame_runReq (fuel : Nat) (st : St) (i : Nat) : Frame st (runReq fuel st i) := by
  induction fuel generalizing st with
  | zero => exact Frame.refl st
  | succ fuel ih =>
    unfold runReq
    cases hg : getReq st i with
    | none => exact Frame.refl st
    | some r =>
      simp only []
      cases hp : r.phase with
      | done => exact Frame.refl st
      | waitAck => exact Frame.refl st
      | waitB =>
        simp only []
        split
        · have ha := frame_acquire st .B i
          generalize acquire st .B i = a at ha
          obtain ⟨st', ok⟩ := a
          simp only []
          split
          · exact (ha.trans (frame_updReq _ _ _)).trans (ih _)
          · exact ha
        · exact (frame_updReq _ _ _).trans (ih _)
      | waitM =>
        simp only []
        have ha := frame_acquire st .M i
        generalize acquire st .M i = a at ha
        obtain ⟨st', ok⟩ := a
        simp only []
        split
        · exact (ha.trans (frame_updReq _ _ _)).trans (ih _)
        · exact ha
      | sendfrag =>
        simp only []
        split
        · exact frame_unwind _ _ _
        · exact (frame_updReq _ _ _).trans (ih _)
      | waitT =>
        simp only []
        have ha := frame_acquire st .T i
        generalize acquire st .T i = a at ha
        obtain ⟨st', ok⟩ := a
        simp only []
        split
        · exact ha
        · split
          · exact (ha.trans (frame_emit _ _ rfl)).trans (frame_updReq _ _ _)
          · exact (ha.trans (frame_updReq _ _ _)).trans (ih _)
      | acked =>
        simp only []
        split
        · exact ((frame_release st .T i).trans (frame_updReq _ _ _)).trans (ih _)
        · exact (((frame_release st .T i).trans (frame_release _ .M i)).trans (frame_updReq _ _ _)).trans (ih _)
      | waitRsp =>
        simp only []
        cases r.got with
        | nothing => exact Frame.refl st
        | cancelled => exact frame_unwind _ _ _
        | rsp =>
          simp only []
          split
          · exact (frame_release st .B i).trans (frame_finish _ _ _)
          · exact frame_finish _ _ _

theorem frame_settle (fuel : Nat) (st : St) : Frame st (settle fuel st) := by
  induction fuel generalizing st with
  | zero => exact Frame.refl st
  | succ fuel ih =>
    unfold settle
    cases hr : st.ready with
    | nil => exact Frame.refl st
    | cons i rest => exact ((frame_ready st rest).trans (frame_runReq 64 _ i)).trans (ih _)

end Zboss.Host

namespace Zboss.Host

theorem notmem_of_frame {st st' : St} (hf : Frame st st') (o : Out) (hwd : isWD o = false) (h : o ∉ st.out) : o ∉ st'.out := by
  obtain ⟨extra, he, hw⟩ := hf.out
  rw [he]
  intro hm
  rcases List.mem_append.mp hm with h1 | h1
  · exact h h1
  · have := hw o h1; rw [hwd] at this; cases this

theorem count_of_frame {st st' : St} (hf : Frame st st') (o : Out) (hwd : isWD o = false) :
    (st'.out.filter (· == o)).length = (st.out.filter (· == o)).length := by
  obtain ⟨extra, he, hw⟩ := hf.out
  rw [he, List.filter_append]
  have : extra.filter (· == o) = [] := by
    apply List.filter_eq_nil_iff.mpr
    intro x hx hq
    have h1 := hw x hx
    have : x = o := by simpa using hq
    rw [this, hwd] at h1; cases h1
  rw [this]; simp

theorem frame_foldl_unwind (ids : List Nat) (st : St) (o : Outcome) : Frame st (ids.foldl (fun s i => unwind s i o) st) := by
  induction ids generalizing st with
  | nil => exact Frame.refl st
  | cons i is ih => exact (frame_unwind st i o).trans (ih _)

end Zboss.Host
