import ZbossModel.Proofs.HostTrace
/-! The invariants of the request machine do not depend on the order in which the event loop runs the ready
    tasks: `MReach` closes the initial state under the immediate effect of any event (`pre`), under one
    micro-step of **any** request task (ready or not, in any order, any number of times) and under arbitrary
    changes of the ready queue.  The deterministic `step` (FIFO ready queue, run each task until it blocks) is
    one such schedule (`mreach_run`). -/
namespace Zboss.Host

theorem nr_pre (st : St) (e : Ev) (h : NoResidue st) : NoResidue (pre st e).1 := by
  have h0 : NoResidue { st with out := [] } := h
  cases e with
  | start id key blocking nfrags timeout =>
    simp only [pre]
    split
    · exact h0
    split
    · exact h0
    · intro l hl
      simp only [List.mem_append, List.mem_singleton] at hl
      rcases hl with hl | hl
      · obtain ⟨r, hr, hid, hph⟩ := h l hl
        exact ⟨r, List.mem_append_left _ hr, hid, hph⟩
      · refine ⟨{ id, key, blocking, nfrags, timeout }, List.mem_append_right _ (by simp), by rw [hl], by simp⟩
  | rxAck k =>
    simp only [pre]
    split
    · exact nr_congr st _ _ (alive_toAcked (fun r => r.phase == Phase.waitAck && r.gen == st.gen)) rfl (fun l hl => hl) h
    · exact h0
  | rxRsp key =>
    simp only [pre]
    generalize hst1 : (if ({ st with out := [] } : St).transport = true then emit { st with out := [] } Out.wack else { st with out := [] }) = st1
    have h1 : NoResidue st1 := by rw [← hst1]; split <;> exact h0
    cases hfind : st1.listeners.find? (fun l => l.2 == key) with
    | none => exact h1
    | some p =>
      obtain ⟨i, k⟩ := p
      simp only []
      have h2 : NoResidue (updReq { st1 with listeners := st1.listeners.filter (·.1 != i) } i fun r => { r with got := .rsp }) :=
        nr_updReq _ _ _ (fun r => ⟨rfl, id⟩) (nr_same st1 _ rfl (fun l hl => (List.mem_filter.mp hl).1) h1)
      split
      · exact nr_same _ _ rfl (fun l hl => hl) h2
      · exact h2
  | tick =>
    simp only [pre]
    cases nextDeadline { st with out := [] } with
    | none => exact h0
    | some d =>
      simp only []
      apply nr_foldl_unwind
      exact nr_congr st _ _ (alive_toAcked (fun r => r.phase == Phase.waitAck && decide (r.deadline ≤ max st.now d))) rfl
        (fun l hl => hl) h
  | cancel id =>
    simp only [pre]
    cases getReq { st with out := [] } id with
    | none => exact h0
    | some r =>
      simp only []
      split
      · exact h0
      · exact nr_unwind _ _ _ h0
  | close =>
    simp only [pre]
    split
    · split
      · exact nr_same st _ rfl (fun l hl => hl) h
      · exact h0
    · have hempty : ∀ (s : St), s.listeners = [] → NoResidue s := fun s hs l hl => by rw [hs] at hl; simp at hl
      split
      · exact hempty _ rfl
      · exact hempty _ rfl
  | lost =>
    simp only [pre]
    split
    · exact nr_same st _ rfl (fun l hl => hl) h
    · exact nr_same st _ rfl (fun l hl => hl) h
  | setReset b => exact h0
  | connect =>
    simp only [pre]
    split
    · exact h0
    · exact nr_same st _ rfl (fun l hl => hl) h

/-- what the event loop may do between two events -/
inductive Sched : St → St → Prop
  | task (st : St) (i : Nat) : Sched st (runReq 1 st i)
  | ready (st : St) (rd : List Nat) : Sched st { st with ready := rd }

/-- states reachable under every scheduling order, with the output history before the current step -/
inductive MReach : List Out → St → Prop
  | init : MReach [] {}
  | event (hist : List Out) (st : St) (e : Ev) : MReach hist st → MReach (hist ++ st.out) (pre st e).1
  | sched (hist : List Out) (st st' : St) : MReach hist st → Sched st st' → MReach hist st'

/-- lock discipline, monitor coupling and no-residue hold in every such state -/
theorem mreach_inv (hist : List Out) (st : St) (h : MReach hist st) : Both hist st ∧ NoResidue st := by
  induction h with
  | init => exact ⟨both_init, nr_init⟩
  | event hist st e _ ih => exact ⟨both_pre hist st e ih.1, nr_pre st e ih.2⟩
  | sched hist st st' _ hs ih =>
    cases hs with
    | task i => exact ⟨both_runReq1 hist st i ih.1, nr_runReq 1 st i ih.2⟩
    | ready rd => exact ⟨⟨inv2_congr st _ rfl rfl rfl rfl ih.1.1, ih.1.2⟩, ih.2⟩

theorem mreach_settle (hist : List Out) (fuel : Nat) (st : St) (h : MReach hist st) : MReach hist (settle fuel st) :=
  settle_ind (MReach hist) (fun s rd hs => .sched hist s _ hs (.ready s rd))
    (fun s i hs => .sched hist s _ hs (.task s i)) fuel st h

theorem mreach_step (hist : List Out) (st : St) (e : Ev) (h : MReach hist st) : MReach (hist ++ st.out) (step st e) := by
  rw [step_eq_pre]
  cases (pre st e).2
  · exact .event hist st e h
  · exact mreach_settle _ _ _ (.event hist st e h)

/-- the deterministic machine is one of the schedules -/
theorem mreach_run (evs : List Ev) :
    ∃ hist, (runEvents {} evs).2.flatten = hist ++ (runEvents {} evs).1.out ∧ MReach hist (runEvents {} evs).1 := by
  suffices h : ∀ (st : St) (log : List (List Out)) (hist : List Out), log.flatten = hist ++ st.out → MReach hist st →
      ∃ hist', (evs.foldl (fun acc e => let s := step acc.1 e; (s, acc.2 ++ [s.out])) (st, log)).2.flatten =
        hist' ++ (evs.foldl (fun acc e => let s := step acc.1 e; (s, acc.2 ++ [s.out])) (st, log)).1.out ∧
        MReach hist' (evs.foldl (fun acc e => let s := step acc.1 e; (s, acc.2 ++ [s.out])) (st, log)).1 by
    exact h {} [] [] rfl .init
  induction evs with
  | nil => intro st log hist hl hb; exact ⟨hist, hl, hb⟩
  | cons e es ih =>
    intro st log hist hl hb
    simp only [List.foldl_cons]
    apply ih _ _ (hist ++ st.out)
    · simp only [List.flatten_append, List.flatten_cons, List.flatten_nil, List.append_nil, hl]
    · exact mreach_step hist st e hb

end Zboss.Host
