import ZbossModel.Proofs.RxLog
import ZbossModel.Link
/-! Helper lemmas for C07 / C08: how `data_received` moves the transmit sequence number and
    the ACK event, what `grant` writes. -/
namespace Zboss.Link
open Gen Rx

/-- sequence value an ACK frame acknowledges -/
def ackSeqOf (f : Frame) : Nat := (LL.flags f.ll &&& Gen.flagACKSeq) >>> 4

/-- effect of one accepted frame on (packet sequence number, ACK event set) -/
def ackStep (hasEvent : Bool) (s : Nat × Bool) (f : Frame) : Nat × Bool :=
  if isAck f ∧ ackSeqOf f = s.1 then (s.1 % 3 + 1, s.2 || hasEvent) else s

theorem handle_seq (h : Frame → Bool) (st : RxState) (f : Frame) :
    ((handleFrame h st f).1.packSeq, (handleFrame h st f).1.eventSet) =
      ackStep st.hasEvent (st.packSeq, st.eventSet) f ∧
    (handleFrame h st f).1.hasEvent = st.hasEvent := by
  unfold handleFrame ackStep isAck ackSeqOf
  by_cases ha : Frame.hasFlag (LL.flags f.ll) Gen.flagisACK = true
  · simp only [ha, if_true, true_and]
    split <;> simp
  · simp only [ha, if_false]
    cases f.hl with
    | none => simp
    | some p => simp

theorem foldl_seq (h : Frame → Bool) (frames : List Frame) (st : RxState) (log : List Rx.Out) :
    let r := frames.foldl (fun acc f => let s := handleFrame h acc.1 f; (s.1, acc.2 ++ s.2)) (st, log)
    (r.1.packSeq, r.1.eventSet) = frames.foldl (ackStep st.hasEvent) (st.packSeq, st.eventSet) ∧
      r.1.hasEvent = st.hasEvent := by
  induction frames generalizing st log with
  | nil => simp
  | cons f fs ih =>
    obtain ⟨h1, h2⟩ := handle_seq h st f
    have := ih (handleFrame h st f).1 (log ++ (handleFrame h st f).2)
    simp only [List.foldl_cons]
    rw [h2, h1] at this
    exact this

/-- `data_received` moves the sequence number exactly by the accepted ACK frames, one after the other -/
theorem dataReceived_seq (h : Frame → Bool) (st : RxState) (data : Bytes) :
    ((dataReceived h st data).1.packSeq, (dataReceived h st data).1.eventSet) =
      (run tryFrame (st.buf ++ data)).1.foldl (ackStep st.hasEvent) (st.packSeq, st.eventSet) := by
  unfold dataReceived
  rw [runWith_resyncPy]
  exact (foldl_seq h _ { st with buf := (run tryFrame (st.buf ++ data)).2 } []).1

theorem ackStep_range (he : Bool) (s : Nat × Bool) (f : Frame) (h : s.1 ≤ 3) : (ackStep he s f).1 ≤ 3 ∧
    (s.1 = 0 ∨ 1 ≤ (ackStep he s f).1) := by
  unfold ackStep; split
  · refine ⟨?_, ?_⟩ <;> simp only [] <;> omega
  · omega

theorem fold_ackStep_range (he : Bool) (fs : List Frame) (s : Nat × Bool) (h : s.1 ≤ 3) :
    (fs.foldl (ackStep he) s).1 ≤ 3 := by
  induction fs generalizing s with
  | nil => exact h
  | cons f fs ih => exact ih _ (ackStep_range he s f h).1

/-- the event can only become set through an accepted ACK frame that carried the current number -/
theorem fold_ackStep_set (he : Bool) (fs : List Frame) (s : Nat × Bool) (hs : s.2 = false)
    (h : (fs.foldl (ackStep he) s).2 = true) : ∃ f ∈ fs, isAck f = true := by
  induction fs generalizing s with
  | nil => simp [hs] at h
  | cons f fs ih =>
    by_cases hm : isAck f ∧ ackSeqOf f = s.1
    · exact ⟨f, by simp, hm.1⟩
    · have : ackStep he s f = s := by simp [ackStep, hm]
      simp only [List.foldl_cons, this] at h
      obtain ⟨g, hg, hga⟩ := ih s hs h
      exact ⟨g, by simp [hg], hga⟩

/-- no ACK among the accepted frames: neither the number nor the event moves -/
theorem fold_ackStep_noack (he : Bool) (fs : List Frame) (s : Nat × Bool) (h : ∀ f ∈ fs, isAck f = false) :
    fs.foldl (ackStep he) s = s := by
  induction fs generalizing s with
  | nil => rfl
  | cons f fs ih =>
    have : ackStep he s f = s := by simp [ackStep, h f (by simp)]
    simp only [List.foldl_cons, this]
    exact ih s (fun g hg => h g (by simp [hg]))

/-! ## grant -/

theorem grant_seq (st : St) (q : List (Nat × Frame)) :
    (grant st q).1.rx.packSeq = st.rx.packSeq ∧ (grant st q).1.rx.transport = st.rx.transport ∧
    (grant st q).1.now = st.now := by
  induction q with
  | nil => simp [grant]
  | cons x rest ih =>
    obtain ⟨i, f⟩ := x
    unfold grant
    split
    · simp
    · simpa using ih

def isWrote : Out → Bool
  | .wrote _ _ => true
  | _ => false

/-- `grant` writes at most one data frame - the head of the queue, stamped with the current number -
    and then somebody holds the lock; without a transport it writes nothing and the queue drains -/
theorem grant_shape (st : St) (q : List (Nat × Frame)) :
    (st.rx.transport = true → ∀ i f rest, q = (i, f) :: rest →
      (grant st q).2 = [.wire (Frame.stamp st.rx.packSeq f).serialize, .wrote i st.rx.packSeq] ∧
      (grant st q).1.holder = some ⟨i, st.now + Gen.ackTimeoutMs⟩ ∧ (grant st q).1.queue = rest) ∧
    (st.rx.transport = false → (grant st q).2 = q.map (fun x => .done x.1) ∧
      (grant st q).1.queue = [] ∧ (grant st q).1.holder = st.holder) ∧
    (q = [] → (grant st q).2 = [] ∧ (grant st q).1.holder = st.holder ∧ (grant st q).1.queue = []) := by
  refine ⟨?_, ?_, ?_⟩
  · intro ht i f rest hq
    subst hq
    simp [grant, ht]
  · intro ht
    induction q with
    | nil => simp [grant]
    | cons x rest ih =>
      obtain ⟨i, f⟩ := x
      unfold grant
      simp only [ht, Bool.false_eq_true, if_false, List.map_cons]
      exact ⟨by rw [ih.1], ih.2⟩
  · intro hq; subst hq; simp [grant]

end Zboss.Link
