import ZbossModel.Crc
/-! Helper lemmas for C03: GF(2)-linearity and injectivity of the LFSR clock,
    table step = eight clocks for every (state, byte) pair. -/
namespace Zboss.Crc

variable {w : Nat}

theorem xor_xor_cancel (a b p : BitVec w) : (a ^^^ p) ^^^ (b ^^^ p) = a ^^^ b := by
  have : (a ^^^ p) ^^^ (b ^^^ p) = (a ^^^ b) ^^^ (p ^^^ p) := by ac_rfl
  rw [this, BitVec.xor_self, BitVec.xor_zero]

theorem bitStep_xor (P a b : BitVec w) : bitStep P (a ^^^ b) = bitStep P a ^^^ bitStep P b := by
  unfold bitStep
  rw [BitVec.ushiftRight_xor_distrib, BitVec.getLsbD_xor]
  cases ha : a.getLsbD 0 <;> cases hb : b.getLsbD 0 <;> simp
  · ac_rfl
  · ac_rfl
  · exact (xor_xor_cancel _ _ _).symm

theorem bitStep_zero (P : BitVec w) : bitStep P 0#w = 0#w := by simp [bitStep]

theorem iter_xor (P : BitVec w) (n : Nat) (a b : BitVec w) :
    iter P n (a ^^^ b) = iter P n a ^^^ iter P n b := by
  induction n generalizing a b with
  | zero => rfl
  | succ n ih => simp [iter, bitStep_xor, ih]

theorem iter_zero (P : BitVec w) (n : Nat) : iter P n 0#w = 0#w := by
  induction n with
  | zero => rfl
  | succ n ih => rw [iter, bitStep_zero, ih]

theorem iter_add (P : BitVec w) (m n : Nat) (c : BitVec w) :
    iter P (m + n) c = iter P n (iter P m c) := by
  induction m generalizing c with
  | zero => simp [iter]
  | succ m ih => rw [Nat.succ_add]; simp only [iter]; exact ih _

theorem eq_zero_of_shift (c : BitVec w) (hl : c.getLsbD 0 = false) (h : c >>> 1 = 0#w) : c = 0#w := by
  apply BitVec.eq_of_getLsbD_eq
  intro i hi
  cases i with
  | zero => simpa using hl
  | succ j =>
    have : (c >>> 1).getLsbD j = c.getLsbD (j+1) := by
      rw [BitVec.getLsbD_ushiftRight]; congr 1; omega
    rw [← this, h]; simp

/-- the LFSR clock is injective as soon as the top coefficient of `P` is set -/
theorem bitStep_eq_zero (P c : BitVec w) (hw : 0 < w) (hP : P.getLsbD (w - 1) = true)
    (h : bitStep P c = 0#w) : c = 0#w := by
  unfold bitStep at h
  cases hl : c.getLsbD 0
  · rw [hl] at h; simp at h; exact eq_zero_of_shift c hl h
  · rw [hl] at h; simp at h
    have h15 : ((c >>> 1) ^^^ P).getLsbD (w - 1) = false := by rw [h]; simp
    rw [BitVec.getLsbD_xor, BitVec.getLsbD_ushiftRight, hP] at h15
    have : c.getLsbD (1 + (w - 1)) = false := by
      apply BitVec.getLsbD_of_ge; omega
    rw [this] at h15; simp at h15

theorem iter_eq_zero (P : BitVec w) (hw : 0 < w) (hP : P.getLsbD (w - 1) = true) (n : Nat)
    (c : BitVec w) (h : iter P n c = 0#w) : c = 0#w := by
  induction n generalizing c with
  | zero => exact h
  | succ n ih => exact bitStep_eq_zero P c hw hP (ih _ h)

/-- low `k` bits zero ⇒ `k` clocks are a plain shift -/
theorem iter_shift (P : BitVec w) (k : Nat) (c : BitVec w)
    (h : ∀ i, i < k → c.getLsbD i = false) : iter P k c = c >>> k := by
  induction k generalizing c with
  | zero => simp [iter]
  | succ k ih =>
    have h0 : c.getLsbD 0 = false := h 0 (by omega)
    have hs : bitStep P c = c >>> 1 := by unfold bitStep; rw [h0]; simp
    rw [iter, hs, ih]
    · rw [← BitVec.shiftRight_add]; congr 1; omega
    · intro i hi
      rw [BitVec.getLsbD_ushiftRight]; exact h _ (by omega)

/-! ## the two polynomials -/

def P8 : W8 := 0xB2#8
def P16 : W16 := 0x8408#16

theorem koop_poly_reflected : koop.poly.reverse = P8 := by decide
theorem kermit_poly_reflected : kermit.poly.reverse = P16 := by decide

/-! ## table laws (256 entries each, checked by the kernel, no axioms) -/

theorem table16_ok : ∀ i : Fin 256,
    Gen.table16Raw.getD i.val 0 = (iter P16 8 (BitVec.ofNat 16 i.val)).toNat := by decide +kernel

/-- the CRC8 table has init/xorout 0xFF folded in: `T'[x] = T[x ^ 0xFF] ^ 0xFF` -/
theorem table8_ok : ∀ i : Fin 256,
    Gen.table8Raw.getD i.val 0 = ((iter P8 8 (BitVec.ofNat 8 i.val ^^^ 0xFF#8)) ^^^ 0xFF#8).toNat := by
  decide +kernel

theorem table_sizes : Gen.table8Raw.size = 256 ∧ Gen.table16Raw.size = 256 := by decide +kernel

attribute [local irreducible] Gen.table8Raw Gen.table16Raw

/-! ## CRC16: table step = specStep for all 2^16 × 2^8 pairs -/

theorem split16 (x : W16) : x = (x &&& 0xFF00#16) ^^^ (x &&& 0x00FF#16) := by
  apply BitVec.eq_of_getLsbD_eq
  intro i hi
  simp only [BitVec.getLsbD_xor, BitVec.getLsbD_and]
  have : i < 16 := hi
  rcases (by omega : i = 0 ∨ i = 1 ∨ i = 2 ∨ i = 3 ∨ i = 4 ∨ i = 5 ∨ i = 6 ∨ i = 7 ∨ i = 8 ∨ i = 9 ∨ i = 10 ∨ i = 11 ∨ i = 12 ∨ i = 13 ∨ i = 14 ∨ i = 15) with h|h|h|h|h|h|h|h|h|h|h|h|h|h|h|h <;> subst h <;> simp (decide := true)

theorem hi_low_zero (x : W16) : ∀ i, i < 8 → (x &&& 0xFF00#16).getLsbD i = false := by
  intro i hi
  simp only [BitVec.getLsbD_and]
  rcases (by omega : i = 0 ∨ i = 1 ∨ i = 2 ∨ i = 3 ∨ i = 4 ∨ i = 5 ∨ i = 6 ∨ i = 7) with h|h|h|h|h|h|h|h <;> subst h <;> simp (decide := true)

theorem and_ff_lt (x : W16) : (x &&& 0xFF#16).toNat < 256 := by
  have := @BitVec.toNat_and 16 x 0xFF#16
  rw [this]
  exact Nat.lt_of_le_of_lt Nat.and_le_right (by decide)

theorem step16_eq_spec (s : W16) (b : W8) : step16 s b = specStep P16 s b := by
  unfold step16 specStep
  generalize hx : s ^^^ b.zeroExtend 16 = x
  have h1 : iter P16 8 x = iter P16 8 (x &&& 0xFF00#16) ^^^ iter P16 8 (x &&& 0x00FF#16) := by
    conv => lhs; rw [split16 x]
    exact iter_xor P16 8 _ _
  have h2 : iter P16 8 (x &&& 0xFF00#16) = (x &&& 0xFF00#16) >>> 8 := iter_shift P16 8 _ (hi_low_zero x)
  have h3 : BitVec.ofNat 16 (Gen.table16Raw.getD (x &&& 0xFF#16).toNat 0) = iter P16 8 (x &&& 0x00FF#16) := by
    have := table16_ok ⟨(x &&& 0xFF#16).toNat, and_ff_lt x⟩
    simp only at this
    rw [this, BitVec.ofNat_toNat, BitVec.setWidth_eq, BitVec.ofNat_toNat, BitVec.setWidth_eq]
  have h4 : x >>> 8 = s >>> 8 := by
    rw [← hx, BitVec.ushiftRight_xor_distrib]
    have : BitVec.zeroExtend 16 b >>> 8 = 0#16 := by
      apply BitVec.eq_of_toNat_eq
      simp [BitVec.toNat_ushiftRight]
      have := b.isLt
      omega
    rw [this, BitVec.xor_zero]
  have h5 : (x &&& 0xFF00#16) >>> 8 = x >>> 8 := by
    apply BitVec.eq_of_getLsbD_eq
    intro i hi
    simp only [BitVec.getLsbD_ushiftRight, BitVec.getLsbD_and]
    rcases (by omega : i = 0 ∨ i = 1 ∨ i = 2 ∨ i = 3 ∨ i = 4 ∨ i = 5 ∨ i = 6 ∨ i = 7 ∨ 8 ≤ i) with h|h|h|h|h|h|h|h|h
    all_goals first | (subst h; simp (decide := true)) | (have : x.getLsbD (8 + i) = false := BitVec.getLsbD_of_ge _ _ (by omega); simp [this])
  rw [h1, h2, h3, h5, h4]

/-! ## CRC8: table step is the spec step conjugated by the folded init/xorout -/

theorem step8_eq_spec (s b : W8) : step8 s b = specStep P8 (s ^^^ 0xFF#8) b ^^^ 0xFF#8 := by
  unfold step8 specStep
  have := table8_ok ⟨(s ^^^ b).toNat, (s ^^^ b).isLt⟩
  simp only at this
  rw [this, BitVec.ofNat_toNat, BitVec.setWidth_eq, BitVec.ofNat_toNat, BitVec.setWidth_eq]
  have : BitVec.zeroExtend 8 b = b := by simp
  rw [this]
  congr 2
  ac_rfl

theorem crc16From_eq (s : W16) (bs : List W8) : crc16From s bs = bs.foldl (specStep P16) s := by
  induction bs generalizing s with
  | nil => rfl
  | cons b t ih => simp only [crc16From, List.foldl_cons] at ih ⊢; rw [step16_eq_spec]; exact ih _

theorem crc8From_eq (s : W8) (bs : List W8) :
    crc8From s bs = bs.foldl (specStep P8) (s ^^^ 0xFF#8) ^^^ 0xFF#8 := by
  induction bs generalizing s with
  | nil =>
    simp only [crc8From, List.foldl_nil]
    rw [BitVec.xor_assoc, BitVec.xor_self, BitVec.xor_zero]
  | cons b t ih =>
    simp only [crc8From, List.foldl_cons] at ih ⊢
    rw [ih, step8_eq_spec]
    congr 2
    rw [BitVec.xor_assoc, BitVec.xor_self, BitVec.xor_zero]

end Zboss.Crc
