import ZbossModel.Proofs.HostBound
/-! After the link is gone (`connection_lost`, or `close()`): every timer that fires brings the set of running requests
    strictly closer to empty.  A potential - 2 for a request that may still write a frame or waits for an
    acknowledgement, 1 for any other running request - never grows under task steps once the API has no uart, and drops
    with every timer expiry as long as a request is running.  Hence after at most `2 * (number of requests)` timer
    expiries nothing is running: no request outlives its own timers. -/
namespace Zboss.Host

def prank : Phase → Nat
  | .done => 0
  | .waitAck => 2
  | .waitT => 2
  | _ => 1

def pot (v : View) : Nat := (v.cores.map fun c => prank c.phase).sum

theorem sum_map_le {α : Type} (l : List α) (f g : α → Nat) (h : ∀ x ∈ l, f x ≤ g x) : (l.map f).sum ≤ (l.map g).sum := by
  induction l with
  | nil => simp
  | cons a t ih =>
    simp only [List.map_cons, List.sum_cons]
    have := h a (List.mem_cons_self ..)
    have := ih (fun x hx => h x (List.mem_cons_of_mem _ hx))
    omega

theorem sum_map_lt {α : Type} (l : List α) (f g : α → Nat) (h : ∀ x ∈ l, f x ≤ g x) (a : α) (ha : a ∈ l) (hlt : f a < g a) :
    (l.map f).sum < (l.map g).sum := by
  induction l with
  | nil => cases ha
  | cons b t ih =>
    simp only [List.map_cons, List.sum_cons]
    have hb := h b (List.mem_cons_self ..)
    have ht := sum_map_le t f g (fun x hx => h x (List.mem_cons_of_mem _ hx))
    rcases List.mem_cons.mp ha with rfl | hat
    · omega
    · have := ih (fun x hx => h x (List.mem_cons_of_mem _ hx)) hat
      omega

theorem pot_upd_le (v : View) (i : Nat) (g : Core → Core)
    (h : ∀ c ∈ v.cores, c.id = i → prank (g c).phase ≤ prank c.phase) : pot (v.upd i g) ≤ pot v := by
  simp only [pot, View.upd, List.map_map]
  apply sum_map_le
  intro c hc
  simp only [Function.comp]
  split
  · rename_i hi; exact h c hc (by simpa using hi)
  · exact Nat.le_refl _

theorem pot_upd_lt (v : View) (i : Nat) (g : Core → Core)
    (h : ∀ c ∈ v.cores, c.id = i → prank (g c).phase ≤ prank c.phase)
    (a : Core) (ha : a ∈ v.cores) (hai : a.id = i) (hlt : prank (g a).phase < prank a.phase) : pot (v.upd i g) < pot v := by
  simp only [pot, View.upd, List.map_map]
  apply sum_map_lt _ _ _ _ a ha
  · simp only [Function.comp]; rw [if_pos (by simpa using hai)]; exact hlt
  · intro c hc
    simp only [Function.comp]
    split
    · rename_i hi; exact h c hc (by simpa using hi)
    · exact Nat.le_refl _

@[simp] theorem pot_emit (v : View) (o : Out) : pot (v.emit o) = pot v := rfl
@[simp] theorem pot_dropL (v : View) (i : Nat) : pot (v.dropL i) = pot v := rfl

theorem pot_done_le (v : View) (i : Nat) (o : Outcome) : pot (((v.upd i toDone).dropL i).emit (.done i o)) ≤ pot v := by
  rw [pot_emit, pot_dropL]
  exact pot_upd_le v i toDone (fun c _ _ => by simp [toDone, prank])

theorem pot_done_lt (v : View) (i : Nat) (o : Outcome) (a : Core) (ha : a ∈ v.cores) (hai : a.id = i) (hp : a.phase ≠ .done) :
    pot (((v.upd i toDone).dropL i).emit (.done i o)) < pot v := by
  rw [pot_emit, pot_dropL]
  refine pot_upd_lt v i toDone (fun c _ _ => by simp [toDone, prank]) a ha hai ?_
  simp only [toDone, prank]
  cases h : a.phase <;> first | exact absurd h hp | decide

/-- with the API closed, a task micro-step never raises the potential -/
theorem pot_micro (st : St) (i : Nat) (hinv : Inv2 st) (hclosed : st.isOpen = false) :
    pot (view (runReq 1 st i)) ≤ pot (view st) := by
  cases hg : getReq st i with
  | none =>
    have : runReq 1 st i = st := by rw [runReq]; simp only [hg]
    rw [this]; exact Nat.le_refl _
  | some r =>
    obtain ⟨hrm, hrid⟩ := getReq_mem st i r hg
    have hu := uniq_of_inv2 st hinv
    have h0 : core r ∈ (view st).cores := List.mem_map.mpr ⟨r, hrm, rfl⟩
    by_cases hsf : r.phase = .sendfrag
    · have : runReq 1 st i = unwind st i .runtimeError := by
        rw [runReq]; simp only [hg, hsf, hclosed, Bool.not_false, if_true]
      rw [this, view_unwind]; exact pot_done_le _ i _
    · have hm := micro_view st i r hg
      generalize view (runReq 1 st i) = v' at hm
      have key : ∀ g : Core → Core, prank (g (core r)).phase ≤ prank (core r).phase →
          pot ((view st).upd i g) ≤ pot (view st) := by
        intro g hle
        apply pot_upd_le
        intro c hc hci
        have : c = core r := hu.id c hc _ h0 (by show c.id = r.id; rw [hrid]; exact hci)
        rw [this]; exact hle
      cases hm with
      | stay => exact Nat.le_refl _
      | move g ha =>
        rcases ha with ⟨hp, rfl⟩ | ⟨hp, rfl⟩ | ⟨hp, _⟩ | ⟨hp, _, rfl⟩ | ⟨hp, _, rfl⟩ | ⟨hp, _, rfl⟩
        · exact key _ (by rw [hp]; simp [prank])
        · exact key _ (by rw [hp]; simp [prank])
        · exact absurd hp hsf
        · exact key _ (by rw [hp]; simp [prank])
        · exact key _ (by rw [hp]; simp [prank])
        · exact key _ (by rw [hp]; simp [prank])
      | write s hp _ =>
        show pot (((view st).emit _).upd i _) ≤ _
        have : pot (((view st).emit (.write i (core r).frag s (core r).nfrags)).upd i fun c => { c with phase := .waitAck })
            = pot ((view st).upd i fun c => { c with phase := .waitAck }) := rfl
        rw [this]
        exact key _ (by rw [hp]; simp [prank])
      | fin o _ => exact pot_done_le _ i o

theorem pot_settle (fuel : Nat) (st : St) (hinv : Inv2 st) (hclosed : st.isOpen = false) :
    pot (view (settle fuel st)) ≤ pot (view st) := by
  have := settle_ind (fun s => Inv2 s ∧ s.isOpen = false ∧ pot (view s) ≤ pot (view st))
    (fun s rd hs => ⟨inv2_congr s _ rfl rfl rfl rfl hs.1, hs.2.1, hs.2.2⟩)
    (fun s i hs => ⟨inv2_runReq 1 s i hs.1, by rw [(frame_runReq 1 s i).isOpen]; exact hs.2.1,
      Nat.le_trans (pot_micro s i hs.1 hs.2.1) hs.2.2⟩)
    fuel st ⟨hinv, hclosed, Nat.le_refl _⟩
  exact this.2.2

theorem pot_foldl_unwind (ids : List Nat) (st : St) (o : Outcome) :
    pot (view (ids.foldl (fun s i => unwind s i o) st)) ≤ pot (view st) := by
  induction ids generalizing st with
  | nil => exact Nat.le_refl _
  | cons i is ih =>
    refine Nat.le_trans (ih _) ?_
    rw [view_unwind]; exact pot_done_le _ i o

/-- the minimum of a non-empty list is one of its elements -/
theorem foldl_min_mem (l : List Nat) (d : Nat)
    (h : l.foldl (fun acc d => match acc with | none => some d | some a => some (min a d)) none = some d) : d ∈ l := by
  have key : ∀ (l : List Nat) (a : Nat),
      l.foldl (fun acc d => match acc with | none => some d | some a => some (min a d)) (some a) = some d → d = a ∨ d ∈ l := by
    intro l
    induction l with
    | nil => intro a h; left; simpa using h.symm
    | cons b t ih =>
      intro a h
      simp only [List.foldl_cons] at h
      rcases ih _ h with h1 | h1
      · by_cases hab : a ≤ b
        · left; rw [h1]; exact Nat.min_eq_left hab
        · right; rw [h1, Nat.min_eq_right (by omega)]; exact List.mem_cons_self ..
      · right; exact List.mem_cons_of_mem _ h1
  cases l with
  | nil => cases h
  | cons a t =>
    simp only [List.foldl_cons] at h
    rcases key t a h with h1 | h1
    · rw [h1]; exact List.mem_cons_self ..
    · exact List.mem_cons_of_mem _ h1

theorem foldl_min_some (l : List Nat) (hne : l ≠ []) :
    ∃ d, l.foldl (fun acc d => match acc with | none => some d | some a => some (min a d)) none = some d := by
  have key : ∀ (l : List Nat) (a : Nat),
      ∃ d, l.foldl (fun acc d => match acc with | none => some d | some a => some (min a d)) (some a) = some d := by
    intro l
    induction l with
    | nil => intro a; exact ⟨a, rfl⟩
    | cons b t ih => intro a; simp only [List.foldl_cons]; exact ih _
  cases l with
  | nil => exact absurd rfl hne
  | cons a t => simp only [List.foldl_cons]; exact key t a

theorem pot_view (st : St) : pot (view st) = (st.reqs.map fun r => prank r.phase).sum := by
  simp only [pot, view, List.map_map]; rfl

/-- what a timer expiry does to an acknowledgement wait -/
def ackExpire (now : Nat) (r : Req) : Req :=
  if r.phase == Phase.waitAck && decide (r.deadline ≤ now) then { r with phase := Phase.acked } else r

theorem ackExpire_le (now : Nat) (r : Req) : prank (ackExpire now r).phase ≤ prank r.phase := by
  unfold ackExpire
  split
  · rename_i hc
    have : r.phase = .waitAck := by simp only [Bool.and_eq_true, beq_iff_eq] at hc; exact hc.1
    rw [this]; simp [prank]
  · exact Nat.le_refl _

/-- expiry of the response waits: if one of them is really pending and due, the potential drops -/
theorem rsp_expire_pot (st2 : St) (j : Req) (hjm : j ∈ st2.reqs) (hjr : j.phase = .waitRsp) (hjd : j.deadline ≤ st2.now)
    (hjg : j.got = .nothing) :
    pot (view (((st2.reqs.filter fun (r : Req) => r.phase == Phase.waitRsp && decide (r.deadline ≤ st2.now) && r.got == Got.nothing).map
      (·.id)).foldl (fun s i => unwind s i .timeoutError) st2)) < pot (view st2) := by
  have hjx : j ∈ st2.reqs.filter fun (r : Req) => r.phase == Phase.waitRsp && decide (r.deadline ≤ st2.now) && r.got == Got.nothing := by
    refine List.mem_filter.mpr ⟨hjm, ?_⟩
    simp [hjr, hjg]; exact hjd
  cases hids : (st2.reqs.filter fun (r : Req) => r.phase == Phase.waitRsp && decide (r.deadline ≤ st2.now) && r.got == Got.nothing) with
  | nil => rw [hids] at hjx; cases hjx
  | cons a t =>
    have ham : a ∈ st2.reqs.filter fun (r : Req) => r.phase == Phase.waitRsp && decide (r.deadline ≤ st2.now) && r.got == Got.nothing := by
      rw [hids]; exact List.mem_cons_self ..
    obtain ⟨ham2, hac⟩ := List.mem_filter.mp ham
    have hap : a.phase = .waitRsp := by
      simp only [Bool.and_eq_true, beq_iff_eq] at hac; exact hac.1.1
    simp only [List.map_cons, List.foldl_cons]
    refine Nat.lt_of_le_of_lt (pot_foldl_unwind _ _ _) ?_
    rw [view_unwind]
    refine pot_done_lt _ a.id _ (core a) (List.mem_map.mpr ⟨a, ham2, rfl⟩) rfl ?_
    show a.phase ≠ .done
    rw [hap]; decide

/-- **a timer expiry makes progress**: with the API closed (or the link lost), at a quiescent point with a request
    still running, the next timer expiry strictly lowers the potential -/
theorem tick_progress (st : St) (hg : Good st) (hclosed : st.isOpen = false) (hq : st.ready = [])
    (hrun : ∃ r ∈ st.reqs, r.phase ≠ .done) : pot (view (step st .tick)) < pot (view st) := by
  have hinv := hg.inv
  -- a running request is parked; without a pending timer `drain` says nobody runs
  have hex : ∃ j ∈ st.reqs, j.phase = .waitAck ∨ (j.phase = .waitRsp ∧ j.got = .nothing) := by
    apply Classical.byContradiction
    intro hno
    obtain ⟨r, hrm, hrp⟩ := hrun
    exact hrp (drain st hg.live hq (fun x hx hp => hno ⟨x, hx, Or.inl hp⟩)
      (fun x hx hp hgot => hno ⟨x, hx, Or.inr ⟨hp, hgot⟩⟩) r hrm)
  obtain ⟨j0, hj0m, hj0⟩ := hex
  -- hence a deadline exists
  have hne : (st.reqs.filter fun r => r.phase == Phase.waitAck || r.phase == Phase.waitRsp).map (·.deadline) ≠ [] := by
    intro he
    have : j0.deadline ∈ (st.reqs.filter fun r => r.phase == Phase.waitAck || r.phase == Phase.waitRsp).map (·.deadline) :=
      List.mem_map.mpr ⟨j0, List.mem_filter.mpr ⟨hj0m, by rcases hj0 with h | ⟨h, _⟩ <;> simp [h]⟩, rfl⟩
    rw [he] at this; cases this
  obtain ⟨d, hd⟩ := foldl_min_some _ hne
  have hnd : nextDeadline ({ st with out := [] } : St) = some d := hd
  -- ... attained by a request `j` whose wait is really pending
  obtain ⟨j, hjf, hjd⟩ := List.mem_map.mp (foldl_min_mem _ d hd)
  obtain ⟨hjm, hjc⟩ := List.mem_filter.mp hjf
  have hj : j.phase = .waitAck ∨ (j.phase = .waitRsp ∧ j.got = .nothing) := by
    simp only [Bool.or_eq_true, beq_iff_eq] at hjc
    rcases hjc with h | h
    · exact Or.inl h
    · right
      refine ⟨h, ?_⟩
      rcases hg.live.wake j hjm (by rw [h]; decide) (by simp) with hw | hw
      · rw [hq] at hw; cases hw
      · rcases hw with ⟨l, h1, _, _⟩ | hw | ⟨_, hw2⟩
        · rw [h] at h1; cases l <;> cases h1
        · rw [h] at hw; cases hw
        · exact hw2
  have hstep : step st .tick = settle (settleFuel (pre st .tick).1) (pre st .tick).1 := by
    rw [step_eq_pre]
    have : (pre st .tick).2 = true := by simp only [pre, hnd]
    rw [this]; rfl
  have hinvP : Inv2 (pre st .tick).1 := by
    obtain ⟨hist, hb⟩ := hg.both
    exact (both_pre hist st .tick hb).1
  have hpre : (pre st .tick).1.isOpen = false ∧ pot (view (pre st .tick).1) < pot (view st) := by
    simp only [pre, hnd]
    refine ⟨by rw [(frame_foldl_unwind _ _ _).isOpen]; exact hclosed, ?_⟩
    rcases hj with hja | ⟨hjr, hjg⟩
    · -- an acknowledgement wait expires
      refine Nat.lt_of_le_of_lt (pot_foldl_unwind _ _ _) ?_
      rw [pot_view, pot_view]
      show ((st.reqs.map (ackExpire (max st.now d))).map fun r => prank r.phase).sum < _
      rw [List.map_map]
      refine sum_map_lt _ _ _ (fun r _ => ackExpire_le _ r) j hjm ?_
      simp only [Function.comp, ackExpire]
      rw [if_pos (by simp [hja]; omega)]
      rw [hja]; simp [prank]
    · -- a response wait expires
      refine Nat.lt_of_lt_of_le (rsp_expire_pot _ j ?_ hjr ?_ hjg) ?_
      · show j ∈ st.reqs.map (ackExpire (max st.now d))
        exact List.mem_map.mpr ⟨j, hjm, by simp [ackExpire, hjr]⟩
      · show j.deadline ≤ max st.now d
        omega
      · rw [pot_view, pot_view]
        show ((st.reqs.map (ackExpire (max st.now d))).map fun r => prank r.phase).sum ≤ _
        rw [List.map_map]
        exact sum_map_le _ _ _ (fun r _ => ackExpire_le _ r)
  rw [hstep]
  exact Nat.lt_of_le_of_lt (pot_settle _ _ hinvP hpre.1) hpre.2

/-- a timer expiry leaves the API closed and never raises the potential -/
theorem tick_closed (st : St) (hg : Good st) (hclosed : st.isOpen = false) :
    (step st .tick).isOpen = false ∧ pot (view (step st .tick)) ≤ pot (view st) := by
  rw [step_eq_pre]
  cases hnd : nextDeadline ({ st with out := [] } : St) with
  | none =>
    have : pre st .tick = (({ st with out := [] } : St), false) := by simp only [pre, hnd]
    rw [this]
    exact ⟨hclosed, Nat.le_refl _⟩
  | some d =>
    have h2 : (pre st .tick).2 = true := by simp only [pre, hnd]
    have hinvP : Inv2 (pre st .tick).1 := by
      obtain ⟨hist, hb⟩ := hg.both
      exact (both_pre hist st .tick hb).1
    have hpre : (pre st .tick).1.isOpen = false ∧ pot (view (pre st .tick).1) ≤ pot (view st) := by
      simp only [pre, hnd]
      refine ⟨by rw [(frame_foldl_unwind _ _ _).isOpen]; exact hclosed, ?_⟩
      refine Nat.le_trans (pot_foldl_unwind _ _ _) ?_
      rw [pot_view, pot_view]
      show ((st.reqs.map (ackExpire (max st.now d))).map fun r => prank r.phase).sum ≤ _
      rw [List.map_map]
      exact sum_map_le _ _ _ (fun r _ => ackExpire_le _ r)
    rw [h2]
    show (settle (settleFuel (pre st .tick).1) (pre st .tick).1).isOpen = false ∧ _
    exact ⟨by rw [(frame_settle _ _).isOpen]; exact hpre.1, Nat.le_trans (pot_settle _ _ hinvP hpre.1) hpre.2⟩

theorem pot_zero_iff (st : St) : pot (view st) = 0 ↔ ∀ r ∈ st.reqs, r.phase = .done := by
  rw [pot_view]
  constructor
  · intro h r hrm
    have : ∀ (l : List Req), (l.map fun r => prank r.phase).sum = 0 → ∀ r ∈ l, prank r.phase = 0 := by
      intro l
      induction l with
      | nil => intro _ r hr; cases hr
      | cons a t ih =>
        intro hs r hr
        simp only [List.map_cons, List.sum_cons] at hs
        rcases List.mem_cons.mp hr with rfl | hr
        · omega
        · exact ih (by omega) r hr
    have h0 := this st.reqs h r hrm
    cases hp : r.phase <;> rw [hp] at h0 <;> first | rfl | (simp [prank] at h0)
  · intro h
    have : ∀ (l : List Req), (∀ r ∈ l, r.phase = .done) → (l.map fun r => prank r.phase).sum = 0 := by
      intro l
      induction l with
      | nil => intro _; rfl
      | cons a t ih =>
        intro hl
        simp only [List.map_cons, List.sum_cons]
        rw [hl a (List.mem_cons_self ..), ih (fun r hr => hl r (List.mem_cons_of_mem _ hr))]; rfl
    exact this _ h

/-- `n` timer expiries in a row -/
def ticks : Nat → St → St
  | 0, st => st
  | n + 1, st => ticks n (step st .tick)

/-- **the link is gone: requests end with their timers.**  From any reachable state in which the API has no uart any
    more (after `connection_lost` or `close()`), as many timer expiries as the potential counts - at most two per
    request - end every request, provided each expiry is taken at a quiescent point. -/
theorem loss_drains (n : Nat) (st : St) (hg : Good st) (hclosed : st.isOpen = false)
    (hq : ∀ k, k < n → (ticks k st).ready = []) (hn : pot (view st) ≤ n) :
    ∀ r ∈ (ticks n st).reqs, r.phase = .done := by
  induction n generalizing st with
  | zero => exact (pot_zero_iff st).mp (by omega)
  | succ n ih =>
    have htc := tick_closed st hg hclosed
    have hle : pot (view (step st .tick)) ≤ n := by
      by_cases hrun : ∃ r ∈ st.reqs, r.phase ≠ .done
      · have := tick_progress st hg hclosed (hq 0 (by omega)) hrun
        omega
      · have h0 : pot (view st) = 0 := (pot_zero_iff st).mpr (fun r hrm => Classical.byContradiction fun hp => hrun ⟨r, hrm, hp⟩)
        have := htc.2
        omega
    exact ih (step st .tick) (good_step st .tick hg) htc.1 (fun k hk => hq (k + 1) (by omega)) hle

theorem pot_le (st : St) : pot (view st) ≤ 2 * st.reqs.length := by
  rw [pot_view]
  have : ∀ (l : List Req), (l.map fun r => prank r.phase).sum ≤ 2 * l.length := by
    intro l
    induction l with
    | nil => simp
    | cons a t ih =>
      simp only [List.map_cons, List.sum_cons, List.length_cons]
      have : prank a.phase ≤ 2 := by cases a.phase <;> simp [prank]
      omega
  exact this _

end Zboss.Host
