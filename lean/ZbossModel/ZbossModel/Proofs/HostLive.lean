import ZbossModel.Proofs.HostCover
/-! No lost wake-up: every running request is either runnable (in the ready queue) or parked for a reason that
    somebody else will lift - a lock held by a running request, the ACK wait, a still pending response future.
    Together with queue integrity this gives the *drain* theorem: once the API is shut, a quiescent state without an
    ACK wait has no running request left. -/
namespace Zboss.Host

def waitPhase : Lock → Phase
  | .B => .waitB | .M => .waitM | .T => .waitT

/-- the phases in which a request holds lock `l` -/
def heldPhase (l : Lock) (r : Req) : Prop :=
  match l with
  | .T => ackPhase r.phase = true
  | .M => inTransmit r.phase = true
  | .B => r.blocking = true ∧ afterB r.phase = true

/-- queued for lock `l` (only blocking requests ever queue for the blocking lock) -/
def waiting (l : Lock) (r : Req) : Prop := r.phase = waitPhase l ∧ (l = .B → r.blocking = true)

/-- parked: not runnable, for a reason somebody else will lift -/
def Parked (st : St) (r : Req) : Prop :=
  (∃ l, r.phase = waitPhase l ∧ r.id ∈ queue st l ∧ (queue st l).head? ≠ some r.id) ∨
  r.phase = .waitAck ∨
  (r.phase = .waitRsp ∧ r.got = .nothing)

/-- queue integrity + no lost wake-up; `x` is the task that is executing right now (exempt from the wake-up clause) -/
structure Live (st : St) (x : Option Nat) : Prop where
  nodup : ∀ l, (queue st l).Nodup
  qi : ∀ l, ∀ i ∈ queue st l, ∃ r ∈ st.reqs, r.id = i ∧ r.phase ≠ .done ∧
    (waiting l r ∨ (holds r l = true ∧ heldPhase l r))
  wake : ∀ r ∈ st.reqs, r.phase ≠ .done → some r.id ≠ x → r.id ∈ st.ready ∨ Parked st r

theorem Live.weaken {st : St} {x : Option Nat} (h : Live st none) : Live st x :=
  ⟨h.nodup, h.qi, fun r hr hp _ => h.wake r hr hp (by simp)⟩

theorem heldPhase_congr {l : Lock} {r r' : Req} (hp : r'.phase = r.phase) (hb : r'.blocking = r.blocking)
    (h : heldPhase l r) : heldPhase l r' := by
  cases l <;> simp only [heldPhase] at * <;> rw [hp] <;> first | exact h | (rw [hb]; exact h)

/-- Parked reads the queues only -/
theorem parked_queues {st st' : St} {r : Req} (hq : ∀ l, queue st' l = queue st l) (h : Parked st r) : Parked st' r := by
  rcases h with ⟨l, h1, h2, h3⟩ | h | h
  · exact Or.inl ⟨l, h1, by rw [hq l]; exact h2, by rw [hq l]; exact h3⟩
  · exact Or.inr (Or.inl h)
  · exact Or.inr (Or.inr h)

/-- elements of `reqs` other than request `i` are untouched by `updReq … i …` -/
theorem mem_updReq_other (st : St) (i : Nat) (f : Req → Req) (r : Req) (hr : r ∈ st.reqs) (hne : r.id ≠ i) :
    r ∈ (updReq st i f).reqs := by
  simp only [updReq, List.mem_map]
  exact ⟨r, hr, by rw [if_neg (by simpa using hne)]⟩

theorem mem_updReq_self (st : St) (i : Nat) (f : Req → Req) (r : Req) (hr : r ∈ st.reqs) (he : r.id = i) :
    f r ∈ (updReq st i f).reqs := by
  simp only [updReq, List.mem_map]
  exact ⟨r, hr, by rw [if_pos (by simpa using he)]⟩

theorem of_mem_updReq (st : St) (i : Nat) (f : Req → Req) (hid : ∀ r, (f r).id = r.id) (r' : Req)
    (h : r' ∈ (updReq st i f).reqs) : (r' ∈ st.reqs ∧ r'.id ≠ i) ∨ ∃ r ∈ st.reqs, r.id = i ∧ r' = f r := by
  obtain ⟨r, hr, he⟩ := mem_updReq st i f r' h
  by_cases hi : (r.id == i) = true
  · right; rw [if_pos hi] at he; exact ⟨r, hr, by simpa using hi, he⟩
  · left; rw [if_neg hi] at he; rw [he]; exact ⟨hr, by simpa using hi⟩

/-! ### a per-request update of request `i` (the executing task) -/

/-- request `i` changes phase / counters / hold flags; for every lock whose queue it is in, the new record
    satisfies the queue-integrity clause -/
theorem live_upd (st : St) (i : Nat) (f : Req → Req) (r : Req) (h : Live st (some i)) (hn : (st.reqs.map (·.id)).Nodup)
    (hg : getReq st i = some r) (hid : ∀ x, (f x).id = x.id) (hrun : (f r).phase ≠ .done)
    (hq : ∀ l, i ∈ queue st l → (waiting l (f r) ∨ (holds (f r) l = true ∧ heldPhase l (f r)))) :
    Live (updReq st i f) (some i) := by
  obtain ⟨hrm, hrid⟩ := getReq_mem st i r hg
  refine ⟨fun l => by simpa using h.nodup l, ?_, ?_⟩
  · intro l j hj
    have hj' : j ∈ queue st l := by simpa using hj
    obtain ⟨rj, hrj, hidj, hpj, hd⟩ := h.qi l j hj'
    by_cases hji : j = i
    · subst hji
      have : rj = r := unique_of_id st hn rj r hrj hrm (by rw [hidj, hrid])
      subst this
      exact ⟨f rj, mem_updReq_self st j f rj hrj hidj, by rw [hid]; exact hidj, hrun, hq l hj'⟩
    · exact ⟨rj, mem_updReq_other st i f rj hrj (by rw [hidj]; exact hji), hidj, hpj, hd⟩
  · intro r' hr' hp' hx
    rcases of_mem_updReq st i f hid r' hr' with ⟨hm, hne⟩ | ⟨r0, hr0, hi0, rfl⟩
    · rcases h.wake r' hm hp' hx with hw | hw
      · exact Or.inl hw
      · exact Or.inr (parked_queues (fun l => by simp) hw)
    · exfalso; apply hx; rw [hid, hi0]

/-- the record of request `i` found through any queue is the one `getReq` finds -/
theorem qi_self {st : St} {i : Nat} {r : Req} (h : Live st (some i)) (hn : (st.reqs.map (·.id)).Nodup)
    (hg : getReq st i = some r) (l : Lock) (hm : i ∈ queue st l) :
    waiting l r ∨ (holds r l = true ∧ heldPhase l r) := by
  obtain ⟨hrm, hrid⟩ := getReq_mem st i r hg
  obtain ⟨rj, hrj, hidj, _, hd⟩ := h.qi l i hm
  have : rj = r := unique_of_id st hn rj r hrj hrm (by rw [hidj, hrid])
  rw [← this]; exact hd

/-- setting or clearing a hold flag of the executing request (clearing only for a lock whose queue it has left) -/
theorem live_setHold (st : St) (i : Nat) (l : Lock) (b : Bool) (r : Req) (h : Live st (some i))
    (hn : (st.reqs.map (·.id)).Nodup) (hg : getReq st i = some r) (hp : r.phase ≠ .done)
    (hb : b = false → i ∉ queue st l) : Live (updReq st i (setHold · l b)) (some i) := by
  apply live_upd st i _ r h hn hg (fun x => id_setHold x l b) (by rw [phase_setHold]; exact hp)
  intro l' hm
  rcases qi_self h hn hg l' hm with hd | ⟨hh, hd⟩
  · left; exact ⟨by rw [phase_setHold]; exact hd.1, fun hl => by rw [blocking_setHold]; exact hd.2 hl⟩
  · right
    refine ⟨?_, heldPhase_congr (phase_setHold r l b) (blocking_setHold r l b) hd⟩
    rw [holds_setHold]
    by_cases hl : l' = l
    · subst hl
      cases b with
      | true => simp
      | false => exact absurd hm (hb rfl)
    · rw [if_neg hl]; exact hh

theorem live_ready {st : St} {x : Option Nat} (rd : List Nat) (h : Live st x) (hsub : ∀ j ∈ st.ready, j ∈ rd) :
    Live { st with ready := rd } x :=
  ⟨h.nodup, h.qi, fun r hr hp hx => by
    rcases h.wake r hr hp hx with hw | hw
    · exact Or.inl (hsub _ hw)
    · exact Or.inr (parked_queues (fun l => by cases l <;> rfl) hw)⟩

/-- `lock.acquire()` of the executing request: it joins the queue (once) -/
theorem live_enqueue (st : St) (l : Lock) (i : Nat) (r : Req) (h : Live st (some i)) (hg : getReq st i = some r)
    (hp : r.phase = waitPhase l) (hbl : l = .B → r.blocking = true) :
    Live (setQueue st l (if (queue st l).contains i = true then queue st l else queue st l ++ [i])) (some i) := by
  obtain ⟨hrm, hrid⟩ := getReq_mem st i r hg
  have hrun : r.phase ≠ .done := by rw [hp]; cases l <;> decide
  by_cases hc : (queue st l).contains i = true
  · rw [if_pos hc]
    have : setQueue st l (queue st l) = st := by cases l <;> rfl
    rw [this]; exact h
  · rw [if_neg hc]
    have hni : i ∉ queue st l := by simpa using hc
    refine ⟨?_, ?_, ?_⟩
    · intro l'
      rw [queue_setQueue]
      by_cases hl : l' = l
      · subst hl; rw [if_pos rfl]
        exact List.nodup_append.mpr ⟨h.nodup l', by simp, fun a ha b hb => by
          simp at hb; subst hb; intro he; subst he; exact hni ha⟩
      · rw [if_neg hl]; exact h.nodup l'
    · intro l' j hj
      rw [queue_setQueue] at hj
      by_cases hl : l' = l
      · subst hl; rw [if_pos rfl] at hj
        rcases List.mem_append.mp hj with hj | hj
        · obtain ⟨rj, hrj, r1, r2, r3⟩ := h.qi l' j hj
          exact ⟨rj, by simpa using hrj, r1, r2, r3⟩
        · simp at hj; subst hj
          exact ⟨r, by simpa using hrm, hrid, hrun, Or.inl ⟨hp, hbl⟩⟩
      · rw [if_neg hl] at hj
        obtain ⟨rj, hrj, r1, r2, r3⟩ := h.qi l' j hj
        exact ⟨rj, by simpa using hrj, r1, r2, r3⟩
    · intro r' hr' hp' hx
      have hr'' : r' ∈ st.reqs := by simpa using hr'
      rcases h.wake r' hr'' hp' hx with hw | hw
      · left; cases l <;> exact hw
      · right
        rcases hw with ⟨l', h1, h2, h3⟩ | hw | hw
        · refine Or.inl ⟨l', h1, ?_, ?_⟩
          · rw [queue_setQueue]; by_cases hl : l' = l
            · subst hl; rw [if_pos rfl]; exact List.mem_append_left _ h2
            · rw [if_neg hl]; exact h2
          · rw [queue_setQueue]; by_cases hl : l' = l
            · subst hl; rw [if_pos rfl]
              cases hq : queue st l' with
              | nil => rw [hq] at h2; cases h2
              | cons a t => rw [hq] at h3; simpa using h3
            · rw [if_neg hl]; exact h3
        · exact Or.inr (Or.inl hw)
        · exact Or.inr (Or.inr hw)

theorem live_acquire (st : St) (l : Lock) (i : Nat) (r : Req) (h : Live st (some i))
    (hn : (st.reqs.map (·.id)).Nodup) (hg : getReq st i = some r) (hp : r.phase = waitPhase l)
    (hbl : l = .B → r.blocking = true) : Live (acquire st l i).1 (some i) := by
  have he := live_enqueue st l i r h hg hp hbl
  unfold acquire
  simp only []
  generalize (if (queue st l).contains i = true then queue st l else queue st l ++ [i]) = q' at he
  by_cases hc : q'.head? = some i
  · simp only [hc, if_true]
    apply live_setHold _ i l true r he (by simpa using hn) (by rw [getReq_setQueue]; exact hg)
      (by rw [hp]; cases l <;> decide) (by intro hb; cases hb)
  · simp only [hc, if_false]; exact he

/-- the head of a queue is removed and the new head, if any, is woken -/
theorem live_pop_wake (st : St) (l : Lock) (i : Nat) (t : List Nat) (h : Live st (some i)) (hq : queue st l = i :: t) :
    Live { (setQueue st l t) with ready := st.ready ++ (match t.head? with | some j => [j] | none => []) } (some i) := by
  have hnd := h.nodup l
  rw [hq] at hnd
  have hqs : ∀ l', queue ({ (setQueue st l t) with ready := st.ready ++ (match t.head? with | some j => [j] | none => []) } : St) l' =
      if l' = l then t else queue st l' := by
    intro l'; cases l <;> cases l' <;> simp [queue, setQueue]
  refine ⟨?_, ?_, ?_⟩
  · intro l'; rw [hqs]
    by_cases hl : l' = l
    · rw [if_pos hl]; exact (List.nodup_cons.mp hnd).2
    · rw [if_neg hl]; exact h.nodup l'
  · intro l' j hj
    rw [hqs] at hj
    have hreqs : ({ (setQueue st l t) with ready := st.ready ++ (match t.head? with | some j => [j] | none => []) } : St).reqs = st.reqs := by
      cases l <;> rfl
    rw [hreqs]
    by_cases hl : l' = l
    · rw [if_pos hl] at hj; subst hl
      exact h.qi l' j (by rw [hq]; exact List.mem_cons_of_mem _ hj)
    · rw [if_neg hl] at hj; exact h.qi l' j hj
  · intro r' hr' hp' hx
    have hr'' : r' ∈ st.reqs := by cases l <;> exact hr'
    have hne : r'.id ≠ i := fun he => hx (by rw [he])
    have hready : ∀ z, z ∈ st.ready ++ (match t.head? with | some j => [j] | none => []) →
        z ∈ ({ (setQueue st l t) with ready := st.ready ++ (match t.head? with | some j => [j] | none => []) } : St).ready := by
      intro z hz; cases l <;> exact hz
    rcases h.wake r' hr'' hp' hx with hw | hw
    · exact Or.inl (hready _ (List.mem_append_left _ hw))
    · rcases hw with ⟨l', h1, h2, h3⟩ | hw | hw
      · by_cases hl : l' = l
        · subst hl
          rw [hq] at h2
          have hmt : r'.id ∈ t := by
            rcases List.mem_cons.mp h2 with he | hm
            · exact absurd he hne
            · exact hm
          by_cases hh : t.head? = some r'.id
          · left; apply hready; rw [hh]; simp
          · right; exact Or.inl ⟨l', h1, by rw [hqs, if_pos rfl]; exact hmt, by rw [hqs, if_pos rfl]; exact hh⟩
        · right; exact Or.inl ⟨l', h1, by rw [hqs, if_neg hl]; exact h2, by rw [hqs, if_neg hl]; exact h3⟩
      · exact Or.inr (Or.inr (Or.inl hw))
      · exact Or.inr (Or.inr (Or.inr hw))

/-- the holder (head of the queue) leaves the queue; the next waiter is woken -/
theorem live_release (st : St) (l : Lock) (i : Nat) (r : Req) (h : Live st (some i))
    (hn : (st.reqs.map (·.id)).Nodup) (hg : getReq st i = some r) (hp : r.phase ≠ .done)
    (hhead : (queue st l).head? = some i) : Live (release st l i) (some i) := by
  obtain ⟨t, hq⟩ : ∃ t, queue st l = i :: t := by
    cases hq : queue st l with
    | nil => rw [hq] at hhead; cases hhead
    | cons a t => rw [hq] at hhead; simp at hhead; exact ⟨t, by rw [hhead]⟩
  have hnd := h.nodup l
  rw [hq] at hnd
  have hit : i ∉ t := (List.nodup_cons.mp hnd).1
  have h1 := live_pop_wake st l i t h hq
  have h2 := live_setHold _ i l false r h1 (by cases l <;> exact hn) (by cases l <;> exact hg) hp (by
    intro _; cases l <;> simpa [queue, setQueue] using hit)
  have he : release st l i = updReq ({ (setQueue st l t) with ready := st.ready ++ (match t.head? with | some j => [j] | none => []) } : St) i (setHold · l false) := by
    unfold release
    simp only [hq, List.drop_succ_cons, List.drop_zero]
    cases t.head? with
    | none => cases l <;> simp [updReq, setQueue]
    | some j => cases l <;> simp [updReq, setQueue]
  rw [he]; exact h2

/-- a waiter (not the holder) leaves a queue; if it had already been woken the wake-up is passed on -/
theorem live_leave (st : St) (l : Lock) (i : Nat) (h : Live st (some i)) :
    Live { (setQueue st l ((queue st l).filter (· != i))) with
      ready := st.ready ++ (if (queue st l).head? = some i then
        (match ((queue st l).filter (· != i)).head? with | some j => [j] | none => []) else []) } (some i) := by
  have hqs : ∀ (rd : List Nat) l', queue ({ (setQueue st l ((queue st l).filter (· != i))) with ready := rd } : St) l' =
      if l' = l then (queue st l).filter (· != i) else queue st l' := by
    intro rd l'; cases l <;> cases l' <;> simp [queue, setQueue]
  have hreqs : ∀ (rd : List Nat), ({ (setQueue st l ((queue st l).filter (· != i))) with ready := rd } : St).reqs = st.reqs := by
    intro rd; cases l <;> rfl
  have hready : ∀ (rd : List Nat), ({ (setQueue st l ((queue st l).filter (· != i))) with ready := rd } : St).ready = rd := by
    intro rd; cases l <;> rfl
  refine ⟨?_, ?_, ?_⟩
  · intro l'; rw [hqs]
    by_cases hl : l' = l
    · rw [if_pos hl]; exact (h.nodup l).filter _
    · rw [if_neg hl]; exact h.nodup l'
  · intro l' j hj
    rw [hqs] at hj; rw [hreqs]
    by_cases hl : l' = l
    · rw [if_pos hl] at hj; subst hl
      exact h.qi l' j (List.mem_filter.mp hj).1
    · rw [if_neg hl] at hj; exact h.qi l' j hj
  · intro r' hr' hp' hx
    rw [hreqs] at hr'
    have hne : r'.id ≠ i := fun he => hx (by rw [he])
    rcases h.wake r' hr' hp' hx with hw | hw
    · left; rw [hready]; exact List.mem_append_left _ hw
    · rcases hw with ⟨l', h1, h2, h3⟩ | hw | hw
      · by_cases hl : l' = l
        · subst hl
          have hmf : r'.id ∈ (queue st l').filter (· != i) := List.mem_filter.mpr ⟨h2, by simpa using hne⟩
          by_cases hh : ((queue st l').filter (· != i)).head? = some r'.id
          · -- r' has become the head: then `i` was the head before and the wake-up is passed on
            have hwas : (queue st l').head? = some i := by
              cases hq : queue st l' with
              | nil => rw [hq] at h2; cases h2
              | cons a t =>
                by_cases hai : a = i
                · rw [hai]; rfl
                · exfalso
                  rw [hq] at hh h3
                  have : (List.filter (· != i) (a :: t)).head? = some a :=
                    head_filter_ne (a :: t) i a rfl hai
                  rw [this] at hh
                  simp at hh h3
                  exact h3 hh
            left; rw [hready, if_pos hwas, hh]; simp
          · right; exact Or.inl ⟨l', h1, by rw [hqs, if_pos rfl]; exact hmf, by rw [hqs, if_pos rfl]; exact hh⟩
        · right; exact Or.inl ⟨l', h1, by rw [hqs, if_neg hl]; exact h2, by rw [hqs, if_neg hl]; exact h3⟩
      · exact Or.inr (Or.inr (Or.inl hw))
      · exact Or.inr (Or.inr (Or.inr hw))

theorem live_unwindLock (st : St) (l : Lock) (i : Nat) (r : Req) (h : Live st (some i))
    (hn : (st.reqs.map (·.id)).Nodup) (hg : getReq st i = some r) (hp : r.phase ≠ .done) :
    Live (unwindLock st l i) (some i) := by
  unfold unwindLock
  simp only [hg]
  split
  · exact h
  · split
    · rename_i hc
      have hhead : (queue st l).head? = some i := by
        simp only [Bool.and_eq_true, decide_eq_true_eq] at hc; exact hc.1
      exact live_release st l i r h hn hg hp hhead
    · have hL := live_leave st l i h
      split
      · rename_i hwas
        rw [if_pos hwas] at hL
        split
        · rename_i j hj
          rw [hj] at hL
          have h2 := live_ready (st.ready ++ [j]) hL (fun z hz => by cases l <;> exact hz)
          cases l <;> exact h2
        · rename_i hj
          rw [hj] at hL
          have h2 := live_ready st.ready hL (fun z hz => by cases l <;> simpa using hz)
          cases l <;> exact h2
      · rename_i hwas
        rw [if_neg hwas] at hL
        have h2 := live_ready st.ready hL (fun z hz => by cases l <;> simpa using hz)
        cases l <;> exact h2

theorem queue_unwindLock_other (st : St) (l l' : Lock) (i : Nat) (h : l' ≠ l) :
    queue (unwindLock st l i) l' = queue st l' := by
  unfold unwindLock
  simp only []
  split
  · rfl
  · cases getReq st i with
    | none => rfl
    | some r =>
      simp only []
      split
      · exact queue_release_other st l l' i h
      · split
        · split <;> (cases l <;> cases l' <;> simp_all [queue, setQueue])
        · cases l <;> cases l' <;> simp_all [queue, setQueue]

theorem notmem_unwindLock (st : St) (l : Lock) (i : Nat) (r : Req) (hnd : (queue st l).Nodup)
    (hg : getReq st i = some r) : i ∉ queue (unwindLock st l i) l := by
  unfold unwindLock
  simp only [hg]
  split
  · rename_i hc; simpa using hc
  · split
    · rename_i hc
      have hhead : (queue st l).head? = some i := by
        simp only [Bool.and_eq_true, decide_eq_true_eq] at hc; exact hc.1
      have hq : queue (release st l i) l = (queue st l).drop 1 := by
        unfold release; simp only []
        split <;> (cases l <;> simp [queue, setQueue, updReq])
      rw [hq]
      cases hqq : queue st l with
      | nil => simp
      | cons a t =>
        rw [hqq] at hhead hnd
        simp at hhead; subst hhead
        simpa using (List.nodup_cons.mp hnd).1
    · have hf : i ∉ (queue st l).filter (· != i) := by
        intro hm; have := (List.mem_filter.mp hm).2; simp at this
      split
      · split <;> (cases l <;> simpa [queue, setQueue] using hf)
      · cases l <;> simpa [queue, setQueue] using hf

theorem getReq_unwindLock (st : St) (l : Lock) (i : Nat) (r : Req) (hg : getReq st i = some r) :
    ∃ r', getReq (unwindLock st l i) i = some r' ∧ r'.phase = r.phase := by
  unfold unwindLock
  simp only [hg]
  split
  · exact ⟨r, hg, rfl⟩
  · split
    · exact ⟨_, getReq_release st l i r hg, phase_setHold r l false⟩
    · split
      · split
        · exact ⟨r, by rw [← hg]; cases l <;> rfl, rfl⟩
        · exact ⟨r, by rw [← hg]; cases l <;> rfl, rfl⟩
      · exact ⟨r, by rw [← hg]; cases l <;> rfl, rfl⟩

theorem ids_unwindLock (st : St) (l : Lock) (i : Nat) :
    (unwindLock st l i).reqs.map (·.id) = st.reqs.map (·.id) := by
  unfold unwindLock
  simp only []
  split
  · rfl
  · cases getReq st i with
    | none => rfl
    | some r =>
      simp only []
      split
      · unfold release; simp only []
        have := ids_updReq (setQueue st l ((queue st l).drop 1)) i (setHold · l false) (fun x => id_setHold x l false)
        split <;> (rw [show ∀ (s : St) rd, ({ s with ready := rd } : St).reqs = s.reqs from fun _ _ => rfl] at * <;> first | (rw [this]; simp) | skip)
        all_goals (first | (rw [this]; simp) | skip)
      · split
        · split <;> (cases l <;> rfl)
        · cases l <;> rfl

/-- the request ends: no queue contains it any more, so nobody waits behind a finished request -/
theorem live_finish (st : St) (i : Nat) (o : Outcome) (h : Live st (some i)) (hq : ∀ l, i ∉ queue st l) :
    Live (finish st i o) none := by
  refine ⟨fun l => by rw [queue_finish]; exact h.nodup l, ?_, ?_⟩
  · intro l j hj
    rw [queue_finish] at hj
    obtain ⟨rj, hrj, hidj, r2, r3⟩ := h.qi l j hj
    have hne : rj.id ≠ i := by rw [hidj]; intro he; exact hq l (he ▸ hj)
    refine ⟨rj, ?_, hidj, r2, r3⟩
    simp only [finish, emit, updReq, List.mem_map]
    exact ⟨rj, hrj, by rw [if_neg (by simpa using hne)]⟩
  · intro r' hr' hp' _
    simp only [finish, emit, updReq, List.mem_map] at hr'
    obtain ⟨r0, hr0, he⟩ := hr'
    by_cases hi : (r0.id == i) = true
    · rw [if_pos hi] at he; rw [← he] at hp'; exact absurd rfl hp'
    · rw [if_neg hi] at he; subst he
      have hne : r0.id ≠ i := by simpa using hi
      rcases h.wake r0 hr0 hp' (by simpa using hne) with hw | hw
      · left; simpa [finish, emit, updReq] using hw
      · right; exact parked_queues (fun l => queue_finish st i o l) hw

/-- exception / cancellation propagating out of the request: it leaves every queue, passes on wake-ups, ends -/
theorem live_unwind (st : St) (i : Nat) (o : Outcome) (r : Req) (h : Live st (some i))
    (hn : (st.reqs.map (·.id)).Nodup) (hg : getReq st i = some r) (hp : r.phase ≠ .done) :
    Live (unwind st i o) none := by
  unfold unwind
  have h1 := live_unwindLock st .T i r h hn hg hp
  obtain ⟨r1, hg1, hp1⟩ := getReq_unwindLock st .T i r hg
  have hn1 : ((unwindLock st .T i).reqs.map (·.id)).Nodup := by rw [ids_unwindLock]; exact hn
  have q1 := notmem_unwindLock st .T i r (h.nodup .T) hg
  have h2 := live_unwindLock _ .M i r1 h1 hn1 hg1 (by rw [hp1]; exact hp)
  obtain ⟨r2, hg2, hp2⟩ := getReq_unwindLock _ .M i r1 hg1
  have hn2 : ((unwindLock (unwindLock st .T i) .M i).reqs.map (·.id)).Nodup := by rw [ids_unwindLock]; exact hn1
  have q2 := notmem_unwindLock _ .M i r1 (h1.nodup .M) hg1
  have h3 := live_unwindLock _ .B i r2 h2 hn2 hg2 (by rw [hp2, hp1]; exact hp)
  have q3 := notmem_unwindLock _ .B i r2 (h2.nodup .B) hg2
  apply live_finish _ i o h3
  intro l
  cases l with
  | B => exact q3
  | M => rw [queue_unwindLock_other _ .B .M i (by decide)]; exact q2
  | T =>
    rw [queue_unwindLock_other _ .B .T i (by decide), queue_unwindLock_other _ .M .T i (by decide)]; exact q1

/-! ### one task micro-step -/

/-- does the task go on after its first micro-step (`true`) or does it block / end (`false`)? -/
def continues (st : St) (i : Nat) : Bool :=
  match getReq st i with
  | none => false
  | some r =>
    match r.phase with
    | .done => false
    | .waitAck => false
    | .waitB => if r.blocking then (acquire st .B i).2 else true
    | .waitM => (acquire st .M i).2
    | .sendfrag => st.isOpen
    | .waitT => (acquire st .T i).2 && !(acquire st .T i).1.transport
    | .acked => true
    | .waitRsp => false

theorem runReq_step (fuel : Nat) (st : St) (i : Nat) :
    runReq (fuel + 1) st i = if continues st i = true then runReq fuel (runReq 1 st i) i else runReq 1 st i := by
  rw [runReq, runReq]
  unfold continues
  cases getReq st i with
  | none => rfl
  | some r =>
    simp only []
    cases r.phase with
    | done => rfl
    | waitAck => rfl
    | waitB =>
      simp only []
      split
      · generalize acquire st .B i = a
        obtain ⟨st', ok⟩ := a
        cases ok <;> simp [runReq]
      · simp [runReq]
    | waitM =>
      simp only []
      generalize acquire st .M i = a
      obtain ⟨st', ok⟩ := a
      cases ok <;> simp [runReq]
    | sendfrag =>
      simp only []
      cases st.isOpen <;> simp [runReq]
    | waitT =>
      simp only []
      generalize acquire st .T i = a
      obtain ⟨st', ok⟩ := a
      cases ok <;> cases st'.transport <;> simp [runReq]
    | acked =>
      simp only []
      split <;> simp [runReq]
    | waitRsp =>
      simp only []
      cases r.got <;> simp

theorem queue_acquire_self (st : St) (l : Lock) (i : Nat) :
    queue (acquire st l i).1 l = (if (queue st l).contains i = true then queue st l else queue st l ++ [i]) := by
  unfold acquire; simp only []
  generalize (if (queue st l).contains i = true then queue st l else queue st l ++ [i]) = q'
  by_cases hc : q'.head? = some i <;> simp [hc]

theorem acquire_ok_iff (st : St) (l : Lock) (i : Nat) :
    (acquire st l i).2 = true ↔ (queue (acquire st l i).1 l).head? = some i := by
  unfold acquire; simp only []
  generalize (if (queue st l).contains i = true then queue st l else queue st l ++ [i]) = q'
  by_cases hc : q'.head? = some i <;> simp [hc]

theorem mem_queue_acquire (st : St) (l : Lock) (i : Nat) : i ∈ queue (acquire st l i).1 l := by
  rw [queue_acquire_self]
  by_cases hc : (queue st l).contains i = true
  · rw [if_pos hc]; simpa using hc
  · rw [if_neg hc]; simp

theorem ids_acquire (st : St) (l : Lock) (i : Nat) : (acquire st l i).1.reqs.map (·.id) = st.reqs.map (·.id) := by
  unfold acquire; simp only []
  generalize (if (queue st l).contains i = true then queue st l else queue st l ++ [i]) = q'
  by_cases hc : q'.head? = some i
  · simp only [hc, if_true]
    rw [ids_updReq _ i _ (fun x => id_setHold x l true)]; simp
  · simp only [hc, if_false]; simp

theorem ids_release (st : St) (l : Lock) (i : Nat) : (release st l i).reqs.map (·.id) = st.reqs.map (·.id) := by
  have := ids_unwindLock  -- same shape
  unfold release; simp only []
  have h1 := ids_updReq (setQueue st l ((queue st l).drop 1)) i (setHold · l false) (fun x => id_setHold x l false)
  split
  · show (updReq (setQueue st l ((queue st l).drop 1)) i (setHold · l false)).reqs.map (·.id) = _
    rw [h1]; simp
  · rw [h1]; simp

theorem queue_release_self (st : St) (l : Lock) (i : Nat) : queue (release st l i) l = (queue st l).drop 1 := by
  unfold release; simp only []
  split <;> (cases l <;> simp [queue, setQueue, updReq])

theorem live_emit {st : St} {x : Option Nat} (o : Out) (h : Live st x) : Live (emit st o) x :=
  ⟨h.nodup, h.qi, fun r hr hp hx => by
    rcases h.wake r hr hp hx with hw | hw
    · exact Or.inl hw
    · exact Or.inr (parked_queues (fun l => by cases l <;> rfl) hw)⟩

/-- no request with this id: nothing to exempt -/
theorem live_absent (st : St) (i : Nat) (hg : getReq st i = none) (h : Live st (some i)) : Live st none :=
  ⟨h.nodup, h.qi, fun r hr hp _ => h.wake r hr hp (by
    intro he
    have : r.id = i := by simpa using he
    unfold getReq at hg
    have := List.find?_eq_none.mp hg r hr
    simp_all)⟩

/-- the executing request has blocked or ended: the exemption is over -/
theorem live_stop (st : St) (i : Nat) (r : Req) (hn : (st.reqs.map (·.id)).Nodup) (hg : getReq st i = some r)
    (h : Live st (some i)) (hs : r.phase = .done ∨ Parked st r) : Live st none := by
  obtain ⟨hrm, hrid⟩ := getReq_mem st i r hg
  refine ⟨h.nodup, h.qi, fun r' hr' hp' _ => ?_⟩
  by_cases he : r'.id = i
  · have : r' = r := unique_of_id st hn r' r hr' hrm (by rw [he, hrid])
    subst this
    rcases hs with hd | hpk
    · exact absurd hd hp'
    · exact Or.inr hpk
  · exact h.wake r' hr' hp' (by simpa using he)

/-- a request whose phase is neither the wait phase of lock `l` nor one in which `l` is held is not in `l`'s queue -/
theorem notmem_queue_of_phase {st : St} {i : Nat} {r : Req} (h : Live st (some i))
    (hn : (st.reqs.map (·.id)).Nodup) (hg : getReq st i = some r) (l : Lock)
    (h1 : ¬ waiting l r) (h2 : ¬ (holds r l = true ∧ heldPhase l r)) : i ∉ queue st l := by
  intro hm
  rcases qi_self h hn hg l hm with hd | hd
  · exact h1 hd
  · exact h2 hd

/-- a failed `acquire` parks the request behind the queue's head -/
theorem parked_of_acquire_fail (st : St) (l : Lock) (i : Nat) (r : Req) (hp : r.phase = waitPhase l) (hid : r.id = i)
    (hf : (acquire st l i).2 = false) : Parked (acquire st l i).1 r := by
  refine Or.inl ⟨l, hp, by rw [hid]; exact mem_queue_acquire st l i, ?_⟩
  rw [hid]
  intro hh
  have := (acquire_ok_iff st l i).mpr hh
  rw [hf] at this; cases this

theorem notmem_release (st : St) (l : Lock) (i : Nat) (hnd : (queue st l).Nodup) (hhead : (queue st l).head? = some i) :
    i ∉ queue (release st l i) l := by
  rw [queue_release_self]
  cases hq : queue st l with
  | nil => simp
  | cons a t =>
    rw [hq] at hhead hnd
    simp at hhead; subst hhead
    simpa using (List.nodup_cons.mp hnd).1

set_option maxHeartbeats 800000 in
/-- one task micro-step of the executing request keeps queue integrity and the wake-up clause; when the task
    blocks or ends instead of going on, the exemption is over -/
theorem live_micro (st : St) (i : Nat) (hinv : Inv2 st) (h : Live st (some i)) :
    Live (runReq 1 st i) (bif continues st i then some i else none) := by
  have hn := hinv.1
  unfold continues
  rw [runReq]
  cases hg : getReq st i with
  | none => simpa using live_absent st i hg h
  | some r =>
    obtain ⟨hrm, hrid⟩ := getReq_mem st i r hg
    obtain ⟨hHH, hPH⟩ := hinv.2 r hrm
    simp only [runReq]
    cases hp : r.phase with
    | done => simpa using live_stop st i r hn hg h (Or.inl hp)
    | waitAck => simpa using live_stop st i r hn hg h (Or.inr (Or.inr (Or.inl hp)))
    | waitB =>
      simp only []
      by_cases hb : r.blocking = true
      · simp only [hb, if_true]
        have hL := live_acquire st .B i r h hn hg hp (fun _ => hb)
        have hgA := getReq_acquire st .B i r hg
        have hnA : ((acquire st .B i).1.reqs.map (·.id)).Nodup := by rw [ids_acquire]; exact hn
        cases hok : (acquire st .B i).2 with
        | false =>
          have hpk := parked_of_acquire_fail st .B i r hp hrid hok
          rw [hok] at hgA
          have := live_stop _ i r hnA (by simpa using hgA) hL (Or.inr hpk)
          generalize acquire st .B i = a at *
          obtain ⟨st', ok⟩ := a
          simp only [] at hok this ⊢
          subst hok
          simpa using this
        | true =>
          rw [hok] at hgA
          have hhead := (acquire_ok_iff st .B i).mp hok
          have hU := live_upd (acquire st .B i).1 i (fun r => { r with phase := .waitM }) (setHold r .B true) hL hnA
            (by simpa using hgA) (fun _ => rfl) (by simp [setHold]) (by
              intro l hm
              have hd := qi_self hL hnA (by simpa using hgA) l hm
              cases l with
              | B => right; exact ⟨by simp [holds, setHold], by simp [heldPhase, setHold, hb, afterB]⟩
              | M => rcases hd with ⟨hw, _⟩ | ⟨_, hd⟩ <;> simp_all [waiting, waitPhase, heldPhase, setHold, inTransmit]
              | T => rcases hd with ⟨hw, _⟩ | ⟨_, hd⟩ <;> simp_all [waiting, waitPhase, heldPhase, setHold, ackPhase])
          generalize acquire st .B i = a at *
          obtain ⟨st', ok⟩ := a
          simp only [] at hok hU ⊢
          subst hok
          simpa using hU
      · have hb' : r.blocking = false := by simpa using hb
        simp only [hb', Bool.false_eq_true, if_false, if_true]
        have hU := live_upd st i (fun r => { r with phase := .waitM }) r h hn hg (fun _ => rfl) (by simp) (by
          intro l hm
          have hd := qi_self h hn hg l hm
          cases l with
          | B => rcases hd with ⟨_, hw⟩ | ⟨_, hd, _⟩ <;> simp_all [heldPhase]
          | M => rcases hd with ⟨hw, _⟩ | ⟨_, hd⟩ <;> simp_all [waiting, waitPhase, heldPhase, inTransmit]
          | T => rcases hd with ⟨hw, _⟩ | ⟨_, hd⟩ <;> simp_all [waiting, waitPhase, heldPhase, ackPhase])
        simpa using hU
    | waitM =>
      simp only []
      have hL := live_acquire st .M i r h hn hg hp (fun hl => by cases hl)
      have hgA := getReq_acquire st .M i r hg
      have hnA : ((acquire st .M i).1.reqs.map (·.id)).Nodup := by rw [ids_acquire]; exact hn
      cases hok : (acquire st .M i).2 with
      | false =>
        have hpk := parked_of_acquire_fail st .M i r hp hrid hok
        rw [hok] at hgA
        have := live_stop _ i r hnA (by simpa using hgA) hL (Or.inr hpk)
        generalize acquire st .M i = a at *
        obtain ⟨st', ok⟩ := a
        simp only [] at hok this ⊢
        subst hok
        simpa using this
      | true =>
        rw [hok] at hgA
        have hU := live_upd (acquire st .M i).1 i (fun r => { r with phase := .sendfrag }) (setHold r .M true) hL hnA
          (by simpa using hgA) (fun _ => rfl) (by simp [setHold]) (by
            intro l hm
            have hd := qi_self hL hnA (by simpa using hgA) l hm
            cases l with
            | B => rcases hd with ⟨hw, _⟩ | ⟨hh, hd⟩ <;> simp_all [waiting, waitPhase, heldPhase, setHold, afterB, holds]
            | M => right; exact ⟨by simp [holds, setHold], by simp [heldPhase, setHold, inTransmit]⟩
            | T => rcases hd with ⟨hw, _⟩ | ⟨_, hd⟩ <;> simp_all [waiting, waitPhase, heldPhase, setHold, ackPhase])
        generalize acquire st .M i = a at *
        obtain ⟨st', ok⟩ := a
        simp only [] at hok hU ⊢
        subst hok
        simpa using hU
    | sendfrag =>
      simp only []
      by_cases ho : st.isOpen = true
      · simp only [ho, Bool.not_true, Bool.false_eq_true, if_false, cond_true]
        exact live_upd st i (fun r => { r with phase := .waitT }) r h hn hg (fun _ => rfl) (by simp) (by
          intro l hm
          have hd := qi_self h hn hg l hm
          cases l with
          | B => rcases hd with ⟨hw, _⟩ | ⟨hh, hd⟩ <;> simp_all [waiting, waitPhase, heldPhase, afterB, holds]
          | M => rcases hd with ⟨hw, _⟩ | ⟨hh, hd⟩ <;> simp_all [waiting, waitPhase, heldPhase, inTransmit, holds]
          | T => rcases hd with ⟨hw, _⟩ | ⟨_, hd⟩ <;> simp_all [waiting, waitPhase, heldPhase, ackPhase])
      · have ho' : st.isOpen = false := by simpa using ho
        simp only [ho', Bool.not_false, if_true, cond_false]
        exact live_unwind st i .runtimeError r h hn hg (by rw [hp]; decide)
    | waitT =>
      simp only []
      have hL := live_acquire st .T i r h hn hg hp (fun hl => by cases hl)
      have hgA := getReq_acquire st .T i r hg
      have hnA : ((acquire st .T i).1.reqs.map (·.id)).Nodup := by rw [ids_acquire]; exact hn
      cases hok : (acquire st .T i).2 with
      | false =>
        have hpk := parked_of_acquire_fail st .T i r hp hrid hok
        rw [hok] at hgA
        have := live_stop _ i r hnA (by simpa using hgA) hL (Or.inr hpk)
        generalize acquire st .T i = a at *
        obtain ⟨st', ok⟩ := a
        simp only [] at hok this ⊢
        subst hok
        simpa using this
      | true =>
        rw [hok] at hgA
        have hgA' : getReq (acquire st .T i).1 i = some (setHold r .T true) := by simpa using hgA
        have hqT : ∀ (p : Phase) (d g : Nat), (p = .waitAck ∨ p = .acked) → ∀ (s' : St), (∀ l, queue s' l = queue (acquire st .T i).1 l) →
            ∀ l, i ∈ queue s' l → (waiting l ({ setHold r .T true with phase := p, deadline := d, gen := g } : Req) ∨
              (holds ({ setHold r .T true with phase := p, deadline := d, gen := g } : Req) l = true ∧
                heldPhase l ({ setHold r .T true with phase := p, deadline := d, gen := g } : Req))) := by
          intro p d g hpp s' hqs l hm
          rw [hqs] at hm
          have hd := qi_self hL hnA hgA' l hm
          cases l with
          | B => rcases hpp with rfl | rfl <;> rcases hd with ⟨hw, _⟩ | ⟨hh, hd⟩ <;>
              simp_all [waiting, waitPhase, heldPhase, setHold, afterB, holds]
          | M => rcases hpp with rfl | rfl <;> rcases hd with ⟨hw, _⟩ | ⟨hh, hd⟩ <;>
              simp_all [waiting, waitPhase, heldPhase, setHold, inTransmit, holds]
          | T => right; rcases hpp with rfl | rfl <;> simp [holds, setHold, heldPhase, ackPhase]
        cases htr : (acquire st .T i).1.transport with
        | true =>
          have hE := live_emit (Out.write i r.frag (acquire st .T i).1.pack r.nfrags) hL
          have hU : Live (updReq (emit (acquire st .T i).1 (Out.write i r.frag (acquire st .T i).1.pack r.nfrags)) i (fun x => { x with phase := Phase.waitAck, deadline := (emit (acquire st .T i).1 (Out.write i r.frag (acquire st .T i).1.pack r.nfrags)).now + Gen.ackTimeoutMs, gen := (emit (acquire st .T i).1 (Out.write i r.frag (acquire st .T i).1.pack r.nfrags)).gen })) (some i) :=
            live_upd (emit (acquire st .T i).1 (Out.write i r.frag (acquire st .T i).1.pack r.nfrags)) i (fun x => { x with phase := Phase.waitAck, deadline := (emit (acquire st .T i).1 (Out.write i r.frag (acquire st .T i).1.pack r.nfrags)).now + Gen.ackTimeoutMs, gen := (emit (acquire st .T i).1 (Out.write i r.frag (acquire st .T i).1.pack r.nfrags)).gen })
              (setHold r .T true) hE hnA hgA' (fun _ => rfl) (by simp [setHold])
              (hqT .waitAck _ _ (Or.inl rfl) _ (fun l => by cases l <;> rfl))
          have hnU : ((updReq (emit (acquire st .T i).1 (Out.write i r.frag (acquire st .T i).1.pack r.nfrags)) i (fun x => { x with phase := Phase.waitAck, deadline := (emit (acquire st .T i).1 (Out.write i r.frag (acquire st .T i).1.pack r.nfrags)).now + Gen.ackTimeoutMs, gen := (emit (acquire st .T i).1 (Out.write i r.frag (acquire st .T i).1.pack r.nfrags)).gen })).reqs.map (·.id)).Nodup := by
            rw [ids_updReq _ i (fun x => { x with phase := Phase.waitAck, deadline := (emit (acquire st .T i).1 (Out.write i r.frag (acquire st .T i).1.pack r.nfrags)).now + Gen.ackTimeoutMs, gen := (emit (acquire st .T i).1 (Out.write i r.frag (acquire st .T i).1.pack r.nfrags)).gen }) (fun _ => rfl)]; exact hnA
          have hgU : getReq (updReq (emit (acquire st .T i).1 (Out.write i r.frag (acquire st .T i).1.pack r.nfrags)) i (fun x => { x with phase := Phase.waitAck, deadline := (emit (acquire st .T i).1 (Out.write i r.frag (acquire st .T i).1.pack r.nfrags)).now + Gen.ackTimeoutMs, gen := (emit (acquire st .T i).1 (Out.write i r.frag (acquire st .T i).1.pack r.nfrags)).gen })) i =
              some ((fun x => { x with phase := Phase.waitAck, deadline := (emit (acquire st .T i).1 (Out.write i r.frag (acquire st .T i).1.pack r.nfrags)).now + Gen.ackTimeoutMs, gen := (emit (acquire st .T i).1 (Out.write i r.frag (acquire st .T i).1.pack r.nfrags)).gen }) (setHold r .T true)) := by
            rw [getReq_updReq _ i (fun x => { x with phase := Phase.waitAck, deadline := (emit (acquire st .T i).1 (Out.write i r.frag (acquire st .T i).1.pack r.nfrags)).now + Gen.ackTimeoutMs, gen := (emit (acquire st .T i).1 (Out.write i r.frag (acquire st .T i).1.pack r.nfrags)).gen }) (fun _ => rfl)]
            show (getReq (acquire st .T i).1 i).map _ = _
            rw [hgA']; rfl
          have hS := live_stop _ i _ hnU hgU hU (Or.inr (Or.inr (Or.inl rfl)))
          generalize acquire st .T i = a at *
          obtain ⟨st', ok⟩ := a
          simp only [] at hok htr hS ⊢
          subst hok
          simpa [htr] using hS
        | false =>
          have hU := live_upd (acquire st .T i).1 i (fun r => { r with phase := .acked }) (setHold r .T true) hL hnA hgA'
            (fun _ => rfl) (by simp [setHold])
            (hqT .acked (setHold r .T true).deadline (setHold r .T true).gen (Or.inr rfl) _ (fun l => rfl))
          generalize acquire st .T i = a at *
          obtain ⟨st', ok⟩ := a
          simp only [] at hok htr hU ⊢
          subst hok
          simpa [htr] using hU
    | acked =>
      simp only [cond_true]
      have hM : r.holdM = true := hPH.1 (by rw [hp]; rfl)
      have hT : r.holdT = true := hPH.2.1 (by rw [hp]; rfl)
      have hheadT : (queue st .T).head? = some i := by rw [← hrid]; exact hHH .T hT
      have hheadM : (queue st .M).head? = some i := by rw [← hrid]; exact hHH .M hM
      have hrun : r.phase ≠ .done := by rw [hp]; decide
      have hR1 := live_release st .T i r h hn hg hrun hheadT
      have hg1 := getReq_release st .T i r hg
      have hn1 : ((release st .T i).reqs.map (·.id)).Nodup := by rw [ids_release]; exact hn
      have hnT1 : i ∉ queue (release st .T i) .T := notmem_release st .T i (h.nodup .T) hheadT
      split
      · -- next fragment
        exact live_upd (release st .T i) i (fun x => { x with frag := r.frag + 1, phase := .sendfrag }) (setHold r .T false)
          hR1 hn1 hg1 (fun _ => rfl) (by simp [setHold]) (by
            intro l hm
            have hd := qi_self hR1 hn1 hg1 l hm
            cases l with
            | B => rcases hd with ⟨hw, _⟩ | ⟨hh, hd⟩ <;> simp_all [waiting, waitPhase, heldPhase, setHold, afterB, holds]
            | M => rcases hd with ⟨hw, _⟩ | ⟨hh, hd⟩ <;> simp_all [waiting, waitPhase, heldPhase, setHold, inTransmit, holds]
            | T => exact absurd hm hnT1)
      · -- the message is out: leave the message lock, wait for the response
        have hheadM' : (queue (release st .T i) .M).head? = some i := by
          rw [queue_release_other st .T .M i (by decide)]; exact hheadM
        have hR2 := live_release (release st .T i) .M i (setHold r .T false) hR1 hn1 hg1 (by simp [setHold, hrun]) hheadM'
        have hg2 := getReq_release (release st .T i) .M i _ hg1
        have hn2 : ((release (release st .T i) .M i).reqs.map (·.id)).Nodup := by rw [ids_release]; exact hn1
        have hnM2 : i ∉ queue (release (release st .T i) .M i) .M := notmem_release _ .M i (hR1.nodup .M) hheadM'
        have hnT2 : i ∉ queue (release (release st .T i) .M i) .T := by
          rw [queue_release_other _ .M .T i (by decide)]; exact hnT1
        exact live_upd _ i (fun x => { x with frag := r.frag + 1, phase := .waitRsp, deadline := (release (release st .T i) .M i).now + x.timeout }) _
          hR2 hn2 hg2 (fun _ => rfl) (by simp [setHold]) (by
            intro l hm
            have hd := qi_self hR2 hn2 hg2 l hm
            cases l with
            | B => rcases hd with ⟨hw, _⟩ | ⟨hh, hd⟩ <;> simp_all [waiting, waitPhase, heldPhase, setHold, afterB, holds]
            | M => exact absurd hm hnM2
            | T => exact absurd hm hnT2)
    | waitRsp =>
      simp only [cond_false]
      have hrun : r.phase ≠ .done := by rw [hp]; decide
      have hnM : i ∉ queue st .M := notmem_queue_of_phase h hn hg .M
        (by simp [waiting, waitPhase, hp]) (by simp [heldPhase, inTransmit, hp])
      have hnT : i ∉ queue st .T := notmem_queue_of_phase h hn hg .T
        (by simp [waiting, waitPhase, hp]) (by simp [heldPhase, ackPhase, hp])
      cases hgot : r.got with
      | nothing => exact live_stop st i r hn hg h (Or.inr (Or.inr (Or.inr ⟨hp, hgot⟩)))
      | cancelled => exact live_unwind st i .cancelled r h hn hg hrun
      | rsp =>
        simp only []
        split
        · rename_i hbl
          have hB : r.holdB = true := hPH.2.2 hbl (by rw [hp]; rfl)
          have hheadB : (queue st .B).head? = some i := by rw [← hrid]; exact hHH .B hB
          have hR := live_release st .B i r h hn hg hrun hheadB
          apply live_finish _ i .ret hR
          intro l
          cases l with
          | B => exact notmem_release st .B i (h.nodup .B) hheadB
          | M => rw [queue_release_other st .B .M i (by decide)]; exact hnM
          | T => rw [queue_release_other st .B .T i (by decide)]; exact hnT
        · rename_i hbl
          apply live_finish st i .ret h
          intro l
          cases l with
          | B =>
            have h2 : ¬ (holds r .B = true ∧ heldPhase .B r) := by
              intro hc; exact hbl hc.2.1
            exact notmem_queue_of_phase h hn hg .B (by simp [waiting, waitPhase, hp]) h2
          | M => exact hnM
          | T => exact hnT

/-! ### a task runs until it blocks or ends -/

/-- the link flags of the model: the transport is only gone once the API is closed -/
def FlagInv (st : St) : Prop := st.transport = false → st.isOpen = false

/-- how many micro-steps the task of request `i` can still take before it blocks or ends -/
def rank (st : St) (i : Nat) : Nat :=
  match getReq st i with
  | none => 0
  | some r =>
    match r.phase with
    | .waitB => 5
    | .waitM => 4
    | .acked => if st.transport then 3 else 2
    | .sendfrag => if st.transport then 2 else 1
    | .waitT => if st.transport then 1 else 3
    | _ => 0

theorem flag_runReq (fuel : Nat) (st : St) (i : Nat) (h : FlagInv st) : FlagInv (runReq fuel st i) := by
  have hf := frame_runReq fuel st i
  intro ht; rw [hf.transport] at ht; rw [hf.isOpen]; exact h ht

theorem rank_decreases (st : St) (i : Nat) (hf : FlagInv st) (hc : continues st i = true) :
    rank (runReq 1 st i) i < rank st i := by
  have htr : (runReq 1 st i).transport = st.transport := (frame_runReq 1 st i).transport
  unfold continues at hc
  unfold rank
  rw [htr]
  rw [runReq]
  cases hg : getReq st i with
  | none => rw [hg] at hc; cases hc
  | some r =>
    rw [hg] at hc
    simp only [runReq] at hc ⊢
    cases hp : r.phase with
    | done => rw [hp] at hc; cases hc
    | waitAck => rw [hp] at hc; cases hc
    | waitRsp => rw [hp] at hc; cases hc
    | waitB =>
      rw [hp] at hc
      simp only [] at hc ⊢
      by_cases hb : r.blocking = true
      · simp only [hb, if_true] at hc ⊢
        have hgA := getReq_acquire st .B i r hg
        rw [hc] at hgA
        simp only [hc, if_true]
        rw [getReq_updReq (acquire st .B i).1 i (fun r => { r with phase := Phase.waitM }) (fun _ => rfl), hgA]
        simp
      · have hb' : r.blocking = false := by simpa using hb
        simp only [hb', Bool.false_eq_true, if_false]
        rw [getReq_updReq st i (fun r => { r with phase := Phase.waitM }) (fun _ => rfl), hg]
        simp
    | waitM =>
      rw [hp] at hc
      simp only [] at hc ⊢
      have hgA := getReq_acquire st .M i r hg
      rw [hc] at hgA
      simp only [hc, if_true]
      rw [getReq_updReq (acquire st .M i).1 i (fun r => { r with phase := Phase.sendfrag }) (fun _ => rfl), hgA]
      cases st.transport <;> simp
    | sendfrag =>
      rw [hp] at hc
      simp only [] at hc ⊢
      simp only [hc, Bool.not_true, Bool.false_eq_true, if_false]
      rw [getReq_updReq st i (fun r => { r with phase := Phase.waitT }) (fun _ => rfl), hg]
      have : st.transport = true := by
        cases ht : st.transport with
        | true => rfl
        | false => rw [hf ht] at hc; cases hc
      simp [this]
    | waitT =>
      rw [hp] at hc
      simp only [Bool.and_eq_true, Bool.not_eq_eq_eq_not, Bool.not_true] at hc ⊢
      obtain ⟨hok, htf⟩ := hc
      have hgA := getReq_acquire st .T i r hg
      rw [hok] at hgA
      have htr' : (acquire st .T i).1.transport = st.transport := (frame_acquire st .T i).transport
      rw [htr'] at htf
      have hgoal : getReq (updReq (acquire st .T i).1 i (fun r => { r with phase := Phase.acked })) i =
          some ({ setHold r .T true with phase := Phase.acked }) := by
        rw [getReq_updReq (acquire st .T i).1 i (fun r => { r with phase := Phase.acked }) (fun _ => rfl), hgA]; rfl
      generalize hA : acquire st .T i = a at *
      obtain ⟨st', ok⟩ := a
      simp only [] at hok hgoal ⊢
      subst hok
      rw [if_neg (by decide : ¬ (true = false))]
      have htf' : st'.transport = false := by rw [htr']; exact htf
      rw [if_neg (by rw [htf']; decide), hgoal]
      simp [htf]
    | acked =>
      simp only []
      have hg1 := getReq_release st .T i r hg
      by_cases hlt : r.frag + 1 < r.nfrags
      · simp only [hlt, if_true]
        rw [getReq_updReq (release st .T i) i (fun x => { x with frag := r.frag + 1, phase := Phase.sendfrag }) (fun _ => rfl), hg1]
        cases st.transport <;> simp
      · simp only [hlt, if_false]
        have hg2 := getReq_release (release st .T i) .M i _ hg1
        rw [getReq_updReq (release (release st .T i) .M i) i (fun x => { x with frag := r.frag + 1, phase := Phase.waitRsp, deadline := (release (release st .T i) .M i).now + x.timeout }) (fun _ => rfl), hg2]
        cases st.transport <;> simp

theorem rank_le (st : St) (i : Nat) : rank st i ≤ 5 := by
  unfold rank
  cases getReq st i with
  | none => simp
  | some r =>
    simp only []
    cases hp : r.phase <;> cases st.transport <;> simp

/-- with enough fuel the task runs until it blocks or ends: the exemption is over afterwards -/
theorem live_runReq (fuel : Nat) (st : St) (i : Nat) (hinv : Inv2 st) (hf : FlagInv st) (h : Live st (some i))
    (hfuel : rank st i < fuel) : Live (runReq fuel st i) none := by
  induction fuel generalizing st with
  | zero => omega
  | succ n ih =>
    rw [runReq_step]
    have hm := live_micro st i hinv h
    by_cases hc : continues st i = true
    · rw [if_pos hc]
      rw [hc] at hm
      have hr := rank_decreases st i hf hc
      exact ih _ (inv2_runReq 1 st i hinv) (flag_runReq 1 st i hf) (by simpa using hm) (by omega)
    · rw [if_neg hc]
      have : continues st i = false := by simpa using hc
      rw [this] at hm
      simpa using hm

theorem flag_settle (fuel : Nat) (st : St) (h : FlagInv st) : FlagInv (settle fuel st) := by
  have hf := frame_settle fuel st
  intro ht; rw [hf.transport] at ht; rw [hf.isOpen]; exact h ht

/-- running the ready tasks keeps the invariant (whatever the fuel) -/
theorem live_settle (fuel : Nat) (st : St) (hinv : Inv2 st) (hf : FlagInv st) (h : Live st none) :
    Live (settle fuel st) none := by
  induction fuel generalizing st with
  | zero => exact h
  | succ n ih =>
    unfold settle
    cases hr : st.ready with
    | nil => exact h
    | cons i rest =>
      simp only []
      have hinv' : Inv2 { st with ready := rest } := inv2_congr st _ rfl rfl rfl rfl hinv
      have hf' : FlagInv { st with ready := rest } := hf
      have h' : Live { st with ready := rest } (some i) := by
        refine ⟨h.nodup, h.qi, fun r hrm hp hx => ?_⟩
        rcases h.wake r hrm hp (by simp) with hw | hw
        · rw [hr] at hw
          rcases List.mem_cons.mp hw with he | hm
          · exact absurd (by rw [he]) hx
          · exact Or.inl hm
        · exact Or.inr (parked_queues (fun l => by cases l <;> rfl) hw)
      have h2 := live_runReq 64 _ i hinv' hf' h' (by have := rank_le { st with ready := rest } i; omega)
      exact ih _ (inv2_runReq 64 _ i hinv') (flag_runReq 64 _ i hf') h2

/-! ### events -/

/-- the invariant only reads `reqs`, the three queues and `ready` -/
theorem live_congr {st st' : St} {x : Option Nat} (hr : st'.reqs = st.reqs) (hq : ∀ l, queue st' l = queue st l)
    (hrd : ∀ j ∈ st.ready, j ∈ st'.ready) (h : Live st x) : Live st' x := by
  refine ⟨fun l => by rw [hq]; exact h.nodup l, ?_, ?_⟩
  · intro l i hi; rw [hq] at hi; rw [hr]; exact h.qi l i hi
  · intro r hrm hp hx
    rw [hr] at hrm
    rcases h.wake r hrm hp hx with hw | hw
    · exact Or.inl (hrd _ hw)
    · exact Or.inr (parked_queues hq hw)

/-- a per-request change made by an event: ids, blocking flags and hold flags stay; a phase changes at most from
    `waitAck` to `acked`; whoever stops being parked by it is put on the ready queue -/
theorem live_map (st st' : St) (g : Req → Req) (h : Live st none) (hr : st'.reqs = st.reqs.map g)
    (hq : ∀ l, queue st' l = queue st l) (hrd : ∀ j ∈ st.ready, j ∈ st'.ready)
    (hid : ∀ r, (g r).id = r.id) (hbl : ∀ r, (g r).blocking = r.blocking) (hh : ∀ r l, holds (g r) l = holds r l)
    (hph : ∀ r, (g r).phase = r.phase ∨ (r.phase = .waitAck ∧ (g r).phase = .acked))
    (hack : ∀ r ∈ st.reqs, r.phase = .waitAck → (g r).phase = .acked → r.id ∈ st'.ready)
    (hgot : ∀ r ∈ st.reqs, r.phase = .waitRsp → r.got = .nothing → (g r).got ≠ .nothing → r.id ∈ st'.ready) :
    Live st' none := by
  have hheld : ∀ l r, heldPhase l r → heldPhase l (g r) := by
    intro l r hd
    rcases hph r with he | ⟨h1, h2⟩
    · exact heldPhase_congr he (hbl r) hd
    · cases l <;> simp only [heldPhase] at hd ⊢ <;> rw [h2] <;> rw [h1] at hd
      · exact ⟨by rw [hbl]; exact hd.1, rfl⟩
      · rfl
      · rfl
  refine ⟨fun l => by rw [hq]; exact h.nodup l, ?_, ?_⟩
  · intro l i hi
    rw [hq] at hi
    obtain ⟨r, hrm, hri, hp, hd⟩ := h.qi l i hi
    refine ⟨g r, by rw [hr]; exact List.mem_map.mpr ⟨r, hrm, rfl⟩, by rw [hid]; exact hri, ?_, ?_⟩
    · rcases hph r with he | ⟨_, h2⟩
      · rw [he]; exact hp
      · rw [h2]; decide
    · rcases hd with ⟨hw, hb⟩ | ⟨hhold, hd⟩
      · left
        rcases hph r with he | ⟨h1, _⟩
        · exact ⟨by rw [he]; exact hw, fun hl => by rw [hbl]; exact hb hl⟩
        · rw [h1] at hw; cases l <;> cases hw
      · right; exact ⟨by rw [hh]; exact hhold, hheld l r hd⟩
  · intro r' hr' hp' _
    rw [hr] at hr'
    obtain ⟨r, hrm, rfl⟩ := List.mem_map.mp hr'
    have hrun : r.phase ≠ .done := by
      rcases hph r with he | ⟨h1, _⟩
      · rw [← he]; exact hp'
      · rw [h1]; decide
    rw [hid]
    rcases h.wake r hrm hrun (by simp) with hw | hw
    · exact Or.inl (hrd _ hw)
    · rcases hw with ⟨l, h1, h2, h3⟩ | hw | ⟨hw1, hw2⟩
      · right
        have he : (g r).phase = r.phase := by
          rcases hph r with he | ⟨h4, _⟩
          · exact he
          · rw [h4] at h1; cases l <;> cases h1
        exact Or.inl ⟨l, by rw [he]; exact h1, by rw [hq, hid]; exact h2, by rw [hq, hid]; exact h3⟩
      · rcases hph r with he | ⟨_, h4⟩
        · right; exact Or.inr (Or.inl (by rw [he]; exact hw))
        · left; exact hack r hrm hw h4
      · have he : (g r).phase = r.phase := by
          rcases hph r with he | ⟨h4, _⟩
          · exact he
          · rw [h4] at hw1; cases hw1
        by_cases hg : (g r).got = .nothing
        · right; exact Or.inr (Or.inr ⟨by rw [he]; exact hw1, hg⟩)
        · left; exact hgot r hrm hw1 hw2 hg

/-- a request that is not running (absent or finished) is in no queue -/
theorem notmem_queue_of_not_running (st : St) (i : Nat) (hn : (st.reqs.map (·.id)).Nodup) (h : Live st none)
    (hnr : ∀ r, getReq st i = some r → r.phase = .done) (l : Lock) : i ∉ queue st l := by
  intro hm
  obtain ⟨r, hrm, hri, hp, _⟩ := h.qi l i hm
  have := getReq_of_mem st hn r hrm
  rw [hri] at this
  exact hp (hnr r this)

theorem unwindLock_of_notmem (st : St) (l : Lock) (i : Nat) (h : i ∉ queue st l) : unwindLock st l i = st := by
  unfold unwindLock
  simp only []
  rw [if_pos (by simpa using h)]

/-- `unwind` from outside a task (cancellation, response timeout), whatever state the request is in -/
theorem live_unwind_any (st : St) (i : Nat) (o : Outcome) (hinv : Inv2 st) (h : Live st none) :
    Live (unwind st i o) none := by
  by_cases hrun : ∃ r, getReq st i = some r ∧ r.phase ≠ .done
  · obtain ⟨r, hg, hp⟩ := hrun
    exact live_unwind st i o r h.weaken hinv.1 hg hp
  · have hnr : ∀ r, getReq st i = some r → r.phase = .done := by
      intro r hg
      by_cases hp : r.phase = .done
      · exact hp
      · exact absurd ⟨r, hg, hp⟩ hrun
    have hq := notmem_queue_of_not_running st i hinv.1 h hnr
    unfold unwind
    rw [unwindLock_of_notmem st .T i (hq .T), unwindLock_of_notmem st .M i (hq .M), unwindLock_of_notmem st .B i (hq .B)]
    exact live_finish st i o h.weaken hq

theorem live_foldl_unwind (ids : List Nat) (st : St) (o : Outcome) (hinv : Inv2 st) (h : Live st none) :
    Live (ids.foldl (fun s i => unwind s i o) st) none := by
  induction ids generalizing st with
  | nil => exact h
  | cons i is ih => exact ih _ (inv2_unwind st i o hinv) (live_unwind_any st i o hinv h)

theorem toAcked_facts (c : Req → Bool) (hc : ∀ r, c r = true → r.phase = .waitAck) (r : Req) :
    (if c r = true then { r with phase := Phase.acked } else r).id = r.id ∧
    (if c r = true then { r with phase := Phase.acked } else r).blocking = r.blocking ∧
    (∀ l, holds (if c r = true then { r with phase := Phase.acked } else r) l = holds r l) ∧
    ((if c r = true then { r with phase := Phase.acked } else r).phase = r.phase ∨
      (r.phase = .waitAck ∧ (if c r = true then { r with phase := Phase.acked } else r).phase = .acked)) ∧
    (if c r = true then { r with phase := Phase.acked } else r).got = r.got := by
  by_cases h : c r = true
  · rw [if_pos h]; exact ⟨rfl, rfl, fun l => by cases l <;> rfl, Or.inr ⟨hc r h, rfl⟩, rfl⟩
  · rw [if_neg h]; exact ⟨rfl, rfl, fun _ => rfl, Or.inl rfl, rfl⟩

/-- the immediate effect of every event keeps queue integrity and the wake-up clause -/
theorem live_pre (st : St) (e : Ev) (hinv : Inv2 st) (hcov : CoveredV (view st)) (h : Live st none) :
    Live (pre st e).1 none := by
  have h0 : Live ({ st with out := [] } : St) none := live_congr (st := st) rfl (fun l => by cases l <;> rfl) (fun _ hj => hj) h
  have hinv0 : Inv2 ({ st with out := [] } : St) := inv2_congr st _ rfl rfl rfl rfl hinv
  cases e with
  | start id key blocking nfrags timeout =>
    simp only [pre]
    split
    · exact h0
    split
    · exact live_congr (st := st) rfl (fun l => by cases l <;> rfl) (fun _ hj => hj) h
    · refine ⟨fun l => by cases l; exact h.nodup .B; exact h.nodup .M; exact h.nodup .T, ?_, ?_⟩
      · intro l i hi
        have hi' : i ∈ queue st l := by cases l <;> exact hi
        obtain ⟨r, hrm, r1, r2, r3⟩ := h.qi l i hi'
        exact ⟨r, List.mem_append_left _ hrm, r1, r2, r3⟩
      · intro r hrm hp _
        rcases List.mem_append.mp hrm with hm | hm
        · rcases h.wake r hm hp (by simp) with hw | hw
          · exact Or.inl (List.mem_append_left _ hw)
          · exact Or.inr (parked_queues (fun l => by cases l <;> rfl) hw)
        · simp only [List.mem_singleton] at hm; subst hm
          exact Or.inl (List.mem_append_right _ (by simp))
  | rxAck k =>
    simp only [pre]
    split
    · have hf := toAcked_facts (fun r => r.phase == Phase.waitAck && r.gen == st.gen) (fun r hc => by simp at hc; exact hc.1)
      exact live_map st _ (fun r => if (r.phase == Phase.waitAck && r.gen == st.gen) = true then { r with phase := Phase.acked } else r) h rfl
        (fun l => by cases l <;> rfl) (fun j hj => List.mem_append_left _ hj)
        (fun r => (hf r).1) (fun r => (hf r).2.1) (fun r => (hf r).2.2.1) (fun r => (hf r).2.2.2.1)
        (fun r hrm hp hg => List.mem_append_right _ (List.mem_map.mpr ⟨r, List.mem_filter.mpr ⟨hrm, by
          by_cases hc : (r.phase == Phase.waitAck && r.gen == st.gen) = true
          · exact hc
          · rw [if_neg hc, hp] at hg; cases hg⟩, rfl⟩))
        (fun r _ _ hg hne => absurd (by rw [(hf r).2.2.2.2]; exact hg) hne)
    · exact h0
  | rxRsp key =>
    simp only [pre]
    generalize hst1 : (if ({ st with out := [] } : St).transport = true then emit { st with out := [] } Out.wack else { st with out := [] }) = st1
    have h1 : Live st1 none ∧ (st1.reqs.map (·.id)).Nodup := by
      rw [← hst1]; split
      · exact ⟨live_congr (st := st) rfl (fun l => by cases l <;> rfl) (fun _ hj => hj) h, hinv.1⟩
      · exact ⟨h0, hinv.1⟩
    cases hfind : st1.listeners.find? (fun l => l.2 == key) with
    | none => exact h1.1
    | some p =>
      obtain ⟨i, k⟩ := p
      simp only []
      have hgfacts : ∀ r : Req, (if (r.id == i) = true then { r with got := Got.rsp } else r).id = r.id ∧
          (if (r.id == i) = true then { r with got := Got.rsp } else r).blocking = r.blocking ∧
          (∀ l, holds (if (r.id == i) = true then { r with got := Got.rsp } else r) l = holds r l) ∧
          (if (r.id == i) = true then { r with got := Got.rsp } else r).phase = r.phase := by
        intro r; split
        · exact ⟨rfl, rfl, fun l => by cases l <;> rfl, rfl⟩
        · exact ⟨rfl, rfl, fun _ => rfl, rfl⟩
      by_cases hw : ((getReq st1 i).map (·.phase == Phase.waitRsp)).getD false = true
      · rw [if_pos hw]
        exact live_map st1 _ (fun r => if (r.id == i) = true then { r with got := Got.rsp } else r) h1.1 rfl
          (fun l => by cases l <;> rfl) (fun j hj => List.mem_append_left _ hj)
          (fun r => (hgfacts r).1) (fun r => (hgfacts r).2.1) (fun r => (hgfacts r).2.2.1) (fun r => Or.inl (hgfacts r).2.2.2)
          (fun r _ hp ha => by rw [(hgfacts r).2.2.2, hp] at ha; cases ha)
          (fun r hrm _ hg hne => by
            by_cases hri : (r.id == i) = true
            · have : r.id = i := by simpa using hri
              rw [this]; exact List.mem_append_right _ (by simp)
            · rw [if_neg hri] at hne; exact absurd hg hne)
      · rw [if_neg hw]
        exact live_map st1 _ (fun r => if (r.id == i) = true then { r with got := Got.rsp } else r) h1.1 rfl
          (fun l => by cases l <;> rfl) (fun j hj => hj)
          (fun r => (hgfacts r).1) (fun r => (hgfacts r).2.1) (fun r => (hgfacts r).2.2.1) (fun r => Or.inl (hgfacts r).2.2.2)
          (fun r _ hp ha => by rw [(hgfacts r).2.2.2, hp] at ha; cases ha)
          (fun r hrm hp hg hne => by
            by_cases hri : (r.id == i) = true
            · exfalso; apply hw
              have hid : r.id = i := by simpa using hri
              have := getReq_of_mem st1 h1.2 r hrm
              rw [hid] at this
              rw [this]; simp [hp]
            · rw [if_neg hri] at hne; exact absurd hg hne)
  | tick =>
    simp only [pre]
    cases nextDeadline ({ st with out := [] } : St) with
    | none => exact h0
    | some d =>
      simp only []
      have hf := toAcked_facts (fun r => r.phase == Phase.waitAck && decide (r.deadline ≤ max st.now d))
        (fun r hc => by simp at hc; exact hc.1)
      apply live_foldl_unwind
      · exact inv2_map st _ (fun r => if (r.phase == Phase.waitAck && decide (r.deadline ≤ max st.now d)) = true
            then { r with phase := Phase.acked } else r) hinv rfl rfl rfl rfl
          (fun r => by split <;> rfl) (fun r l => by split <;> (cases l <;> rfl))
          (phaseHold_toAcked _ (fun r hc => by simp at hc; exact hc.1))
      · exact live_map st _ (fun r => if (r.phase == Phase.waitAck && decide (r.deadline ≤ max st.now d)) = true
            then { r with phase := Phase.acked } else r) h rfl
          (fun l => by cases l <;> rfl) (fun j hj => List.mem_append_left _ hj)
          (fun r => (hf r).1) (fun r => (hf r).2.1) (fun r => (hf r).2.2.1) (fun r => (hf r).2.2.2.1)
          (fun r hrm hp ha => by
            apply List.mem_append_right
            refine List.mem_map.mpr ⟨r, List.mem_filter.mpr ⟨hrm, ?_⟩, rfl⟩
            by_cases hc : (r.phase == Phase.waitAck && decide (r.deadline ≤ max st.now d)) = true
            · exact hc
            · rw [if_neg hc, hp] at ha; cases ha)
          (fun r _ _ hg hne => absurd (by rw [(hf r).2.2.2.2]; exact hg) hne)
  | cancel id =>
    simp only [pre]
    cases getReq ({ st with out := [] } : St) id with
    | none => exact h0
    | some r =>
      simp only []
      split
      · exact h0
      · exact live_unwind_any _ id .cancelled hinv0 h0
  | close =>
    simp only [pre]
    split
    · split
      · exact live_congr (st := st) rfl (fun l => by cases l <;> rfl) (fun _ hj => hj) h
      · exact h0
    · have hgfacts : ∀ r : Req, (if (st.listeners.map (·.1)).contains r.id = true then { r with got := Got.cancelled } else r).id = r.id ∧
          (if (st.listeners.map (·.1)).contains r.id = true then { r with got := Got.cancelled } else r).blocking = r.blocking ∧
          (∀ l, holds (if (st.listeners.map (·.1)).contains r.id = true then { r with got := Got.cancelled } else r) l = holds r l) ∧
          (if (st.listeners.map (·.1)).contains r.id = true then { r with got := Got.cancelled } else r).phase = r.phase := by
        intro r; split
        · exact ⟨rfl, rfl, fun l => by cases l <;> rfl, rfl⟩
        · exact ⟨rfl, rfl, fun _ => rfl, rfl⟩
      have hX : ∀ s' : St, s'.reqs = st.reqs.map (fun r => if (st.listeners.map (·.1)).contains r.id = true then { r with got := Got.cancelled } else r) →
          (∀ l, queue s' l = queue st l) →
          (∀ j, j ∈ st.ready ++ (st.listeners.filter fun l => ((getReq ({ st with out := [] } : St) l.1).map (·.phase == Phase.waitRsp)).getD false).map (·.1) → j ∈ s'.ready) →
          Live s' none := by
        intro s' e1 e2 e3
        exact live_map st s' _ h e1 e2 (fun j hj => e3 j (List.mem_append_left _ hj))
          (fun r => (hgfacts r).1) (fun r => (hgfacts r).2.1) (fun r => (hgfacts r).2.2.1) (fun r => Or.inl (hgfacts r).2.2.2)
          (fun r _ hp ha => by rw [(hgfacts r).2.2.2, hp] at ha; cases ha)
          (fun r hrm hp hg _ => by
            apply e3; apply List.mem_append_right
            have hl := hcov (core r) (List.mem_map.mpr ⟨r, hrm, rfl⟩) (by show r.phase ≠ .done; rw [hp]; decide) hg
            refine List.mem_map.mpr ⟨(r.id, r.key), List.mem_filter.mpr ⟨hl, ?_⟩, rfl⟩
            have := getReq_of_mem st hinv.1 r hrm
            show ((getReq ({ st with out := [] } : St) r.id).map (·.phase == Phase.waitRsp)).getD false = true
            rw [show getReq ({ st with out := [] } : St) r.id = getReq st r.id from rfl, this]; simp [hp])
      split
      · exact hX _ rfl (fun l => by cases l <;> rfl) (fun j hj => hj)
      · exact hX _ rfl (fun l => by cases l <;> rfl) (fun j hj => hj)
  | lost =>
    simp only [pre]
    split
    · exact live_congr (st := st) rfl (fun l => by cases l <;> rfl) (fun _ hj => hj) h
    · exact live_congr (st := st) rfl (fun l => by cases l <;> rfl) (fun _ hj => hj) h
  | setReset b => exact live_congr (st := st) rfl (fun l => by cases l <;> rfl) (fun _ hj => hj) h
  | connect =>
    simp only [pre]
    split
    · exact h0
    · exact live_congr (st := st) rfl (fun l => by cases l <;> rfl) (fun _ hj => hj) h

theorem flag_of_frame {st st' : St} (hf : Frame st st') (h : FlagInv st) : FlagInv st' := by
  intro ht; rw [hf.transport] at ht; rw [hf.isOpen]; exact h ht

theorem flag_pre (st : St) (e : Ev) (h : FlagInv st) : FlagInv (pre st e).1 := by
  have h0 : FlagInv ({ st with out := [] } : St) := h
  cases e with
  | start id key blocking nfrags timeout =>
    simp only [pre]
    split
    · exact h0
    split <;> exact h
  | rxAck k => simp only [pre]; split <;> exact h
  | rxRsp key =>
    simp only [pre]
    generalize hst1 : (if ({ st with out := [] } : St).transport = true then emit { st with out := [] } Out.wack else { st with out := [] }) = st1
    have h1 : FlagInv st1 := by rw [← hst1]; split <;> exact h
    cases st1.listeners.find? (fun l => l.2 == key) with
    | none => exact h1
    | some p =>
      obtain ⟨i, k⟩ := p
      simp only []
      split <;> exact h1
  | tick =>
    simp only [pre]
    cases nextDeadline ({ st with out := [] } : St) with
    | none => exact h0
    | some d => simp only []; exact flag_of_frame (frame_foldl_unwind _ _ _) h
  | cancel id =>
    simp only [pre]
    cases getReq ({ st with out := [] } : St) id with
    | none => exact h0
    | some r =>
      simp only []
      split
      · exact h0
      · exact flag_of_frame (frame_unwind _ _ _) h0
  | close =>
    simp only [pre]
    split
    · split
      · intro _; rfl
      · exact h0
    · split
      · intro _; rfl
      · exact h
  | lost => simp only [pre]; split <;> (intro _; rfl)
  | setReset b => exact h
  | connect =>
    simp only [pre]
    split
    · exact h0
    · intro ht; cases ht

theorem cov_settle (fuel : Nat) (st : St) (hinv : Inv2 st) (h : CoveredV (view st)) : CoveredV (view (settle fuel st)) := by
  have := settle_ind (fun s => Inv2 s ∧ CoveredV (view s))
    (fun s rd hs => ⟨inv2_congr s _ rfl rfl rfl rfl hs.1, hs.2⟩)
    (fun s i hs => ⟨inv2_runReq 1 s i hs.1, cov_runReq1 s i hs.1 hs.2⟩) fuel st ⟨hinv, h⟩
  exact this.2

/-- everything the liveness argument needs, in one bundle -/
structure Good (st : St) : Prop where
  both : ∃ hist, Both hist st
  live : Live st none
  flags : FlagInv st
  cov : CoveredV (view st)

theorem Good.inv {st : St} (h : Good st) : Inv2 st := by
  obtain ⟨_, hb⟩ := h.both; exact hb.1

theorem good_init : Good {} :=
  ⟨⟨[], both_init⟩,
   ⟨fun l => (by cases l <;> exact List.nodup_nil), fun l i hi => (by cases l <;> cases hi), fun r hr => (by cases hr)⟩,
   fun h => (by cases h), fun c hc => (by cases hc)⟩

theorem good_pre (st : St) (e : Ev) (h : Good st) :
    (∃ hist, Both hist (pre st e).1) ∧ Live (pre st e).1 none ∧ FlagInv (pre st e).1 ∧ CoveredV (view (pre st e).1) := by
  obtain ⟨hist, hb⟩ := h.both
  exact ⟨⟨_, both_pre hist st e hb⟩, live_pre st e h.inv h.cov h.live, flag_pre st e h.flags, cov_pre st e h.cov⟩

theorem good_step (st : St) (e : Ev) (h : Good st) : Good (step st e) := by
  obtain ⟨⟨hist, hb⟩, hl, hf, hc⟩ := good_pre st e h
  rw [step_eq_pre]
  cases (pre st e).2
  · exact ⟨⟨hist, hb⟩, hl, hf, hc⟩
  · exact ⟨⟨hist, both_settle _ _ _ hb⟩, live_settle _ _ hb.1 hf hl, flag_settle _ _ hf, cov_settle _ _ hb.1 hc⟩

theorem good_run (st : St) (evs : List Ev) (h : Good st) : Good (evs.foldl step st) := by
  induction evs generalizing st with
  | nil => exact h
  | cons e es ih => exact ih _ (good_step st e h)

theorem runEvents_fst (st : St) (log : List (List Out)) (evs : List Ev) :
    (evs.foldl (fun acc e => let s := step acc.1 e; (s, acc.2 ++ [s.out])) (st, log)).1 = evs.foldl step st := by
  induction evs generalizing st log with
  | nil => rfl
  | cons e es ih => simp only [List.foldl_cons]; exact ih _ _

theorem good_reachable (evs : List Ev) : Good (runEvents {} evs).1 := by
  unfold runEvents; rw [runEvents_fst]; exact good_run {} evs good_init

/-! ### drain -/

/-- nobody can be parked behind the head of lock `l`'s queue if that head - whatever it is doing - cannot itself be
    parked -/
theorem no_waiter (st : St) (hl : Live st none) (hrd : st.ready = []) (l : Lock)
    (hhead : ∀ r ∈ st.reqs, r.phase ≠ .done → (queue st l).head? = some r.id →
      (waiting l r ∨ (holds r l = true ∧ heldPhase l r)) → False) :
    ∀ r ∈ st.reqs, r.phase ≠ .done → r.phase ≠ waitPhase l := by
  intro r hrm hp hph
  rcases hl.wake r hrm hp (by simp) with hw | hw
  · rw [hrd] at hw; cases hw
  · rcases hw with ⟨l', h1, h2, h3⟩ | hw | ⟨hw, _⟩
    · have : l' = l := by
        rw [hph] at h1; cases l <;> cases l' <;> first | rfl | cases h1
      subst this
      -- the queue is not empty: look at its head
      cases hq : queue st l' with
      | nil => rw [hq] at h2; cases h2
      | cons a t =>
        obtain ⟨ra, hram, hrai, hrap, hd⟩ := hl.qi l' a (by rw [hq]; exact List.mem_cons_self ..)
        exact hhead ra hram hrap (by rw [hq, hrai]; rfl) hd
    · rw [hph] at hw; cases l <;> cases hw
    · rw [hph] at hw; cases l <;> cases hw

/-- **no stranding**: at a point where no task is runnable, a request that is still running is waiting - directly or
    through a chain of locks - for an acknowledgement wait or a response wait that is still pending; if there is
    neither, nothing is running -/
theorem drain (st : St) (hl : Live st none) (hrd : st.ready = [])
    (hna : ∀ r ∈ st.reqs, r.phase ≠ .waitAck)
    (hnr : ∀ r ∈ st.reqs, r.phase = .waitRsp → r.got ≠ .nothing) : ∀ r ∈ st.reqs, r.phase = .done := by
  -- a running request is parked, and only a lock can be the reason
  have hpark : ∀ r ∈ st.reqs, r.phase ≠ .done → ∃ l, r.phase = waitPhase l ∧ r.id ∈ queue st l ∧ (queue st l).head? ≠ some r.id := by
    intro r hrm hp
    rcases hl.wake r hrm hp (by simp) with hw | hw
    · rw [hrd] at hw; cases hw
    · rcases hw with hw | hw | ⟨hw1, hw2⟩
      · exact hw
      · exact absurd hw (hna r hrm)
      · exact absurd hw2 (hnr r hrm hw1)
  -- hence a running request is in one of the three lock-wait phases
  have hphase : ∀ r ∈ st.reqs, r.phase ≠ .done → r.phase = .waitB ∨ r.phase = .waitM ∨ r.phase = .waitT := by
    intro r hrm hp
    obtain ⟨l, h1, _, _⟩ := hpark r hrm hp
    cases l
    · exact Or.inl h1
    · exact Or.inr (Or.inl h1)
    · exact Or.inr (Or.inr h1)
  -- the head of a queue that is itself waiting for that lock would have to be parked behind itself
  have hself : ∀ l, ∀ r ∈ st.reqs, r.phase ≠ .done → (queue st l).head? = some r.id → waiting l r → False := by
    intro l r hrm hp hh hw
    obtain ⟨l', h1, _, h3⟩ := hpark r hrm hp
    have : l' = l := by
      rw [hw.1] at h1; cases l <;> cases l' <;> first | rfl | cases h1
    subst this
    exact h3 hh
  have hT : ∀ r ∈ st.reqs, r.phase ≠ .done → r.phase ≠ .waitT := by
    apply no_waiter st hl hrd .T
    intro r hrm hp hh hd
    rcases hd with hw | ⟨_, hd⟩
    · exact hself .T r hrm hp hh hw
    · simp only [heldPhase] at hd
      rcases hphase r hrm hp with h1 | h1 | h1 <;> rw [h1] at hd <;> cases hd
  have hM : ∀ r ∈ st.reqs, r.phase ≠ .done → r.phase ≠ .waitM := by
    apply no_waiter st hl hrd .M
    intro r hrm hp hh hd
    rcases hd with hw | ⟨_, hd⟩
    · exact hself .M r hrm hp hh hw
    · simp only [heldPhase] at hd
      rcases hphase r hrm hp with h1 | h1 | h1
      · rw [h1] at hd; cases hd
      · rw [h1] at hd; cases hd
      · exact hT r hrm hp h1
  have hB : ∀ r ∈ st.reqs, r.phase ≠ .done → r.phase ≠ .waitB := by
    apply no_waiter st hl hrd .B
    intro r hrm hp hh hd
    rcases hd with hw | ⟨_, _, hd⟩
    · exact hself .B r hrm hp hh hw
    · rcases hphase r hrm hp with h1 | h1 | h1
      · rw [h1] at hd; cases hd
      · exact hM r hrm hp h1
      · exact hT r hrm hp h1
  intro r hrm
  by_cases hp : r.phase = .done
  · exact hp
  · rcases hphase r hrm hp with h1 | h1 | h1
    · exact absurd h1 (hB r hrm hp)
    · exact absurd h1 (hM r hrm hp)
    · exact absurd h1 (hT r hrm hp)

/-- once the API is shut no response wait is pending any more: only an acknowledgement wait can keep requests alive -/
theorem drain_shut (st : St) (hg : Good st) (hs : Shut st) (hrd : st.ready = [])
    (hna : ∀ r ∈ st.reqs, r.phase ≠ .waitAck) : ∀ r ∈ st.reqs, r.phase = .done := by
  apply drain st hg.live hrd hna
  intro r hrm hp hgot
  have := hg.cov (core r) (List.mem_map.mpr ⟨r, hrm, rfl⟩) (by show r.phase ≠ .done; rw [hp]; decide) hgot
  simp only [view] at this
  rw [hs.2] at this; cases this

end Zboss.Host
