import ZbossModel.Props.C05
import ZbossModel.Proofs.RxLocated
/-! The receiver's frame extractor (`_extract_frame`) on the byte image of the frames the host itself builds:
    complete / first fragments and continuation fragments (used by C10: bytes → frames). -/
namespace Zboss.Rx
open Gen

/-- the header checks of `_extract_frame` pass on every stamped host-built data frame -/
theorem headerOk_built (fl seq n : Nat) (p : HLPacket) (r : Bytes) (hn : n = p.serialize.length + 5) (hlen : n ≤ 65535) :
    headerOk ((Frame.stamp seq (Frame.mkData fl p n)).serialize ++ r) = true ∧
    fromLE (slice ((Frame.stamp seq (Frame.mkData fl p n)).serialize ++ r) 2 4) = n ∧
    ((Frame.stamp seq (Frame.mkData fl p n)).serialize ++ r).length = n + 2 + r.length := by
  obtain ⟨hser, hl⟩ := C05_frame_wf fl seq n p hn hlen
  have h5 : 5 ≤ n := by omega
  have hfl : fromLE (toLE 2 n) = n := fromLE_toLE 2 n (by omega)
  refine ⟨?_, ?_, by simp [hl]⟩
  · rw [headerOk_iff, hser]
    have hsig : toLE 2 Gen.signature = [0xDE, 0xAD] := by decide
    refine ⟨by simp; omega, by simp [hsig], by simp [toLE]; decide, ?_, ?_⟩
    · simp [toLE, slice]
    · have : slice ([0xDE, 0xAD] ++ toLE 2 n ++ [6, UInt8.ofNat (wireFlags fl seq),
          Crc.crc8B (toLE 2 n ++ [6, UInt8.ofNat (wireFlags fl seq)])] ++ toLE 2 (Crc.crc16B p.body) ++ p.body ++ r) 2 4 = toLE 2 n := by
        simp [toLE, slice]
      rw [this, hfl]; exact h5
  · rw [hser]
    have : slice ([0xDE, 0xAD] ++ toLE 2 n ++ [6, UInt8.ofNat (wireFlags fl seq),
        Crc.crc8B (toLE 2 n ++ [6, UInt8.ofNat (wireFlags fl seq)])] ++ toLE 2 (Crc.crc16B p.body) ++ p.body ++ r) 2 4 = toLE 2 n := by
      simp [toLE, slice]
    rw [this, hfl]

theorem hasFlag_or' (fl a b : Nat) : Frame.hasFlag fl (a ||| b) = (Frame.hasFlag fl a || Frame.hasFlag fl b) := by
  unfold Frame.hasFlag
  rw [Nat.and_or_distrib_left]
  by_cases h1 : fl &&& a = 0 <;> by_cases h2 : fl &&& b = 0 <;> simp [h1, h2, Nat.or_eq_zero_iff]

/-- **stream decoder, complete frames and first fragments**: `_extract_frame` on the bytes of a host-built frame
    with a command header, followed by anything, yields that frame and consumes exactly its bytes -/
theorem tryFrame_built_first (fl seq n : Nat) (h : HLH) (data r : Bytes) (hh : h ≠ 0#32)
    (hn : n = (HLPacket.mk (some h) data).serialize.length + 5) (hlen : n ≤ 65535)
    (hack : Frame.hasFlag (wireFlags fl seq) Gen.flagisACK = false)
    (hfirst : Frame.hasFlag (wireFlags fl seq) Gen.flagFirstFrag = true) :
    tryFrame ((Frame.stamp seq (Frame.mkData fl ⟨some h, data⟩ n)).serialize ++ r) =
      .ok (Frame.stamp seq (Frame.mkData fl ⟨some h, data⟩ n)) (n + 2) := by
  obtain ⟨hok, hfl, hl⟩ := headerOk_built fl seq n ⟨some h, data⟩ r hn hlen
  rw [tryFrame_after_header _ hok, hfl, hl, if_neg (by omega), C05_lib_roundtrip fl seq n h data r hh hn hlen hack hfirst]
  have h4 := (stamped_fields fl seq n hlen).2.2.2.1
  simp only [Frame.stamp, Frame.mkData] at h4 ⊢
  simp only [h4, hasFlag_or', hfirst, Bool.or_true, if_true]
  congr 1; omega

/-- `Frame.deserialize` on a host-built continuation fragment (no first-fragment flag, raw body) -/
theorem deserialize_built_cont (fl seq n : Nat) (d r : Bytes)
    (hn : n = (HLPacket.mk none d).serialize.length + 5) (hlen : n ≤ 65535)
    (hack : Frame.hasFlag (wireFlags fl seq) Gen.flagisACK = false)
    (hfirst : Frame.hasFlag (wireFlags fl seq) Gen.flagFirstFrag = false) :
    Frame.deserialize ((Frame.stamp seq (Frame.mkData fl ⟨none, d⟩ n)).serialize ++ r) =
      .ok (⟨(Frame.stamp seq (Frame.mkData fl ⟨none, d⟩ n)).ll, some ⟨none, (HLPacket.mk none d).serialize⟩⟩, r) := by
  obtain ⟨h1, h2, h3, h4, h5⟩ := stamped_fields fl seq n hlen
  have hsz : ((n : Int) - 5) = (((HLPacket.mk none d).serialize).length : Int) := by omega
  simp only [Frame.stamp, Frame.mkData, Frame.serialize, List.append_assoc] at *
  generalize hll : LL.sealed (LL.withFlags (LL.withFlags (LL.base n) fl)
    (seq <<< 2 ||| LL.flags (LL.withFlags (LL.base n) fl))) = ll at *
  have hl := LL.bytes_length ll
  have hcrc : LL.crcOf ll = LL.crc ll := by
    rw [LL.crcOf_eq, h2, h3, h4, h5]; rfl
  have hsig : LL.sig ll = Gen.signature := by rw [h1]; decide
  have hlen7 : ¬ (LL.bytes ll ++ ((HLPacket.mk none d).serialize ++ r)).length < 7 := by simp [hl]
  simp only [Frame.deserialize, hlen7, if_false, LL.ofBytes_bytes, hsig, hcrc, h4, hack, hfirst, h2,
    List.drop_left' hl, ne_eq, not_true_eq_false, Bool.false_eq_true, if_true, hsz]
  have hpt : Frame.pyTake ((HLPacket.mk none d).serialize ++ r)
      (((HLPacket.mk none d).serialize).length : Int) = (HLPacket.mk none d).serialize := by
    simp [Frame.pyTake]
  have hpd : Frame.pyDrop ((HLPacket.mk none d).serialize ++ r)
      (((HLPacket.mk none d).serialize).length : Int) = r := by
    simp [Frame.pyDrop]
  rw [hpt, hpd]

/-- **stream decoder, continuation fragments**: the fragment's own body checksum is verified and stripped; the
    frame handed up is the fragment the transmitter built -/
theorem tryFrame_built_cont (fl seq n : Nat) (d r : Bytes)
    (hn : n = (HLPacket.mk none d).serialize.length + 5) (hlen : n ≤ 65535)
    (hack : Frame.hasFlag (wireFlags fl seq) Gen.flagisACK = false)
    (hfirst : Frame.hasFlag (wireFlags fl seq) Gen.flagFirstFrag = false) :
    tryFrame ((Frame.stamp seq (Frame.mkData fl ⟨none, d⟩ n)).serialize ++ r) =
      .ok (Frame.stamp seq (Frame.mkData fl ⟨none, d⟩ n)) (n + 2) := by
  obtain ⟨hok, hfl, hl⟩ := headerOk_built fl seq n ⟨none, d⟩ r hn hlen
  rw [tryFrame_after_header _ hok, hfl, hl, if_neg (by omega), deserialize_built_cont fl seq n d r hn hlen hack hfirst]
  have h4 := (stamped_fields fl seq n hlen).2.2.2.1
  have hc : Crc.crc16B d < 65536 := by unfold Crc.crc16B; exact (Crc.crc16 _).isLt
  simp only [Frame.stamp, Frame.mkData] at h4 ⊢
  simp only [h4, hasFlag_or', hfirst, hack, Bool.or_false, Bool.false_eq_true, if_false, HLPacket.serialize,
    HLPacket.body]
  have h2 : ¬ (toLE 2 (Crc.crc16B d) ++ d).length < 2 := by simp
  have ht : (toLE 2 (Crc.crc16B d) ++ d).take 2 = toLE 2 (Crc.crc16B d) := by
    rw [List.take_left' (by simp)]
  have hd : (toLE 2 (Crc.crc16B d) ++ d).drop 2 = d := by
    rw [List.drop_left' (by simp)]
  simp only [h2, if_false, ht, hd, fromLE_toLE 2 _ (by omega : Crc.crc16B d < 256 ^ 2), ne_eq, not_true_eq_false]
  congr 1; omega

end Zboss.Rx
