import ZbossModel.Wire
/-! Helper lemmas for C16 / C04 / C15: every scalar, record and list decoder inverts its encoder on
    `encoding ++ arbitrary suffix` and rejects every input that is too short. -/
namespace Zboss.Wire

theorem toLE_length' (k n : Nat) : (toLE k n).length = k := toLE_length k n

theorem take_append_len {α} (a r : List α) (k : Nat) (h : a.length = k) : (a ++ r).take k = a := by
  subst h; simp

theorem drop_append_len {α} (a r : List α) (k : Nat) (h : a.length = k) : (a ++ r).drop k = r := by
  subst h; simp

/-! ## scalars -/

theorem encS_cases (t : ST) (v : SV) (b : Bytes) (h : encS t v = some b) :
    (∃ k n, t = .uint k ∧ v = .num n ∧ 0 ≤ n ∧ n < pow256 k ∧ b = toLE k n.toNat) ∨
    (∃ k n, t = .sint k ∧ v = .num n ∧ -(pow256 k / 2) ≤ n ∧ n < pow256 k / 2 ∧
        b = toLE k (if n < 0 then (n + pow256 k).toNat else n.toNat)) ∨
    (∃ m x, t = .blob m ∧ v = .raw x ∧ x.length = m ∧ b = x) := by
  cases t with
  | uint k =>
    cases v with
    | raw x => simp [encS] at h
    | num n =>
      simp only [encS] at h
      split at h
      next hc => exact Or.inl ⟨k, n, rfl, rfl, hc.1, hc.2, (Option.some.inj h).symm⟩
      next => cases h
  | sint k =>
    cases v with
    | raw x => simp [encS] at h
    | num n =>
      simp only [encS] at h
      split at h
      next hc => exact Or.inr (Or.inl ⟨k, n, rfl, rfl, hc.1, hc.2, (Option.some.inj h).symm⟩)
      next => cases h
  | blob m =>
    cases v with
    | num n => simp [encS] at h
    | raw x =>
      simp only [encS] at h
      split at h
      next hc => exact Or.inr (Or.inr ⟨m, x, rfl, rfl, hc, (Option.some.inj h).symm⟩)
      next => cases h

theorem encS_length (t : ST) (v : SV) (b : Bytes) (h : encS t v = some b) : b.length = t.size := by
  rcases encS_cases t v b h with ⟨k, n, rfl, rfl, _, _, rfl⟩ | ⟨k, n, rfl, rfl, _, _, rfl⟩ | ⟨m, x, rfl, rfl, hx, rfl⟩
  · simp [ST.size]
  · simp [ST.size]
  · simpa [ST.size] using hx

theorem pow256_pos (k : Nat) : 0 < pow256 k := by
  unfold pow256
  exact_mod_cast Nat.pow_pos (n := k) (by decide : 0 < 256)

theorem toNat_lt_pow (n : Int) (k : Nat) (h0 : 0 ≤ n) (h1 : n < pow256 k) : n.toNat < 256 ^ k := by
  unfold pow256 at h1
  have : (n.toNat : Int) = n := Int.toNat_of_nonneg h0
  have h2 : (n.toNat : Int) < ((256 ^ k : Nat) : Int) := by rw [this]; exact h1
  exact_mod_cast h2

theorem decS_encS (t : ST) (v : SV) (b r : Bytes) (h : encS t v = some b) : decS t (b ++ r) = .ok (v, r) := by
  have hl := encS_length t v b h
  have hns : ¬ (b ++ r).length < t.size := by simp [hl]
  rcases encS_cases t v b h with ⟨k, n, rfl, rfl, h0, h1, rfl⟩ | ⟨k, n, rfl, rfl, h0, h1, rfl⟩ | ⟨m, x, rfl, rfl, hx, rfl⟩
  · simp only [decS, if_neg hns]
    rw [take_append_len _ _ _ (toLE_length k _), drop_append_len _ _ _ (toLE_length k _),
      fromLE_toLE _ _ (toNat_lt_pow n k h0 h1)]
    simp [Int.toNat_of_nonneg h0]
  · simp only [decS, if_neg hns]
    rw [take_append_len _ _ _ (toLE_length k _), drop_append_len _ _ _ (toLE_length k _)]
    have hp := pow256_pos k
    by_cases hneg : n < 0
    · simp only [hneg, if_true]
      have hnn : 0 ≤ n + pow256 k := by omega
      rw [fromLE_toLE _ _ (toNat_lt_pow _ k hnn (by omega))]
      simp only [Int.ofNat_eq_natCast, Int.toNat_of_nonneg hnn]
      have : ¬ (n + pow256 k < pow256 k / 2) := by omega
      simp only [this, if_false]
      congr 2; congr 1; omega
    · simp only [hneg, if_false]
      have hnn : 0 ≤ n := by omega
      rw [fromLE_toLE _ _ (toNat_lt_pow _ k hnn (by omega))]
      simp only [Int.ofNat_eq_natCast, Int.toNat_of_nonneg hnn]
      simp [h1]
  · simp only [decS, if_neg hns]
    rw [take_append_len _ _ _ hx, drop_append_len _ _ _ hx]

theorem decS_short (t : ST) (data : Bytes) (h : data.length < t.size) : decS t data = .error .valueError := by
  simp [decS, h]

theorem decS_ok_length (t : ST) (data : Bytes) (v : SV) (rest : Bytes) (h : decS t data = .ok (v, rest)) :
    t.size ≤ data.length ∧ rest.length = data.length - t.size := by
  unfold decS at h
  split at h
  · cases h
  · rename_i hn
    refine ⟨by omega, ?_⟩
    cases t <;> simp only [ST.size] at * <;> (simp at h; obtain ⟨_, rfl⟩ := h; simp)

theorem decS_error_kind (t : ST) (data : Bytes) (e : Err) (h : decS t data = .error e) : e = .valueError := by
  unfold decS at h
  split at h
  · simpa using h.symm
  · cases t <;> simp at h

/-! ## records -/

theorem encRec_length (ts : List ST) (vs : List SV) (b : Bytes) (h : encRec ts vs = some b) : b.length = recSize ts := by
  induction ts generalizing vs b with
  | nil => cases vs <;> simp [encRec] at h; subst h; simp [recSize]
  | cons t ts ih =>
    cases vs with
    | nil => simp [encRec] at h
    | cons v vs =>
      simp only [encRec] at h
      cases h1 : encS t v with
      | none => simp [h1] at h
      | some a =>
        cases h2 : encRec ts vs with
        | none => simp [h1, h2] at h
        | some c =>
          simp [h1, h2] at h; subst h
          have := encS_length t v a h1
          have := ih vs c h2
          simp [recSize] at *; omega

theorem decRec_encRec (ts : List ST) (vs : List SV) (b r : Bytes) (h : encRec ts vs = some b) :
    decRec ts (b ++ r) = .ok (vs, r) := by
  induction ts generalizing vs b with
  | nil => cases vs <;> simp [encRec] at h; subst h; simp [decRec]
  | cons t ts ih =>
    cases vs with
    | nil => simp [encRec] at h
    | cons v vs =>
      simp only [encRec] at h
      cases h1 : encS t v with
      | none => simp [h1] at h
      | some a =>
        cases h2 : encRec ts vs with
        | none => simp [h1, h2] at h
        | some c =>
          simp [h1, h2] at h; subst h
          simp only [decRec, List.append_assoc, decS_encS t v a (c ++ r) h1, ih vs c h2]

theorem decRec_short (ts : List ST) (data : Bytes) (h : data.length < recSize ts) :
    decRec ts data = .error .valueError := by
  induction ts generalizing data with
  | nil => simp [recSize] at h
  | cons t ts ih =>
    simp only [decRec]
    cases hd : decS t data with
    | error e => rw [decS_error_kind t data e hd]
    | ok p =>
      obtain ⟨v, rest⟩ := p
      obtain ⟨h1, h2⟩ := decS_ok_length t data v rest hd
      have : rest.length < recSize ts := by simp [recSize] at h ⊢; omega
      simp [ih rest this]

theorem decRec_ok_length (ts : List ST) (data : Bytes) (vs : List SV) (rest : Bytes)
    (h : decRec ts data = .ok (vs, rest)) : recSize ts ≤ data.length ∧ rest.length = data.length - recSize ts := by
  induction ts generalizing data vs with
  | nil => simp [decRec] at h; obtain ⟨_, rfl⟩ := h; simp [recSize]
  | cons t ts ih =>
    simp only [decRec] at h
    cases hd : decS t data with
    | error e => simp [hd] at h
    | ok p =>
      obtain ⟨v, r1⟩ := p
      simp only [hd] at h
      cases hr : decRec ts r1 with
      | error e => simp [hr] at h
      | ok q =>
        obtain ⟨ws, r2⟩ := q
        simp [hr] at h
        obtain ⟨_, rfl⟩ := h
        obtain ⟨a1, a2⟩ := decS_ok_length t data v r1 hd
        obtain ⟨b1, b2⟩ := ih r1 ws hr
        simp [recSize] at *; omega

theorem decRec_error_kind (ts : List ST) (data : Bytes) (e : Err) (h : decRec ts data = .error e) : e = .valueError := by
  induction ts generalizing data with
  | nil => simp [decRec] at h
  | cons t ts ih =>
    simp only [decRec] at h
    cases hd : decS t data with
    | error e' => simp [hd] at h; rw [← h]; exact decS_error_kind t data e' hd
    | ok p =>
      obtain ⟨v, r1⟩ := p
      simp only [hd] at h
      cases hr : decRec ts r1 with
      | error e' => simp [hr] at h; subst h; exact ih r1 hr
      | ok q => simp [hr] at h

/-! ## lists of records -/

theorem encRows_length (ts : List ST) (rs : List (List SV)) (b : Bytes) (h : encRows ts rs = some b) :
    b.length = rs.length * recSize ts := by
  induction rs generalizing b with
  | nil => simp [encRows] at h; subst h; simp
  | cons r rs ih =>
    simp only [encRows] at h
    cases h1 : encRec ts r with
    | none => simp [h1] at h
    | some a =>
      cases h2 : encRows ts rs with
      | none => simp [h1, h2] at h
      | some c =>
        simp [h1, h2] at h; subst h
        have := encRec_length ts r a h1
        have := ih c h2
        simp [Nat.succ_mul]; omega

theorem decRowsN_encRows (ts : List ST) (rs : List (List SV)) (b r : Bytes) (h : encRows ts rs = some b) :
    decRowsN ts rs.length (b ++ r) = .ok (rs, r) := by
  induction rs generalizing b with
  | nil => simp [encRows] at h; subst h; simp [decRowsN]
  | cons x rs ih =>
    simp only [encRows] at h
    cases h1 : encRec ts x with
    | none => simp [h1] at h
    | some a =>
      cases h2 : encRows ts rs with
      | none => simp [h1, h2] at h
      | some c =>
        simp [h1, h2] at h; subst h
        simp only [List.length_cons, decRowsN, List.append_assoc, decRec_encRec ts x a (c ++ r) h1, ih c h2]

theorem decRowsN_short (ts : List ST) (n : Nat) (data : Bytes) (h : data.length < n * recSize ts) :
    decRowsN ts n data = .error .valueError := by
  induction n generalizing data with
  | zero => simp at h
  | succ n ih =>
    simp only [decRowsN]
    cases hd : decRec ts data with
    | error e => rw [decRec_error_kind ts data e hd]
    | ok p =>
      obtain ⟨v, rest⟩ := p
      obtain ⟨h1, h2⟩ := decRec_ok_length ts data v rest hd
      have : rest.length < n * recSize ts := by rw [Nat.succ_mul] at h; omega
      simp [ih rest this]

theorem decRowsAll_encRows (ts : List ST) (hpos : 0 < recSize ts) (rs : List (List SV)) (b : Bytes)
    (h : encRows ts rs = some b) (fuel : Nat) (hf : b.length ≤ fuel) : decRowsAll ts fuel b = .ok rs := by
  induction rs generalizing b fuel with
  | nil =>
    simp [encRows] at h; subst h
    cases fuel <;> simp [decRowsAll]
  | cons x rs ih =>
    simp only [encRows] at h
    cases h1 : encRec ts x with
    | none => simp [h1] at h
    | some a =>
      cases h2 : encRows ts rs with
      | none => simp [h1, h2] at h
      | some c =>
        simp [h1, h2] at h; subst h
        have ha := encRec_length ts x a h1
        cases fuel with
        | zero => simp at hf; rw [hf.1] at ha; simp at ha; omega
        | succ fuel =>
          have hne : (a ++ c).isEmpty = false := by
            cases a with
            | nil => simp at ha; omega
            | cons _ _ => rfl
          simp only [decRowsAll, hne, Bool.false_eq_true, if_false, decRec_encRec ts x a c h1]
          rw [ih c h2 fuel (by simp at hf; omega)]

end Zboss.Wire

namespace Zboss.Wire

/-! ## parameter types -/

def sdHdr : List ST := [.uint 1, .uint 2, .uint 2, .uint 1, .uint 1, .uint 1]

theorem fromLE_toLE' (k n : Nat) (h : n < 256 ^ k) : fromLE (toLE k n) = n := fromLE_toLE k n h

theorem u16s_back (l : List Nat) : (u16s l).map (fun r => natOf (r.headD (.num 0))) = l := by
  induction l with
  | nil => rfl
  | cons x l ih =>
    simp only [u16s, List.map_cons] at ih ⊢
    rw [ih]
    simp [natOf]

/-- **self-delimiting and exact inverse**: decoding the encoding of a value followed by arbitrary
    further bytes returns the value and exactly those bytes (every non-greedy parameter type) -/
theorem decW_encW (w : WT) (v : Val) (b r : Bytes) (hg : w.isGreedy = false) (h : encW w v = some b) :
    decW w (b ++ r) = .ok (v, r) := by
  cases w with
  | sc t =>
    cases v <;> simp only [encW] at h <;> try cases h
    rename_i sv
    simp [decW, decS_encS t sv b r h]
  | lvBytes hd =>
    cases v <;> simp only [encW] at h <;> try cases h
    rename_i x
    split at h
    next hc =>
      have hb := (Option.some.inj h).symm
      subst hb
      have hlen : x.length < 256 ^ hd := by omega
      have h1 : ¬ (toLE hd x.length ++ x ++ r).length < hd := by simp
      have ht : (toLE hd x.length ++ x ++ r).take hd = toLE hd x.length := by
        rw [List.append_assoc]; exact take_append_len _ _ _ (toLE_length _ _)
      have hdp : (toLE hd x.length ++ x ++ r).drop hd = x ++ r := by
        rw [List.append_assoc]; exact drop_append_len _ _ _ (toLE_length _ _)
      have h2 : ¬ (toLE hd x.length ++ x ++ r).length < hd + x.length := by simp
      simp only [decW, if_neg h1, ht, fromLE_toLE' _ _ hlen, if_neg h2, hdp]
      have hd2 : (toLE hd x.length ++ x ++ r).drop (hd + x.length) = r := by
        rw [List.append_assoc, ← List.drop_drop, drop_append_len _ _ _ (toLE_length _ _)]
        simp
      rw [hd2]; simp
    next => cases h
  | lvList hd ts =>
    cases v <;> simp only [encW] at h <;> try cases h
    rename_i rs
    split at h
    next hc =>
      cases he : encRows ts rs with
      | none => simp [he] at h
      | some c =>
        simp [he] at h; subst h
        have h1 : ¬ (toLE hd rs.length ++ c ++ r).length < hd := by simp
        have ht : (toLE hd rs.length ++ c ++ r).take hd = toLE hd rs.length := by
          rw [List.append_assoc]; exact take_append_len _ _ _ (toLE_length _ _)
        have hdp : (toLE hd rs.length ++ c ++ r).drop hd = c ++ r := by
          rw [List.append_assoc]; exact drop_append_len _ _ _ (toLE_length _ _)
        simp only [decW, if_neg h1, ht, fromLE_toLE' _ _ hc, hdp, decRowsN_encRows ts rs c r he]
    next => cases h
  | greedy ts => simp [WT.isGreedy] at hg
  | simpleDesc =>
    cases v with
    | sc x => simp [encW] at h
    | bytes x => simp [encW] at h
    | rows x => simp [encW] at h
    | sd ep pr dt dv ins outs =>
      simp only [encW] at h
      unfold encSD at h
      generalize hA : encRec _ _ = A at h
      generalize hB : encRows _ _ = B at h
      cases A with
      | none => cases h
      | some a =>
        cases B with
        | none => cases h
        | some c =>
          have hb := Option.some.inj h
          subst hb
          have hcl := u16s_back (ins ++ outs)
          have hlen : (u16s (ins ++ outs)).length = ins.length + outs.length := by simp [u16s]
          have hdr := decRowsN_encRows [ST.uint 2] (u16s (ins ++ outs)) c r hB
          rw [hlen] at hdr
          have hdh := decRec_encRec _ _ a (c ++ r) hA
          have hn : ∀ n : Nat, natOf (SV.num (Int.ofNat n)) = n := by intro n; simp [natOf]
          simp only [decW, List.append_assoc, hdh, hn]
          rw [hdr]
          simp only [hcl]
          simp

/-- greedy types consume everything by design and invert exactly -/
theorem decW_encW_greedy (ts : List ST) (hpos : 0 < recSize ts) (rs : List (List SV)) (b : Bytes)
    (h : encW (.greedy ts) (.rows rs) = some b) : decW (.greedy ts) b = .ok (.rows rs, []) := by
  simp only [encW] at h
  simp [decW, decRowsAll_encRows ts hpos rs b h b.length (Nat.le_refl _)]

theorem decRowsN_error_kind (ts : List ST) (n : Nat) (d : Bytes) (e : Err) (h : decRowsN ts n d = .error e) :
    e = .valueError := by
  induction n generalizing d with
  | zero => simp [decRowsN] at h
  | succ n ih =>
    simp only [decRowsN] at h
    cases h1 : decRec ts d with
    | error e2 => simp [h1] at h; subst h; exact decRec_error_kind ts d e2 h1
    | ok p =>
      obtain ⟨x, rest⟩ := p
      simp only [h1] at h
      cases h2 : decRowsN ts n rest with
      | error e2 => simp [h2] at h; subst h; exact ih rest h2
      | ok q => simp [h2] at h

theorem decRowsAll_error_kind (ts : List ST) (fuel : Nat) (d : Bytes) (e : Err) (h : decRowsAll ts fuel d = .error e) :
    e = .valueError := by
  induction fuel generalizing d with
  | zero => simp [decRowsAll] at h
  | succ n ih =>
    simp only [decRowsAll] at h
    split at h
    · cases h
    · cases h1 : decRec ts d with
      | error e2 => simp [h1] at h; subst h; exact decRec_error_kind ts d e2 h1
      | ok p =>
        obtain ⟨x, rest⟩ := p
        simp only [h1] at h
        cases h2 : decRowsAll ts n rest with
        | error e2 => simp [h2] at h; subst h; exact ih rest h2
        | ok q => simp [h2] at h

theorem decW_error_kind (w : WT) (data : Bytes) (e : Err) (h : decW w data = .error e) : e = .valueError := by
  cases w with
  | sc t =>
    simp only [decW] at h
    cases hd : decS t data with
    | error e' => simp [hd] at h; subst h; exact decS_error_kind t data e' hd
    | ok p => simp [hd] at h
  | lvBytes hd =>
    simp only [decW] at h
    split at h
    · injection h with h; exact h.symm
    · split at h
      · injection h with h; exact h.symm
      · cases h
  | lvList hd ts =>
    simp only [decW] at h
    split at h
    · injection h with h; exact h.symm
    · cases hr : decRowsN ts (fromLE (data.take hd)) (data.drop hd) with
      | error e' => simp [hr] at h; subst h; exact decRowsN_error_kind _ _ _ _ hr
      | ok p => simp [hr] at h
  | greedy ts =>
    simp only [decW] at h
    cases hr : decRowsAll ts data.length data with
    | ok p => simp [hr] at h
    | error e' => simp [hr] at h; subst h; exact decRowsAll_error_kind _ _ _ _ hr
  | simpleDesc =>
    simp only [decW] at h
    cases h1 : decRec [ST.uint 1, .uint 2, .uint 2, .uint 1, .uint 1, .uint 1] data with
    | error e' => simp [h1] at h; subst h; exact decRec_error_kind _ data e' h1
    | ok p =>
      obtain ⟨hdv, rest⟩ := p
      simp only [h1] at h
      split at h
      · rename_i ep pr dt dv ic oc
        cases h2 : decRowsN [ST.uint 2] (natOf ic + natOf oc) rest with
        | ok q => simp [h2] at h
        | error e' => simp [h2] at h; subst h; exact decRowsN_error_kind _ _ _ _ h2
      · injection h with h; exact h.symm

end Zboss.Wire

namespace Zboss.Wire

theorem take_append_ge {α} (a c : List α) (k : Nat) (h : a.length ≤ k) : (a ++ c).take k = a ++ c.take (k - a.length) := by
  rw [List.take_append]
  rw [List.take_of_length_le h]

/-- **strict on short input**: every strict prefix of an encoding is rejected with a value error
    (every non-greedy parameter type) -/
theorem decW_truncated (w : WT) (v : Val) (b : Bytes) (hg : w.isGreedy = false) (h : encW w v = some b)
    (k : Nat) (hk : k < b.length) : decW w (b.take k) = .error .valueError := by
  have hlen : (b.take k).length = k := by simp; omega
  cases w with
  | sc t =>
    cases v with
    | sc x =>
      simp only [encW] at h
      have := encS_length t x b h
      simp only [decW, decS_short t (b.take k) (by omega)]
    | bytes x => simp [encW] at h
    | rows x => simp [encW] at h
    | sd _ _ _ _ _ _ => simp [encW] at h
  | lvBytes hd =>
    cases v with
    | bytes x =>
      simp only [encW] at h
      split at h
      next hc =>
        have hb := (Option.some.inj h).symm
        subst hb
        by_cases hkh : k < hd
        · simp [decW, hlen, hkh]
        · have hl := toLE_length hd x.length
          have hlt : x.length < 256 ^ hd := by omega
          rw [take_append_ge _ _ _ (by omega)]
          have h1 : ¬ (toLE hd x.length ++ x.take (k - (toLE hd x.length).length)).length < hd := by simp
          have ht : (toLE hd x.length ++ x.take (k - (toLE hd x.length).length)).take hd = toLE hd x.length :=
            take_append_len _ _ _ hl
          have h2 : (toLE hd x.length ++ x.take (k - (toLE hd x.length).length)).length < hd + x.length := by
            simp at hk ⊢; omega
          simp only [decW, if_neg h1, ht, fromLE_toLE' _ _ hlt, if_pos h2]
      next => cases h
    | sc x => simp [encW] at h
    | rows x => simp [encW] at h
    | sd _ _ _ _ _ _ => simp [encW] at h
  | lvList hd ts =>
    cases v with
    | rows rs =>
      simp only [encW] at h
      split at h
      next hc =>
        cases he : encRows ts rs with
        | none => simp [he] at h
        | some c =>
          simp [he] at h; subst h
          by_cases hkh : k < hd
          · simp [decW, hlen, hkh]
          · have hl := toLE_length hd rs.length
            have hcl := encRows_length ts rs c he
            rw [take_append_ge _ _ _ (by omega)]
            have h1 : ¬ (toLE hd rs.length ++ c.take (k - (toLE hd rs.length).length)).length < hd := by simp
            have ht : (toLE hd rs.length ++ c.take (k - (toLE hd rs.length).length)).take hd = toLE hd rs.length :=
              take_append_len _ _ _ hl
            have hdp : (toLE hd rs.length ++ c.take (k - (toLE hd rs.length).length)).drop hd =
                c.take (k - (toLE hd rs.length).length) := drop_append_len _ _ _ hl
            have hshort : (c.take (k - (toLE hd rs.length).length)).length < rs.length * recSize ts := by
              simp at hk ⊢; omega
            simp only [decW, if_neg h1, ht, fromLE_toLE' _ _ hc, hdp, decRowsN_short ts _ _ hshort]
      next => cases h
    | sc x => simp [encW] at h
    | bytes x => simp [encW] at h
    | sd _ _ _ _ _ _ => simp [encW] at h
  | greedy ts => simp [WT.isGreedy] at hg
  | simpleDesc =>
    cases v with
    | sc x => simp [encW] at h
    | bytes x => simp [encW] at h
    | rows x => simp [encW] at h
    | sd ep pr dt dv ins outs =>
      simp only [encW] at h
      unfold encSD at h
      generalize hA : encRec _ _ = A at h
      generalize hB : encRows _ _ = B at h
      cases A with
      | none => cases h
      | some a =>
        cases B with
        | none => cases h
        | some c =>
          have hb := Option.some.inj h
          subst hb
          have hal := encRec_length _ _ a hA
          have hcl := encRows_length _ _ c hB
          have h8 : recSize [ST.uint 1, .uint 2, .uint 2, .uint 1, .uint 1, .uint 1] = 8 := by decide
          by_cases hka : k < 8
          · simp only [decW, decRec_short _ ((a ++ c).take k) (by rw [h8]; simp; omega)]
          · rw [take_append_ge _ _ _ (by omega)]
            have hn : ∀ n : Nat, natOf (SV.num (Int.ofNat n)) = n := by intro n; simp [natOf]
            have hdh := decRec_encRec _ _ a (c.take (k - a.length)) hA
            have hul : (u16s (ins ++ outs)).length = ins.length + outs.length := by simp [u16s]
            have h2 : recSize [ST.uint 2] = 2 := by decide
            have hshort : (c.take (k - a.length)).length < (ins.length + outs.length) * recSize [ST.uint 2] := by
              rw [hul] at hcl
              simp at hk ⊢; omega
            simp only [decW, hdh, hn, decRowsN_short _ _ _ hshort]

end Zboss.Wire

namespace Zboss.Wire
theorem encS_uint (k n : Nat) (h : n < 256 ^ k) : encS (.uint k) (.num (Int.ofNat n)) = some (toLE k n) := by
  have hc : (0 : Int) ≤ Int.ofNat n ∧ Int.ofNat n < pow256 k := by
    refine ⟨Int.natCast_nonneg n, ?_⟩
    unfold pow256
    exact Int.ofNat_lt.mpr h
  simp only [encS, if_pos hc]
  rfl
end Zboss.Wire
