import ZbossModel.Proofs.Rx
import ZbossModel.Proofs.Located
/-! The declared extent of a checksum-valid header for the concrete receiver, and what acceptance of a frame
    implies about the bytes (helper lemmas for the declarative part of C01). -/
namespace Zboss.Rx
open Gen

/-- the header checks of `_extract_frame`: marker, frame type, header CRC8, length ≥ 5 -/
def headerOk (b : Bytes) : Bool :=
  !(decide (b.length < 7)) && decide (b.take 2 = toLE 2 Gen.signature) && decide ((b.getD 4 0).toNat = Gen.typeHL) &&
  decide ((Crc.crc8B (slice b 2 6)).toNat = (b.getD 6 0).toNat) && decide (5 ≤ fromLE (slice b 2 4))

/-- bytes from the marker to the end of the declared length: length field + 2 -/
def extent (b : Bytes) : Option Nat := if headerOk b then some (fromLE (slice b 2 4) + 2) else none

theorem headerOk_iff (b : Bytes) : headerOk b = true ↔
    (¬ b.length < 7 ∧ b.take 2 = toLE 2 Gen.signature ∧ (b.getD 4 0).toNat = Gen.typeHL ∧
      (Crc.crc8B (slice b 2 6)).toNat = (b.getD 6 0).toNat ∧ 5 ≤ fromLE (slice b 2 4)) := by
  simp only [headerOk, Bool.and_eq_true, Bool.not_eq_true', decide_eq_false_iff_not, decide_eq_true_eq]
  constructor
  · rintro ⟨⟨⟨⟨a, b⟩, c⟩, d⟩, e⟩; exact ⟨a, b, c, d, e⟩
  · rintro ⟨a, b, c, d, e⟩; exact ⟨⟨⟨⟨a, b⟩, c⟩, d⟩, e⟩

/-- after the header checks `_extract_frame` is "too short" exactly while the declared extent is incomplete -/
theorem tryFrame_after_header (b : Bytes) (h : headerOk b = true) :
    tryFrame b = (if b.length < fromLE (slice b 2 4) + 2 then .short else
      match Frame.deserialize b with
      | .error .keyError => .raised
      | .error _ => .invalid
      | .ok (f, rest) =>
        let flags := LL.flags f.ll
        if Frame.hasFlag flags (Gen.flagisACK ||| Gen.flagFirstFrag) then .ok f (b.length - rest.length)
        else
          match f.hl with
          | none => .ok f (b.length - rest.length)
          | some p =>
            if p.data.length < 2 then .invalid
            else if fromLE (p.data.take 2) ≠ Crc.crc16B (p.data.drop 2) then .invalid
            else .ok ⟨f.ll, some ⟨none, p.data.drop 2⟩⟩ (b.length - rest.length)) := by
  obtain ⟨h7, c1, c2, c3, c4⟩ := (headerOk_iff b).mp h
  have c1' : ¬ (b.take 2 ≠ toLE 2 Gen.signature) := by simpa using c1
  have c2' : ¬ ((b.getD 4 0).toNat ≠ Gen.typeHL) := by simpa using c2
  have c3' : ¬ ((Crc.crc8B (slice b 2 6)).toNat ≠ (b.getD 6 0).toNat) := by simpa using c3
  have c4' : ¬ fromLE (slice b 2 4) < 5 := by omega
  rw [tryFrame, if_neg h7, if_neg c1', if_neg c2', if_neg c3']
  simp only [if_neg c4']
  rfl

theorem tryFrame_bad_header (b : Bytes) (h : headerOk b = false) : (tryFrame b = .short ∧ b.length < 7) ∨ tryFrame b = .invalid := by
  by_cases h7 : b.length < 7
  · exact Or.inl ⟨tryFrame_short_of_lt b h7, h7⟩
  right
  rw [tryFrame, if_neg h7]
  by_cases c1 : b.take 2 ≠ toLE 2 Gen.signature
  · rw [if_pos c1]
  rw [if_neg c1]
  by_cases c2 : (b.getD 4 0).toNat ≠ Gen.typeHL
  · rw [if_pos c2]
  rw [if_neg c2]
  by_cases c3 : (Crc.crc8B (slice b 2 6)).toNat ≠ (b.getD 6 0).toNat
  · rw [if_pos c3]
  rw [if_neg c3]
  by_cases c4 : fromLE (slice b 2 4) < 5
  · simp only [if_pos c4]
  · exfalso
    have : headerOk b = true := (headerOk_iff b).mpr ⟨h7, by simpa using c1, by simpa using c2, by simpa using c3, by omega⟩
    rw [this] at h; cases h

theorem short_iff_incomplete (b : Bytes) (h : headerOk b = true) :
    tryFrame b = .short ↔ b.length < fromLE (slice b 2 4) + 2 := by
  rw [tryFrame_after_header b h]
  by_cases c5 : b.length < fromLE (slice b 2 4) + 2
  · simp [c5]
  · simp only [c5, if_false, iff_false]
    intro hs
    cases hd : Frame.deserialize b with
    | error e => rw [hd] at hs; cases e <;> simp at hs
    | ok fr =>
      obtain ⟨f0, rest⟩ := fr
      rw [hd] at hs
      simp only [] at hs
      split at hs
      · cases hs
      · cases hhl : f0.hl with
        | none => rw [hhl] at hs; cases hs
        | some p =>
          rw [hhl] at hs
          simp only [] at hs
          split at hs
          · cases hs
          · split at hs <;> cases hs

theorem extent_short (b : Bytes) (hs : tryFrame b = .short) (h7 : 7 ≤ b.length) :
    ∃ e, extent b = some e ∧ b.length < e := by
  cases hh : headerOk b with
  | false =>
    rcases tryFrame_bad_header b hh with ⟨_, h⟩ | h
    · omega
    · rw [h] at hs; cases hs
  | true => exact ⟨fromLE (slice b 2 4) + 2, by simp [extent, hh], (short_iff_incomplete b hh).mp hs⟩

theorem extent_ok (b : Bytes) (f : Frame) (n : Nat) (h : tryFrame b = .ok f n) :
    ∃ e, extent b = some e ∧ n ≤ e ∧ e ≤ b.length := by
  cases hh : headerOk b with
  | false =>
    rcases tryFrame_bad_header b hh with ⟨h1, _⟩ | h1 <;> (rw [h1] at h; cases h)
  | true =>
    refine ⟨fromLE (slice b 2 4) + 2, by simp [extent, hh], ?_⟩
    have hnotshort : ¬ b.length < fromLE (slice b 2 4) + 2 := by
      intro hlt
      have := (short_iff_incomplete b hh).mpr hlt
      rw [this] at h; cases h
    obtain ⟨h7, c1, c2, c3, c4⟩ := (headerOk_iff b).mp hh
    have h7' : 7 ≤ b.length := by omega
    have hsz := size_ofBytes b h7'
    rw [tryFrame_after_header b hh, if_neg hnotshort] at h
    cases hd : Frame.deserialize b with
    | error e => rw [hd] at h; cases e <;> simp at h
    | ok fr =>
      obtain ⟨f0, r⟩ := fr
      have hr := (deserialize_rest b f0 r h7' (by omega) (by omega) hd).1
      rw [hd] at h
      simp only [] at h
      have hn : b.length - r.length ≤ fromLE (slice b 2 4) + 2 ∧ fromLE (slice b 2 4) + 2 ≤ b.length := by
        rcases hr with hr | hr <;> omega
      split at h
      · injection h with _ h2; omega
      · cases hhl : f0.hl with
        | none => rw [hhl] at h; injection h with _ h2; omega
        | some p =>
          rw [hhl] at h
          simp only [] at h
          split at h
          · cases h
          · split at h
            · cases h
            · injection h with _ h2; omega

theorem headerOk_append (a c : Bytes) (h7 : 7 ≤ a.length) : headerOk (a ++ c) = headerOk a := by
  have h1 : ¬ (a ++ c).length < 7 := by simp; omega
  have h2 : ¬ a.length < 7 := by omega
  simp only [headerOk, h1, h2, take_append_le a c 2 (by omega), getD_append_lt a c 4 (by omega),
    getD_append_lt a c 6 (by omega), slice_append_le a c 2 6 (by omega), slice_append_le a c 2 4 (by omega)]

theorem extent_append (a c : Bytes) (h7 : 7 ≤ a.length) : extent (a ++ c) = extent a := by
  simp only [extent, headerOk_append a c h7, slice_append_le a c 2 4 (by omega)]

/-- the receiver's extent notion fits the generic completeness theorem -/
def zbossExtent : Extent zbossScanner where
  ext := extent
  short_ext := fun b hs h7 => extent_short b hs h7
  ok_ext := fun b f n h => by obtain ⟨e, he, hn, _⟩ := extent_ok b f n h; exact ⟨e, he, hn⟩
  prefix_ext := extent_append

end Zboss.Rx
