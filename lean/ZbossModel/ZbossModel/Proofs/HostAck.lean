import ZbossModel.Proofs.HostSched
/-! While a request awaits an acknowledgement no data frame is written - whatever the scheduler does - and an
    event that does not end that wait leaves it waiting. -/
namespace Zboss.Host

def writes (l : List Out) : List Out := l.filter isWrite

theorem writes_append (a b : List Out) : writes (a ++ b) = writes a ++ writes b := List.filter_append ..

/-- the transmit lock cannot be taken while another request holds it -/
theorem acquire_T_fails (st : St) (i : Nat) (r' r : Req) (hinv : Inv2 st) (hg : getReq st i = some r')
    (hp : r'.phase = .waitT) (hr : r ∈ st.reqs) (ha : ackPhase r.phase = true) : (acquire st .T i).2 = false := by
  obtain ⟨hr'm, hr'id⟩ := getReq_mem st i r' hg
  have hT : holds r .T = true := (hinv.2 r hr).2.2.1 ha
  have hhead : (queue st .T).head? = some r.id := (hinv.2 r hr).1 .T hT
  have hne : r.id ≠ i := by
    intro he
    have : r = r' := unique_of_id st hinv.1 r r' hr hr'm (by rw [he, hr'id])
    rw [this, hp] at ha; cases ha
  unfold acquire
  simp only []
  have hq := head_ite_append (queue st .T) ((queue st .T).contains i) i r.id hhead
  rw [hq]
  have : ¬ (some r.id = some i) := by simpa using hne
  rw [if_neg this]

theorem out_acquire (st : St) (l : Lock) (i : Nat) : (acquire st l i).1.out = st.out :=
  congrArg View.out (view_acquire st l i)

/-- **no task micro-step writes a data frame while some request is in its acknowledgement wait** -/
theorem no_write_micro (st : St) (i : Nat) (hinv : Inv2 st) (r : Req) (hr : r ∈ st.reqs) (ha : ackPhase r.phase = true) :
    writes (runReq 1 st i).out = writes st.out := by
  cases hg : getReq st i with
  | none =>
    have : runReq 1 st i = st := by rw [runReq]; simp only [hg]
    rw [this]
  | some r' =>
    by_cases hp : r'.phase = .waitT
    · have hf := acquire_T_fails st i r' r hinv hg hp hr ha
      have ho := out_acquire st .T i
      have : runReq 1 st i = (acquire st .T i).1 := by
        rw [runReq]
        simp only [hg, hp]
        generalize acquire st .T i = a at hf
        obtain ⟨st', ok⟩ := a
        simp only [] at hf
        simp only [hf, Bool.not_false, if_true]
      rw [this, ho]
    · have hm := micro_view st i r' hg
      generalize hv : view (runReq 1 st i) = v' at hm
      have ho : (runReq 1 st i).out = v'.out := congrArg View.out hv
      rw [ho]
      cases hm with
      | stay => rfl
      | move g _ => rfl
      | write s hp' _ => exact absurd hp' hp
      | fin o _ =>
        show writes ((view st).out ++ [.done i o]) = _
        rw [writes_append]; simp [writes, isWrite, view]

/-- request `j` is waiting for an acknowledgement -/
def AckW (j : Nat) (v : View) : Prop := ∃ c ∈ v.cores, c.id = j ∧ c.phase = .waitAck

theorem ackw_upd (j i : Nat) (v : View) (g : Core → Core) (h : AckW j v) (hne : i ≠ j) : AckW j (v.upd i g) := by
  obtain ⟨c, hc, hj, hp⟩ := h
  refine ⟨c, ?_, hj, hp⟩
  have := mem_upd_of (v := v) (i := i) (g := g) hc
  rwa [if_neg (by rw [hj]; simpa using fun h => hne h.symm)] at this

/-- a task micro-step of any request leaves the waiting request waiting -/
theorem ackw_micro (st : St) (i j : Nat) (hinv : Inv2 st) (h : AckW j (view st)) : AckW j (view (runReq 1 st i)) := by
  cases hg : getReq st i with
  | none =>
    have : runReq 1 st i = st := by rw [runReq]; simp only [hg]
    rw [this]; exact h
  | some r' =>
    obtain ⟨hr'm, hr'id⟩ := getReq_mem st i r' hg
    have hu := uniq_of_inv2 st hinv
    have h0 : core r' ∈ (view st).cores := List.mem_map.mpr ⟨r', hr'm, rfl⟩
    -- if `i = j` the request is in `waitAck`
    have hij : i = j → (core r').phase = .waitAck := by
      intro he
      obtain ⟨c, hc, hj, hp⟩ := h
      have : c = core r' := hu.id c hc _ h0 (by rw [hj, ← he]; exact hr'id.symm)
      rw [← this]; exact hp
    have hm := micro_view st i r' hg
    generalize view (runReq 1 st i) = v' at hm
    cases hm with
    | stay => exact h
    | move g ha =>
      by_cases he : i = j
      · have hp := hij he
        rcases ha with ⟨h1, _⟩ | ⟨h1, _⟩ | ⟨h1, _⟩ | ⟨h1, _⟩ | ⟨h1, _⟩ | ⟨h1, _⟩ <;> (rw [hp] at h1; cases h1)
      · exact ackw_upd j i _ g h he
    | write s hp _ =>
      by_cases he : i = j
      · rw [hij he] at hp; cases hp
      · exact ackw_upd j i _ _ (by obtain ⟨c, hc, r⟩ := h; exact ⟨c, hc, r⟩) he
    | fin o hp =>
      by_cases he : i = j
      · rw [hij he] at hp; rcases hp with hp | hp <;> cases hp
      · obtain ⟨c, hc, r⟩ := ackw_upd j i _ toDone h he
        exact ⟨c, hc, r⟩

/-- what `settle` keeps while request `j` is waiting: lock discipline, the wait, and silence on the wire -/
def Quiet (j : Nat) (st : St) : Prop := Inv2 st ∧ AckW j (view st) ∧ writes st.out = []

theorem quiet_settle (j : Nat) (fuel : Nat) (st : St) (h : Quiet j st) : Quiet j (settle fuel st) := by
  apply settle_ind (Quiet j) _ _ fuel st h
  · intro s rd hs; exact ⟨inv2_congr s _ rfl rfl rfl rfl hs.1, hs.2.1, hs.2.2⟩
  · intro s i hs
    obtain ⟨c, hc, hj, hp⟩ := hs.2.1
    obtain ⟨r, hr, rfl⟩ := List.mem_map.mp hc
    refine ⟨inv2_runReq 1 s i hs.1, ackw_micro s i j hs.1 hs.2.1, ?_⟩
    rw [no_write_micro s i hs.1 r hr (by show ackPhase (core r).phase = true; rw [hp]; rfl)]
    exact hs.2.2

theorem ackw_map_reqs (j : Nat) (st st' : St) (g : Req → Req) (hr : st'.reqs = st.reqs.map g)
    (hg : ∀ r ∈ st.reqs, r.id = j → r.phase = .waitAck → (g r).id = j ∧ (g r).phase = .waitAck)
    (h : AckW j (view st)) : AckW j (view st') := by
  obtain ⟨c, hc, hj, hp⟩ := h
  obtain ⟨r, hrm, rfl⟩ := List.mem_map.mp hc
  obtain ⟨h1, h2⟩ := hg r hrm hj hp
  exact ⟨core (g r), by simp only [view, hr, List.map_map, List.mem_map]; exact ⟨r, hrm, rfl⟩, h1, h2⟩

theorem ackw_same (j : Nat) (st st' : St) (hr : st'.reqs = st.reqs) (h : AckW j (view st)) : AckW j (view st') :=
  ackw_map_reqs j st st' id (by simpa using hr) (fun r _ h1 h2 => ⟨h1, h2⟩) h

theorem ackw_unwind (j i : Nat) (st : St) (o : Outcome) (hne : i ≠ j) (h : AckW j (view st)) :
    AckW j (view (unwind st i o)) := by
  rw [view_unwind]
  obtain ⟨c, hc, r⟩ := ackw_upd j i _ toDone h hne
  exact ⟨c, hc, r⟩

theorem writes_unwind (st : St) (i : Nat) (o : Outcome) : writes (unwind st i o).out = writes st.out := by
  have : (unwind st i o).out = st.out ++ [.done i o] := congrArg View.out (view_unwind st i o)
  rw [this, writes_append]; simp [writes, isWrite]

theorem quiet_foldl_unwind (j : Nat) (ids : List Nat) (st : St) (o : Outcome) (hne : ∀ i ∈ ids, i ≠ j)
    (h : Quiet j st) : Quiet j (ids.foldl (fun s i => unwind s i o) st) := by
  induction ids generalizing st with
  | nil => exact h
  | cons i is ih =>
    apply ih _ (fun x hx => hne x (List.mem_cons_of_mem _ hx))
    exact ⟨inv2_unwind st i o h.1, ackw_unwind j i st o (hne i (List.mem_cons_self ..)) h.2.1, by
      rw [writes_unwind]; exact h.2.2⟩

/-- the event does not end the acknowledgement wait of request `j`: it is not the matching ACK, not the
    cancellation of `j`, and if it is a timer expiry then `j`'s ACK deadline is later than the expiring one -/
def KeepsWaiting (st : St) (j : Nat) (e : Ev) : Prop :=
  e ≠ .rxAck st.pack ∧ e ≠ .cancel j ∧
  (e = .tick → ∀ d, nextDeadline { st with out := [] } = some d → ∀ r ∈ st.reqs, r.id = j → max st.now d < r.deadline)

theorem quiet_pre (hist : List Out) (st : St) (e : Ev) (j : Nat) (hb : Both hist st) (h : AckW j (view st))
    (hk : KeepsWaiting st j e) : Quiet j (pre st e).1 := by
  refine ⟨(both_pre hist st e hb).1, ?_⟩
  have h0 : AckW j (view ({ st with out := [] } : St)) := ackw_same j st _ rfl h
  have hinv := hb.1
  cases e with
  | start id key blocking nfrags timeout =>
    simp only [pre]
    split
    · exact ⟨h0, rfl⟩
    split
    · exact ⟨ackw_same j st _ rfl h, rfl⟩
    · refine ⟨?_, rfl⟩
      obtain ⟨c, hc, r⟩ := h
      exact ⟨c, by simp only [view, List.map_append, List.mem_append]; left; exact hc, r⟩
  | rxAck k =>
    simp only [pre]
    split
    · rename_i hkp
      exact absurd (by rw [hkp]) hk.1
    · exact ⟨h0, rfl⟩
  | rxRsp key =>
    simp only [pre]
    generalize hst1 : (if ({ st with out := [] } : St).transport = true then emit { st with out := [] } Out.wack else { st with out := [] }) = st1
    have h1 : AckW j (view st1) ∧ writes st1.out = [] := by
      rw [← hst1]; split
      · exact ⟨ackw_same j st _ rfl h, rfl⟩
      · exact ⟨h0, rfl⟩
    cases hfind : st1.listeners.find? (fun l => l.2 == key) with
    | none => exact h1
    | some p =>
      obtain ⟨i, k⟩ := p
      simp only []
      have h2 : AckW j (view (updReq { st1 with listeners := st1.listeners.filter (·.1 != i) } i fun r => { r with got := .rsp })) :=
        ackw_map_reqs j st1 _ (fun r => if (r.id == i) = true then { r with got := Got.rsp } else r) rfl
          (fun r _ h1 h2 => by split <;> exact ⟨h1, h2⟩) h1.1
      split
      · exact ⟨ackw_same j _ _ rfl h2, h1.2⟩
      · exact ⟨h2, h1.2⟩
  | tick =>
    simp only [pre]
    cases hnd : nextDeadline ({ st with out := [] } : St) with
    | none => exact ⟨h0, rfl⟩
    | some d =>
      simp only []
      have hlate := hk.2.2 rfl d hnd
      refine (quiet_foldl_unwind j _ _ .timeoutError ?_ ⟨?_, ?_, rfl⟩).2
      rotate_left
      · exact inv2_map st _ (fun r => if (r.phase == Phase.waitAck && decide (r.deadline ≤ max st.now d)) = true
            then { r with phase := Phase.acked } else r) hinv rfl rfl rfl rfl
          (fun r => by split <;> rfl) (fun r l => by split <;> (cases l <;> rfl))
          (phaseHold_toAcked _ (fun r hc => by simp at hc; exact hc.1))
      · apply ackw_map_reqs j st _ _ rfl _ h
        intro r hr hj hp
        have := hlate r hr hj
        rw [if_neg (by simp; intro _; omega)]
        exact ⟨hj, hp⟩
      · -- the requests whose response wait expired are in phase `waitRsp`; request `j` is in `waitAck`
        intro i hi he
        simp only [List.mem_map, List.mem_filter] at hi
        obtain ⟨r2, ⟨hr2, hc2⟩, hid2⟩ := hi
        obtain ⟨r2', hr2', rfl⟩ := hr2
        obtain ⟨c, hc, hcj, hcp⟩ := h
        obtain ⟨rj, hrj, rfl⟩ := List.mem_map.mp hc
        have hidg : ∀ r : Req, (if (r.phase == Phase.waitAck && decide (r.deadline ≤ max st.now d)) = true
            then { r with phase := Phase.acked } else r).id = r.id := by intro r; split <;> rfl
        have : r2' = rj := unique_of_id st hinv.1 r2' rj hr2' hrj (by
          have h1 := hidg r2'
          rw [← h1, hid2, he]; exact hcj.symm)
        subst this
        have hpj : r2'.phase = Phase.waitAck := hcp
        have := hlate r2' hr2' hcj
        rw [if_neg (by simp; intro _; omega)] at hc2
        simp [hpj] at hc2
  | cancel id =>
    simp only [pre]
    cases getReq ({ st with out := [] } : St) id with
    | none => exact ⟨h0, rfl⟩
    | some r =>
      simp only []
      split
      · exact ⟨h0, rfl⟩
      · have hne : id ≠ j := by intro he; exact hk.2.1 (by rw [he])
        exact ⟨ackw_unwind j id _ _ hne h0, by rw [writes_unwind]; rfl⟩
  | close =>
    simp only [pre]
    split
    · split
      · exact ⟨ackw_same j st _ rfl h, rfl⟩
      · exact ⟨h0, rfl⟩
    · have hm : ∀ (s' : St), s'.reqs = st.reqs.map (fun r => if (st.listeners.map (·.1)).contains r.id = true then { r with got := Got.cancelled } else r) →
          AckW j (view s') := fun s' e1 =>
        ackw_map_reqs j st s' _ e1 (fun r _ h1 h2 => by split <;> exact ⟨h1, h2⟩) h
      split
      · exact ⟨hm _ rfl, rfl⟩
      · exact ⟨hm _ rfl, rfl⟩
  | lost =>
    simp only [pre]
    split
    · exact ⟨ackw_same j st _ rfl h, rfl⟩
    · exact ⟨ackw_same j st _ rfl h, rfl⟩
  | setReset b => exact ⟨ackw_same j st _ rfl h, rfl⟩
  | connect =>
    simp only [pre]
    split
    · exact ⟨h0, rfl⟩
    · exact ⟨ackw_same j st _ rfl h, rfl⟩

/-- **no data frame is written by an event that does not end the pending acknowledgement wait** -/
theorem no_write_while_waiting (hist : List Out) (st : St) (e : Ev) (j : Nat) (hb : Both hist st)
    (h : AckW j (view st)) (hk : KeepsWaiting st j e) :
    writes (step st e).out = [] ∧ AckW j (view (step st e)) := by
  have hq := quiet_pre hist st e j hb h hk
  rw [step_eq_pre]
  cases (pre st e).2
  · exact ⟨hq.2.2, hq.2.1⟩
  · have := quiet_settle j (settleFuel (pre st e).1) _ hq
    exact ⟨this.2.2, this.2.1⟩

end Zboss.Host
