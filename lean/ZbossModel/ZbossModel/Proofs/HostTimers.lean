import ZbossModel.Proofs.HostBound
/-! Timers: a finished request stays finished; a response wait ends when its timer fires. -/
namespace Zboss.Host

/-- request `i` has ended -/
def DoneV (i : Nat) (v : View) : Prop := ∃ c ∈ v.cores, c.id = i ∧ c.phase = .done

theorem donev_upd_other (i j : Nat) (v : View) (g : Core → Core) (h : DoneV i v) (hne : j ≠ i) : DoneV i (v.upd j g) := by
  obtain ⟨c, hc, hi, hp⟩ := h
  refine ⟨c, ?_, hi, hp⟩
  have := mem_upd_of (v := v) (i := j) (g := g) hc
  rwa [if_neg (by rw [hi]; simpa using fun h => hne h.symm)] at this

/-- a finished request stays finished through every task micro-step -/
theorem donev_micro (st : St) (i j : Nat) (hinv : Inv2 st) (h : DoneV i (view st)) : DoneV i (view (runReq 1 st j)) := by
  cases hg : getReq st j with
  | none =>
    have : runReq 1 st j = st := by rw [runReq]; simp only [hg]
    rw [this]; exact h
  | some r =>
    obtain ⟨hrm, hrid⟩ := getReq_mem st j r hg
    have hu := uniq_of_inv2 st hinv
    have h0 : core r ∈ (view st).cores := List.mem_map.mpr ⟨r, hrm, rfl⟩
    have hji : j = i → (core r).phase = .done := by
      intro he
      obtain ⟨c, hc, hi, hp⟩ := h
      have : c = core r := hu.id c hc _ h0 (by rw [hi, ← he]; exact hrid.symm)
      rw [← this]; exact hp
    have hm := micro_view st j r hg
    generalize view (runReq 1 st j) = v' at hm
    cases hm with
    | stay => exact h
    | move g ha =>
      by_cases he : j = i
      · have hp := hji he
        rcases ha with ⟨h1, _⟩ | ⟨h1, _⟩ | ⟨h1, _⟩ | ⟨h1, _⟩ | ⟨h1, _⟩ | ⟨h1, _⟩ <;> (rw [hp] at h1; cases h1)
      · exact donev_upd_other i j _ g h he
    | write s hp _ =>
      by_cases he : j = i
      · rw [hji he] at hp; cases hp
      · obtain ⟨c, hc, r1⟩ := donev_upd_other i j _ (fun c => { c with phase := Phase.waitAck }) h he
        exact ⟨c, hc, r1⟩
    | fin o hp =>
      by_cases he : j = i
      · rw [hji he] at hp; rcases hp with hp | hp <;> cases hp
      · obtain ⟨c, hc, r1⟩ := donev_upd_other i j _ toDone h he
        exact ⟨c, hc, r1⟩

theorem donev_settle (fuel : Nat) (st : St) (i : Nat) (hinv : Inv2 st) (h : DoneV i (view st)) :
    DoneV i (view (settle fuel st)) := by
  have := settle_ind (fun s => Inv2 s ∧ DoneV i (view s))
    (fun s rd hs => ⟨inv2_congr s _ rfl rfl rfl rfl hs.1, hs.2⟩)
    (fun s j hs => ⟨inv2_runReq 1 s j hs.1, donev_micro s i j hs.1 hs.2⟩) fuel st ⟨hinv, h⟩
  exact this.2

/-- `unwind` ends the request (if it exists) and keeps every finished request finished -/
theorem donev_unwind_self (st : St) (i : Nat) (o : Outcome) (r : Req) (hr : r ∈ st.reqs) (hi : r.id = i) :
    DoneV i (view (unwind st i o)) := by
  rw [view_unwind]
  suffices hmem : toDone (core r) ∈ ((((view st).upd i toDone).dropL i).emit (.done i o)).cores from
    ⟨toDone (core r), hmem, by show r.id = i; exact hi, rfl⟩
  have := mem_upd_of (v := view st) (i := i) (g := toDone) (List.mem_map.mpr ⟨r, hr, rfl⟩)
  have hci : ((core r).id == i) = true := by show (r.id == i) = true; simpa using hi
  rw [if_pos hci] at this
  exact this

theorem donev_unwind_keep (st : St) (i j : Nat) (o : Outcome) (h : DoneV i (view st)) : DoneV i (view (unwind st j o)) := by
  rw [view_unwind]
  obtain ⟨c, hc, hi, hp⟩ := h
  by_cases he : j = i
  · refine ⟨toDone c, ?_, hi, rfl⟩
    have := mem_upd_of (v := view st) (i := j) (g := toDone) hc
    rw [if_pos (by rw [hi, he]; simp)] at this
    exact this
  · obtain ⟨c', hc', r1⟩ := donev_upd_other i j _ toDone ⟨c, hc, hi, hp⟩ he
    exact ⟨c', hc', r1⟩

theorem ids_unwind (st : St) (j : Nat) (o : Outcome) : (unwind st j o).reqs.map (·.id) = st.reqs.map (·.id) := by
  unfold unwind
  have h1 : ∀ s : St, (finish s j o).reqs.map (·.id) = s.reqs.map (·.id) := by
    intro s
    have := ids_updReq s j (fun r => { r with phase := Phase.done }) (fun _ => rfl)
    simpa [finish, emit, updReq] using this
  rw [h1, ids_unwindLock, ids_unwindLock, ids_unwindLock]

theorem donev_foldl_unwind (ids : List Nat) (st : St) (i : Nat) (o : Outcome)
    (h : DoneV i (view st) ∨ (i ∈ ids ∧ ∃ r ∈ st.reqs, r.id = i)) :
    DoneV i (view (ids.foldl (fun s j => unwind s j o) st)) := by
  induction ids generalizing st with
  | nil =>
    rcases h with h | ⟨h, _⟩
    · exact h
    · cases h
  | cons j js ih =>
    simp only [List.foldl_cons]
    apply ih
    rcases h with h | ⟨hm, r, hr, hi⟩
    · exact Or.inl (donev_unwind_keep st i j o h)
    · by_cases he : j = i
      · subst he; exact Or.inl (donev_unwind_self st j o r hr hi)
      · right
        refine ⟨by rcases List.mem_cons.mp hm with h1 | h1; exact absurd h1.symm he; exact h1, ?_⟩
        -- request `i` still exists after unwinding `j`
        have hids := congrArg (fun l => i ∈ l) (ids_unwind st j o)
        simp only [List.mem_map] at hids
        have : ∃ a ∈ st.reqs, a.id = i := ⟨r, hr, hi⟩
        rw [← hids] at this
        exact this

/-- **a response wait ends when its timer fires**: if request `r` waits for its response and the clock reaches its
    deadline at the next timer event, the request has ended (with `TimeoutError`) after that event - whether the
    link is open, lost or closed, and whatever else is going on -/
theorem response_wait_ends (st : St) (hg : Good st) (r : Req) (hr : r ∈ st.reqs) (hp : r.phase = .waitRsp)
    (hgot : r.got = .nothing) (d : Nat) (hnd : nextDeadline ({ st with out := [] } : St) = some d)
    (hdue : r.deadline ≤ max st.now d) :
    ∃ r' ∈ (step st .tick).reqs, r'.id = r.id ∧ r'.phase = .done := by
  have hstep : step st .tick = settle (settleFuel (pre st .tick).1) (pre st .tick).1 := by
    rw [step_eq_pre]
    have : (pre st .tick).2 = true := by simp only [pre, hnd]
    rw [this]; rfl
  have hinvP : Inv2 (pre st .tick).1 := by
    obtain ⟨hist, hb⟩ := hg.both
    exact (both_pre hist st .tick hb).1
  have hpre : DoneV r.id (view (pre st .tick).1) := by
    simp only [pre, hnd]
    apply donev_foldl_unwind
    right
    have hcnd : ¬ ((r.phase == Phase.waitAck && decide (r.deadline ≤ max st.now d)) = true) := by simp [hp]
    refine ⟨?_, ?_⟩
    · refine List.mem_map.mpr ⟨r, List.mem_filter.mpr ⟨List.mem_map.mpr ⟨r, hr, by rw [if_neg hcnd]⟩, ?_⟩, rfl⟩
      simp [hp, hgot]; exact hdue
    · exact ⟨r, List.mem_map.mpr ⟨r, hr, by rw [if_neg hcnd]⟩, rfl⟩
  have := donev_settle (settleFuel (pre st .tick).1) _ r.id hinvP hpre
  rw [← hstep] at this
  obtain ⟨c, hc, hi, hph⟩ := this
  obtain ⟨r', hr', rfl⟩ := List.mem_map.mp hc
  exact ⟨r', hr', hi, hph⟩


end Zboss.Host
