import ZbossModel.Proofs.HostFifo
/-! A registered response listener carries the command of its request: `(i, k) ∈ listeners` implies that request `i`
    exists and awaits command `k`.  With no-residue (its request is running) and `Covered` (a running request that has
    not been answered is registered) this pins down *who gets a response*: the oldest running request for that
    command - in particular a request issued after all earlier ones for its command have ended gets the next one. -/
namespace Zboss.Host

def LKv (v : View) : Prop := ∀ l ∈ v.listeners, ∃ c ∈ v.cores, c.id = l.1 ∧ c.key = l.2

theorem lk_upd (v : View) (i : Nat) (g : Core → Core) (hg : ∀ c, (g c).id = c.id ∧ (g c).key = c.key) (h : LKv v) :
    LKv (v.upd i g) := by
  intro l hl
  obtain ⟨c, hc, h1, h2⟩ := h l hl
  refine ⟨if (c.id == i) = true then g c else c, mem_upd_of hc, ?_, ?_⟩
  · split
    · rw [(hg c).1]; exact h1
    · exact h1
  · split
    · rw [(hg c).2]; exact h2
    · exact h2

theorem lk_fin (v : View) (i : Nat) (o : Outcome) (h : LKv v) : LKv (((v.upd i toDone).dropL i).emit (.done i o)) := by
  intro l hl
  have hl' : l ∈ v.listeners := (List.mem_filter.mp hl).1
  exact lk_upd v i toDone (fun c => ⟨rfl, rfl⟩) h l hl'

theorem lk_micro (v v' : View) (i : Nat) (c0 : Core) (h : LKv v) (hs : MicroStep v i c0 v') : LKv v' := by
  cases hs with
  | stay => exact h
  | move g ha =>
    have hg : ∀ c, (g c).id = c.id ∧ (g c).key = c.key := by
      rcases ha with ⟨_, rfl⟩ | ⟨_, rfl⟩ | ⟨_, rfl⟩ | ⟨_, _, rfl⟩ | ⟨_, _, rfl⟩ | ⟨_, _, rfl⟩ <;> exact fun c => ⟨rfl, rfl⟩
    exact lk_upd v i g hg h
  | write s _ _ => exact lk_upd _ i _ (fun c => ⟨rfl, rfl⟩) h
  | fin o _ => exact lk_fin v i o h

theorem lk_runReq1 (st : St) (i : Nat) (h : LKv (view st)) : LKv (view (runReq 1 st i)) := by
  cases hg : getReq st i with
  | none =>
    have : runReq 1 st i = st := by rw [runReq]; simp only [hg]
    rw [this]; exact h
  | some r => exact lk_micro _ _ i (core r) h (micro_view st i r hg)

theorem lk_settle (fuel : Nat) (st : St) (h : LKv (view st)) : LKv (view (settle fuel st)) :=
  settle_ind (fun s => LKv (view s)) (fun s rd hs => hs) (fun s i hs => lk_runReq1 s i hs) fuel st h

theorem lk_unwind (st : St) (i : Nat) (o : Outcome) (h : LKv (view st)) : LKv (view (unwind st i o)) := by
  rw [view_unwind]; exact lk_fin _ i o h

theorem lk_foldl_unwind (ids : List Nat) (st : St) (o : Outcome) (h : LKv (view st)) :
    LKv (view (ids.foldl (fun s i => unwind s i o) st)) := by
  induction ids generalizing st with
  | nil => exact h
  | cons i is ih => exact ih _ (lk_unwind st i o h)

/-- requests changed by a map that keeps ids and commands; listeners not grown -/
theorem lk_map (st st' : St) (g : Req → Req) (hg : ∀ r, (g r).id = r.id ∧ (g r).key = r.key)
    (hr : st'.reqs = st.reqs.map g) (hl : ∀ l ∈ st'.listeners, l ∈ st.listeners) (h : LKv (view st)) : LKv (view st') := by
  intro l hl'
  obtain ⟨c, hc, h1, h2⟩ := h l (hl l hl')
  simp only [view, List.mem_map] at hc
  obtain ⟨r, hrm, rfl⟩ := hc
  refine ⟨core (g r), ?_, ?_, ?_⟩
  · simp only [view, hr, List.map_map, List.mem_map]; exact ⟨r, hrm, rfl⟩
  · show (g r).id = l.1; rw [(hg r).1]; exact h1
  · show (g r).key = l.2; rw [(hg r).2]; exact h2

theorem lk_same (st st' : St) (hr : st'.reqs = st.reqs) (hl : ∀ l ∈ st'.listeners, l ∈ st.listeners)
    (h : LKv (view st)) : LKv (view st') :=
  lk_map st st' id (fun _ => ⟨rfl, rfl⟩) (by simpa using hr) hl h

theorem lk_pre (st : St) (e : Ev) (h : LKv (view st)) : LKv (view (pre st e).1) := by
  have h0 : LKv (view ({ st with out := [] } : St)) := h
  cases e with
  | start id key blocking nfrags timeout =>
    simp only [pre]
    split
    · exact h0
    split
    · exact h
    · intro l hl
      have hl' : l ∈ st.listeners ++ [(id, key)] := hl
      rcases List.mem_append.mp hl' with hm | hm
      · obtain ⟨c, hc, h1, h2⟩ := h l hm
        exact ⟨c, by simp only [view, List.map_append, List.mem_append]; left; exact hc, h1, h2⟩
      · simp only [List.mem_singleton] at hm
        subst hm
        refine ⟨core { id, key, blocking, nfrags, timeout }, ?_, rfl, rfl⟩
        simp only [view, List.map_append, List.mem_append, List.map_cons, List.map_nil, List.mem_singleton]
        right; trivial
  | rxAck k =>
    simp only [pre]
    split
    · exact lk_map ({ st with out := [] } : St) _ _ (fun r => by split <;> exact ⟨rfl, rfl⟩) rfl (fun _ hl => hl) h0
    · exact h0
  | rxRsp key =>
    simp only [pre]
    generalize hst1 : (if ({ st with out := [] } : St).transport = true then emit ({ st with out := [] } : St) Out.wack else ({ st with out := [] } : St)) = st1
    have h1 : LKv (view st1) := by rw [← hst1]; split <;> exact h
    cases hfind : st1.listeners.find? (fun l => l.2 == key) with
    | none => exact h1
    | some p =>
      obtain ⟨i, k⟩ := p
      simp only []
      have h2 : LKv (view (updReq { st1 with listeners := st1.listeners.filter (·.1 != i) } i fun r => { r with got := .rsp })) :=
        lk_map st1 _ (fun r => if (r.id == i) = true then { r with got := Got.rsp } else r)
          (fun r => by split <;> exact ⟨rfl, rfl⟩) rfl (fun l hl => (List.mem_filter.mp hl).1) h1
      split
      · exact h2
      · exact h2
  | tick =>
    simp only [pre]
    cases nextDeadline ({ st with out := [] } : St) with
    | none => exact h0
    | some d =>
      simp only []
      apply lk_foldl_unwind
      exact lk_map ({ st with out := [] } : St) _ _ (fun r => by split <;> exact ⟨rfl, rfl⟩) rfl (fun _ hl => hl) h0
  | cancel id =>
    simp only [pre]
    cases getReq ({ st with out := [] } : St) id with
    | none => exact h0
    | some r =>
      simp only []
      split
      · exact h0
      · exact lk_unwind _ _ _ h0
  | close =>
    simp only [pre]
    split
    · split
      · exact lk_same ({ st with out := [] } : St) _ rfl (fun _ hl => hl) h0
      · exact h0
    · have hempty : ∀ (s : St), s.listeners = [] → LKv (view s) := fun s hs l hl => by
        have : l ∈ s.listeners := hl
        rw [hs] at this; cases this
      split
      · exact hempty _ rfl
      · exact hempty _ rfl
  | lost =>
    simp only [pre]
    split
    · exact lk_same ({ st with out := [] } : St) _ rfl (fun _ hl => hl) h0
    · exact lk_same ({ st with out := [] } : St) _ rfl (fun _ hl => hl) h0
  | setReset b => exact h
  | connect =>
    simp only [pre]
    split
    · exact h0
    · exact lk_same ({ st with out := [] } : St) _ rfl (fun _ hl => hl) h0

theorem lk_step (st : St) (e : Ev) (h : LKv (view st)) : LKv (view (step st e)) := by
  rw [step_eq_pre]
  cases (pre st e).2
  · exact lk_pre st e h
  · exact lk_settle _ _ (lk_pre st e h)

theorem lk_reachable (evs : List Ev) : LKv (view (runEvents {} evs).1) := by
  unfold runEvents
  rw [runEvents_fst]
  have : ∀ (evs : List Ev) (st : St), LKv (view st) → LKv (view (evs.foldl step st)) := by
    intro evs
    induction evs with
    | nil => intro st h; exact h
    | cons e es ih => intro st h; exact ih _ (lk_step st e h)
  exact this evs {} (fun l hl => by cases hl)

/-- **who gets the response**: if request `r` is running, has not been answered, and every other request for its command
    has ended, then the listener a response for that command resolves is `r`'s -/
theorem sole_waiter_gets_it (evs : List Ev) (r : Req) (hr : r ∈ (runEvents {} evs).1.reqs) (hp : r.phase ≠ .done)
    (hg : r.got = .nothing)
    (hsole : ∀ r' ∈ (runEvents {} evs).1.reqs, r'.key = r.key → r'.id ≠ r.id → r'.phase = .done) :
    (runEvents {} evs).1.listeners.find? (fun l => l.2 == r.key) = some (r.id, r.key) := by
  have hgood := good_reachable evs
  have hlk := lk_reachable evs
  have hnr := nr_reachable evs
  generalize (runEvents {} evs).1 = st at *
  have hmem : (r.id, r.key) ∈ st.listeners :=
    hgood.cov (core r) (List.mem_map.mpr ⟨r, hr, rfl⟩) hp hg
  cases hf : st.listeners.find? (fun l => l.2 == r.key) with
  | none =>
    have := List.find?_eq_none.mp hf (r.id, r.key) hmem
    simp at this
  | some p =>
    obtain ⟨i, k⟩ := p
    have hk : k = r.key := by simpa using List.find?_some hf
    subst hk
    have hpm : (i, r.key) ∈ st.listeners := List.mem_of_find?_eq_some hf
    -- the listener's request awaits this command and is running: it can only be `r`
    obtain ⟨c, hc, hci, hck⟩ := hlk (i, r.key) hpm
    simp only [view, List.mem_map] at hc
    obtain ⟨r1, hr1, rfl⟩ := hc
    obtain ⟨r2, hr2, hid2, hph2⟩ := hnr (i, r.key) hpm
    have : r1 = r2 := unique_of_id st hgood.inv.1 r1 r2 hr1 hr2 (by
      have h1 : r1.id = i := hci
      have h2 : r2.id = i := hid2
      rw [h1, h2])
    subst this
    by_cases hsame : r1.id = r.id
    · have h1 : r1.id = i := hci
      rw [← h1, hsame]
    · exact absurd (hsole r1 hr1 hck hsame) hph2

end Zboss.Host
