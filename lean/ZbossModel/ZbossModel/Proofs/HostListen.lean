import ZbossModel.Proofs.HostKeys
/-! The ids of the registered response listeners are pairwise distinct (one waiter per running request), for every
    reachable state.  With that, the request machine's `find?` / `filter` on its listener list is exactly what the
    listener-table model of C12 does (`C12_request_waiters`, `C12_request_waiters_table` need this hypothesis). -/
namespace Zboss.Host

def LNv (v : View) : Prop := (v.listeners.map (·.1)).Nodup

theorem ln_sub (v v' : View) (hs : v'.listeners.Sublist v.listeners) (h : LNv v) : LNv v' :=
  List.Nodup.sublist (List.Sublist.map _ hs) h

theorem ln_fin (v : View) (i : Nat) (o : Outcome) (h : LNv v) : LNv (((v.upd i toDone).dropL i).emit (.done i o)) :=
  ln_sub v _ List.filter_sublist h

theorem ln_micro (v v' : View) (i : Nat) (c0 : Core) (h : LNv v) (hs : MicroStep v i c0 v') : LNv v' := by
  cases hs with
  | stay => exact h
  | move g ha => exact h
  | write s _ _ => exact h
  | fin o _ => exact ln_fin v i o h

theorem ln_runReq1 (st : St) (i : Nat) (h : LNv (view st)) : LNv (view (runReq 1 st i)) := by
  cases hg : getReq st i with
  | none =>
    have : runReq 1 st i = st := by rw [runReq]; simp only [hg]
    rw [this]; exact h
  | some r => exact ln_micro _ _ i (core r) h (micro_view st i r hg)

theorem ln_settle (fuel : Nat) (st : St) (h : LNv (view st)) : LNv (view (settle fuel st)) :=
  settle_ind (fun s => LNv (view s)) (fun s rd hs => hs) (fun s i hs => ln_runReq1 s i hs) fuel st h

theorem ln_unwind (st : St) (i : Nat) (o : Outcome) (h : LNv (view st)) : LNv (view (unwind st i o)) := by
  rw [view_unwind]; exact ln_fin _ i o h

theorem ln_foldl_unwind (ids : List Nat) (st : St) (o : Outcome) (h : LNv (view st)) :
    LNv (view (ids.foldl (fun s i => unwind s i o) st)) := by
  induction ids generalizing st with
  | nil => exact h
  | cons i is ih => exact ih _ (ln_unwind st i o h)

theorem ln_pre (st : St) (e : Ev) (hnr : NoResidue st) (h : LNv (view st)) : LNv (view (pre st e).1) := by
  have h0 : LNv (view ({ st with out := [] } : St)) := h
  cases e with
  | start id key blocking nfrags timeout =>
    simp only [pre]
    split
    · exact h0
    next hfresh =>
    split
    · exact h
    · show ((st.listeners ++ [(id, key)]).map (·.1)).Nodup
      rw [List.map_append]
      refine List.nodup_append.mpr ⟨h, by simp, ?_⟩
      intro a ha b hb heq
      simp only [List.map_cons, List.map_nil, List.mem_singleton] at hb
      obtain ⟨l, hl, rfl⟩ := List.mem_map.mp ha
      obtain ⟨r, hr, hid, _⟩ := hnr l hl
      apply hfresh
      simp only [List.any_eq_true]
      exact ⟨r, hr, by simp only [beq_iff_eq]; rw [hid, heq, hb]⟩
  | rxAck k =>
    simp only [pre]
    split
    · exact h0
    · exact h0
  | rxRsp key =>
    simp only [pre]
    generalize hst1 : (if ({ st with out := [] } : St).transport = true then emit ({ st with out := [] } : St) Out.wack else ({ st with out := [] } : St)) = st1
    have h1 : LNv (view st1) := by rw [← hst1]; split <;> exact h
    cases hfind : st1.listeners.find? (fun l => l.2 == key) with
    | none => exact h1
    | some p =>
      obtain ⟨i, k⟩ := p
      simp only []
      have h2 : LNv (view (updReq { st1 with listeners := st1.listeners.filter (·.1 != i) } i fun r => { r with got := .rsp })) :=
        ln_sub (view st1) _ List.filter_sublist h1
      split
      · exact h2
      · exact h2
  | tick =>
    simp only [pre]
    cases nextDeadline ({ st with out := [] } : St) with
    | none => exact h0
    | some d =>
      simp only []
      apply ln_foldl_unwind
      exact h0
  | cancel id =>
    simp only [pre]
    cases getReq ({ st with out := [] } : St) id with
    | none => exact h0
    | some r =>
      simp only []
      split
      · exact h0
      · exact ln_unwind _ _ _ h0
  | close =>
    simp only [pre]
    split
    · split
      · exact h0
      · exact h0
    · split
      · exact List.nodup_nil
      · exact List.nodup_nil
  | lost =>
    simp only [pre]
    split
    · exact h0
    · exact h0
  | setReset b => exact h
  | connect =>
    simp only [pre]
    split
    · exact h0
    · exact h0

theorem ln_step (st : St) (e : Ev) (hnr : NoResidue st) (h : LNv (view st)) : LNv (view (step st e)) := by
  rw [step_eq_pre]
  cases (pre st e).2
  · exact ln_pre st e hnr h
  · exact ln_settle _ _ (ln_pre st e hnr h)

/-- in every reachable state the registered listeners have pairwise distinct request ids -/
theorem ln_reachable (evs : List Ev) : ((runEvents {} evs).1.listeners.map (·.1)).Nodup := by
  unfold runEvents
  rw [runEvents_fst]
  have : ∀ (evs : List Ev) (st : St), NoResidue st → LNv (view st) → LNv (view (evs.foldl step st)) := by
    intro evs
    induction evs with
    | nil => intro st _ h; exact h
    | cons e es ih => intro st hnr h; exact ih _ (nr_step st e hnr) (ln_step st e hnr h)
  exact this evs {} nr_init List.nodup_nil

end Zboss.Host
