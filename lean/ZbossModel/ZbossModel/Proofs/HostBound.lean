import ZbossModel.Proofs.HostLive
/-! After `close()`: the one acknowledgement wait that may still be pending is the only thing left to wait for; when
    its timer fires, every request ends. -/
namespace Zboss.Host

/-- no request is about to write (`waitT`) or waiting for an acknowledgement -/
def Calm (v : View) : Prop := ∀ c ∈ v.cores, c.phase ≠ .waitT ∧ c.phase ≠ .waitAck

theorem calm_upd_done (v : View) (i : Nat) (o : Outcome) (h : Calm v) : Calm (((v.upd i toDone).dropL i).emit (.done i o)) := by
  intro x hx
  obtain ⟨c, hc, rfl⟩ := mem_upd (v := v) (i := i) (g := toDone) hx
  split
  · exact ⟨by simp [toDone], by simp [toDone]⟩
  · exact h c hc

/-- with the API closed, a task micro-step never brings a request to the point of writing a frame -/
theorem calm_micro (st : St) (i : Nat) (hinv : Inv2 st) (hclosed : st.isOpen = false) (h : Calm (view st)) :
    Calm (view (runReq 1 st i)) := by
  cases hg : getReq st i with
  | none =>
    have : runReq 1 st i = st := by rw [runReq]; simp only [hg]
    rw [this]; exact h
  | some r =>
    obtain ⟨hrm, hrid⟩ := getReq_mem st i r hg
    have hu := uniq_of_inv2 st hinv
    have h0 : core r ∈ (view st).cores := List.mem_map.mpr ⟨r, hrm, rfl⟩
    by_cases hsf : r.phase = .sendfrag
    · have : runReq 1 st i = unwind st i .runtimeError := by
        rw [runReq]; simp only [hg, hsf, hclosed, Bool.not_false, if_true]
      rw [this, view_unwind]; exact calm_upd_done _ i _ h
    · have hm := micro_view st i r hg
      generalize view (runReq 1 st i) = v' at hm
      have key : ∀ g : Core → Core, (g (core r)).phase ≠ .waitT → (g (core r)).phase ≠ .waitAck →
          ∀ x ∈ ((view st).upd i g).cores, x.phase ≠ .waitT ∧ x.phase ≠ .waitAck := by
        intro g h1 h2 x hx
        obtain ⟨c, hc, rfl⟩ := mem_upd hx
        by_cases hci : (c.id == i) = true
        · have : c = core r := hu.id c hc _ h0 (by show c.id = r.id; rw [hrid]; simpa using hci)
          subst this
          rw [if_pos hci]; exact ⟨h1, h2⟩
        · rw [if_neg hci]; exact h c hc
      cases hm with
      | stay => exact h
      | move g ha =>
        rcases ha with ⟨_, rfl⟩ | ⟨_, rfl⟩ | ⟨hp, _⟩ | ⟨hp, _, _⟩ | ⟨_, _, rfl⟩ | ⟨_, _, rfl⟩
        · exact key _ (by simp) (by simp)
        · exact key _ (by simp) (by simp)
        · exact absurd hp hsf
        · exact absurd hp (h _ h0).1
        · exact key _ (by simp) (by simp)
        · exact key _ (by simp) (by simp)
      | write s hp _ => exact absurd hp (h _ h0).1
      | fin o _ => exact calm_upd_done _ i o h

theorem calm_settle (fuel : Nat) (st : St) (hinv : Inv2 st) (hclosed : st.isOpen = false) (h : Calm (view st)) :
    Calm (view (settle fuel st)) := by
  have := settle_ind (fun s => Inv2 s ∧ s.isOpen = false ∧ Calm (view s))
    (fun s rd hs => ⟨inv2_congr s _ rfl rfl rfl rfl hs.1, hs.2.1, hs.2.2⟩)
    (fun s i hs => ⟨inv2_runReq 1 s i hs.1, by rw [(frame_runReq 1 s i).isOpen]; exact hs.2.1, calm_micro s i hs.1 hs.2.1 hs.2.2⟩)
    fuel st ⟨hinv, hclosed, h⟩
  exact this.2.2

theorem calm_foldl_unwind (ids : List Nat) (st : St) (o : Outcome) (h : Calm (view st)) :
    Calm (view (ids.foldl (fun s i => unwind s i o) st)) := by
  induction ids generalizing st with
  | nil => exact h
  | cons i is ih => exact ih _ (by rw [view_unwind]; exact calm_upd_done _ i o h)

theorem foldl_min_const (l : List Nat) (c : Nat) (hne : l ≠ []) (hc : ∀ x ∈ l, x = c) :
    l.foldl (fun acc d => match acc with | none => some d | some a => some (min a d)) none = some c := by
  have key : ∀ (l : List Nat), (∀ x ∈ l, x = c) →
      l.foldl (fun acc d => match acc with | none => some d | some a => some (min a d)) (some c) = some c := by
    intro l
    induction l with
    | nil => intro _; rfl
    | cons a t ih =>
      intro h
      have ha : a = c := h a (List.mem_cons_self ..)
      simp only [List.foldl_cons, ha, Nat.min_self]
      exact ih (fun x hx => h x (List.mem_cons_of_mem _ hx))
  cases l with
  | nil => exact absurd rfl hne
  | cons a t =>
    have ha : a = c := hc a (List.mem_cons_self ..)
    simp only [List.foldl_cons, ha]
    exact key t (fun x hx => hc x (List.mem_cons_of_mem _ hx))

/-- in a quiescent shut state no request waits for its response any more -/
theorem no_waitRsp (st : St) (hg : Good st) (hs : Shut st) (hq : st.ready = []) :
    ∀ r ∈ st.reqs, r.phase ≠ .waitRsp := by
  intro r hrm hp
  rcases hg.live.wake r hrm (by rw [hp]; decide) (by simp) with hw | hw
  · rw [hq] at hw; cases hw
  · rcases hw with ⟨l, h1, _, _⟩ | hw | ⟨_, hw2⟩
    · rw [hp] at h1; cases l <;> cases h1
    · rw [hp] at hw; cases hw
    · have := hg.cov (core r) (List.mem_map.mpr ⟨r, hrm, rfl⟩) (by show r.phase ≠ .done; rw [hp]; decide) hw2
      simp only [view] at this
      rw [hs.2] at this; cases this

/-- two requests inside their transmission are the same request -/
theorem same_of_inTransmit (st : St) (hinv : Inv2 st) (r1 r2 : Req) (h1 : r1 ∈ st.reqs) (h2 : r2 ∈ st.reqs)
    (t1 : inTransmit r1.phase = true) (t2 : inTransmit r2.phase = true) : r1 = r2 := by
  have a1 := (hinv.2 r1 h1).1 .M ((hinv.2 r1 h1).2.1 t1)
  have a2 := (hinv.2 r2 h2).1 .M ((hinv.2 r2 h2).2.1 t2)
  rw [a1] at a2
  exact unique_of_id _ hinv.1 r1 r2 h1 h2 (by simpa using a2)

/-- **the timer that fires next after `close()` is the pending acknowledgement wait, and when it fires nothing is left
    that could write a frame or wait for an acknowledgement** -/
theorem calm_after_tick (st : St) (hg : Good st) (hs : Shut st) (hq : st.ready = []) :
    Calm (view (step st .tick)) ∧
    (∀ j ∈ st.reqs, j.phase = .waitAck → (step st .tick).now = max st.now j.deadline) := by
  have hinv := hg.inv
  have hnr := no_waitRsp st hg hs hq
  have hinv0 : Inv2 ({ st with out := [] } : St) := inv2_congr st _ rfl rfl rfl rfl hinv
  by_cases hex : ∃ j ∈ st.reqs, j.phase = .waitAck
  · obtain ⟨j, hjm, hjp⟩ := hex
    have hjt : inTransmit j.phase = true := by rw [hjp]; rfl
    -- every request in its ACK wait is `j`; nobody is in `waitT`
    have huniq : ∀ r ∈ st.reqs, r.phase = .waitAck → r = j := fun r hrm hp =>
      same_of_inTransmit st hinv r j hrm hjm (by rw [hp]; rfl) hjt
    have hnoT : ∀ r ∈ st.reqs, r.phase ≠ .waitT := by
      intro r hrm hp
      have := same_of_inTransmit st hinv r j hrm hjm (by rw [hp]; rfl) hjt
      rw [this, hjp] at hp; cases hp
    -- the next deadline is `j`'s
    have hnd : nextDeadline ({ st with out := [] } : St) = some j.deadline := by
      unfold nextDeadline
      apply foldl_min_const
      · intro he
        have : j ∈ st.reqs.filter (fun r => r.phase == Phase.waitAck || r.phase == Phase.waitRsp) :=
          List.mem_filter.mpr ⟨hjm, by simp [hjp]⟩
        have h2 : j.deadline ∈ (st.reqs.filter (fun r => r.phase == Phase.waitAck || r.phase == Phase.waitRsp)).map (·.deadline) :=
          List.mem_map.mpr ⟨j, this, rfl⟩
        rw [he] at h2; cases h2
      · intro x hx
        obtain ⟨r, hr, rfl⟩ := List.mem_map.mp hx
        obtain ⟨hrm, hc⟩ := List.mem_filter.mp hr
        have : r.phase = .waitAck := by
          simp only [Bool.or_eq_true, beq_iff_eq] at hc
          rcases hc with hc | hc
          · exact hc
          · exact absurd hc (hnr r hrm)
        rw [huniq r hrm this]
    have hstep : step st .tick = settle (settleFuel (pre st .tick).1) (pre st .tick).1 := by
      rw [step_eq_pre]
      have : (pre st .tick).2 = true := by simp only [pre, hnd]
      rw [this]; rfl
    have hpre : Calm (view (pre st .tick).1) ∧ (pre st .tick).1.isOpen = false ∧ (pre st .tick).1.now = max st.now j.deadline := by
      simp only [pre, hnd]
      refine ⟨?_, ?_, ?_⟩
      · apply calm_foldl_unwind
        intro c hc
        simp only [view, List.map_map, List.mem_map] at hc
        obtain ⟨r, hrm, rfl⟩ := hc
        simp only [Function.comp]
        by_cases hw : r.phase = .waitAck
        · have hrj := huniq r hrm hw
          have hcnd : (r.phase == Phase.waitAck && decide (r.deadline ≤ max st.now j.deadline)) = true := by
            rw [hrj]; simp [hjp]; omega
          rw [if_pos hcnd]; exact ⟨by simp [core], by simp [core]⟩
        · have hcnd : ¬ ((r.phase == Phase.waitAck && decide (r.deadline ≤ max st.now j.deadline)) = true) := by
            simp [hw]
          rw [if_neg hcnd]; exact ⟨hnoT r hrm, hw⟩
      · rw [(frame_foldl_unwind _ _ _).isOpen]; exact hs.1
      · rw [(frame_foldl_unwind _ _ _).now]
    have hinvP : Inv2 (pre st .tick).1 := by
      obtain ⟨hist, hb⟩ := hg.both
      exact (both_pre hist st .tick hb).1
    refine ⟨by rw [hstep]; exact calm_settle _ _ hinvP hpre.2.1 hpre.1, ?_⟩
    intro j' hj'm hj'p
    rw [huniq j' hj'm hj'p, hstep, (frame_settle _ _).now]; exact hpre.2.2
  · -- no ACK wait pending: no timer at all, the tick changes nothing
    have hnone : ∀ r ∈ st.reqs, r.phase ≠ .waitAck := fun r hrm hp => hex ⟨r, hrm, hp⟩
    have hnd : nextDeadline ({ st with out := [] } : St) = none := by
      unfold nextDeadline
      have : st.reqs.filter (fun r => r.phase == Phase.waitAck || r.phase == Phase.waitRsp) = [] := by
        apply List.filter_eq_nil_iff.mpr
        intro r hrm hc
        simp only [Bool.or_eq_true, beq_iff_eq] at hc
        rcases hc with hc | hc
        · exact hnone r hrm hc
        · exact hnr r hrm hc
      show (List.map (·.deadline) (st.reqs.filter (fun r => r.phase == Phase.waitAck || r.phase == Phase.waitRsp))).foldl _ none = none
      rw [this]; rfl
    have hstep : step st .tick = { st with out := [] } := by
      rw [step_eq_pre]; simp only [pre, hnd]; rfl
    refine ⟨?_, fun j hjm hjp => absurd hjp (hnone j hjm)⟩
    rw [hstep]
    -- all requests have ended (drain), so in particular none is in `waitT` or `waitAck`
    have hd := drain_shut st hg hs hq hnone
    intro c hc
    simp only [view, List.mem_map] at hc
    obtain ⟨r, hrm, rfl⟩ := hc
    have := hd r hrm
    exact ⟨by show r.phase ≠ _; rw [this]; decide, by show r.phase ≠ _; rw [this]; decide⟩

end Zboss.Host
