import ZbossModel.Proofs.HostRest
/-! The whole-history trace theorem **across reconnects**.  `Proofs/HostTrace.lean` couples the message monitor to the
    state only while the transport exists (and, since `connect()` is an event, only on the first connection): once the
    transport is gone a request in `waitT` skips its write, and monitor and state drift apart.  Here the coupling is kept
    unconditionally, using what the later layers provide: at a quiescent point nobody is in `waitT` (no lost wake-up +
    rest + at most one request in transmission), `close()` happens at quiescent points, and while the API has no uart no
    request ever reaches `waitT`.  So the skip never happens on a reachable history, the coupling survives `close()` and
    `connect()`, and the complete output log of **every** history - any number of reconnects - is accepted. -/
namespace Zboss.Host

/-- while there is no transport nobody is about to write -/
def Jv (v : View) : Prop := v.transport = false → ∀ c ∈ v.cores, c.phase ≠ .waitT

/-- the monitor has accepted everything so far and is coupled to the state - with or without a transport -/
def Cpl (hist : List Out) (v : View) : Prop := ∃ m, monRun none (hist ++ v.out) = some m ∧ TI m v.cores

theorem cpl_emit_other (hist : List Out) (v : View) (o : Out) (ho : isWD o = false) (h : Cpl hist v) :
    Cpl hist (v.emit o) := by
  obtain ⟨m, hm, ht⟩ := h
  refine ⟨m, ?_, ht⟩
  show monRun none (hist ++ (v.out ++ [o])) = some m
  rw [← List.append_assoc]
  apply monRun_snoc hm
  cases o <;> first | rfl | cases ho

theorem cpl_fin (hist : List Out) (v : View) (i : Nat) (o : Outcome) (h : Cpl hist v) :
    Cpl hist (((v.upd i toDone).dropL i).emit (.done i o)) := by
  obtain ⟨m, hm, ht⟩ := h
  refine ⟨clearOwner m i, ?_, ti_fin m v.cores i ht⟩
  show monRun none (hist ++ (v.out ++ [.done i o])) = some _
  rw [← List.append_assoc]
  exact monRun_snoc hm (monStep_done m i o)

theorem jv_fin (v : View) (i : Nat) (o : Outcome) (h : Jv v) : Jv (((v.upd i toDone).dropL i).emit (.done i o)) := by
  intro ht c hc
  obtain ⟨c', hc', rfl⟩ := mem_upd (v := v) (i := i) (g := toDone) hc
  split
  · simp [toDone]
  · exact h ht c' hc'

/-- everything the unconditional coupling needs of a state -/
structure Strong (hist : List Out) (st : St) : Prop where
  inv : Inv2 st
  flags : FlagInv st
  cpl : Cpl hist (view st)
  j : Jv (view st)

theorem jv_upd (v : View) (i : Nat) (g : Core → Core) (h : Jv v) (hg : ∀ c ∈ v.cores, c.id = i → (g c).phase ≠ .waitT) :
    Jv (v.upd i g) := by
  intro ht c hc
  obtain ⟨c', hc', rfl⟩ := mem_upd (v := v) (i := i) (g := g) hc
  split
  · rename_i hi; exact hg c' hc' (by simpa using hi)
  · exact h ht c' hc'

theorem strong_runReq1 (hist : List Out) (st : St) (i : Nat) (h : Strong hist st) : Strong hist (runReq 1 st i) := by
  suffices hs : Cpl hist (view (runReq 1 st i)) ∧ Jv (view (runReq 1 st i)) from
    ⟨inv2_runReq 1 st i h.inv, flag_runReq 1 st i h.flags, hs.1, hs.2⟩
  cases hg : getReq st i with
  | none =>
    have : runReq 1 st i = st := by rw [runReq]; simp only [hg]
    rw [this]; exact ⟨h.cpl, h.j⟩
  | some r =>
    obtain ⟨hrm, hrid⟩ := getReq_mem st i r hg
    have hu := uniq_of_inv2 st h.inv
    have h0 : core r ∈ (view st).cores := List.mem_map.mpr ⟨r, hrm, rfl⟩
    have hall : ∀ c ∈ (view st).cores, c.id = i → c = core r := fun c hc hci =>
      hu.id c hc _ h0 (by show c.id = r.id; rw [hrid]; exact hci)
    obtain ⟨m, hm, ht⟩ := h.cpl
    by_cases hsf : r.phase = .sendfrag
    · by_cases ho : st.isOpen = true
      · have htr : st.transport = true := by
          cases hx : st.transport
          · have := h.flags hx; rw [ho] at this; cases this
          · rfl
        have hrun : runReq 1 st i = updReq st i fun r => { r with phase := .waitT } := by
          rw [runReq]; simp only [hg, hsf, ho, Bool.not_true, runReq]; rfl
        rw [hrun, view_updReq st i _ (fun c => { c with phase := .waitT }) (fun x => rfl)]
        refine ⟨⟨m, hm, ?_⟩, ?_⟩
        · exact ti_move m _ i (core r) _ ht hu h0 hrid (Or.inr (Or.inr (Or.inl ⟨hsf, rfl⟩)))
        · intro hf; rw [show ((view st).upd i fun c => { c with phase := .waitT }).transport = st.transport from rfl, htr] at hf
          cases hf
      · have hc : st.isOpen = false := by simpa using ho
        have hrun : runReq 1 st i = unwind st i .runtimeError := by
          rw [runReq]; simp only [hg, hsf, hc, Bool.not_false, if_true]
        rw [hrun, view_unwind]
        exact ⟨cpl_fin hist _ i _ ⟨m, hm, ht⟩, jv_fin _ i _ h.j⟩
    · have hmv := micro_view st i r hg
      generalize view (runReq 1 st i) = v' at hmv
      cases hmv with
      | stay => exact ⟨⟨m, hm, ht⟩, h.j⟩
      | move g ha =>
        -- the skip of a write (`waitT` without a transport) is excluded by `Jv`; every other move is transport-blind
        have ha' : Allowed true (core r) g ∧ (g (core r)).phase ≠ .waitT := by
          rcases ha with ⟨hp, rfl⟩ | ⟨hp, rfl⟩ | ⟨hp, _⟩ | ⟨hp, htf, rfl⟩ | ⟨hp, hlt, rfl⟩ | ⟨hp, hlt, rfl⟩
          · exact ⟨Or.inl ⟨hp, rfl⟩, by simp⟩
          · exact ⟨Or.inr (Or.inl ⟨hp, rfl⟩), by simp⟩
          · exact absurd hp hsf
          · exact absurd hp (h.j htf (core r) h0)
          · exact ⟨Or.inr (Or.inr (Or.inr (Or.inr (Or.inl ⟨hp, hlt, rfl⟩)))), by simp⟩
          · exact ⟨Or.inr (Or.inr (Or.inr (Or.inr (Or.inr ⟨hp, hlt, rfl⟩)))), by simp⟩
        refine ⟨⟨m, hm, ti_move m _ i (core r) g ht hu h0 hrid ha'.1⟩, ?_⟩
        exact jv_upd _ i g h.j (fun c hc hci => by rw [hall c hc hci]; exact ha'.2)
      | write s hp htr =>
        obtain ⟨m', hs, ht'⟩ := ti_write m _ i (core r) s ht hu h0 hrid hp
        refine ⟨⟨m', ?_, ht'⟩, ?_⟩
        · show monRun none (hist ++ ((view st).out ++ [.write i (core r).frag s (core r).nfrags])) = some m'
          rw [← List.append_assoc]
          exact monRun_snoc hm hs
        · intro hf
          have : (view st).transport = false := hf
          rw [htr] at this; cases this
      | fin o _ => exact ⟨cpl_fin hist _ i o ⟨m, hm, ht⟩, jv_fin _ i o h.j⟩

theorem strong_settle (hist : List Out) (fuel : Nat) (st : St) (h : Strong hist st) : Strong hist (settle fuel st) :=
  settle_ind (Strong hist) (fun s rd hs => ⟨inv2_congr s _ rfl rfl rfl rfl hs.inv, hs.flags, hs.cpl, hs.j⟩)
    (fun s i hs => strong_runReq1 hist s i hs) fuel st h

/-! ### events -/

/-- coupling + "nobody about to write without a transport", as one predicate on states -/
def CJ (hist : List Out) (st : St) : Prop := Cpl hist (view st) ∧ Jv (view st)

theorem cj_reset (hist : List Out) (st : St) (h : CJ hist st) : CJ (hist ++ st.out) { st with out := [] } := by
  obtain ⟨⟨m, hm, ht⟩, hj⟩ := h
  exact ⟨⟨m, by simpa [view] using hm, ht⟩, hj⟩

/-- the requests changed by a map the monitor cannot see and that brings nobody to `waitT`; nothing written; the
    transport did not go away -/
theorem cj_map (hist : List Out) (st st' : St) (g : Req → Req) (hg : ∀ r, Similar (core r) (core (g r)))
    (hw : ∀ r, (g r).phase = .waitT → r.phase = .waitT)
    (hr : st'.reqs = st.reqs.map g) (ho : st'.out = st.out) (htr : st'.transport = false → st.transport = false)
    (h : CJ hist st) : CJ hist st' := by
  obtain ⟨⟨m, hm, ht⟩, hj⟩ := h
  refine ⟨⟨m, by simpa [view, ho] using hm, ?_⟩, ?_⟩
  · apply ti_similar m _ _ ht
    · intro x' hx'
      simp only [view, hr, List.map_map, List.mem_map] at hx'
      obtain ⟨r, hr', rfl⟩ := hx'
      exact ⟨core r, List.mem_map.mpr ⟨r, hr', rfl⟩, hg r⟩
    · intro x hx
      simp only [view, List.mem_map] at hx
      obtain ⟨r, hr', rfl⟩ := hx
      refine ⟨core (g r), ?_, hg r⟩
      simp only [view, hr, List.map_map, List.mem_map]
      exact ⟨r, hr', rfl⟩
  · intro hf c hc
    simp only [view, hr, List.map_map, List.mem_map] at hc
    obtain ⟨r, hr', rfl⟩ := hc
    intro hp
    exact hj (htr hf) (core r) (List.mem_map.mpr ⟨r, hr', rfl⟩) (hw r hp)

theorem cj_same (hist : List Out) (st st' : St) (hr : st'.reqs = st.reqs) (ho : st'.out = st.out)
    (htr : st'.transport = false → st.transport = false) (h : CJ hist st) : CJ hist st' :=
  cj_map hist st st' id (fun r => Similar.refl _) (fun r hp => hp) (by simpa using hr) ho htr h

theorem cj_emit_other (hist : List Out) (st : St) (o : Out) (ho : isWD o = false) (h : CJ hist st) : CJ hist (emit st o) :=
  ⟨cpl_emit_other hist (view st) o ho h.1, h.2⟩

theorem cj_unwind (hist : List Out) (st : St) (i : Nat) (o : Outcome) (h : CJ hist st) : CJ hist (unwind st i o) := by
  unfold CJ
  rw [view_unwind]
  exact ⟨cpl_fin hist _ i o h.1, jv_fin _ i o h.2⟩

theorem cj_foldl_unwind (hist : List Out) (ids : List Nat) (st : St) (o : Outcome) (h : CJ hist st) :
    CJ hist (ids.foldl (fun s i => unwind s i o) st) := by
  induction ids generalizing st with
  | nil => exact h
  | cons i is ih => exact ih _ (cj_unwind hist st i o h)

/-- when the loop is at rest nobody is in `waitT`: a request there would be parked behind the holder of the transmit
    lock, who is inside its own transmission - but at most one request is -/
theorem no_waitT_at_rest (st : St) (hg : Good st) (hq : st.ready = []) : ∀ r ∈ st.reqs, r.phase ≠ .waitT := by
  intro r hrm hp
  have hinv := hg.inv
  rcases hg.live.wake r hrm (by rw [hp]; decide) (by simp) with hw | hw
  · rw [hq] at hw; cases hw
  · rcases hw with ⟨l, h1, h2, h3⟩ | hw | ⟨hw, _⟩
    · have hl : l = .T := by rw [hp] at h1; cases l <;> first | rfl | cases h1
      subst hl
      cases hqq : queue st .T with
      | nil => rw [hqq] at h2; cases h2
      | cons a t =>
        obtain ⟨ra, hram, hrai, hrap, hd⟩ := hg.live.qi .T a (by rw [hqq]; exact List.mem_cons_self ..)
        have hhead : (queue st .T).head? = some ra.id := by rw [hqq, hrai]; rfl
        rcases hd with hwt | ⟨_, hheld⟩
        · -- the head itself only waits: it would have to be parked behind itself
          rcases hg.live.wake ra hram hrap (by simp) with hx | hx
          · rw [hq] at hx; cases hx
          · rcases hx with ⟨l', g1, _, g3⟩ | hx | ⟨hx, _⟩
            · have : l' = .T := by rw [hwt.1] at g1; cases l' <;> first | rfl | cases g1
              subst this
              exact g3 hhead
            · rw [hwt.1] at hx; cases hx
            · rw [hwt.1] at hx; cases hx
        · -- the head holds the lock inside its transmission: so it is `r`
          have t1 : inTransmit ra.phase = true := by
            simp only [heldPhase] at hheld
            cases hph : ra.phase <;> rw [hph] at hheld <;> first | rfl | cases hheld
          have t2 : inTransmit r.phase = true := by rw [hp]; rfl
          have := same_of_inTransmit st hinv ra r hram hrm t1 t2
          subst this
          exact h3 hhead
    · rw [hp] at hw; cases hw
    · rw [hp] at hw; cases hw

theorem similar_got (c : Req → Bool) (v : Got) (r : Req) :
    Similar (core r) (core (if c r = true then { r with got := v } else r)) := by
  split <;> exact Similar.refl _

/-- the immediate effect of every event keeps the coupling; `close()` needs the loop to be at rest -/
theorem cj_pre (hist : List Out) (st : St) (e : Ev) (hg : Good st) (hq : st.ready = []) (h : CJ hist st) :
    CJ (hist ++ st.out) (pre st e).1 := by
  have h0 : CJ (hist ++ st.out) { st with out := [] } := cj_reset hist st h
  have hnw := no_waitT_at_rest st hg hq
  generalize hist ++ st.out = H at h0 ⊢
  cases e with
  | start id key blocking nfrags timeout =>
    simp only [pre]
    split
    · exact h0
    rename_i hfresh
    have hnotin : ∀ r ∈ ({ st with out := [] } : St).reqs, r.id ≠ id := by
      intro r hr hri
      apply hfresh
      simp only [List.any_eq_true]
      exact ⟨r, hr, by simp [hri]⟩
    split
    · -- refused at once: `done id RuntimeError` for a request that never was registered
      have h1 := cpl_fin H (view ({ st with out := [] } : St)) id .runtimeError h0.1
      have h2 := jv_fin (view ({ st with out := [] } : St)) id .runtimeError h0.2
      rw [upd_fresh _ id toDone (by
        intro c hc
        simp only [view, List.mem_map] at hc
        obtain ⟨r, hr, rfl⟩ := hc
        exact hnotin r hr)] at h1 h2
      exact ⟨h1, h2⟩
    · obtain ⟨⟨m, hm, ht⟩, hj⟩ := h0
      refine ⟨⟨m, hm, ?_⟩, ?_⟩
      · have := ti_add m (view ({ st with out := [] } : St)).cores (core { id, key, blocking, nfrags, timeout }) ht rfl rfl
        simpa [view] using this
      · intro hf c hc
        simp only [view, List.map_append, List.mem_append, List.map_cons, List.map_nil, List.mem_singleton] at hc
        rcases hc with hc | hc
        · exact hj hf c hc
        · subst hc; simp [core]
  | rxAck k =>
    simp only [pre]
    split
    · exact cj_map H ({ st with out := [] } : St) _ _
        (similar_toAcked (fun r => r.phase == Phase.waitAck && r.gen == st.gen) (fun r hc => by simp at hc; exact hc.1))
        (fun r hp => by
          by_cases hc : (r.phase == Phase.waitAck && r.gen == st.gen) = true
          · rw [if_pos hc] at hp; cases hp
          · rw [if_neg hc] at hp; exact hp) rfl rfl id h0
    · exact h0
  | rxRsp key =>
    simp only [pre]
    generalize hst1 : (if ({ st with out := [] } : St).transport = true then emit ({ st with out := [] } : St) Out.wack else ({ st with out := [] } : St)) = st1
    have h1 : CJ H st1 := by
      rw [← hst1]; split
      · exact cj_emit_other H _ _ rfl h0
      · exact h0
    cases hfind : st1.listeners.find? (fun l => l.2 == key) with
    | none => exact h1
    | some p =>
      obtain ⟨i, k⟩ := p
      simp only []
      have h2 : CJ H (updReq { st1 with listeners := st1.listeners.filter (·.1 != i) } i fun r => { r with got := .rsp }) :=
        cj_map H st1 _ (fun r => if (r.id == i) = true then { r with got := Got.rsp } else r)
          (fun r => by split <;> exact Similar.refl _) (fun r hp => by split at hp <;> exact hp) rfl rfl id h1
      split
      · exact cj_same H _ _ rfl rfl id h2
      · exact h2
  | tick =>
    simp only [pre]
    cases nextDeadline ({ st with out := [] } : St) with
    | none => exact h0
    | some d =>
      simp only []
      apply cj_foldl_unwind
      exact cj_map H ({ st with out := [] } : St) _ _
        (similar_toAcked (fun r => r.phase == Phase.waitAck && decide (r.deadline ≤ max ({ st with out := [] } : St).now d))
          (fun r hc => by simp at hc; exact hc.1))
        (fun r hp => by
          by_cases hc : (r.phase == Phase.waitAck && decide (r.deadline ≤ max ({ st with out := [] } : St).now d)) = true
          · rw [if_pos hc] at hp; cases hp
          · rw [if_neg hc] at hp; exact hp) rfl rfl id h0
  | cancel id =>
    simp only [pre]
    cases getReq ({ st with out := [] } : St) id with
    | none => exact h0
    | some r =>
      simp only []
      split
      · exact h0
      · exact cj_unwind _ _ _ _ h0
  | close =>
    simp only [pre]
    -- the transport goes: this is where "nobody is in `waitT`" is needed
    have hclose : ∀ s' : St, CJ H s' → (∀ r ∈ s'.reqs, r.phase ≠ .waitT) →
        CJ H { (emit s' .closeOut) with transport := false, pack := 0, isOpen := false } := fun s' hb hno => by
      have h1 := cj_emit_other H s' .closeOut rfl hb
      refine ⟨h1.1, ?_⟩
      intro _ c hc
      simp only [view, emit, List.mem_map] at hc
      obtain ⟨r, hr, rfl⟩ := hc
      exact hno r hr
    split
    · split
      · exact hclose _ h0 hnw
      · exact h0
    · have hm1 : ∀ (ids : List Nat) (s' : St), s'.reqs = ({ st with out := [] } : St).reqs.map (fun r => if ids.contains r.id = true then { r with got := Got.cancelled } else r) →
          s'.out = ({ st with out := [] } : St).out → s'.transport = ({ st with out := [] } : St).transport → CJ H s' :=
        fun ids s' e1 e5 e6 =>
        cj_map H ({ st with out := [] } : St) s' _ (fun r => by split <;> exact Similar.refl _)
          (fun r hp => by split at hp <;> exact hp) e1 e5 (fun hf => by rw [← e6]; exact hf) h0
      have hm2 : ∀ (ids : List Nat) (s' : St), s'.reqs = ({ st with out := [] } : St).reqs.map (fun r => if ids.contains r.id = true then { r with got := Got.cancelled } else r) →
          ∀ r ∈ s'.reqs, r.phase ≠ .waitT :=
        fun ids s' e1 r' hr' => by
          rw [e1] at hr'
          obtain ⟨r, hr, rfl⟩ := List.mem_map.mp hr'
          split
          · exact hnw r hr
          · exact hnw r hr
      split
      · exact hclose _ (hm1 (({ st with out := [] } : St).listeners.map (·.1)) _ rfl rfl rfl)
          (hm2 (({ st with out := [] } : St).listeners.map (·.1)) _ rfl)
      · exact hm1 (({ st with out := [] } : St).listeners.map (·.1)) _ rfl rfl rfl
  | lost =>
    simp only [pre]
    split
    · exact cj_same H ({ st with out := [] } : St) _ rfl rfl id h0
    · exact cj_emit_other H _ _ rfl (cj_same H ({ st with out := [] } : St) { st with isOpen := false, out := [] } rfl rfl id h0)
  | setReset b =>
    simp only [pre]
    exact cj_same H ({ st with out := [] } : St) _ rfl rfl id h0
  | connect =>
    simp only [pre]
    split
    · exact h0
    · -- the transport is back: the coupling was never lost
      exact cj_same H ({ st with out := [] } : St) _ rfl rfl (fun hf => by cases hf) h0

theorem strong_of (hist : List Out) (st : St) (hg : Good st) (h : CJ hist st) : Strong hist st :=
  ⟨hg.inv, hg.flags, h.1, h.2⟩

/-- one event, at a quiescent point of a reachable state -/
theorem cj_step (hist : List Out) (st : St) (e : Ev) (hg : Good st) (hq : st.ready = []) (h : CJ hist st) :
    CJ (hist ++ st.out) (step st e) := by
  have hp := cj_pre hist st e hg hq h
  obtain ⟨⟨hh, hb⟩, _, hf, _⟩ := good_pre st e hg
  rw [step_eq_pre]
  cases (pre st e).2
  · exact hp
  · have := strong_settle (hist ++ st.out) (settleFuel (pre st e).1) (pre st e).1 ⟨hb.1, hf, hp.1, hp.2⟩
    exact ⟨this.cpl, this.j⟩

theorem cj_init : CJ [] ({} : St) :=
  ⟨⟨none, rfl, ⟨fun _ _ _ h => (by cases h), fun c hc => (by cases hc), fun c hc => (by cases hc), fun c hc => (by cases hc)⟩⟩,
   fun _ c hc => (by cases hc)⟩

theorem cj_reachable (evs : List Ev) :
    ∃ hist, (runEvents {} evs).2.flatten = hist ++ (runEvents {} evs).1.out ∧ CJ hist (runEvents {} evs).1 := by
  suffices h : ∀ (st : St) (log : List (List Out)) (hist : List Out), log.flatten = hist ++ st.out → Good st → st.ready = [] →
      CJ hist st →
      ∃ hist', (evs.foldl (fun acc e => let s := step acc.1 e; (s, acc.2 ++ [s.out])) (st, log)).2.flatten =
        hist' ++ (evs.foldl (fun acc e => let s := step acc.1 e; (s, acc.2 ++ [s.out])) (st, log)).1.out ∧
        CJ hist' (evs.foldl (fun acc e => let s := step acc.1 e; (s, acc.2 ++ [s.out])) (st, log)).1 by
    exact h {} [] [] rfl good_init rfl cj_init
  induction evs with
  | nil => intro st log hist hl _ _ hb; exact ⟨hist, hl, hb⟩
  | cons e es ih =>
    intro st log hist hl hg hq hb
    simp only [List.foldl_cons]
    apply ih _ _ (hist ++ st.out)
    · simp only [List.flatten_append, List.flatten_cons, List.flatten_nil, List.append_nil, hl]
    · exact good_step st e hg
    · exact rest_step st e hg hq
    · exact cj_step hist st e hg hq hb

/-- **the monitor accepts the whole output log of every event sequence - any number of `close()` / `connect()` cycles
    included** -/
theorem mon_accepts_all (evs : List Ev) : ∃ m, monRun none (runEvents {} evs).2.flatten = some m := by
  obtain ⟨hist, hl, hb⟩ := cj_reachable evs
  obtain ⟨m, hm, _⟩ := hb.1
  exact ⟨m, by rw [hl]; exact hm⟩

/-- ... and in every reachable state without a transport nobody is about to write: the "skip" of a write that a request
    in `waitT` would take after the transport has gone never happens -/
theorem never_skips (evs : List Ev) (h : (runEvents {} evs).1.transport = false) :
    ∀ r ∈ (runEvents {} evs).1.reqs, r.phase ≠ .waitT := by
  obtain ⟨_, _, hb⟩ := cj_reachable evs
  intro r hr
  exact hb.2 h (core r) (List.mem_map.mpr ⟨r, hr, rfl⟩)

end Zboss.Host
