import ZbossModel.Proofs.Codec
import ZbossModel.Proofs.WireSound
/-! Soundness of the `from_frame` loop: a command decoded in full re-encodes to exactly the bytes received. -/
namespace Zboss.Codec
open Wire

theorem encParams_append (d1 d2 : List FView) (a1 a2 : Assign) (hl : a1.length = d1.length) :
    encParams (d1 ++ d2) (a1 ++ a2) = encParams d1 a1 ++ encParams d2 a2 := by
  induction d1 generalizing a1 with
  | nil =>
    have : a1 = [] := List.eq_nil_of_length_eq_zero (by simpa using hl)
    subst this
    cases d2 <;> cases a2 <;> simp [encParams]
  | cons f d1 ih =>
    cases a1 with
    | nil => simp at hl
    | cons x a1 =>
      have hl' : a1.length = d1.length := by simpa using hl
      cases x with
      | none => simp only [List.cons_append, encParams]; exact ih a1 hl'
      | some val => simp only [List.cons_append, encParams, ih a1 hl', List.append_assoc]

theorem allEnc_append (d1 d2 : List FView) (a1 a2 : Assign) (hl : a1.length = d1.length) :
    allEnc (d1 ++ d2) (a1 ++ a2) = (allEnc d1 a1 && allEnc d2 a2) := by
  unfold allEnc
  rw [List.zip_append hl.symm, List.all_append]

theorem mkOk_allEnc (v : View) (a : Assign) (h : mkOk v a = true) : allEnc v.fields a = true ∧ a.length = v.fields.length := by
  unfold mkOk at h
  simp only [Bool.and_eq_true, beq_iff_eq] at h
  refine ⟨?_, h.1.1⟩
  unfold allEnc
  rw [List.all_eq_true] at h ⊢
  intro p hp
  have := h.1.2 p hp
  obtain ⟨f, x⟩ := p
  cases x with
  | none => rfl
  | some val => simpa using this

def GreedyPos (fs : List FView) : Prop := ∀ f ∈ fs, ∀ ts, f.wt = .greedy ts → 0 < recSize ts

theorem fieldsOk_greedyPos (fs : List FView) (h : fieldsOk fs = true) : GreedyPos fs := by
  induction fs with
  | nil => intro f hf; simp at hf
  | cons f fs ih =>
    intro g hg ts hts
    cases fs with
    | nil =>
      simp only [List.mem_singleton] at hg
      subst hg
      simp only [fieldsOk, Bool.and_eq_true] at h
      have := h.1
      simp only [greedyOk, hts] at this
      simpa using this
    | cons f2 rest =>
      simp only [List.mem_cons] at hg
      have hf := h
      simp only [fieldsOk, Bool.and_eq_true, Bool.not_eq_true'] at hf
      rcases hg with hg | hg
      · subst hg
        have := hf.1.1.1
        simp [WT.isGreedy, hts] at this
      · exact ih (fieldsOk_tail f (f2 :: rest) h) g (by simpa using hg) ts hts

/-- an optional field is a Python parameter of its own -/
def OptOwn (fs : List FView) : Prop :=
  ∀ pre f post, fs = pre ++ f :: post → f.optional = true → ∀ g ∈ pre, g.param ≠ f.param

theorem optOwn_of (fs : List FView) (h : optParamsOwn fs = true) : OptOwn fs := by
  intro pre f post hfs hopt g hg
  unfold optParamsOwn at h
  rw [List.all_eq_true] at h
  have hi := h pre.length (by simp [hfs])
  have hget : fs[pre.length]? = some f := by rw [hfs]; simp
  simp only [hget, hopt, Bool.not_true, Bool.false_or] at hi
  have htake : fs.take pre.length = pre := by rw [hfs]; simp
  rw [htake, List.all_eq_true] at hi
  simpa using hi g hg

theorem finish_full (v : View) (x a : Assign) (h : finish v (.full x) = .ok (.full a)) : a = x ∧ mkOk v x = true := by
  simp only [finish] at h
  split at h
  · rename_i hm; injection h with h; injection h with h; exact ⟨h.symm, hm⟩
  · cases h

theorem finish_partial_ne (v : View) (x a : Assign) (h : finish v (.partialCmd x) = .ok (.full a)) : False := by
  simp only [finish] at h
  split at h
  · injection h with h; cases h
  · cases h

/-- the loop invariant: what has been parsed so far re-encodes (when encodable) to the bytes consumed so far -/
theorem parse_sound (v : View) (payload : Bytes) (hgp : GreedyPos v.fields) (hown : OptOwn v.fields) (a : Assign)
    (rest done : List FView) (acc : Assign) (data : Bytes)
    (hfs : done ++ rest = v.fields) (hlen : acc.length = done.length)
    (hinv : allEnc done acc = true → encParams done acc ++ data = payload)
    (h : parseLoop v done rest acc data = .ok (.full a)) : encParams v.fields a = payload := by
  induction rest generalizing done acc data with
  | nil =>
    simp only [parseLoop] at h
    split at h
    · rename_i hemp
      obtain ⟨ha, hmk⟩ := finish_full v acc a h
      subst ha
      have hd : done = v.fields := by simpa using hfs
      have hall := (mkOk_allEnc v a hmk).1
      rw [← hd] at hall ⊢
      have := hinv hall
      have he : data = [] := by simpa using hemp
      rw [he, List.append_nil] at this
      exact this
    · cases h
  | cons f rest ih =>
    rw [parseLoop] at h
    cases hd : decW f.wt data with
    | ok p =>
      obtain ⟨val, data'⟩ := p
      simp only [hd] at h
      apply ih (done ++ [f]) (acc ++ [some val]) data' (by simpa using hfs) (by simp [hlen]) ?_ h
      intro hall
      rw [allEnc_append done [f] acc [some val] hlen, Bool.and_eq_true] at hall
      obtain ⟨h1, h2⟩ := hall
      have hs : (encW f.wt val).isSome = true := by simpa [allEnc] using h2
      obtain ⟨b, hb⟩ := Option.isSome_iff_exists.mp hs
      have hmem : f ∈ v.fields := by rw [← hfs]; simp
      have hsound := decW_sound f.wt data val data' b (fun ts hts => hgp f hmem ts hts) hd hb
      rw [encParams_append done [f] acc [some val] hlen]
      simp only [encParams, hb, Option.getD_some, List.append_nil]
      rw [List.append_assoc, ← hsound]
      exact hinv h1
    | error e =>
      simp only [hd] at h
      cases e with
      | keyError => cases h
      | invalidFrame =>
        exact parse_sound_err v payload hown a f rest done acc data hfs hlen hinv h
      | valueError =>
        exact parse_sound_err v payload hown a f rest done acc data hfs hlen hinv h
where
  parse_sound_err (v : View) (payload : Bytes) (hown : OptOwn v.fields) (a : Assign) (f : FView) (rest done : List FView)
      (acc : Assign) (data : Bytes) (hfs : done ++ f :: rest = v.fields) (hlen : acc.length = done.length)
      (hinv : allEnc done acc = true → encParams done acc ++ data = payload)
      (h : (let pad : Assign := (f :: rest).map fun _ => none
            let accDropped := dropParam done acc f.param
            if ctype v = 1 then
              match v.statusIdx with
              | none => Except.error Err.keyError
              | some si =>
                if si < accDropped.length ∧ (accDropped.getD si none).isSome then
                  if !isZeroStatus (accDropped.getD si none) then finish v (.partialCmd (accDropped ++ pad))
                  else if data.isEmpty && f.optional then finish v (.full (accDropped ++ pad))
                  else .error .valueError
                else .error .keyError
            else if data.isEmpty && f.optional then finish v (.full (accDropped ++ pad))
            else .error .valueError) = .ok (.full a)) : encParams v.fields a = payload := by
    simp only [] at h
    -- every way to a full command passes through `data.isEmpty && f.optional`
    have key : (data.isEmpty && f.optional) = true ∧
        finish v (.full (dropParam done acc f.param ++ (f :: rest).map fun _ => none)) = .ok (.full a) := by
      split at h
      · split at h
        · cases h
        · split at h
          · split at h
            · exact absurd h (fun h => finish_partial_ne v _ a h)
            · split at h
              · rename_i hc; exact ⟨hc, h⟩
              · cases h
          · cases h
      · split at h
        · rename_i hc; exact ⟨hc, h⟩
        · cases h
    obtain ⟨hc, hfin⟩ := key
    simp only [Bool.and_eq_true] at hc
    have hdrop : dropParam done acc f.param = acc :=
      dropParam_id done acc f.param hlen (hown done f rest hfs.symm hc.2)
    rw [hdrop] at hfin
    obtain ⟨ha, hmk⟩ := finish_full v _ a hfin
    subst ha
    have hall := (mkOk_allEnc v _ hmk).1
    rw [← hfs] at hall ⊢
    rw [allEnc_append done (f :: rest) acc _ hlen, Bool.and_eq_true] at hall
    rw [encParams_append done (f :: rest) acc _ hlen, encParams_nones (f :: rest) _ (by simp), List.append_nil]
    have := hinv hall.1
    have he : data = [] := by simpa using hc.1
    rw [he, List.append_nil] at this
    exact this

end Zboss.Codec

namespace Zboss.Codec
open Wire

/-! ## failure responses cut short: the given parameters are a prefix of the schema and re-encode to the leading bytes -/

/-- the wire fields of one Python parameter are contiguous: among the fields before any field `f`, those of
    `f`'s parameter come last -/
def contigOK (fs : List FView) : Bool :=
  (List.range fs.length).all fun i =>
    match fs[i]? with
    | some f => ((fs.take i).dropWhile (·.param != f.param)).all (·.param == f.param)
    | none => true

theorem dropParam_all (pre : List FView) (acc : Assign) (p : Nat) (hl : acc.length = pre.length)
    (h : pre.all (·.param == p) = true) : dropParam pre acc p = List.replicate pre.length none := by
  induction pre generalizing acc with
  | nil =>
    have : acc = [] := List.eq_nil_of_length_eq_zero (by simpa using hl)
    subst this; rfl
  | cons g pre ih =>
    cases acc with
    | nil => simp at hl
    | cons x acc =>
      simp only [List.all_cons, Bool.and_eq_true, beq_iff_eq] at h
      simp only [dropParam, List.zip_cons_cons, List.map_cons, h.1, if_true, List.length_cons, List.replicate_succ]
      congr 1
      exact ih acc (by simpa using hl) h.2

theorem dropParam_split (pre : List FView) (acc : Assign) (p : Nat) (hl : acc.length = pre.length)
    (hc : (pre.dropWhile (·.param != p)).all (·.param == p) = true) :
    dropParam pre acc p = acc.take (pre.takeWhile (·.param != p)).length ++
      List.replicate (pre.length - (pre.takeWhile (·.param != p)).length) none := by
  induction pre generalizing acc with
  | nil =>
    have : acc = [] := List.eq_nil_of_length_eq_zero (by simpa using hl)
    subst this; rfl
  | cons g pre ih =>
    cases acc with
    | nil => simp at hl
    | cons x acc =>
      have hl' : acc.length = pre.length := by simpa using hl
      by_cases hg : g.param = p
      · -- the run of `p`-fields starts here: everything from here on is dropped
        have htw : (g :: pre).takeWhile (·.param != p) = [] := by simp [List.takeWhile, hg]
        have hdw : (g :: pre).dropWhile (·.param != p) = g :: pre := by simp [List.dropWhile, hg]
        rw [hdw] at hc
        rw [htw, dropParam_all (g :: pre) (x :: acc) p hl hc]
        simp
      · have hb : (g.param != p) = true := by simpa using hg
        have htw : (g :: pre).takeWhile (·.param != p) = g :: pre.takeWhile (·.param != p) := by
          simp [List.takeWhile, hb]
        have hdw : (g :: pre).dropWhile (·.param != p) = pre.dropWhile (·.param != p) := by
          simp [List.dropWhile, hb]
        rw [hdw] at hc
        rw [htw]
        simp only [dropParam, List.zip_cons_cons, List.map_cons, hg, if_false, List.length_cons, List.take_succ_cons,
          List.cons_append]
        congr 1
        have := ih acc hl' hc
        simp only [dropParam] at this
        rw [this]
        congr 2
        omega

theorem finish_partial (v : View) (x a : Assign) (h : finish v (.partialCmd x) = .ok (.partialCmd a)) :
    a = x ∧ allEnc v.fields x = true := by
  simp only [finish] at h
  split at h
  · rename_i hm; injection h with h; injection h with h; exact ⟨h.symm, hm⟩
  · cases h

theorem finish_full_ne (v : View) (x a : Assign) (h : finish v (.full x) = .ok (.partialCmd a)) : False := by
  simp only [finish] at h
  split at h
  · injection h with h; cases h
  · cases h

theorem allEnc_take (fs : List FView) (a : Assign) (j : Nat) (h : allEnc fs a = true) : allEnc (fs.take j) (a.take j) = true := by
  induction fs generalizing a j with
  | nil => simp [allEnc]
  | cons f fs ih =>
    cases a with
    | nil => simp [allEnc]
    | cons x a =>
      cases j with
      | zero => simp [allEnc]
      | succ j =>
        simp only [allEnc, List.zip_cons_cons, List.all_cons, Bool.and_eq_true, List.take_succ_cons] at h ⊢
        exact ⟨h.1, ih a j h.2⟩

theorem length_takeWhile_le' {α} (p : α → Bool) (l : List α) : (l.takeWhile p).length ≤ l.length := by
  induction l with
  | nil => simp
  | cons x l ih =>
    simp only [List.takeWhile]
    split <;> simp <;> omega

theorem contig_at (fs pre : List FView) (f : FView) (post : List FView) (h : contigOK fs = true) (hfs : fs = pre ++ f :: post) :
    (pre.dropWhile (·.param != f.param)).all (·.param == f.param) = true := by
  unfold contigOK at h
  rw [List.all_eq_true] at h
  have hi := h pre.length (by simp [hfs])
  have hget : fs[pre.length]? = some f := by rw [hfs]; simp
  have htake : fs.take pre.length = pre := by rw [hfs]; simp
  simpa [hget, htake] using hi

/-- prefix form of the loop invariant -/
def PrefixInv (payload : Bytes) (done : List FView) (acc : Assign) : Prop :=
  ∀ j, j ≤ done.length → allEnc (done.take j) (acc.take j) = true →
    ∃ tail, encParams (done.take j) (acc.take j) ++ tail = payload

theorem parse_partial_sound (v : View) (payload : Bytes) (hgp : GreedyPos v.fields) (hcont : contigOK v.fields = true)
    (a : Assign) (rest done : List FView) (acc : Assign) (data : Bytes)
    (hfs : done ++ rest = v.fields) (hlen : acc.length = done.length)
    (hB : PrefixInv payload done acc)
    (hA : allEnc done acc = true → encParams done acc ++ data = payload)
    (h : parseLoop v done rest acc data = .ok (.partialCmd a)) : ∃ tail, encParams v.fields a ++ tail = payload := by
  induction rest generalizing done acc data with
  | nil =>
    simp only [parseLoop] at h
    split at h
    · exact absurd h (fun h => finish_full_ne v _ a h)
    · cases h
  | cons f rest ih =>
    rw [parseLoop] at h
    cases hd : decW f.wt data with
    | ok p =>
      obtain ⟨val, data'⟩ := p
      simp only [hd] at h
      have hA' : allEnc (done ++ [f]) (acc ++ [some val]) = true →
          encParams (done ++ [f]) (acc ++ [some val]) ++ data' = payload := by
        intro hall
        rw [allEnc_append done [f] acc [some val] hlen, Bool.and_eq_true] at hall
        obtain ⟨h1, h2⟩ := hall
        have hs : (encW f.wt val).isSome = true := by simpa [allEnc] using h2
        obtain ⟨b, hb⟩ := Option.isSome_iff_exists.mp hs
        have hmem : f ∈ v.fields := by rw [← hfs]; simp
        have hsound := decW_sound f.wt data val data' b (fun ts hts => hgp f hmem ts hts) hd hb
        rw [encParams_append done [f] acc [some val] hlen]
        simp only [encParams, hb, Option.getD_some, List.append_nil]
        rw [List.append_assoc, ← hsound]
        exact hA h1
      apply ih (done ++ [f]) (acc ++ [some val]) data' (by simpa using hfs) (by simp [hlen]) ?_ hA' h
      intro j hj hall
      rcases Nat.lt_or_ge j (done.length + 1) with hlt | hge
      · have hj' : j ≤ done.length := by omega
        rw [List.take_append_of_le_length hj', List.take_append_of_le_length (by omega)] at hall ⊢
        exact hB j hj' hall
      · have hj2 : j = (done ++ [f]).length := by simp at hj ⊢; omega
        have t1 : (done ++ [f]).take j = done ++ [f] := by rw [hj2]; exact List.take_length
        have t2 : (acc ++ [some val]).take j = acc ++ [some val] := by
          rw [hj2]; apply List.take_of_length_le; simp [hlen]
        rw [t1, t2] at hall ⊢
        exact ⟨data', hA' hall⟩
    | error e =>
      simp only [hd] at h
      cases e with
      | keyError => cases h
      | invalidFrame => exact partial_err v payload hcont a f rest done acc data hfs hlen hB h
      | valueError => exact partial_err v payload hcont a f rest done acc data hfs hlen hB h
where
  partial_err (v : View) (payload : Bytes) (hcont : contigOK v.fields = true) (a : Assign) (f : FView) (rest done : List FView)
      (acc : Assign) (data : Bytes) (hfs : done ++ f :: rest = v.fields) (hlen : acc.length = done.length)
      (hB : PrefixInv payload done acc)
      (h : (let pad : Assign := (f :: rest).map fun _ => none
            let accDropped := dropParam done acc f.param
            if ctype v = 1 then
              match v.statusIdx with
              | none => Except.error Err.keyError
              | some si =>
                if si < accDropped.length ∧ (accDropped.getD si none).isSome then
                  if !isZeroStatus (accDropped.getD si none) then finish v (.partialCmd (accDropped ++ pad))
                  else if data.isEmpty && f.optional then finish v (.full (accDropped ++ pad))
                  else .error .valueError
                else .error .keyError
            else if data.isEmpty && f.optional then finish v (.full (accDropped ++ pad))
            else .error .valueError) = .ok (.partialCmd a)) : ∃ tail, encParams v.fields a ++ tail = payload := by
    simp only [] at h
    have key : finish v (.partialCmd (dropParam done acc f.param ++ (f :: rest).map fun _ => none)) = .ok (.partialCmd a) := by
      split at h
      · split at h
        · cases h
        · split at h
          · split at h
            · exact h
            · split at h
              · exact absurd h (fun h => finish_full_ne v _ a h)
              · cases h
          · cases h
      · split at h
        · exact absurd h (fun h => finish_full_ne v _ a h)
        · cases h
    obtain ⟨ha, hall⟩ := finish_partial v _ a key
    subst ha
    have hc := contig_at v.fields done f rest hcont hfs.symm
    generalize hj : (done.takeWhile (·.param != f.param)).length = j at *
    have hjle : j ≤ done.length := by rw [← hj]; exact length_takeWhile_le' _ _
    have hsplit := dropParam_split done acc f.param hlen hc
    rw [hj] at hsplit
    rw [hsplit] at hall ⊢
    -- regroup: (take j done ++ drop j done ++ f :: rest) against (take j acc ++ nones ++ pad)
    have hdone : done = done.take j ++ done.drop j := (List.take_append_drop j done).symm
    have hfields : v.fields = done.take j ++ (done.drop j ++ f :: rest) := by
      rw [← hfs, ← List.append_assoc, List.take_append_drop]
    have hl1 : (acc.take j).length = (done.take j).length := by simp [hlen]
    rw [hfields, List.append_assoc] at hall ⊢
    rw [allEnc_append _ _ _ _ hl1, Bool.and_eq_true] at hall
    rw [encParams_append _ _ _ _ hl1,
      encParams_nones (done.drop j ++ f :: rest) _ (by simp), List.append_nil]
    exact hB j hjle hall.1

end Zboss.Codec
