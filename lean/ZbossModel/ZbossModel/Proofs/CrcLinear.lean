import ZbossModel.Proofs.Crc
/-! Linearity of the byte-wise CRC fold, bit-serial view (Lemma E), error
    detection lemmas used by C03 (header Hamming distance 3, body bursts ≤ 16). -/
namespace Zboss.Crc

variable {w : Nat}

/-- byte-wise xor of two strings (the error pattern applied to the data) -/
def xorL (a e : List W8) : List W8 := List.zipWith (· ^^^ ·) a e

theorem specStep_xor (P s s' : BitVec w) (b b' : W8) :
    specStep P (s ^^^ s') (b ^^^ b') = specStep P s b ^^^ specStep P s' b' := by
  unfold specStep
  rw [← iter_xor]
  congr 1
  have : BitVec.zeroExtend w (b ^^^ b') = BitVec.zeroExtend w b ^^^ BitVec.zeroExtend w b' := by
    simp [BitVec.zeroExtend, BitVec.setWidth_xor]
  rw [this]; ac_rfl

theorem fold_xor (P : BitVec w) (d e : List W8) (h : e.length = d.length) (s s' : BitVec w) :
    (xorL d e).foldl (specStep P) (s ^^^ s') = d.foldl (specStep P) s ^^^ e.foldl (specStep P) s' := by
  induction d generalizing e s s' with
  | nil => cases e with
    | nil => rfl
    | cons _ _ => simp at h
  | cons x d ih => cases e with
    | nil => simp at h
    | cons y e =>
      simp only [xorL, List.zipWith_cons_cons, List.foldl_cons]
      rw [specStep_xor]
      exact ih e (by simpa using h) _ _

/-- the linear part: CRC register started at 0 -/
def lin (P : BitVec w) (e : List W8) : BitVec w := e.foldl (specStep P) 0#w

theorem crc16_xor (d e : List W8) (h : e.length = d.length) :
    crc16 (xorL d e) = crc16 d ^^^ lin P16 e := by
  unfold crc16 lin
  rw [crc16From_eq, crc16From_eq]
  have := fold_xor P16 d e h 0#16 0#16
  simpa using this

theorem crc8_xor (d e : List W8) (h : e.length = d.length) :
    crc8 (xorL d e) = crc8 d ^^^ lin P8 e := by
  unfold crc8 lin
  rw [crc8From_eq, crc8From_eq]
  have := fold_xor P8 d e h (0 ^^^ 0xFF#8) 0#8
  rw [BitVec.xor_zero] at this
  rw [this]; ac_rfl

/-! ## bit-serial view -/

def ofBit (b : Bool) : BitVec w := bif b then 1#w else 0#w

/-- feed one message bit: xor it into the low end, clock once -/
def feedBit (P s : BitVec w) (b : Bool) : BitVec w := bitStep P (s ^^^ ofBit b)
def feedBits (P s : BitVec w) (u : List Bool) : BitVec w := u.foldl (feedBit P) s

/-- little-endian packing of a bit list into a register -/
def pack : List Bool → BitVec w
  | [] => 0#w
  | b :: u => ofBit b ^^^ (pack u <<< 1)

theorem ofBit_getLsbD (b : Bool) (i : Nat) (hw : 0 < w) :
    (ofBit b : BitVec w).getLsbD i = (decide (i = 0) && b) := by
  cases b <;> simp [ofBit, BitVec.getLsbD_one, hw]

theorem pack_getLsbD (u : List Bool) (i : Nat) (hi : i < w) :
    (pack u : BitVec w).getLsbD i = u.getD i false := by
  induction u generalizing i with
  | nil => simp [pack]
  | cons b u ih =>
    have hw : 0 < w := by omega
    simp only [pack, BitVec.getLsbD_xor, ofBit_getLsbD _ _ hw, BitVec.getLsbD_shiftLeft]
    cases i with
    | zero => simp [hi]
    | succ j =>
      simp [hi]
      simpa using ih j (by omega)

theorem bitStep_shl (P x : BitVec w) (hw : 0 < w) (hx : x.getLsbD (w - 1) = false) :
    bitStep P (x <<< 1) = x := by
  unfold bitStep
  have h0 : (x <<< 1).getLsbD 0 = false := by simp [BitVec.getLsbD_shiftLeft]
  rw [h0]
  simp only [cond_false, BitVec.xor_zero]
  apply BitVec.eq_of_getLsbD_eq
  intro i hi
  rw [BitVec.getLsbD_ushiftRight, BitVec.getLsbD_shiftLeft]
  by_cases h : 1 + i < w
  · simp [h]
  · have : i = w - 1 := by omega
    subst this
    simp [h, hx]

theorem feedBits_eq_iter (P : BitVec w) (u : List Bool) (hu : u.length ≤ w) (s : BitVec w) :
    feedBits P s u = iter P u.length (s ^^^ pack u) := by
  induction u generalizing s with
  | nil => simp [feedBits, pack, iter]
  | cons b u ih =>
    have hw : 0 < w := by simp at hu; omega
    have hlen : u.length ≤ w := by simp at hu; omega
    have hmsb : (pack u : BitVec w).getLsbD (w - 1) = false := by
      rw [pack_getLsbD _ _ (by omega)]
      simp only [List.getD_eq_getElem?_getD]
      rw [List.getElem?_eq_none (by simp at hu; omega)]; rfl
    have ih' := ih hlen (feedBit P s b)
    simp only [feedBits, List.foldl_cons] at ih' ⊢
    rw [ih']
    simp only [List.length_cons, iter, pack]
    congr 1
    unfold feedBit
    have : s ^^^ (ofBit b ^^^ pack u <<< 1) = (s ^^^ ofBit b) ^^^ (pack u <<< 1) := by ac_rfl
    rw [this, bitStep_xor P (s ^^^ ofBit b) (pack u <<< 1), bitStep_shl P _ hw hmsb]

/-- bits of a byte, least significant first (the order a reflected CRC consumes them) -/
def bitsOfByte (b : W8) : List Bool := (List.range 8).map b.getLsbD
def bitsOf (bs : List W8) : List Bool := bs.flatMap bitsOfByte

theorem pack_bitsOfByte (b : W8) (_hw : 8 ≤ w) : (pack (bitsOfByte b) : BitVec w) = b.zeroExtend w := by
  apply BitVec.eq_of_getLsbD_eq
  intro i hi
  rw [pack_getLsbD _ _ hi]
  simp only [bitsOfByte, BitVec.zeroExtend, BitVec.getLsbD_setWidth]
  by_cases h8 : i < 8
  · simp [List.getD_eq_getElem?_getD, List.getElem?_range h8, hi]
  · have h9 : ¬ i < (List.range 8).length := by simpa using h8
    have : b.getLsbD i = false := BitVec.getLsbD_of_ge _ _ (by omega)
    simp [List.getD_eq_getElem?_getD, List.getElem?_eq_none (Nat.le_of_not_lt h9), this]

/-- Lemma E: a byte step is eight single-bit steps, LSB first -/
theorem specStep_eq_feedBits (P s : BitVec w) (b : W8) (hw : 8 ≤ w) :
    specStep P s b = feedBits P s (bitsOfByte b) := by
  rw [feedBits_eq_iter P _ (by simp [bitsOfByte]; omega), pack_bitsOfByte b hw]
  simp [specStep, bitsOfByte]

theorem fold_eq_feedBits (P : BitVec w) (hw : 8 ≤ w) (bs : List W8) (s : BitVec w) :
    bs.foldl (specStep P) s = feedBits P s (bitsOf bs) := by
  induction bs generalizing s with
  | nil => rfl
  | cons b t ih =>
    simp only [List.foldl_cons, bitsOf, List.flatMap_cons]
    rw [ih, specStep_eq_feedBits P s b hw]
    simp [feedBits, bitsOf, List.foldl_append]

theorem feedBits_append (P s : BitVec w) (a b : List Bool) :
    feedBits P s (a ++ b) = feedBits P (feedBits P s a) b := by simp [feedBits, List.foldl_append]

theorem feedBits_zeros (P s : BitVec w) (k : Nat) :
    feedBits P s (List.replicate k false) = iter P k s := by
  induction k generalizing s with
  | zero => rfl
  | succ k ih =>
    simp only [List.replicate_succ, feedBits, List.foldl_cons] at ih ⊢
    rw [ih]
    simp [iter, feedBit, ofBit]

/-- a burst of at most `w` bits leaves a non-zero register, whatever surrounds it -/
theorem feedBits_burst_ne_zero (P : BitVec w) (hw : 0 < w) (hP : P.getLsbD (w - 1) = true)
    (m k : Nat) (δ : List Bool) (hδ : δ.length + 1 ≤ w) :
    feedBits P 0#w (List.replicate m false ++ true :: δ ++ List.replicate k false) ≠ 0#w := by
  rw [List.append_assoc, feedBits_append, feedBits_zeros, iter_zero,
      show (true :: δ ++ List.replicate k false) = (true :: δ) ++ List.replicate k false from rfl,
      feedBits_append, feedBits_zeros, feedBits_eq_iter P _ (by simpa using hδ)]
  intro h
  have h1 := iter_eq_zero P hw hP _ _ h
  have h2 := iter_eq_zero P hw hP _ _ h1
  have : (0#w ^^^ pack (true :: δ) : BitVec w).getLsbD 0 = true := by
    rw [BitVec.zero_xor, pack_getLsbD _ _ hw]; rfl
  rw [h2] at this
  simp at this

end Zboss.Crc
