import ZbossModel.Proofs.HostView
/-! Whole-history theorem for the request machine: the complete output log of **every** event sequence is
    accepted by the *message monitor* - the fragments of one message go out in order 0,1,…,n-1 and no data
    frame of another message is written between the first and the last of them; a message whose request ended
    (cancelled, timed out, disconnected) before its last fragment is abandoned for good. -/
namespace Zboss.Host

/-- monitor state: the message in progress as (owner, next fragment expected, number of fragments) -/
abbrev Mon := Option (Nat × Nat × Nat)

def monStep (c : Mon) : Out → Option Mon
  | .write j f _ n =>
    if f = 0 then
      (if c = none then some (if 1 < n then some (j, 1, n) else none) else none)
    else
      (if c = some (j, f, n) then some (if f + 1 < n then some (j, f + 1, n) else none) else none)
  | .done j _ => some (match c with
      | some (o, k, n) => if o = j then none else some (o, k, n)
      | none => none)
  | _ => some c

def monRun : Mon → List Out → Option Mon
  | c, [] => some c
  | c, o :: os => match monStep c o with
    | some c' => monRun c' os
    | none => none

theorem monRun_append (c : Mon) (a b : List Out) :
    monRun c (a ++ b) = (monRun c a).bind fun c' => monRun c' b := by
  induction a generalizing c with
  | nil => rfl
  | cons o os ih =>
    simp only [List.cons_append, monRun]
    cases monStep c o with
    | none => rfl
    | some c' => exact ih c'

/-- fragments written so far by a request that is inside its message -/
def prog (c : Core) : Nat := if ackPhase c.phase = true then c.frag + 1 else c.frag

/-- coupling between the monitor state and the requests -/
structure TI (m : Mon) (cs : List Core) : Prop where
  owner : ∀ j k n, m = some (j, k, n) → 0 < k ∧ k < n ∧ ∃ c ∈ cs, c.id = j ∧ c.nfrags = n ∧ inTransmit c.phase = true ∧ prog c = k
  tx : ∀ c ∈ cs, inTransmit c.phase = true → prog c = 0 ∨ c.nfrags ≤ prog c ∨ m = some (c.id, prog c, c.nfrags)
  early : ∀ c ∈ cs, (c.phase = .waitB ∨ c.phase = .waitM) → c.frag = 0
  mid : ∀ c ∈ cs, (c.phase = .sendfrag ∨ c.phase = .waitT) → c.frag = 0 ∨ c.frag < c.nfrags

/-- the monitor has accepted everything so far, and (while the transport exists) is coupled to the state -/
def MonOK0 (hist : List Out) (v : View) : Prop :=
  ∃ m, monRun none (hist ++ v.out) = some m ∧ (v.transport = true → TI m v.cores)

/-- ... on the first connection (`gen = 0`): after a re-`connect()` on the same object the coupling is not claimed
    (the leftover fragments of a request that was interrupted by `close()` go out on the new connection) -/
def MonOK (hist : List Out) (v : View) : Prop := v.gen = 0 → MonOK0 hist v

/-- ids are unique and at most one request is inside the transmission of its message -/
structure Uniq (cs : List Core) : Prop where
  id : ∀ c ∈ cs, ∀ c' ∈ cs, c.id = c'.id → c = c'
  tx : ∀ c ∈ cs, ∀ c' ∈ cs, inTransmit c.phase = true → inTransmit c'.phase = true → c = c'

theorem uniq_of_inv2 (st : St) (h : Inv2 st) : Uniq (view st).cores := by
  have hid : ∀ c ∈ (view st).cores, ∀ c' ∈ (view st).cores, c.id = c'.id → c = c' := by
    intro c hc c' hc' he
    simp only [view, List.mem_map] at hc hc'
    obtain ⟨r, hr, rfl⟩ := hc
    obtain ⟨r', hr', rfl⟩ := hc'
    rw [unique_of_id st h.1 r r' hr hr' he]
  refine ⟨hid, ?_⟩
  intro c hc c' hc' t t'
  apply hid c hc c' hc'
  simp only [view, List.mem_map] at hc hc'
  obtain ⟨r, hr, rfl⟩ := hc
  obtain ⟨r', hr', rfl⟩ := hc'
  have a1 := (h.2 r hr).1 .M ((h.2 r hr).2.1 t)
  have a2 := (h.2 r' hr').1 .M ((h.2 r' hr').2.1 t')
  rw [a1] at a2
  have : r.id = r'.id := by simpa using a2
  exact this

theorem mem_upd {v : View} {i : Nat} {g : Core → Core} {x : Core} (h : x ∈ (v.upd i g).cores) :
    ∃ c ∈ v.cores, x = if (c.id == i) = true then g c else c := by
  simp only [View.upd, List.mem_map] at h
  obtain ⟨c, hc, he⟩ := h
  exact ⟨c, hc, he.symm⟩

theorem mem_upd_of {v : View} {i : Nat} {g : Core → Core} {c : Core} (h : c ∈ v.cores) :
    (if (c.id == i) = true then g c else c) ∈ (v.upd i g).cores := by
  simp only [View.upd, List.mem_map]
  exact ⟨c, h, rfl⟩

/-! ### the coupling survives every kind of view change -/

def clearOwner (m : Mon) (i : Nat) : Mon :=
  match m with
  | some (o, k, n) => if o = i then none else some (o, k, n)
  | none => none

theorem monStep_done (m : Mon) (i : Nat) (o : Outcome) : monStep m (.done i o) = some (clearOwner m i) := rfl

theorem clearOwner_some {m : Mon} {i j k n : Nat} (h : clearOwner m i = some (j, k, n)) : m = some (j, k, n) ∧ j ≠ i := by
  unfold clearOwner at h
  split at h
  · rename_i o k' n'
    split at h
    · cases h
    · rename_i hne
      injection h with h; injection h with h1 h2; injection h2 with h2 h3
      subst h1 h2 h3
      exact ⟨rfl, hne⟩
  · cases h

/-- a request ends (`done i`): its message, if open, is abandoned -/
theorem ti_fin (m : Mon) (cs : List Core) (i : Nat) (ht : TI m cs) :
    TI (clearOwner m i) (cs.map fun c => if (c.id == i) = true then toDone c else c) := by
  have hmem : ∀ x ∈ (cs.map fun c => if (c.id == i) = true then toDone c else c),
      (x ∈ cs ∧ x.id ≠ i) ∨ x.phase = .done := by
    intro x hx
    obtain ⟨c, hc, rfl⟩ := List.mem_map.mp hx
    by_cases hi : (c.id == i) = true
    · right; rw [if_pos hi]; rfl
    · left; rw [if_neg hi]; exact ⟨hc, by simpa using hi⟩
  refine ⟨?_, ?_, ?_, ?_⟩
  · intro j k n hm
    obtain ⟨hm', hne⟩ := clearOwner_some hm
    obtain ⟨hk, hkn, c, hc, hcj, hcn, hct, hcp⟩ := ht.owner j k n hm'
    refine ⟨hk, hkn, c, ?_, hcj, hcn, hct, hcp⟩
    apply List.mem_map.mpr
    refine ⟨c, hc, ?_⟩
    have : ¬ ((c.id == i) = true) := by rw [hcj]; simpa using hne
    rw [if_neg this]
  · intro x hx htx
    rcases hmem x hx with ⟨hxc, hne⟩ | hd
    · rcases ht.tx x hxc htx with h | h | h
      · exact Or.inl h
      · exact Or.inr (Or.inl h)
      · right; right
        rw [h]; simp only [clearOwner]; rw [if_neg hne]
    · rw [hd] at htx; cases htx
  · intro x hx hph
    rcases hmem x hx with ⟨hxc, _⟩ | hd
    · exact ht.early x hxc hph
    · rw [hd] at hph; rcases hph with h | h <;> cases h
  · intro x hx hph
    rcases hmem x hx with ⟨hxc, _⟩ | hd
    · exact ht.mid x hxc hph
    · rw [hd] at hph; rcases hph with h | h <;> cases h

/-- request `i` (core `c0`) is replaced by `c1` -/
theorem ti_replace (m : Mon) (cs : List Core) (i : Nat) (c0 c1 : Core) (g : Core → Core) (ht : TI m cs) (hu : Uniq cs)
    (h0 : c0 ∈ cs) (hi : c0.id = i) (hg : g c0 = c1) (hid : c1.id = c0.id) (hn : c1.nfrags = c0.nfrags)
    (G1 : inTransmit c0.phase = true → (inTransmit c1.phase = true ∧ prog c1 = prog c0) ∨ c0.nfrags ≤ prog c0)
    (G2 : inTransmit c1.phase = true → (inTransmit c0.phase = true ∧ prog c1 = prog c0) ∨ prog c1 = 0)
    (G3 : (c1.phase = .waitB ∨ c1.phase = .waitM) → c1.frag = 0)
    (G4 : (c1.phase = .sendfrag ∨ c1.phase = .waitT) → c1.frag = 0 ∨ c1.frag < c1.nfrags) :
    TI m (cs.map fun c => if (c.id == i) = true then g c else c) := by
  have hmem : ∀ x ∈ (cs.map fun c => if (c.id == i) = true then g c else c), (x ∈ cs ∧ x.id ≠ i) ∨ x = c1 := by
    intro x hx
    obtain ⟨c, hc, rfl⟩ := List.mem_map.mp hx
    by_cases hci : (c.id == i) = true
    · right; rw [if_pos hci]
      have : c = c0 := hu.id c hc c0 h0 (by rw [hi]; simpa using hci)
      rw [this, hg]
    · left; rw [if_neg hci]; exact ⟨hc, by simpa using hci⟩
  have hnew : c1 ∈ (cs.map fun c => if (c.id == i) = true then g c else c) := by
    apply List.mem_map.mpr
    exact ⟨c0, h0, by rw [if_pos (by simpa using hi), hg]⟩
  have hold : ∀ x ∈ cs, x.id ≠ i → x ∈ (cs.map fun c => if (c.id == i) = true then g c else c) := by
    intro x hx hne
    apply List.mem_map.mpr
    exact ⟨x, hx, by rw [if_neg (by simpa using hne)]⟩
  refine ⟨?_, ?_, ?_, ?_⟩
  · intro j k n hm
    obtain ⟨hk, hkn, c, hc, hcj, hcn, hct, hcp⟩ := ht.owner j k n hm
    refine ⟨hk, hkn, ?_⟩
    by_cases hci : c.id = i
    · have hcc : c = c0 := hu.id c hc c0 h0 (by rw [hi, hci])
      subst hcc
      rcases G1 hct with ⟨t1, p1⟩ | hge
      · exact ⟨c1, hnew, by rw [hid, hcj], by rw [hn, hcn], t1, by rw [p1, hcp]⟩
      · omega
    · exact ⟨c, hold c hc hci, hcj, hcn, hct, hcp⟩
  · intro x hx htx
    rcases hmem x hx with ⟨hxc, _⟩ | hx1
    · exact ht.tx x hxc htx
    · subst hx1
      rcases G2 htx with ⟨t0, p⟩ | hz
      · rw [p, hid, hn]; exact ht.tx c0 h0 t0
      · exact Or.inl hz
  · intro x hx hph
    rcases hmem x hx with ⟨hxc, _⟩ | hx1
    · exact ht.early x hxc hph
    · subst hx1; exact G3 hph
  · intro x hx hph
    rcases hmem x hx with ⟨hxc, _⟩ | hx1
    · exact ht.mid x hxc hph
    · subst hx1; exact G4 hph

/-- silent moves -/
theorem ti_move (m : Mon) (cs : List Core) (i : Nat) (c0 : Core) (g : Core → Core) (ht : TI m cs) (hu : Uniq cs)
    (h0 : c0 ∈ cs) (hi : c0.id = i) (ha : Allowed true c0 g) :
    TI m (cs.map fun c => if (c.id == i) = true then g c else c) := by
  rcases ha with ⟨hp, rfl⟩ | ⟨hp, rfl⟩ | ⟨hp, rfl⟩ | ⟨_, hf, _⟩ | ⟨hp, hlt, rfl⟩ | ⟨hp, hlt, rfl⟩
  · have hf := ht.early c0 h0 (Or.inl hp)
    apply ti_replace m cs i c0 _ _ ht hu h0 hi rfl rfl rfl
    · intro h; rw [hp] at h; cases h
    · intro h; cases h
    · intro _; exact hf
    · intro h; rcases h with h | h <;> cases h
  · have hf := ht.early c0 h0 (Or.inr hp)
    apply ti_replace m cs i c0 _ _ ht hu h0 hi rfl rfl rfl
    · intro h; rw [hp] at h; cases h
    · intro _; right; simp [prog, ackPhase, hf]
    · intro h; rcases h with h | h <;> cases h
    · intro _; left; exact hf
  · have hm := ht.mid c0 h0 (Or.inl hp)
    apply ti_replace m cs i c0 _ _ ht hu h0 hi rfl rfl rfl
    · intro _; left; exact ⟨rfl, by simp [prog, ackPhase, hp]⟩
    · intro _; left; exact ⟨by rw [hp]; rfl, by simp [prog, ackPhase, hp]⟩
    · intro h; rcases h with h | h <;> cases h
    · intro _; exact hm
  · cases hf
  · apply ti_replace m cs i c0 _ _ ht hu h0 hi rfl rfl rfl
    · intro _; left; exact ⟨rfl, by simp [prog, ackPhase, hp]⟩
    · intro _; left; exact ⟨by rw [hp]; rfl, by simp [prog, ackPhase, hp]⟩
    · intro h; rcases h with h | h <;> cases h
    · intro _; right; exact hlt
  · apply ti_replace m cs i c0 _ _ ht hu h0 hi rfl rfl rfl
    · intro _; right; simp only [prog, ackPhase, hp, if_true]; omega
    · intro h; cases h
    · intro h; rcases h with h | h <;> cases h
    · intro h; rcases h with h | h <;> cases h

/-- a fragment goes on the wire: the monitor accepts it and stays coupled -/
theorem ti_write (m : Mon) (cs : List Core) (i : Nat) (c0 : Core) (s : Nat) (ht : TI m cs) (hu : Uniq cs)
    (h0 : c0 ∈ cs) (hi : c0.id = i) (hp : c0.phase = .waitT) :
    ∃ m', monStep m (.write i c0.frag s c0.nfrags) = some m' ∧
      TI m' (cs.map fun c => if (c.id == i) = true then { c with phase := .waitAck } else c) := by
  have htx0 : inTransmit c0.phase = true := by rw [hp]; rfl
  have hprog0 : prog c0 = c0.frag := by simp [prog, ackPhase, hp]
  refine ⟨if c0.frag + 1 < c0.nfrags then some (i, c0.frag + 1, c0.nfrags) else none, ?_, ?_⟩
  · by_cases hf : c0.frag = 0
    · have hm : m = none := by
        cases hm : m with
        | none => rfl
        | some t =>
          obtain ⟨j, k, n⟩ := t
          obtain ⟨hk, _, c, hc, _, _, hct, hcp⟩ := ht.owner j k n hm
          have : c = c0 := hu.tx c hc c0 h0 hct htx0
          subst this
          omega
      subst hm
      simp only [monStep, hf, if_true]
    · have hm : m = some (i, c0.frag, c0.nfrags) := by
        rcases ht.tx c0 h0 htx0 with h | h | h
        · omega
        · rcases ht.mid c0 h0 (Or.inr hp) with h' | h' <;> omega
        · rw [h, hi, hprog0]
      simp only [monStep, hf, if_false, hm, if_true]
  · set_option maxRecDepth 2000 in
    have hmem : ∀ x ∈ (cs.map fun c => if (c.id == i) = true then { c with phase := Phase.waitAck } else c),
        (x ∈ cs ∧ x.id ≠ i) ∨ x = { c0 with phase := .waitAck } := by
      intro x hx
      obtain ⟨c, hc, rfl⟩ := List.mem_map.mp hx
      by_cases hci : (c.id == i) = true
      · right; rw [if_pos hci]
        have : c = c0 := hu.id c hc c0 h0 (by rw [hi]; simpa using hci)
        rw [this]
      · left; rw [if_neg hci]; exact ⟨hc, by simpa using hci⟩
    have hnew : ({ c0 with phase := .waitAck } : Core) ∈
        (cs.map fun c => if (c.id == i) = true then { c with phase := Phase.waitAck } else c) := by
      apply List.mem_map.mpr
      exact ⟨c0, h0, by rw [if_pos (by simpa using hi)]⟩
    refine ⟨?_, ?_, ?_, ?_⟩
    · intro j k n hm
      split at hm
      · rename_i hlt
        injection hm with hm; injection hm with h1 h2; injection h2 with h2 h3
        subst h1 h2 h3
        exact ⟨by omega, hlt, _, hnew, hi, rfl, rfl, by simp [prog, ackPhase]⟩
      · cases hm
    · intro x hx htx
      rcases hmem x hx with ⟨hxc, hne⟩ | hx1
      · have : x = c0 := hu.tx x hxc c0 h0 htx htx0
        rw [this] at hne; exact absurd hi hne
      · subst hx1
        have hp1 : prog ({ c0 with phase := .waitAck } : Core) = c0.frag + 1 := by simp [prog, ackPhase]
        rw [hp1]
        by_cases hlt : c0.frag + 1 < c0.nfrags
        · right; right; simp only [hlt, if_true]; rw [hi]
        · right; left; simp only []; omega
    · intro x hx hph
      rcases hmem x hx with ⟨hxc, _⟩ | hx1
      · exact ht.early x hxc hph
      · subst hx1; rcases hph with h | h <;> cases h
    · intro x hx hph
      rcases hmem x hx with ⟨hxc, _⟩ | hx1
      · exact ht.mid x hxc hph
      · subst hx1; rcases hph with h | h <;> cases h

/-! ### MonOK through view changes -/

theorem monRun_snoc {hist : List Out} {m m' : Mon} {o : Out} (h : monRun none hist = some m) (hs : monStep m o = some m') :
    monRun none (hist ++ [o]) = some m' := by
  rw [monRun_append, h]
  simp only [Option.bind, monRun, hs]

theorem monok_emit_other (hist : List Out) (v : View) (o : Out) (ho : isWD o = false) (h : MonOK hist v) :
    MonOK hist (v.emit o) := by
  intro hgen
  obtain ⟨m, hm, ht⟩ := h hgen
  refine ⟨m, ?_, ht⟩
  show monRun none (hist ++ (v.out ++ [o])) = some m
  rw [← List.append_assoc]
  apply monRun_snoc hm
  cases o <;> first | rfl | cases ho

theorem monok_fin (hist : List Out) (v : View) (i : Nat) (o : Outcome) (h : MonOK hist v) :
    MonOK hist (((v.upd i toDone).dropL i).emit (.done i o)) := by
  intro hgen
  obtain ⟨m, hm, ht⟩ := h hgen
  refine ⟨clearOwner m i, ?_, fun htr => ti_fin m v.cores i (ht htr)⟩
  show monRun none (hist ++ (v.out ++ [.done i o])) = some _
  rw [← List.append_assoc]
  exact monRun_snoc hm (monStep_done m i o)

theorem monok_micro (hist : List Out) (v v' : View) (i : Nat) (c0 : Core) (h : MonOK hist v) (hu : Uniq v.cores)
    (h0 : c0 ∈ v.cores) (hi : c0.id = i) (hs : MicroStep v i c0 v') : MonOK hist v' := by
  cases hs with
  | stay => exact h
  | move g ha =>
    intro hgen
    obtain ⟨m, hm, ht⟩ := h hgen
    refine ⟨m, hm, fun htr => ?_⟩
    have htr' : v.transport = true := htr
    rw [htr'] at ha
    exact ti_move m v.cores i c0 g (ht htr') hu h0 hi ha
  | write s hp htr =>
    intro hgen
    obtain ⟨m, hm, ht⟩ := h hgen
    obtain ⟨m', hs, ht'⟩ := ti_write m v.cores i c0 s (ht htr) hu h0 hi hp
    refine ⟨m', ?_, fun _ => ht'⟩
    show monRun none (hist ++ (v.out ++ [.write i c0.frag s c0.nfrags])) = some m'
    rw [← List.append_assoc]
    exact monRun_snoc hm hs
  | fin o _ => exact monok_fin hist v i o h

/-- both invariants together: the lock discipline and the monitor coupling -/
def Both (hist : List Out) (st : St) : Prop := Inv2 st ∧ MonOK hist (view st)

theorem both_runReq1 (hist : List Out) (st : St) (i : Nat) (h : Both hist st) : Both hist (runReq 1 st i) := by
  refine ⟨inv2_runReq 1 st i h.1, ?_⟩
  cases hg : getReq st i with
  | none =>
    have : runReq 1 st i = st := by rw [runReq]; simp only [hg]
    rw [this]; exact h.2
  | some r =>
    obtain ⟨hrm, hrid⟩ := getReq_mem st i r hg
    exact monok_micro hist _ _ i (core r) h.2 (uniq_of_inv2 st h.1) (List.mem_map.mpr ⟨r, hrm, rfl⟩) hrid
      (micro_view st i r hg)

theorem both_settle (hist : List Out) (fuel : Nat) (st : St) (h : Both hist st) : Both hist (settle fuel st) :=
  settle_ind (Both hist) (fun s rd hs => ⟨inv2_congr s _ rfl rfl rfl rfl hs.1, hs.2⟩)
    (fun s i hs => both_runReq1 hist s i hs) fuel st h

/-! ### events -/

/-- per-request changes the monitor cannot see -/
def Similar (c c' : Core) : Prop :=
  c'.id = c.id ∧ c'.nfrags = c.nfrags ∧ c'.frag = c.frag ∧ inTransmit c'.phase = inTransmit c.phase ∧
  ackPhase c'.phase = ackPhase c.phase ∧
  ((c'.phase = .waitB ∨ c'.phase = .waitM) → (c.phase = .waitB ∨ c.phase = .waitM)) ∧
  ((c'.phase = .sendfrag ∨ c'.phase = .waitT) → (c.phase = .sendfrag ∨ c.phase = .waitT))

theorem Similar.refl (c : Core) : Similar c c := ⟨rfl, rfl, rfl, rfl, rfl, id, id⟩

theorem ti_similar (m : Mon) (cs cs' : List Core) (ht : TI m cs) (h1 : ∀ x' ∈ cs', ∃ x ∈ cs, Similar x x')
    (h2 : ∀ x ∈ cs, ∃ x' ∈ cs', Similar x x') : TI m cs' := by
  have hprog : ∀ x x', Similar x x' → prog x' = prog x := by
    intro x x' hs
    obtain ⟨_, _, hf, _, ha, _, _⟩ := hs
    simp only [prog, ha, hf]
  refine ⟨?_, ?_, ?_, ?_⟩
  · intro j k n hm
    obtain ⟨hk, hkn, c, hc, hcj, hcn, hct, hcp⟩ := ht.owner j k n hm
    obtain ⟨c', hc', hs⟩ := h2 c hc
    exact ⟨hk, hkn, c', hc', by rw [hs.1, hcj], by rw [hs.2.1, hcn], by rw [hs.2.2.2.1, hct], by rw [hprog c c' hs, hcp]⟩
  · intro x' hx' htx
    obtain ⟨x, hx, hs⟩ := h1 x' hx'
    rw [hprog x x' hs, hs.1, hs.2.1]
    exact ht.tx x hx (by rw [← hs.2.2.2.1]; exact htx)
  · intro x' hx' hph
    obtain ⟨x, hx, hs⟩ := h1 x' hx'
    rw [hs.2.2.1]; exact ht.early x hx (hs.2.2.2.2.2.1 hph)
  · intro x' hx' hph
    obtain ⟨x, hx, hs⟩ := h1 x' hx'
    rw [hs.2.2.1, hs.2.1]; exact ht.mid x hx (hs.2.2.2.2.2.2 hph)

theorem monok_reset (hist : List Out) (st : St) (h : MonOK hist (view st)) :
    MonOK (hist ++ st.out) (view { st with out := [] }) := by
  intro hgen
  obtain ⟨m, hm, ht⟩ := h hgen
  exact ⟨m, by simpa [view] using hm, ht⟩

/-- a state whose requests were changed by a map the monitor cannot see; nothing was written; the transport
    may have gone -/
theorem monok_map (hist : List Out) (st st' : St) (g : Req → Req) (hg : ∀ r, Similar (core r) (core (g r)))
    (hr : st'.reqs = st.reqs.map g) (ho : st'.out = st.out) (htr : st'.transport = true → st.transport = true)
    (h : MonOK hist (view st)) (hgen : st'.gen = st.gen := by rfl) : MonOK hist (view st') := by
  intro hg0
  obtain ⟨m, hm, ht⟩ := h (by show st.gen = 0; rw [← hgen]; exact hg0)
  refine ⟨m, by simpa [view, ho] using hm, fun ht' => ?_⟩
  apply ti_similar m _ _ (ht (htr ht'))
  · intro x' hx'
    simp only [view, hr, List.map_map, List.mem_map] at hx'
    obtain ⟨r, hr', rfl⟩ := hx'
    exact ⟨core r, List.mem_map.mpr ⟨r, hr', rfl⟩, hg r⟩
  · intro x hx
    simp only [view, List.mem_map] at hx
    obtain ⟨r, hr', rfl⟩ := hx
    refine ⟨core (g r), ?_, hg r⟩
    simp only [view, hr, List.map_map, List.mem_map]
    exact ⟨r, hr', rfl⟩

theorem monok_same (hist : List Out) (st st' : St) (hr : st'.reqs = st.reqs) (ho : st'.out = st.out)
    (htr : st'.transport = true → st.transport = true) (h : MonOK hist (view st)) (hgen : st'.gen = st.gen := by rfl) :
    MonOK hist (view st') :=
  monok_map hist st st' id (fun r => Similar.refl _) (by simpa using hr) ho htr h hgen

theorem similar_toAcked (c : Req → Bool) (hc : ∀ r, c r = true → r.phase = .waitAck) (r : Req) :
    Similar (core r) (core (if c r = true then { r with phase := Phase.acked } else r)) := by
  by_cases hcr : c r = true
  · rw [if_pos hcr]
    have hp := hc r hcr
    refine ⟨rfl, rfl, rfl, ?_, ?_, ?_, ?_⟩
    · show inTransmit Phase.acked = inTransmit r.phase; rw [hp]; rfl
    · show ackPhase Phase.acked = ackPhase r.phase; rw [hp]; rfl
    · intro h; rcases h with h | h <;> cases h
    · intro h; rcases h with h | h <;> cases h
  · rw [if_neg hcr]; exact Similar.refl _

theorem both_unwind (hist : List Out) (st : St) (i : Nat) (o : Outcome) (h : Both hist st) : Both hist (unwind st i o) :=
  ⟨inv2_unwind st i o h.1, by rw [view_unwind]; exact monok_fin hist _ i o h.2⟩

theorem both_foldl_unwind (hist : List Out) (ids : List Nat) (st : St) (o : Outcome) (h : Both hist st) :
    Both hist (ids.foldl (fun s i => unwind s i o) st) := by
  induction ids generalizing st with
  | nil => exact h
  | cons i is ih => exact ih _ (both_unwind hist st i o h)

theorem upd_fresh (v : View) (i : Nat) (g : Core → Core) (hf : ∀ c ∈ v.cores, c.id ≠ i) : v.upd i g = v := by
  simp only [View.upd]
  have : (v.cores.map fun c => if (c.id == i) = true then g c else c) = v.cores := by
    conv => rhs; rw [← List.map_id v.cores]
    apply List.map_congr_left
    intro c hc
    rw [if_neg (by simpa using hf c hc)]; rfl
  rw [this]

/-- a new request: registered, queued, nothing sent yet -/
theorem ti_add (m : Mon) (cs : List Core) (c : Core) (ht : TI m cs) (hp : c.phase = .waitB) (hf : c.frag = 0) :
    TI m (cs ++ [c]) := by
  refine ⟨?_, ?_, ?_, ?_⟩
  · intro j k n hm
    obtain ⟨hk, hkn, w, hw, r⟩ := ht.owner j k n hm
    exact ⟨hk, hkn, w, List.mem_append_left _ hw, r⟩
  · intro x hx htx
    rcases List.mem_append.mp hx with h | h
    · exact ht.tx x h htx
    · simp only [List.mem_singleton] at h; subst h; rw [hp] at htx; cases htx
  · intro x hx hph
    rcases List.mem_append.mp hx with h | h
    · exact ht.early x h hph
    · simp only [List.mem_singleton] at h; subst h; exact hf
  · intro x hx hph
    rcases List.mem_append.mp hx with h | h
    · exact ht.mid x h hph
    · simp only [List.mem_singleton] at h; subst h; left; exact hf

/-- the immediate effect of one event: both invariants survive, with the outputs of the previous step moved into
    the history -/
theorem both_pre (hist : List Out) (st : St) (e : Ev) (h : Both hist st) : Both (hist ++ st.out) (pre st e).1 := by
  have h0 : Both (hist ++ st.out) { st with out := [] } :=
    ⟨inv2_congr st _ rfl rfl rfl rfl h.1, monok_reset hist st h.2⟩
  generalize hist ++ st.out = H at h0 ⊢
  clear h
  cases e with
  | start id key blocking nfrags timeout =>
    simp only [pre]
    split
    · exact h0
    rename_i hfresh
    have hnotin : ∀ r ∈ ({ st with out := [] } : St).reqs, r.id ≠ id := by
      intro r hr hri
      apply hfresh
      simp only [List.any_eq_true]
      exact ⟨r, hr, by simp [hri]⟩
    split
    · refine ⟨inv2_congr ({ st with out := [] } : St) _ rfl rfl rfl rfl h0.1, ?_⟩
      have := monok_fin H (view ({ st with out := [] } : St)) id .runtimeError h0.2
      rw [upd_fresh] at this
      · exact this
      · intro c hc
        obtain ⟨r, hr, rfl⟩ := List.mem_map.mp hc
        exact hnotin r hr
    · refine ⟨⟨?_, ?_⟩, ?_⟩
      · simp only [List.map_append, List.map_cons, List.map_nil]
        exact List.nodup_append.mpr ⟨h0.1.1, by simp, fun a ha b hb => by
          simp at hb; subst hb; intro he; subst he
          obtain ⟨r, hr, hri⟩ := List.mem_map.mp ha
          exact hnotin r hr hri⟩
      · intro r hr
        simp only [List.mem_append, List.mem_singleton] at hr
        rcases hr with hr | hr
        · exact ⟨fun l hl => by have := (h0.1.2 r hr).1 l hl; cases l <;> exact this, (h0.1.2 r hr).2⟩
        · subst hr
          exact ⟨fun l hl => by cases l <;> simp [holds] at hl, by simp [inTransmit], by simp [ackPhase], by simp [afterB]⟩
      · intro hgen
        obtain ⟨m, hm, ht⟩ := h0.2 hgen
        refine ⟨m, hm, fun htr => ?_⟩
        have := ti_add m (view ({ st with out := [] } : St)).cores (core { id, key, blocking, nfrags, timeout }) (ht htr) rfl rfl
        simpa [view] using this
  | rxAck k =>
    simp only [pre]
    split
    · refine ⟨?_, ?_⟩
      · exact inv2_map ({ st with out := [] } : St) _ (fun r => if (r.phase == Phase.waitAck && r.gen == st.gen) = true then { r with phase := Phase.acked } else r) h0.1 rfl rfl rfl rfl
          (fun r => by split <;> rfl) (fun r l => by split <;> (cases l <;> rfl))
          (phaseHold_toAcked (fun r => r.phase == Phase.waitAck && r.gen == st.gen) (fun r hc => by simp at hc; exact hc.1))
      · exact monok_map H ({ st with out := [] } : St) _ _ (similar_toAcked (fun r => r.phase == Phase.waitAck && r.gen == st.gen) (fun r hc => by simp at hc; exact hc.1))
          rfl rfl id h0.2
    · exact h0
  | rxRsp key =>
    simp only [pre]
    generalize hst1 : (if ({ st with out := [] } : St).transport = true then emit ({ st with out := [] } : St) Out.wack else ({ st with out := [] } : St)) = st1
    have h1 : Both H st1 := by
      rw [← hst1]; split
      · exact ⟨inv2_congr ({ st with out := [] } : St) _ rfl rfl rfl rfl h0.1, monok_emit_other H _ _ rfl h0.2⟩
      · exact h0
    cases hfind : st1.listeners.find? (fun l => l.2 == key) with
    | none => exact h1
    | some p =>
      obtain ⟨i, k⟩ := p
      simp only []
      have h2 : Both H (updReq { st1 with listeners := st1.listeners.filter (·.1 != i) } i fun r => { r with got := .rsp }) := by
        refine ⟨?_, ?_⟩
        · exact inv2_map st1 _ (fun r => if (r.id == i) = true then { r with got := Got.rsp } else r) h1.1 rfl rfl rfl rfl
            (fun r => by split <;> rfl) (fun r l => by split <;> (cases l <;> rfl)) (fun r hp => by split <;> exact hp)
        · exact monok_map H st1 _ (fun r => if (r.id == i) = true then { r with got := Got.rsp } else r)
            (fun r => by split <;> exact Similar.refl _) rfl rfl id h1.2
      split
      · exact ⟨inv2_congr _ _ rfl rfl rfl rfl h2.1, h2.2⟩
      · exact h2
  | tick =>
    simp only [pre]
    cases nextDeadline ({ st with out := [] } : St) with
    | none => exact h0
    | some d =>
      simp only []
      apply both_foldl_unwind
      refine ⟨?_, ?_⟩
      · exact inv2_map ({ st with out := [] } : St) _ (fun r => if (r.phase == Phase.waitAck && decide (r.deadline ≤ max ({ st with out := [] } : St).now d)) = true
            then { r with phase := Phase.acked } else r) h0.1 rfl rfl rfl rfl
          (fun r => by split <;> rfl) (fun r l => by split <;> (cases l <;> rfl))
          (phaseHold_toAcked _ (fun r hc => by simp at hc; exact hc.1))
      · exact monok_map H ({ st with out := [] } : St) _ _ (similar_toAcked (fun r => r.phase == Phase.waitAck && decide (r.deadline ≤ max ({ st with out := [] } : St).now d))
          (fun r hc => by simp at hc; exact hc.1)) rfl rfl id h0.2
  | cancel id =>
    simp only [pre]
    cases getReq ({ st with out := [] } : St) id with
    | none => exact h0
    | some r =>
      simp only []
      split
      · exact h0
      · exact both_unwind _ _ _ _ h0
  | close =>
    simp only [pre]
    have hclose : ∀ s' : St, Both H s' →
        Both H { (emit s' .closeOut) with transport := false, pack := 0, isOpen := false } := fun s' hb =>
      ⟨inv2_congr _ _ rfl rfl rfl rfl hb.1,
       monok_same H (emit s' .closeOut) _ rfl rfl (fun h => by cases h) (monok_emit_other H _ _ rfl hb.2)⟩
    split
    · split
      · exact hclose _ h0
      · exact h0
    · have hm : ∀ (ids : List Nat) (s' : St), s'.reqs = ({ st with out := [] } : St).reqs.map (fun r => if ids.contains r.id = true then { r with got := Got.cancelled } else r) →
          s'.bq = ({ st with out := [] } : St).bq → s'.mq = ({ st with out := [] } : St).mq → s'.tq = ({ st with out := [] } : St).tq → s'.out = ({ st with out := [] } : St).out → s'.transport = ({ st with out := [] } : St).transport → s'.gen = st.gen → Both H s' :=
        fun ids s' e1 e2 e3 e4 e5 e6 e7 =>
        ⟨inv2_map ({ st with out := [] } : St) s' _ h0.1 e1 e2 e3 e4 (fun r => by split <;> rfl) (fun r l => by split <;> (cases l <;> rfl))
          (fun r hp => by split <;> exact hp),
         monok_map H ({ st with out := [] } : St) s' _ (fun r => by split <;> exact Similar.refl _) e1 e5 (fun h => by rw [← e6]; exact h) h0.2 e7⟩
      split
      · exact hclose _ (hm (({ st with out := [] } : St).listeners.map (·.1)) _ rfl rfl rfl rfl rfl rfl rfl)
      · exact hm (({ st with out := [] } : St).listeners.map (·.1)) _ rfl rfl rfl rfl rfl rfl rfl
  | lost =>
    simp only [pre]
    split
    · exact ⟨inv2_congr ({ st with out := [] } : St) _ rfl rfl rfl rfl h0.1, monok_same H ({ st with out := [] } : St) _ rfl rfl id h0.2⟩
    · refine ⟨inv2_congr ({ st with out := [] } : St) _ rfl rfl rfl rfl h0.1, ?_⟩
      exact monok_emit_other H _ _ rfl (monok_same H ({ st with out := [] } : St) { st with isOpen := false, out := [] } rfl rfl id h0.2)
  | setReset b =>
    simp only [pre]
    exact ⟨inv2_congr ({ st with out := [] } : St) _ rfl rfl rfl rfl h0.1, monok_same H ({ st with out := [] } : St) _ rfl rfl id h0.2⟩
  | connect =>
    simp only [pre]
    split
    · exact h0
    · -- a second connection: nothing is claimed about the trace from here on
      exact ⟨inv2_congr ({ st with out := [] } : St) _ rfl rfl rfl rfl h0.1, fun hgen => by simp [view] at hgen⟩

/-- one event -/
theorem both_step (hist : List Out) (st : St) (e : Ev) (h : Both hist st) : Both (hist ++ st.out) (step st e) := by
  rw [step_eq_pre]
  cases (pre st e).2
  · exact both_pre hist st e h
  · exact both_settle _ _ _ (both_pre hist st e h)

/-! ### every history -/

theorem both_init : Both [] ({} : St) :=
  ⟨inv2_init, fun _ => ⟨none, rfl, fun _ => ⟨fun _ _ _ h => (by cases h), fun c hc => (by cases hc),
    fun c hc => (by cases hc), fun c hc => (by cases hc)⟩⟩⟩

theorem both_reachable (evs : List Ev) :
    ∃ hist, (runEvents {} evs).2.flatten = hist ++ (runEvents {} evs).1.out ∧ Both hist (runEvents {} evs).1 := by
  suffices h : ∀ (st : St) (log : List (List Out)) (hist : List Out), log.flatten = hist ++ st.out → Both hist st →
      ∃ hist', (evs.foldl (fun acc e => let s := step acc.1 e; (s, acc.2 ++ [s.out])) (st, log)).2.flatten =
        hist' ++ (evs.foldl (fun acc e => let s := step acc.1 e; (s, acc.2 ++ [s.out])) (st, log)).1.out ∧
        Both hist' (evs.foldl (fun acc e => let s := step acc.1 e; (s, acc.2 ++ [s.out])) (st, log)).1 by
    exact h {} [] [] rfl both_init
  induction evs with
  | nil => intro st log hist hl hb; exact ⟨hist, hl, hb⟩
  | cons e es ih =>
    intro st log hist hl hb
    simp only [List.foldl_cons]
    apply ih _ _ (hist ++ st.out)
    · simp only [List.flatten_append, List.flatten_cons, List.flatten_nil, List.append_nil, hl]
    · exact both_step hist st e hb

/-- the monitor accepts the whole output log of every event sequence on the first connection -/
theorem mon_accepts (evs : List Ev) (hgen : (runEvents {} evs).1.gen = 0) :
    ∃ m, monRun none (runEvents {} evs).2.flatten = some m := by
  obtain ⟨hist, hl, hb⟩ := both_reachable evs
  obtain ⟨m, hm, _⟩ := hb.2 hgen
  exact ⟨m, by rw [hl]; exact hm⟩

/-! ### what acceptance means, without the monitor -/

def isWrite : Out → Bool
  | .write _ _ _ _ => true
  | _ => false

def isDoneOf (i : Nat) : Out → Bool
  | .done j _ => j == i
  | _ => false

/-- if the monitor is waiting for fragment `k` of message `j`, the log so far ends with fragment `k-1` of that
    message followed by neither a data frame nor the end of request `j` -/
theorem mon_last (pre : List Out) (c0 : Mon) (j k n : Nat) (h : monRun c0 pre = some (some (j, k, n))) :
    (c0 = some (j, k, n) ∧ ∀ o ∈ pre, isWrite o = false ∧ isDoneOf j o = false) ∨
    ∃ pre1 mid s', pre = pre1 ++ [.write j (k - 1) s' n] ++ mid ∧ 0 < k ∧
      ∀ o ∈ mid, isWrite o = false ∧ isDoneOf j o = false := by
  induction pre generalizing c0 with
  | nil =>
    left
    simp only [monRun, Option.some.injEq] at h
    exact ⟨h, by simp⟩
  | cons o os ih =>
    simp only [monRun] at h
    cases hs : monStep c0 o with
    | none => rw [hs] at h; cases h
    | some c1 =>
      rw [hs] at h
      rcases ih c1 h with ⟨hc1, hfree⟩ | ⟨pre1, mid, s', he, hk, hfree⟩
      · cases o with
        | write j' f s' n' =>
          right
          refine ⟨[], os, s', ?_, ?_, hfree⟩
          · simp only [monStep] at hs
            subst hc1
            split at hs
            · split at hs
              · rename_i hf _
                simp only [Option.some.injEq] at hs
                split at hs
                · injection hs with hs; injection hs with h1 h2; injection h2 with h2 h3
                  subst h1 h2 h3 hf; rfl
                · cases hs
              · cases hs
            · split at hs
              · simp only [Option.some.injEq] at hs
                split at hs
                · injection hs with hs; injection hs with h1 h2; injection h2 with h2 h3
                  subst h1 h2 h3; simp
                · cases hs
              · cases hs
          · simp only [monStep] at hs
            subst hc1
            split at hs
            · split at hs
              · simp only [Option.some.injEq] at hs
                split at hs
                · injection hs with hs; injection hs with h1 h2; injection h2 with h2 h3
                  omega
                · cases hs
              · cases hs
            · split at hs
              · simp only [Option.some.injEq] at hs
                split at hs
                · injection hs with hs; injection hs with h1 h2; injection h2 with h2 h3
                  omega
                · cases hs
              · cases hs
        | done j' o' =>
          left
          rw [monStep_done] at hs
          simp only [Option.some.injEq] at hs
          rw [hc1] at hs
          obtain ⟨hc0, hne⟩ := clearOwner_some hs
          refine ⟨hc0, ?_⟩
          intro x hx
          rcases List.mem_cons.mp hx with rfl | hx
          · exact ⟨rfl, by simpa [isDoneOf] using fun h => hne h.symm⟩
          · exact hfree x hx
        | wack =>
          left
          simp only [monStep, Option.some.injEq] at hs
          refine ⟨by rw [hs, hc1], ?_⟩
          intro x hx
          rcases List.mem_cons.mp hx with rfl | hx
          · exact ⟨rfl, rfl⟩
          · exact hfree x hx
        | closeOut =>
          left
          simp only [monStep, Option.some.injEq] at hs
          refine ⟨by rw [hs, hc1], ?_⟩
          intro x hx
          rcases List.mem_cons.mp hx with rfl | hx
          · exact ⟨rfl, rfl⟩
          · exact hfree x hx
        | appLost =>
          left
          simp only [monStep, Option.some.injEq] at hs
          refine ⟨by rw [hs, hc1], ?_⟩
          intro x hx
          rcases List.mem_cons.mp hx with rfl | hx
          · exact ⟨rfl, rfl⟩
          · exact hfree x hx
      · right
        exact ⟨o :: pre1, mid, s', by rw [he]; simp, hk, hfree⟩

/-- acceptance of a log that contains fragment `f > 0` of a message: fragment `f - 1` of the same message is the
    last data frame before it, and the request has not ended in between -/
theorem contiguous_of_accepts (log pre post : List Out) (i f s n : Nat) (hf : 0 < f)
    (hacc : ∃ m, monRun none log = some m) (hlog : log = pre ++ [.write i f s n] ++ post) :
    ∃ pre1 mid s', pre = pre1 ++ [.write i (f - 1) s' n] ++ mid ∧
      ∀ o ∈ mid, isWrite o = false ∧ isDoneOf i o = false := by
  obtain ⟨m, hm⟩ := hacc
  rw [hlog, List.append_assoc, monRun_append] at hm
  cases hpre : monRun none pre with
  | none => rw [hpre] at hm; cases hm
  | some c =>
    rw [hpre] at hm
    simp only [Option.bind, List.cons_append, List.nil_append, monRun] at hm
    have hc : c = some (i, f, n) := by
      cases hs : monStep c (.write i f s n) with
      | none => rw [hs] at hm; cases hm
      | some c' =>
        simp only [monStep] at hs
        rw [if_neg (by omega)] at hs
        split at hs
        · assumption
        · cases hs
    rw [hc] at hpre
    rcases mon_last pre none i f n hpre with ⟨h, _⟩ | ⟨pre1, mid, s', he, _, hfree⟩
    · cases h
    · exact ⟨pre1, mid, s', he, hfree⟩

end Zboss.Host
