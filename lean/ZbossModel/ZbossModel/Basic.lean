/-! Bytes, little-endian integers and the few CPython sequence semantics the
    modelled functions rely on (slices never fail, they clamp). -/
namespace Zboss

abbrev Byte := UInt8
abbrev Bytes := List UInt8

/-- Python `data[a:b]` for `0 ≤ a`, `0 ≤ b` (clamping). -/
def slice (l : List α) (a b : Nat) : List α := (l.take b).drop a

/-- little-endian encoding of `n` on `k` bytes (`int.to_bytes(k, "little")` for `n < 256^k`) -/
def toLE : Nat → Nat → Bytes
  | 0, _ => []
  | k + 1, n => UInt8.ofNat (n % 256) :: toLE k (n / 256)

/-- `int.from_bytes(bs, "little")` -/
def fromLE : Bytes → Nat
  | [] => 0
  | b :: t => b.toNat + 256 * fromLE t

@[simp] theorem toLE_length (k n : Nat) : (toLE k n).length = k := by
  induction k generalizing n with
  | zero => rfl
  | succ k ih => simp [toLE, ih]

theorem fromLE_toLE (k n : Nat) (h : n < 256 ^ k) : fromLE (toLE k n) = n := by
  induction k generalizing n with
  | zero => simp at h; simp [toLE, fromLE, h]
  | succ k ih =>
    have h2 : n / 256 < 256 ^ k := by
      rw [Nat.pow_succ] at h
      exact Nat.div_lt_of_lt_mul (by rw [Nat.mul_comm]; exact h)
    simp only [toLE, fromLE, ih _ h2]
    have : (UInt8.ofNat (n % 256)).toNat = n % 256 := by
      simp [UInt8.toNat_ofNat']
    rw [this]; omega

theorem fromLE_lt (bs : Bytes) : fromLE bs < 256 ^ bs.length := by
  induction bs with
  | nil => simp [fromLE]
  | cons b t ih =>
    simp only [fromLE, List.length_cons, Nat.pow_succ]
    have := b.toNat_lt
    omega

theorem toLE_fromLE (bs : Bytes) : toLE bs.length (fromLE bs) = bs := by
  induction bs with
  | nil => rfl
  | cons b t ih =>
    simp only [List.length_cons, toLE, fromLE]
    have hb := b.toNat_lt
    have h1 : (b.toNat + 256 * fromLE t) % 256 = b.toNat := by omega
    have h2 : (b.toNat + 256 * fromLE t) / 256 = fromLE t := by omega
    rw [h1, h2, ih]
    simp

/-- hex rendering used by the line protocol -/
def hexDigit (n : Nat) : Char :=
  if n < 10 then Char.ofNat (48 + n) else Char.ofNat (87 + n)

def hexByte (b : UInt8) : String :=
  String.ofList [hexDigit (b.toNat / 16), hexDigit (b.toNat % 16)]

def toHex (bs : Bytes) : String :=
  if bs.isEmpty then "-" else String.join (bs.map hexByte)

def hexVal (c : Char) : Option Nat :=
  if '0' ≤ c ∧ c ≤ '9' then some (c.toNat - 48)
  else if 'a' ≤ c ∧ c ≤ 'f' then some (c.toNat - 87)
  else if 'A' ≤ c ∧ c ≤ 'F' then some (c.toNat - 55)
  else none

def parseHexAux : List Char → Bytes → Option Bytes
  | [], acc => some acc.reverse
  | [_], _ => none
  | a :: b :: t, acc =>
    match hexVal a, hexVal b with
    | some x, some y => parseHexAux t (UInt8.ofNat (16 * x + y) :: acc)
    | _, _ => none

/-- "-" is the empty string -/
def parseHex (s : String) : Option Bytes :=
  if s == "-" then some [] else parseHexAux s.toList []

end Zboss
