import ZbossModel.Basic
import ZbossModel.Generated.Tables
/-! Model of zigpy_zboss/checksum.py (table-driven) and the catalogue
    specification of a reflected CRC (bit-serial LFSR). -/
namespace Zboss.Crc

abbrev W8 := BitVec 8
abbrev W16 := BitVec 16

/-! ## Implementation model: `_update` of CRC8 / CRC16 -/

/-- `_sum = table[_sum ^ byte]` -/
def step8 (s b : W8) : W8 := BitVec.ofNat 8 (Gen.table8Raw.getD (s ^^^ b).toNat 0)

/-- `_sum = (_sum >> 8) ^ table[(_sum ^ byte) & 0x00FF]` -/
def step16 (s : W16) (b : W8) : W16 :=
  (s >>> 8) ^^^ BitVec.ofNat 16 (Gen.table16Raw.getD ((s ^^^ b.zeroExtend 16) &&& 0xFF#16).toNat 0)

/-- `CRC8(data, initial_start=s)._sum` -/
def crc8From (s : W8) (bs : List W8) : W8 := bs.foldl step8 s
/-- `CRC16(data, initial_start=s)._sum` -/
def crc16From (s : W16) (bs : List W8) : W16 := bs.foldl step16 s

/-- `CRC8(data).digest()` -/
def crc8 (bs : List W8) : W8 := crc8From 0 bs
/-- `CRC16(data).digest()` -/
def crc16 (bs : List W8) : W16 := crc16From 0 bs

def bv (bs : Bytes) : List W8 := bs.map UInt8.toBitVec

def crc8B (bs : Bytes) : UInt8 := ⟨crc8 (bv bs)⟩
def crc16B (bs : Bytes) : Nat := (crc16 (bv bs)).toNat

/-! ## Specification: reflected bit-serial CRC, parameterised by the catalogue record -/

/-- one LFSR clock of a reflected CRC with (reflected) polynomial `P` -/
def bitStep {w : Nat} (P c : BitVec w) : BitVec w :=
  (c >>> 1) ^^^ (bif c.getLsbD 0 then P else 0#w)

def iter {w : Nat} (P : BitVec w) : Nat → BitVec w → BitVec w
  | 0, c => c
  | n + 1, c => iter P n (bitStep P c)

/-- xor the byte into the low end, clock eight times -/
def specStep {w : Nat} (P s : BitVec w) (b : W8) : BitVec w := iter P 8 (s ^^^ b.zeroExtend w)

structure Params (w : Nat) where
  poly : BitVec w      -- as listed in the catalogue (normal form)
  init : BitVec w
  xorout : BitVec w

/-- catalogue CRC with refin = refout = true -/
def spec {w : Nat} (p : Params w) (bs : List W8) : BitVec w :=
  (bs.foldl (specStep p.poly.reverse) p.init) ^^^ p.xorout

/-- CRC-8/KOOP: width=8 poly=0x4d init=0xff refin=true refout=true xorout=0xff check=0xd8 -/
def koop : Params 8 := ⟨0x4D#8, 0xFF#8, 0xFF#8⟩
/-- CRC-16/KERMIT: width=16 poly=0x1021 init=0 refin=true refout=true xorout=0 check=0x2189 -/
def kermit : Params 16 := ⟨0x1021#16, 0#16, 0#16⟩

end Zboss.Crc
