import ZbossModel.Codec
import ZbossModel.Generated.Commands
/-! Line-protocol syntax for wire types and values, and the codec operations. -/
namespace Zboss.OpsCodec
open Zboss Wire Codec

def parseInt (s : String) : Option Int :=
  if s.startsWith "-" then (s.drop 1).toNat?.map (fun n => -(Int.ofNat n)) else s.toNat?.map Int.ofNat

def parseSV (s : String) : Option SV :=
  if s.startsWith "n" then (parseInt (s.drop 1).toString).map .num
  else if s.startsWith "x" then (parseHex (s.drop 1).toString).map .raw
  else none

def showSV : SV → String
  | .num n => s!"n{n}"
  | .raw b => "x" ++ toHex b

def parseNats (s : String) : Option (List Nat) :=
  if s == "" then some [] else (s.splitOn ",").mapM (·.toNat?)

def showNats (l : List Nat) : String := ",".intercalate (l.map toString)

def parseVal (s : String) : Option (Option Val) :=
  if s == "_" then some none
  else if s.startsWith "n" || s.startsWith "x" then (parseSV s).map (fun v => some (.sc v))
  else if s.startsWith "b" then (parseHex (s.drop 1).toString).map (fun b => some (.bytes b))
  else if s.startsWith "r" then
    let body := ((s.drop 2).dropEnd 1).toString         -- r[ ... ]
    if body == "" then some (some (.rows []))
    else ((body.splitOn ";").mapM fun (row : String) => (row.splitOn ",").mapM parseSV).map (fun rs => some (.rows rs))
  else if s.startsWith "d" then
    match (s.drop 1).toString.splitOn "/" with
    | [hd, ins, outs] => do
      match ← parseNats hd with
      | [ep, pr, dt, dv] => pure (some (.sd ep pr dt dv (← parseNats ins) (← parseNats outs)))
      | _ => none
    | _ => none
  else none

def showVal : Option Val → String
  | none => "_"
  | some (.sc v) => showSV v
  | some (.bytes b) => "b" ++ toHex b
  | some (.rows rs) => "r[" ++ ";".intercalate (rs.map fun r => ",".intercalate (r.map showSV)) ++ "]"
  | some (.sd ep pr dt dv ins outs) => s!"d{ep},{pr},{dt},{dv}/{showNats ins}/{showNats outs}"

def parseST (s : String) : Option ST :=
  if s.startsWith "u" then (s.drop 1).toNat?.map .uint
  else if s.startsWith "s" then (s.drop 1).toNat?.map .sint
  else if s.startsWith "o" then (s.drop 1).toNat?.map .blob
  else none

def parseRec (s : String) : Option (List ST) :=      -- "[u1,u4]"
  let body := ((s.drop 1).dropEnd 1).toString
  if body == "" then some [] else (body.splitOn ",").mapM parseST

def parseWT (s : String) : Option WT :=
  if s == "D" then some .simpleDesc
  else if s.startsWith "L" then (s.drop 1).toNat?.map .lvBytes
  else if s.startsWith "l" then
    match (s.drop 1).toString.splitOn "[" with
    | [h, r] => do pure (.lvList (← h.toNat?) (← parseRec ("[" ++ r)))
    | _ => none
  else if s.startsWith "g" then (parseRec (s.drop 1).toString).map .greedy
  else (parseST s).map .sc

def showST : ST → String
  | .uint k => s!"u{k}"
  | .sint k => s!"s{k}"
  | .blob n => s!"o{n}"

def showWT : WT → String
  | .sc t => showST t
  | .lvBytes h => s!"L{h}"
  | .lvList h r => s!"l{h}[" ++ ",".intercalate (r.map showST) ++ "]"
  | .greedy r => "g[" ++ ",".intercalate (r.map showST) ++ "]"
  | .simpleDesc => "D"

def showErr : Err → String
  | .invalidFrame => "invalidFrame"
  | .valueError => "valueError"
  | .keyError => "keyError"

def views : Array View := (Gen.commands.map viewOf).toArray

def handle : List String → Option String
  | "enc" :: idx :: vals => do
    let v ← views[← idx.toNat?]?
    let a ← vals.mapM parseVal
    pure (if mkOk v a then "ok " ++ toHex (toBytes v a) else "refuse")
  | ["dec", idx, d] => do
    let v ← views[← idx.toNat?]?
    let d ← parseHex d
    match fromPayload v d with
    | .ok (.full a) => pure ("full " ++ " ".intercalate (a.map showVal))
    | .ok (.partialCmd a) => pure ("partial " ++ " ".intercalate (a.map showVal))
    | .error e => pure ("err " ++ showErr e)
  | ["wenc", w, val] => do
    let w ← parseWT w
    match ← parseVal val with
    | some x => pure (match encW w x with | some b => "ok " ++ toHex b | none => "refuse")
    | none => none
  | ["wdec", w, d] => do
    let w ← parseWT w
    let d ← parseHex d
    match decW w d with
    | .ok (x, rest) => pure ("ok " ++ showVal (some x) ++ " rest=" ++ toHex rest)
    | .error e => pure ("err " ++ showErr e)
  | ["schema", idx] => do
    let i ← idx.toNat?
    let d ← Gen.commands[i]?
    let v := viewOf d
    pure (s!"{d.name} {d.header} {if d.blocking then 1 else 0} " ++
      " ".intercalate (v.fields.map fun f => s!"{showWT f.wt}:{if f.optional then 1 else 0}:{f.param}"))
  | ["ncommands"] => some (toString Gen.commands.length)
  | _ => none

end Zboss.OpsCodec
