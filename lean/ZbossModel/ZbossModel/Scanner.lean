import ZbossModel.Basic
/-! Generic resynchronising scanner: the control structure of
    `_extract_frames` (uart.py), parameterised by the single-frame parser. -/
namespace Zboss.Rx

inductive Try (α : Type) where
  | short                      -- `BufferTooShort`: wait for more bytes
  | invalid                    -- `ValueError` (incl. `InvalidFrame`): resynchronise
  | ok (f : α) (n : Nat)       -- frame and number of bytes consumed
  | raised                     -- any other exception: would escape `data_received`
  deriving Repr

def startsSig : Bytes → Bool
  | x :: y :: _ => x == 0xDE && y == 0xAD
  | _ => false

/-- canonical buffers: start with the signature, or are a proper prefix of it -/
def canon : Bytes → Bool
  | [] => true
  | [x] => x == 0xDE
  | x :: y :: _ => x == 0xDE && y == 0xAD

/-- drop bytes until the rest is canonical -/
def skip : Bytes → Bytes
  | [] => []
  | x :: t => if canon (x :: t) then x :: t else skip t

/-- buffer after an invalid frame: `find(signature, 1)`, else keep a trailing 0xDE -/
def resync (b : Bytes) : Bytes := skip b.tail

structure Scanner (α : Type) where
  tryFrame : Bytes → Try α
  short_of_lt : ∀ a, a.length < 7 → tryFrame a = .short
  invalid_of_nosig : ∀ a, 7 ≤ a.length → startsSig a = false → tryFrame a = .invalid
  ok_le : ∀ a f n, tryFrame a = .ok f n → 7 ≤ n ∧ n ≤ a.length
  ok_ext : ∀ a b f n, tryFrame a = .ok f n → tryFrame (a ++ b) = .ok f n
  invalid_ext : ∀ a b, tryFrame a = .invalid → tryFrame (a ++ b) = .invalid
  never_raises : ∀ a, tryFrame a ≠ .raised

/-- the `_extract_frames` loop with explicit fuel (shown to be irrelevant when `fuel > buf.length`) -/
def extractWith (rs : Bytes → Bytes) (tryFrame : Bytes → Try α) (fuel : Nat) (buf : Bytes) : List α × Bytes :=
  match fuel with
  | 0 => ([], buf)
  | fuel + 1 =>
    match tryFrame buf with
    | .short => ([], buf)
    | .raised => ([], buf)
    | .invalid => extractWith rs tryFrame fuel (rs buf)
    | .ok f n => let r := extractWith rs tryFrame fuel (buf.drop n); (f :: r.1, r.2)

/-- the loop with the code's own resynchronisation step `rs` -/
def runWith (rs : Bytes → Bytes) (tryFrame : Bytes → Try α) (buf : Bytes) : List α × Bytes :=
  extractWith rs tryFrame (buf.length + 1) buf

abbrev extract (tryFrame : Bytes → Try α) := extractWith resync tryFrame
abbrev run (tryFrame : Bytes → Try α) := runWith resync tryFrame

/-- receiver state: everything delivered so far, and the pending buffer -/
def feed (tryFrame : Bytes → Try α) (st : List α × Bytes) (chunk : Bytes) : List α × Bytes :=
  let r := run tryFrame (st.2 ++ chunk)
  (st.1 ++ r.1, r.2)

end Zboss.Rx

namespace Zboss.Rx

/-- the scanner loop with stream offsets: (offset, frame, consumed length) of every accepted frame -/
def extractAt (tryFrame : Bytes → Try α) : Nat → Nat → Bytes → List (Nat × α × Nat)
  | 0, _, _ => []
  | fuel + 1, off, buf =>
    match tryFrame buf with
    | .short => []
    | .raised => []
    | .invalid => extractAt tryFrame fuel (off + (buf.length - (resync buf).length)) (resync buf)
    | .ok f n => (off, f, n) :: extractAt tryFrame fuel (off + n) (buf.drop n)

/-- accepted frames of a whole stream with their positions -/
def located (tryFrame : Bytes → Try α) (s : Bytes) : List (Nat × α × Nat) := extractAt tryFrame (s.length + 1) 0 s

end Zboss.Rx
