import ZbossModel.Wire
/-! Model of types/cstruct.py: C-style structs with natural alignment (`align=True`) or packed
    (`align=False`), nested to any depth; padding byte 0xFF. -/
namespace Zboss.CStruct
open Wire

inductive CTy where
  | int (k : Nat) (signed : Bool)   -- `FixedIntType` of k bytes
  | blob (n : Nat)                  -- EUI64 (8), KeyData (16), AddrModeAddress (9): alignment 1
  | struct (fs : List CTy)
  deriving Repr

/-- `(-offset) % alignment` -/
def pad (off a : Nat) : Nat := (a - off % a) % a

mutual
/-- `get_size_and_alignment(align)[1]` / `get_alignment` -/
def CTy.align (al : Bool) : CTy → Nat
  | .int k _ => if al then k else 1
  | .blob _ => 1
  | .struct fs => alignList al fs
/-- `max(alignments)` (a struct has at least one field, every alignment is at least 1) -/
def alignList (al : Bool) : List CTy → Nat
  | [] => 1
  | f :: fs => max (f.align al) (alignList al fs)
end

mutual
/-- `get_size_and_alignment(align)[0]` / `get_size` -/
def CTy.size (al : Bool) : CTy → Nat
  | .int k _ => k
  | .blob n => n
  | .struct fs =>
    let total := layoutEnd al fs 0
    total + pad total (alignList al fs)
/-- running offset of `get_padded_fields` after the given fields -/
def layoutEnd (al : Bool) : List CTy → Nat → Nat
  | [], off => off
  | f :: fs, off => layoutEnd al fs (off + pad off (f.align al) + f.size al)
end

/-- offset at which each field starts -/
def offsets (al : Bool) : List CTy → Nat → List Nat
  | [], _ => []
  | f :: fs, off => (off + pad off (f.align al)) :: offsets al fs (off + pad off (f.align al) + f.size al)

inductive CVal where
  | num (n : Int)
  | raw (b : Bytes)
  | struct (vs : List CVal)
  deriving Repr

mutual
/-- `serialize(align=al)` -/
def encC (al : Bool) : CTy → CVal → Option Bytes
  | .int k sg, .num n => encS (if sg then .sint k else .uint k) (.num n)
  | .blob m, .raw b => encS (.blob m) (.raw b)
  | .struct fs, .struct vs =>
    match encFields al fs vs 0 with
    | some b => some (b ++ List.replicate (pad b.length (alignList al fs)) 0xFF)   -- `ljust(get_size, b"\xFF")`
    | none => none
  | _, _ => none
def encFields (al : Bool) : List CTy → List CVal → Nat → Option Bytes
  | [], [], _ => some []
  | f :: fs, v :: vs, off =>
    let p := pad off (f.align al)
    match encC al f v with
    | none => none
    | some b =>
      match encFields al fs vs (off + p + b.length) with
      | none => none
      | some rest => some (List.replicate p 0xFF ++ b ++ rest)
  | _, _, _ => none
end

mutual
/-- `deserialize(data, align=al)` -/
def decC (al : Bool) : CTy → Bytes → Except Err (CVal × Bytes)
  | .int k sg, data =>
    match decS (if sg then .sint k else .uint k) data with
    | .ok (.num n, rest) => .ok (.num n, rest)
    | .ok (.raw _, _) => .error .valueError
    | .error e => .error e
  | .blob m, data =>
    match decS (.blob m) data with
    | .ok (.raw b, rest) => .ok (.raw b, rest)
    | .ok (.num _, _) => .error .valueError
    | .error e => .error e
  | .struct fs, data =>
    let expected := (CTy.struct fs).size al
    if data.length < expected then .error .valueError else
    match decFields al fs data 0 with
    | .error e => .error e
    | .ok (vs, rest, consumed) => .ok (.struct vs, rest.drop (expected - consumed))    -- strip the final padding
/-- returns values, remaining data and the number of bytes consumed so far -/
def decFields (al : Bool) : List CTy → Bytes → Nat → Except Err (List CVal × Bytes × Nat)
  | [], data, off => .ok ([], data, off)
  | f :: fs, data, off =>
    let p := pad off (f.align al)
    match decC al f (data.drop p) with
    | .error e => .error e
    | .ok (v, rest) =>
      let used := (data.drop p).length - rest.length
      match decFields al fs rest (off + p + used) with
      | .error e => .error e
      | .ok (vs, rest', c) => .ok (v :: vs, rest', c)
end

end Zboss.CStruct

namespace Zboss.CStruct

mutual
/-- well-formed definition: integer fields have a positive size, structs have at least one field -/
def CTy.WF : CTy → Bool
  | .int k _ => 0 < k
  | .blob _ => true
  | .struct fs => !fs.isEmpty && wfList fs
def wfList : List CTy → Bool
  | [] => true
  | f :: fs => f.WF && wfList fs
end

/-! NVRAM dataset containers in the layout the NCP returns (types/nvids.py) -/
open Wire in
/-- `DSNwkAddrMap.deserialize`: header struct, then `entry_count` records -/
def decNwkAddrMap (hdr rec : List ST) (entryIdx : Nat) (data : Bytes) : Except Err (List (List SV) × Bytes) :=
  match decRec hdr data with
  | .error e => .error e
  | .ok (h, rest) => decRowsN rec (natOf (h.getD entryIdx (.num 0))) rest

open Wire in
/-- `DSApsSecureKeys.deserialize`: 16-bit byte length, four bytes dropped, `(length - 4) / recordSize` records -/
def decApsKeys (rec : List ST) (data : Bytes) : Except Err (List (List SV) × Bytes) :=
  match decS (.uint 2) data with
  | .error e => .error e
  | .ok (len, rest) => decRowsN rec ((natOf len - 4) / recSize rec) (rest.drop 4)

end Zboss.CStruct
