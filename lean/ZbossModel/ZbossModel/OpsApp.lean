import ZbossModel.App
import ZbossModel.OpsCodec
namespace Zboss.OpsApp
open Zboss App

def optNat (s : String) : Option (Option Nat) := if s == "_" then some none else s.toNat?.map some

def handle : List String → Option String
  | ["appsend", dm, da, di, se, de, tsn, pr, cl, ra, tx, d] => do
    let p : Packet := { dstMode := (← dm.toNat?), dstAddr := (← da.toNat?), dstIeee := (← parseHex di), srcEp := (← optNat se), dstEp := (← optNat de), tsn := (← tsn.toNat?), profile := (← pr.toNat?), cluster := (← cl.toNat?), radius := (← optNat ra), txOptions := (← tx.toNat?), data := (← parseHex d) }
    match sendPacket p with
    | .zdo => pure "zdo"
    | .refused => pure "refused"
    | .req r => pure s!"req {r.tsn} {r.paramLength} {r.dataLength} {toHex r.dstAddr} {r.profile} {r.cluster} {r.dstEp} {r.srcEp} {r.radius} {r.dstMode} {r.txOptions} {r.useAlias} {r.aliasSrc} {r.aliasSeq} {toHex r.payload}"
  | ["appind", own, pl, fc, sa, ga, de, se, cl, pr, lqi, rssi, d] => do
    let m : Indication := { payloadLength := (← pl.toNat?), frameFC := (← fc.toNat?), srcAddr := (← sa.toNat?), grpAddr := (← ga.toNat?), dstEp := (← de.toNat?), srcEp := (← se.toNat?), cluster := (← cl.toNat?), profile := (← pr.toNat?), lqi := (← lqi.toNat?), rssi := (← OpsCodec.parseInt rssi), payload := (← parseHex d) }
    match onIndication (← own.toNat?) m with
    | none => pure "none"
    | some k => pure s!"pkt {k.srcAddr} {k.srcEp} {k.dstMode} {k.dstAddr} {k.dstEp} {k.tsn} {k.profile} {k.cluster} {toHex k.data} {if k.encrypted then 1 else 0} {k.lqi} {k.rssi}"
  | ["appseq", s, n] => do
    let s ← s.toNat?; let n ← n.toNat?
    let r := (List.range n).foldl (fun (acc : Nat × List Nat) _ => (nextSeq acc.1, acc.2 ++ [nextSeq acc.1])) (s, [])
    pure (",".intercalate (r.2.map toString))
  | ["appbind", tsn, tn, si, se, cl, mode, ieee, nwk, ep] => do
    let d : BindDst := { mode := (← mode.toNat?), ieee := (← parseHex ieee), nwk := (← nwk.toNat?), endpoint := (← optNat ep) }
    match bindReq (← tsn.toNat?) (← tn.toNat?) (← parseHex si) (← se.toNat?) (← cl.toNat?) d with
    | none => pure "none"
    | some r => pure s!"req {r.tsn} {r.targetNwk} {toHex r.srcIeee} {r.srcEp} {r.cluster} {r.dstAddrMode} {toHex r.dstAddr} {r.dstEp}"
  | _ => none

end Zboss.OpsApp
