import ZbossModel.Generated.Tables
/-! Model of `ZBOSS.request` / `_send_frags` / `_send_to_uart` (api.py) on top of `uart.send`
    (transmit lock, ACK wait), `close`, `connection_lost`, at quiescent points of the event loop.

    Three FIFO locks - B = `_blocking_request_lock`, M = `_tx_message_lock`, T = uart `_tx_lock` - are
    lists of request ids whose head is the holder (or the already-woken next holder). The asyncio
    ready queue is modelled at task granularity (`ready`, FIFO). Every request registers its one-shot
    response listener before anything is sent. Time is integer milliseconds. -/
namespace Zboss.Host

inductive Phase where
  | waitB      -- `async with _conditional_blocking_request_lock`
  | waitM      -- `async with self._tx_message_lock`
  | sendfrag   -- `_send_to_uart`: check `self._uart`
  | waitT      -- `async with self._tx_lock` (uart.send)
  | waitAck    -- frame written, `await _ack_received_event.wait()` under `timeout(ACK_TIMEOUT)`
  | acked      -- wait ended (ACK or expiry): leave `uart.send`
  | waitRsp    -- `await response_future` under `timeout(timeout)`
  | done
  deriving DecidableEq, Repr, Inhabited

inductive Got where
  | nothing | rsp | cancelled
  deriving DecidableEq, Repr, Inhabited

inductive Outcome where
  | ret | timeoutError | cancelled | runtimeError
  deriving DecidableEq, Repr

inductive Lock where
  | B | M | T
  deriving DecidableEq, Repr

structure Req where
  id : Nat
  key : Nat               -- the command whose response it awaits
  blocking : Bool
  nfrags : Nat
  timeout : Nat
  phase : Phase := .waitB
  frag : Nat := 0
  deadline : Nat := 0
  got : Got := .nothing
  holdB : Bool := false
  holdM : Bool := false
  holdT : Bool := false
  gen : Nat := 0          -- the connection on which its last frame was written
  deriving Repr, Inhabited

inductive Out where
  | write (id frag seq nfrags : Nat)   -- fragment `frag` of request `id` put on the wire, stamped `seq`
  | wack                               -- ACK written for an incoming response frame
  | done (id : Nat) (o : Outcome)      -- the request task finished
  | closeOut                           -- transport closed
  | appLost                            -- `app.connection_lost` called
  deriving DecidableEq, Repr

structure St where
  now : Nat := 0
  isOpen : Bool := true          -- `api._uart is not None`
  transport : Bool := true       -- `uart._transport is not None`
  resetting : Bool := false      -- `_reset_uart_reconnect.locked()`
  pack : Nat := 0
  reqs : List Req := []
  bq : List Nat := []
  mq : List Nat := []
  tq : List Nat := []
  listeners : List (Nat × Nat) := []     -- (request id, key) of pending one-shot listeners, registration order
  ready : List Nat := []
  out : List Out := []
  gen : Nat := 0                 -- connections opened so far: `connect()` makes a new protocol object
  deriving Repr, Inhabited

def getReq (st : St) (i : Nat) : Option Req := st.reqs.find? (·.id == i)

def updReq (st : St) (i : Nat) (f : Req → Req) : St :=
  { st with reqs := st.reqs.map fun r => if r.id == i then f r else r }

def queue (st : St) : Lock → List Nat
  | .B => st.bq | .M => st.mq | .T => st.tq

def setQueue (st : St) (l : Lock) (q : List Nat) : St :=
  match l with
  | .B => { st with bq := q } | .M => { st with mq := q } | .T => { st with tq := q }

def holds (r : Req) : Lock → Bool
  | .B => r.holdB | .M => r.holdM | .T => r.holdT

def setHold (r : Req) (l : Lock) (b : Bool) : Req :=
  match l with
  | .B => { r with holdB := b } | .M => { r with holdM := b } | .T => { r with holdT := b }

def emit (st : St) (o : Out) : St := { st with out := st.out ++ [o] }

/-- `lock.acquire()`: join the queue (once); succeeds when at its head -/
def acquire (st : St) (l : Lock) (i : Nat) : St × Bool :=
  let q := queue st l
  let q' := if q.contains i then q else q ++ [i]
  let st := setQueue st l q'
  if q'.head? = some i then (updReq st i (setHold · l true), true) else (st, false)

/-- `lock.release()`: wake the next waiter -/
def release (st : St) (l : Lock) (i : Nat) : St :=
  let q := (queue st l).drop 1
  let st := updReq (setQueue st l q) i (setHold · l false)
  match q.head? with
  | some j => { st with ready := st.ready ++ [j] }
  | none => st

/-- the task ends: done-callback of the future removes its listener (`finally: response_future.cancel()`) -/
def finish (st : St) (i : Nat) (o : Outcome) : St :=
  let st := updReq st i fun r => { r with phase := .done }
  emit { st with listeners := st.listeners.filter (·.1 != i) } (.done i o)

/-- leaving one lock while an exception propagates -/
def unwindLock (st : St) (l : Lock) (i : Nat) : St :=
  let q := queue st l
  if !q.contains i then st else
  match getReq st i with
  | none => st
  | some r =>
    if q.head? = some i && holds r l then release st l i
    else
      -- still waiting (possibly already woken): leave the queue; a woken waiter passes the wake-up on
      let wasHead := q.head? = some i
      let q' := q.filter (· != i)
      let st := setQueue st l q'
      if wasHead then
        match q'.head? with
        | some j => { st with ready := st.ready ++ [j] }
        | none => st
      else st

/-- exception / cancellation propagating out of the request: release T, M, B (innermost first), finish -/
def unwind (st : St) (i : Nat) (o : Outcome) : St :=
  finish (unwindLock (unwindLock (unwindLock st .T i) .M i) .B i) i o

/-- run request task `i` until it blocks -/
def runReq : Nat → St → Nat → St
  | 0, st, _ => st
  | fuel + 1, st, i =>
    match getReq st i with
    | none => st
    | some r =>
      match r.phase with
      | .done => st
      | .waitB =>
        if r.blocking then
          let (st', ok) := acquire st .B i
          if ok then runReq fuel (updReq st' i fun r => { r with phase := .waitM }) i else st'
        else runReq fuel (updReq st i fun r => { r with phase := .waitM }) i
      | .waitM =>
        let (st', ok) := acquire st .M i
        if ok then runReq fuel (updReq st' i fun r => { r with phase := .sendfrag }) i else st'
      | .sendfrag =>
        if !st.isOpen then unwind st i .runtimeError
        else runReq fuel (updReq st i fun r => { r with phase := .waitT }) i
      | .waitT =>
        let (st', ok) := acquire st .T i
        if !ok then st' else
        if st'.transport then
          let st' := emit st' (.write i r.frag st'.pack r.nfrags)
          updReq st' i fun r => { r with phase := .waitAck, deadline := st'.now + Gen.ackTimeoutMs, gen := st'.gen }
        else runReq fuel (updReq st' i fun r => { r with phase := .acked }) i
      | .acked =>
        let st' := release st .T i
        let frag := r.frag + 1
        if frag < r.nfrags then
          runReq fuel (updReq st' i fun r => { r with frag := frag, phase := .sendfrag }) i
        else
          let st' := release st' .M i
          runReq fuel (updReq st' i fun r => { r with frag := frag, phase := .waitRsp, deadline := st'.now + r.timeout }) i
      | .waitAck => st
      | .waitRsp =>
        match r.got with
        | .nothing => st
        | .cancelled => unwind st i .cancelled
        | .rsp =>
          let st' := if r.blocking then release st .B i else st
          finish st' i .ret

/-- run ready tasks until none is runnable -/
def settle : Nat → St → St
  | 0, st => st
  | fuel + 1, st =>
    match st.ready with
    | [] => st
    | i :: rest => settle fuel (runReq 64 { st with ready := rest } i)

/-- enough task runs for the loop to come to rest (`Proofs/HostRest.lean`: every run of a ready task either changes
    nothing or uses up one of the at most six steps a request can take before it blocks, and wakes at most three tasks) -/
def settleFuel (st : St) : Nat := 24 * st.reqs.length + st.ready.length

/-- run the ready tasks until the loop is at rest -/
def settleAll (st : St) : St := settle (settleFuel st) st

inductive Ev where
  | start (id key : Nat) (blocking : Bool) (nfrags timeout : Nat)
  | rxAck (k : Nat)
  | rxRsp (key : Nat)
  | tick
  | cancel (id : Nat)
  | close
  | lost
  | setReset (b : Bool)
  | connect                      -- `ZBOSS.connect()` on the same object after `close()` / a loss: a new protocol object
  deriving Repr

def nextDeadline (st : St) : Option Nat :=
  (st.reqs.filter fun r => r.phase == .waitAck || (r.phase == .waitRsp))
    |>.map (·.deadline) |>.foldl (fun acc d => match acc with | none => some d | some a => some (min a d)) none

def step (st0 : St) (e : Ev) : St :=
  let st := { st0 with out := [] }
  match e with
  | .start id key blocking nfrags timeout =>
    if st.reqs.any (·.id == id) then st else            -- request ids are fresh (task identities)
    if !st.isOpen then emit st (.done id .runtimeError) else
    let st := { st with reqs := st.reqs ++ [{ id, key, blocking, nfrags, timeout }],
                        listeners := st.listeners ++ [(id, key)], ready := st.ready ++ [id] }
    settleAll st
  | .rxAck k =>
    if k = st.pack then
      -- only a sender waiting on *this* connection's protocol object is woken
      let woken := (st.reqs.filter fun r => r.phase == .waitAck && r.gen == st.gen).map (·.id)
      let st := { st with pack := st.pack % 3 + 1,
                          reqs := st.reqs.map fun r => if r.phase == .waitAck && r.gen == st.gen then { r with phase := .acked } else r,
                          ready := st.ready ++ woken }
      settleAll st
    else settleAll st
  | .rxRsp key =>
    let st := if st.transport then emit st .wack else st
    match st.listeners.find? (fun l => l.2 == key) with
    | none => settleAll st
    | some (i, _) =>
      let waiting := (getReq st i).map (·.phase == .waitRsp) |>.getD false
      let st := updReq { st with listeners := st.listeners.filter (·.1 != i) } i fun r => { r with got := .rsp }
      settleAll (if waiting then { st with ready := st.ready ++ [i] } else st)
  | .tick =>
    match nextDeadline st with
    | none => st
    | some d =>
      let st := { st with now := max st.now d }
      -- ACK waits that expired: `send` swallows the TimeoutError and returns
      let expiredAck := (st.reqs.filter fun (r : Req) => r.phase == Phase.waitAck && r.deadline ≤ st.now).map (·.id)
      let st := { st with reqs := st.reqs.map fun (r : Req) =>
                            if r.phase == Phase.waitAck && r.deadline ≤ st.now then { r with phase := Phase.acked } else r,
                          ready := st.ready ++ expiredAck }
      -- response waits that expired raise TimeoutError out of the request
      let expiredRsp := (st.reqs.filter fun (r : Req) => r.phase == Phase.waitRsp && r.deadline ≤ st.now && r.got == Got.nothing).map (·.id)
      let st := expiredRsp.foldl (fun s i => unwind s i .timeoutError) st
      settleAll st
  | .cancel id =>
    match getReq st id with
    | none => st
    | some r => if r.phase == .done then st else settleAll (unwind st id .cancelled)
  | .close =>
    if st.resetting then
      -- listeners are kept while a reset is in progress; only the uart is closed
      let st := if st.isOpen then { (emit st .closeOut) with transport := false, pack := 0, isOpen := false } else st
      settleAll st
    else
      let waiting := (st.listeners.filter fun l => ((getReq st l.1).map (·.phase == .waitRsp)).getD false).map (·.1)
      let ids := st.listeners.map (·.1)
      let st := { st with reqs := st.reqs.map fun r => if ids.contains r.id then { r with got := .cancelled } else r,
                          listeners := [], ready := st.ready ++ waiting }
      let st := if st.isOpen then { (emit st .closeOut) with transport := false, pack := 0, isOpen := false } else st
      settleAll st
  | .lost =>
    let st := { st with isOpen := false }
    let st := if st.resetting then st else emit st .appLost
    settleAll st
  | .setReset b => { st with resetting := b }
  | .connect =>
    -- a fresh protocol object: its numbering starts at 0, nobody waits on it yet
    if st.isOpen then st else { st with isOpen := true, transport := true, pack := 0, gen := st.gen + 1 }

def runEvents (st : St) (evs : List Ev) : St × List (List Out) :=
  evs.foldl (fun acc e => let s := step acc.1 e; (s, acc.2 ++ [s.out])) (st, [])

end Zboss.Host
