import ZbossModel.CStruct
import ZbossModel.OpsCodec
import ZbossModel.Reasm
/-! Line-protocol syntax for C-struct definitions / values and the layout operations. -/
namespace Zboss.OpsCStruct
open Zboss Wire CStruct

/-- `i4` unsigned int, `j1` signed int, `o8` blob, `S(t,t,...)` struct -/
partial def parseTy (cs : List Char) : Option (CTy × List Char) :=
  match cs with
  | 'S' :: '(' :: rest => parseTys rest []
  | c :: rest =>
    if c == 'i' || c == 'j' || c == 'o' then
      let digits := rest.takeWhile Char.isDigit
      let rest' := rest.dropWhile Char.isDigit
      match (String.ofList digits).toNat? with
      | some n => some (if c == 'i' then .int n false else if c == 'j' then .int n true else .blob n, rest')
      | none => none
    else none
  | [] => none
where
  parseTys (cs : List Char) (acc : List CTy) : Option (CTy × List Char) :=
    match cs with
    | ')' :: rest => some (.struct acc.reverse, rest)
    | ',' :: rest => parseTys rest acc
    | _ =>
      match parseTy cs with
      | some (t, rest) => parseTys rest (t :: acc)
      | none => none

/-- `n<int>`, `x<hex>`, `S(v,v,...)` -/
partial def parseV (cs : List Char) : Option (CVal × List Char) :=
  match cs with
  | 'S' :: '(' :: rest => parseVs rest []
  | 'n' :: rest =>
    let tok := rest.takeWhile (fun c => c.isDigit || c == '-')
    (OpsCodec.parseInt (String.ofList tok)).map fun n => (.num n, rest.drop tok.length)
  | 'x' :: rest =>
    let tok := rest.takeWhile (fun c => c.isAlphanum || c == '-')
    (parseHex (String.ofList tok)).map fun b => (.raw b, rest.drop tok.length)
  | _ => none
where
  parseVs (cs : List Char) (acc : List CVal) : Option (CVal × List Char) :=
    match cs with
    | ')' :: rest => some (.struct acc.reverse, rest)
    | ',' :: rest => parseVs rest acc
    | _ =>
      match parseV cs with
      | some (t, rest) => parseVs rest (t :: acc)
      | none => none

partial def showV : CVal → String
  | .num n => s!"n{n}"
  | .raw b => "x" ++ toHex b
  | .struct vs => "S(" ++ ",".intercalate (vs.map showV) ++ ")"

def fieldsOf : CTy → List CTy
  | .struct fs => fs
  | _ => []

def handle : List String → Option String
  | ["clayout", al, ty] => do
    let (t, _) ← parseTy ty.toList
    let a := al == "1"
    pure (s!"{t.size a} {t.align a} " ++ ",".intercalate ((offsets a (fieldsOf t) 0).map toString))
  | ["cenc", al, ty, v] => do
    let (t, _) ← parseTy ty.toList
    let (x, _) ← parseV v.toList
    pure (match encC (al == "1") t x with | some b => "ok " ++ toHex b | none => "refuse")
  | ["cdec", al, ty, d] => do
    let (t, _) ← parseTy ty.toList
    let d ← parseHex d
    match decC (al == "1") t d with
    | .ok (x, rest) => pure ("ok " ++ showV x ++ " rest=" ++ toHex rest)
    | .error e => pure ("err " ++ OpsCodec.showErr e)
  | ["nvaddr", hdr, rec, idx, d] => do
    let hdr ← OpsCodec.parseRec hdr; let rec ← OpsCodec.parseRec rec; let idx ← idx.toNat?; let d ← parseHex d
    match decNwkAddrMap hdr rec idx d with
    | .ok (rs, rest) => pure ("ok " ++ OpsCodec.showVal (some (.rows rs)) ++ " rest=" ++ toHex rest)
    | .error e => pure ("err " ++ OpsCodec.showErr e)
  | ["nvaps", rec, d] => do
    let rec ← OpsCodec.parseRec rec; let d ← parseHex d
    match decApsKeys rec d with
    | .ok (rs, rest) => pure ("ok " ++ OpsCodec.showVal (some (.rows rs)) ++ " rest=" ++ toHex rest)
    | .error e => pure ("err " ++ OpsCodec.showErr e)
  | "rxcmd" :: chunks => do
    let chunks ← chunks.mapM parseHex
    let showD (d : Reasm.Delivery) : String := match d with
      | .command i (.full a) => s!"C{i}=f=" ++ "/".intercalate (a.map OpsCodec.showVal)
      | .command i (.partialCmd a) => s!"C{i}=p=" ++ "/".intercalate (a.map OpsCodec.showVal)
      | .unknown => "U"
      | .raised e => "E" ++ OpsCodec.showErr e
    let step (acc : Rx.RxState × List Frame × List String) (c : Bytes) :=
      let r := Rx.dataReceived (fun _ => false) acc.1 c
      let frames := Rx.deliveredOf r.2
      let q := Reasm.receiveAll acc.2.1 frames
      (r.1, q.1, acc.2.2 ++ [if q.2.isEmpty then "." else "+".intercalate (q.2.map showD)])
    let fin := chunks.foldl step ({}, [], [])
    pure (" ".intercalate fin.2.2 ++ s!" | pending={fin.2.1.length}")
  | _ => none

end Zboss.OpsCStruct
