import ZbossModel.Rx
/-! Model of the transmit side of uart.py (`send`, `_set_frame_flag`, `_ll_checksum`,
    `close`) composed with the receive side, at quiescent points of the event loop:
    one external event is taken when no callback is runnable.  `asyncio.Lock` is a FIFO
    queue of sender ids; the holder is the sender inside `async with self._tx_lock`. -/
namespace Zboss.Link
open Gen Rx

structure Holder where
  id : Nat
  deadline : Nat          -- virtual clock, milliseconds
  deriving Repr, DecidableEq

structure St where
  rx : RxState := {}
  now : Nat := 0
  holder : Option Holder := none        -- the sender awaiting its ACK inside the lock
  queue : List (Nat × Frame) := []      -- senders waiting for `_tx_lock`, oldest first
  deriving Repr

inductive Ev where
  | send (i : Nat) (f : Frame)          -- a task calls `await uart.send(frame)`
  | rx (data : Bytes)                   -- `data_received(data)`
  | tick                                -- the clock jumps to the next timer (the holder's ACK timeout)
  | cancel (i : Nat)                    -- the sender task `i` is cancelled
  | close                               -- `uart.close()`
  | reconnect                           -- `connection_made(transport)` after a close
  deriving Repr

inductive Out where
  | wire (b : Bytes)                    -- bytes written to the transport (data frame or ACK)
  | wrote (i : Nat) (seq : Nat)         -- annotation: the preceding write is sender `i`'s frame stamped `seq`
  | deliver (f : Frame)
  | done (i : Nat)                      -- `send` returned
  | cancelled (i : Nat)
  deriving Repr, DecidableEq

/-- give the lock to waiting senders until one of them has to wait for an ACK -/
def grant (st : St) : List (Nat × Frame) → St × List Out
  | [] => ({ st with queue := [] }, [])
  | (i, f) :: rest =>
    if st.rx.transport then
      -- `_ack_received_event = Event()`; stamp, checksum, write, wait under `timeout(ACK_TIMEOUT)`
      let wireB := (Frame.stamp st.rx.packSeq f).serialize
      ({ st with rx := { st.rx with hasEvent := true, eventSet := false },
                 holder := some ⟨i, st.now + Gen.ackTimeoutMs⟩, queue := rest },
       [.wire wireB, .wrote i st.rx.packSeq])
    else
      -- no transport: `send` falls through and releases the lock at once
      let r := grant st rest
      (r.1, .done i :: r.2)

/-- the holder leaves the `async with` block: lock released, next waiter served -/
def release (st : St) : St × List Out := grant { st with holder := none } st.queue

def rxOuts (l : List Rx.Out) : List Out :=
  l.map fun o => match o with | .write b => .wire b | .deliver f => .deliver f

def step (st : St) : Ev → St × List Out
  | .send i f =>
    match st.holder with
    | some _ => ({ st with queue := st.queue ++ [(i, f)] }, [])
    | none => grant st (st.queue ++ [(i, f)])
  | .rx data =>
    let r := dataReceived (fun _ => false) st.rx data
    let st1 := { st with rx := r.1 }
    match st.holder with
    | some h =>
      if r.1.eventSet then
        let q := release st1
        (q.1, rxOuts r.2 ++ .done h.id :: q.2)
      else (st1, rxOuts r.2)
    | none => (st1, rxOuts r.2)
  | .tick =>
    match st.holder with
    | some h =>
      let q := release { st with now := max st.now h.deadline }
      (q.1, .done h.id :: q.2)           -- `TimeoutError` is caught inside `send`
    | none => (st, [])
  | .cancel i =>
    match st.holder with
    | some h =>
      if h.id = i then
        let q := release st
        (q.1, .cancelled i :: q.2)
      else if st.queue.any (·.1 = i) then
        ({ st with queue := st.queue.filter (·.1 ≠ i) }, [.cancelled i])
      else (st, [])
    | none => (st, [])
  | .close =>
    -- buffer cleared, both sequence numbers reset, transport dropped; a holder keeps waiting for its timeout
    ({ st with rx := { st.rx with buf := [], packSeq := 0, ackSeq := 0, transport := false } }, [])
  | .reconnect => ({ st with rx := { st.rx with transport := true } }, [])

def runEvents (st : St) (evs : List Ev) : St × List (List Out) :=
  evs.foldl (fun acc e => let r := step acc.1 e; (r.1, acc.2 ++ [r.2])) (st, [])

end Zboss.Link
