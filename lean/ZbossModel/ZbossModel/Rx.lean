import ZbossModel.Frame
import ZbossModel.Scanner
/-! Model of the receive path of uart.py: `_extract_frame`, `_extract_frames`,
    `data_received` (after the D1-D5, D7 repairs). -/
namespace Zboss.Rx
open Gen

/-- Python `bytearray.find(sig, start)` for the two-byte signature -/
def findSig : Bytes → Nat → Option Nat
  | x :: y :: t, i => if x == 0xDE && y == 0xAD then some i else findSig (y :: t) (i + 1)
  | _, _ => none

/-- the `except ValueError` branch of `_extract_frames`, as written -/
def resyncPy (b : Bytes) : Bytes :=
  match findSig b.tail 1 with
  | some i => b.drop i
  | none =>
    let keep := if b.tail.getLast? = some 0xDE then 1 else 0   -- `buffer[1:].endswith(signature[:1])`
    b.drop (b.length - keep)

/-- `_extract_frame` -/
def tryFrame (buf : Bytes) : Try Frame :=
  if buf.length < 7 then .short
  else if buf.take 2 ≠ toLE 2 Gen.signature then .invalid
  else if (buf.getD 4 0).toNat ≠ Gen.typeHL then .invalid
  else if (Crc.crc8B (slice buf 2 6)).toNat ≠ (buf.getD 6 0).toNat then .invalid
  else
    let length := fromLE (slice buf 2 4)
    if length < 5 then .invalid
    else if buf.length < length + 2 then .short
    else
      match Frame.deserialize buf with
      | .error .keyError => .raised                     -- not a ValueError: would propagate
      | .error _ => .invalid
      | .ok (f, rest) =>
        let flags := LL.flags f.ll
        if Frame.hasFlag flags (Gen.flagisACK ||| Gen.flagFirstFrag) then .ok f (buf.length - rest.length)
        else
          -- continuation fragment: verify and strip its own body checksum
          match f.hl with
          | none => .ok f (buf.length - rest.length)
          | some p =>
            if p.data.length < 2 then .invalid            -- `uint16_t.deserialize` raises ValueError
            else if fromLE (p.data.take 2) ≠ Crc.crc16B (p.data.drop 2) then .invalid
            else .ok ⟨f.ll, some ⟨none, p.data.drop 2⟩⟩ (buf.length - rest.length)

/-- link-level receiver/transmitter state that `data_received` reads and writes -/
structure RxState where
  buf : Bytes := []
  packSeq : Nat := 0          -- `_pack_seq`
  ackSeq : Nat := 0           -- `_ack_seq`
  transport : Bool := true    -- `_transport is not None`
  hasEvent : Bool := false    -- `_ack_received_event is not None`
  eventSet : Bool := false
  deriving Repr, DecidableEq

inductive Out where
  | write (b : Bytes)         -- `transport.write`
  | deliver (f : Frame)       -- `api.frame_received(frame)`
  deriving Repr, DecidableEq

/-- body of the `for frame in self._extract_frames()` loop.
    `handlerRaises f` tells whether the upper layer raises on `f` (it is caught and logged). -/
def handleFrame (handlerRaises : Frame → Bool) (st : RxState) (f : Frame) : RxState × List Out :=
  let flags := LL.flags f.ll
  if Frame.hasFlag flags Gen.flagisACK then
    let ackSeq := (flags &&& Gen.flagACKSeq) >>> 4
    if ackSeq = st.packSeq then
      ({ st with packSeq := st.packSeq % 3 + 1, eventSet := st.eventSet || st.hasEvent }, [])
    else (st, [])
  else
    let seq := (flags &&& Gen.flagPacketSeq) >>> 2
    let st' := { st with ackSeq := seq }
    let w := if st.transport then [Out.write (Frame.ack seq false).serialize] else []
    match f.hl with
    | none => (st', w)
    | some _ =>
      -- `try: api.frame_received(frame) except Exception: log` - the outcome does not depend on the handler
      if handlerRaises f then (st', w ++ [Out.deliver f]) else (st', w ++ [Out.deliver f])

/-- `data_received(data)` -/
def dataReceived (handlerRaises : Frame → Bool) (st : RxState) (data : Bytes) : RxState × List Out :=
  let r := runWith resyncPy tryFrame (st.buf ++ data)
  let init : RxState × List Out := ({ st with buf := r.2 }, [])
  r.1.foldl (fun acc f => let s := handleFrame handlerRaises acc.1 f; (s.1, acc.2 ++ s.2)) init

end Zboss.Rx

namespace Zboss.Rx
open Gen

/-- a receive session: the chunks are handed to `data_received` one after the other; the log is everything
    written to the transport and handed to the upper layer, in order -/
def session (handlerRaises : Frame → Bool) (st : RxState) (chunks : List Bytes) : RxState × List Out :=
  chunks.foldl (fun acc c => let r := dataReceived handlerRaises acc.1 c; (r.1, acc.2 ++ r.2)) (st, [])

def isAck (f : Frame) : Bool := Frame.hasFlag (LL.flags f.ll) Gen.flagisACK

/-- packet sequence number carried by a data frame -/
def seqOf (f : Frame) : Nat := (LL.flags f.ll &&& Gen.flagPacketSeq) >>> 2

/-- what the receiver does for one accepted frame, as a function of the frame alone:
    nothing visible for an ACK; for a data frame first the acknowledgement carrying the frame's own
    sequence number, then the hand-up -/
def outsOf (transport : Bool) (f : Frame) : List Out :=
  if isAck f then []
  else (if transport then [Out.write (Frame.ack (seqOf f) false).serialize] else []) ++
    (match f.hl with | none => [] | some _ => [Out.deliver f])

/-- frames handed to the upper layer -/
def deliveredOf (log : List Out) : List Frame :=
  log.filterMap fun o => match o with | .deliver f => some f | .write _ => none

end Zboss.Rx
