import ZbossModel.Proofs.Link
import ZbossModel.Props.C05
import ZbossModel.Generated.Exprs
/-! # C08 - packet sequence numbers advance 0,1,2,3,1,2,3.. exactly on matching ACKs

`Link.step` is the model of the link (send / data_received / ACK-wait expiry / cancel / close /
reconnect) at quiescent points; `ackStep` is the effect of one accepted frame on the number. -/
namespace Zboss.Link
open Gen Rx

/-- **the automaton**: an accepted acknowledgement carrying the current number steps `n ↦ n % 3 + 1`
    (0 → 1 → 2 → 3 → 1 …); any other accepted frame - an ACK with another number, a data frame -
    leaves it unchanged -/
theorem C08_ack_step (he : Bool) (n : Nat) (ev : Bool) (f : Frame) :
    (ackStep he (n, ev) f).1 = (if isAck f ∧ ackSeqOf f = n then n % 3 + 1 else n) := by
  unfold ackStep; split <;> rfl

/-- **every event**: the number after an event is the fold of `ackStep` over the frames accepted from the
    received bytes, 0 after `close`, and unchanged by send, expiry of the ACK wait, cancellation, reconnect -/
theorem C08_seq_step (st : St) (e : Ev) :
    (step st e).1.rx.packSeq =
      match e with
      | .rx data => ((run tryFrame (st.rx.buf ++ data)).1.foldl (ackStep st.rx.hasEvent)
                      (st.rx.packSeq, st.rx.eventSet)).1
      | .close => 0
      | _ => st.rx.packSeq := by
  cases e with
  | send i f =>
    simp only [step]
    cases st.holder with
    | some h => rfl
    | none => exact (grant_seq st _).1
  | rx data =>
    have hs := dataReceived_seq (fun _ => false) st.rx data
    have h1 : (dataReceived (fun _ => false) st.rx data).1.packSeq =
        ((run tryFrame (st.rx.buf ++ data)).1.foldl (ackStep st.rx.hasEvent) (st.rx.packSeq, st.rx.eventSet)).1 :=
      congrArg Prod.fst hs
    simp only [step]
    cases st.holder with
    | none => exact h1
    | some h =>
      simp only []
      split
      · simp only [release]; rw [(grant_seq _ _).1]; exact h1
      · exact h1
  | tick =>
    simp only [step]
    cases st.holder with
    | none => rfl
    | some h => simp only [release]; rw [(grant_seq _ _).1]
  | cancel i =>
    simp only [step]
    cases st.holder with
    | none => rfl
    | some h =>
      simp only []
      split
      · simp only [release]; rw [(grant_seq _ _).1]
      · split <;> rfl
  | close => rfl
  | reconnect => rfl

/-- incoming data frames (no ACK among the accepted frames) never move the number -/
theorem C08_data_frames_dont_move (st : St) (data : Bytes)
    (h : ∀ f ∈ (run tryFrame (st.rx.buf ++ data)).1, isAck f = false) :
    (step st (.rx data)).1.rx.packSeq = st.rx.packSeq := by
  rw [C08_seq_step]
  simp only []
  rw [fold_ackStep_noack _ _ _ h]

/-- **range**: from a fresh protocol object, after any event history the number is one of 0,1,2,3 -/
theorem C08_range (evs : List Ev) : (runEvents {} evs).1.rx.packSeq ≤ 3 := by
  suffices h : ∀ (st : St) (log : List (List Out)), st.rx.packSeq ≤ 3 →
      (evs.foldl (fun acc e => let r := step acc.1 e; (r.1, acc.2 ++ [r.2])) (st, log)).1.rx.packSeq ≤ 3 by
    exact h {} [] (by decide)
  induction evs with
  | nil => intro st log h; exact h
  | cons e es ih =>
    intro st log h
    simp only [List.foldl_cons]
    apply ih
    rw [C08_seq_step]
    cases e with
    | rx data => exact fold_ackStep_range _ _ _ h
    | close => simp
    | send i f => exact h
    | tick => exact h
    | cancel i => exact h
    | reconnect => exact h

/-- it is 0 only until the first matching acknowledgement: once non-zero, an accepted frame keeps it non-zero -/
theorem C08_zero_only_initially (he : Bool) (s : Nat × Bool) (f : Frame) (h3 : s.1 ≤ 3) (h1 : 1 ≤ s.1) :
    1 ≤ (ackStep he s f).1 := by
  have := (ackStep_range he s f h3).2; omega

/-- **stamping**: a frame that goes out on an idle, connected link is written as `stamp (current number)`,
    i.e. (C05_frame_wf) flags = original | seq<<2 with a header checksum valid for the stamped flags -/
theorem C08_stamp (st : St) (i : Nat) (f : Frame) (hidle : st.holder = none) (hq : st.queue = [])
    (ht : st.rx.transport = true) :
    (step st (.send i f)).2 = [.wire (Frame.stamp st.rx.packSeq f).serialize, .wrote i st.rx.packSeq] := by
  simp only [step, hidle, hq, List.nil_append]
  exact ((grant_shape st [(i, f)]).1 ht i f [] rfl).1

theorem C08_stamp_bytes (fl seq n : Nat) (p : HLPacket) (hn : n = p.serialize.length + 5) (hlen : n ≤ 65535) :
    ((Frame.stamp seq (Frame.mkData fl p n)).serialize.take 7) =
      [0xDE, 0xAD] ++ toLE 2 n ++
        [6, UInt8.ofNat (wireFlags fl seq), Crc.crc8B (toLE 2 n ++ [6, UInt8.ofNat (wireFlags fl seq)])] := by
  rw [(C05_frame_wf fl seq n p hn hlen).1]
  simp [toLE]

/-! ## non-vacuity: the cycle 0 → 1 → 2 → 3 → 1 on four matching ACKs (bytes of `Frame.ack k`) -/
example : (runEvents {} [.rx (Frame.ack 0 false).serialize, .rx (Frame.ack 1 false).serialize,
    .rx (Frame.ack 2 false).serialize, .rx (Frame.ack 2 false).serialize, .rx (Frame.ack 3 false).serialize]).1.rx.packSeq = 1 := by
  decide +kernel

/-- **source tie (translator 4)**: the expression `data_received` assigns to the sequence number on a matching
    ACK, the shift `_set_frame_flag` applies to it and the way the ACK's number is taken out of the flags - all
    translated from the Python ast on every run - are the model's, for every argument -/
theorem C08_source_exprs (s flags : Nat) (hs : s < 4) (hf : flags < 256) :
    Gen.nextPackSeqExpr s = ((s % 3 + 1 : Nat) : Int) ∧
    Gen.stampSeqExpr s = s <<< 2 ∧
    Gen.ackSeqOfFlagsExpr flags = (flags &&& Gen.flagACKSeq) >>> 4 := by
  -- sequence numbers are two bits, flags one byte: decided over the whole domain, so that any equivalent way of
  -- writing the shift / mask expressions in the source still checks
  have h1 : ∀ s, s < 4 → Gen.stampSeqExpr s = s <<< 2 := by decide +kernel
  have h2 : ∀ f, f < 256 → Gen.ackSeqOfFlagsExpr f = (f &&& Gen.flagACKSeq) >>> 4 := by decide +kernel
  refine ⟨?_, h1 s hs, h2 flags hf⟩
  unfold Gen.nextPackSeqExpr; omega

end Zboss.Link
