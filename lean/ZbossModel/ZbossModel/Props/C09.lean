import ZbossModel.Proofs.Frag
import ZbossModel.Props.C05
import ZbossModel.Generated.Exprs
/-! # C09 - outgoing fragmentation partitions any message exactly, within the size limit

`Frag.fragments (Frag.whole p) p` is the model of `to_frame().handle_tx_fragmentation()`
for the packet `p` (command header + parameter bytes).  All statements are for every
header and every payload of any length. -/
namespace Zboss.Frag
open Gen

/-- the size limit is the protocol's 247 bytes (regenerated constant) -/
theorem C09_body_max : Gen.bodyMax = 247 := rfl

/-- a message whose body fits is sent as one frame carrying both flags -/
theorem C09_single (p : HLPacket) (hfit : p.body.length ≤ Gen.bodyMax) :
    fragments (whole p) p = [whole p] ∧ LL.flags (whole p).ll = 0xC0 := by
  constructor
  · unfold fragments count ceilDiv
    have : (p.body.length + Gen.bodyMax - 1) / Gen.bodyMax ≤ 1 := by
      simp only [bodyMax_eq] at *; omega
    simp [this]
  · simp [whole, Frame.mkData]; decide

theorem body_some (h : HLH) (hh : h ≠ 0#32) (data : Bytes) :
    (HLPacket.mk (some h) data).body = HLH.bytes h ++ data := by simp [HLPacket.body, hh]

theorem firstFrag_facts (h : HLH) (hh : h ≠ 0#32) (data : Bytes) (first : Nat) (h4 : 4 ≤ first) (h247 : first ≤ 247)
    (hd : first ≤ 4 + data.length) :
    bodyOf (firstFrag ⟨some h, data⟩ first) = (HLH.bytes h ++ data).take first ∧
    LL.size (firstFrag ⟨some h, data⟩ first).ll = first + 7 ∧
    (firstFrag ⟨some h, data⟩ first).serialize.length = first + 9 ∧
    LL.flags (firstFrag ⟨some h, data⟩ first).ll = 0x40 := by
  have hbl := HLH.bytes_length h
  refine ⟨?_, ?_, ?_, ?_⟩
  · simp only [bodyOf, firstFrag, Frame.mkData, HLPacket.body, hh, if_false]
    rw [List.take_append, hbl, List.take_of_length_le (l := HLH.bytes h) (by omega)]
  · simp [firstFrag, Frame.mkData, LL.base]; omega
  · simp [firstFrag, Frame.mkData, Frame.serialize, LL.bytes_length, HLPacket.serialize, HLPacket.body, hh, hbl]
    omega
  · simp [firstFrag, Frame.mkData]; decide

theorem midFrag_facts (ser : Bytes) (idx : Nat) (hwin : idx + 247 ≤ ser.length) :
    bodyOf (midFrag ser idx) = slice ser idx (idx + 247) ∧
    (slice ser idx (idx + 247)).length = 247 ∧
    LL.size (midFrag ser idx).ll = 254 ∧
    (midFrag ser idx).serialize.length = 256 ∧
    LL.flags (midFrag ser idx).ll = 0 := by
  have hlen : (slice ser idx (idx + 247)).length = 247 := slice_length ser idx 247 hwin
  refine ⟨by simp [bodyOf, midFrag, HLPacket.body, bodyMax_eq], hlen, by simp [midFrag, LL.base, bodyMax_eq], ?_, ?_⟩
  · simp [midFrag, Frame.serialize, LL.bytes_length, HLPacket.serialize, HLPacket.body, bodyMax_eq, hlen]
  · simp [midFrag, LL.base]
    exact LL.zero_fields.2.2.2.1

theorem lastFrag_facts (tail : Bytes) (hl : tail.length ≤ 247) :
    bodyOf (lastFrag tail) = tail ∧ LL.size (lastFrag tail).ll = tail.length + 7 ∧
    (lastFrag tail).serialize.length = tail.length + 9 ∧ LL.flags (lastFrag tail).ll = 0x80 := by
  refine ⟨by simp [bodyOf, lastFrag, Frame.mkData, HLPacket.body], ?_, ?_, ?_⟩
  · simp [lastFrag, Frame.mkData, LL.base]; omega
  · simp [lastFrag, Frame.mkData, Frame.serialize, LL.bytes_length, HLPacket.serialize, HLPacket.body]; omega
  · simp [lastFrag, Frame.mkData]; decide

/-- **partition**: a message that does not fit is sent as first :: middles ++ [last]; the bodies concatenate
    to the message byte for byte, every body is non-empty and at most 247 bytes, every length field is the
    real size, exactly the first fragment is flagged first and exactly the last is flagged last -/
theorem C09_partition (h : HLH) (hh : h ≠ 0#32) (data : Bytes)
    (hbig : Gen.bodyMax < (HLPacket.mk (some h) data).body.length) :
    ∃ (first last : Frame) (mids : List Frame),
      fragments (whole ⟨some h, data⟩) ⟨some h, data⟩ = first :: (mids ++ [last]) ∧
      ((fragments (whole ⟨some h, data⟩) ⟨some h, data⟩).map bodyOf).flatten = (HLPacket.mk (some h) data).body ∧
      (∀ f ∈ fragments (whole ⟨some h, data⟩) ⟨some h, data⟩,
          0 < (bodyOf f).length ∧ (bodyOf f).length ≤ 247 ∧ LL.size f.ll = (bodyOf f).length + 7 ∧
          f.serialize.length = LL.size f.ll + 2) ∧
      LL.flags first.ll = 0x40 ∧ LL.flags last.ll = 0x80 ∧ (∀ m ∈ mids, LL.flags m.ll = 0) ∧
      mids.length + 2 = count ⟨some h, data⟩ := by
  have hbody : (HLPacket.mk (some h) data).body = HLH.bytes h ++ data := body_some h hh data
  have hbl := HLH.bytes_length h
  rw [hbody] at hbig ⊢
  generalize hser : HLH.bytes h ++ data = ser at *
  have hsl : ser.length = 4 + data.length := by rw [← hser]; simp [hbl]
  obtain ⟨n, hn⟩ : ∃ n, count ⟨some h, data⟩ = n + 2 := by
    refine ⟨count ⟨some h, data⟩ - 2, ?_⟩
    unfold count ceilDiv
    rw [hbody]
    simp only [bodyMax_eq] at *
    omega
  have hc : ceilDiv ser.length Gen.bodyMax = n + 2 := by rw [← hn]; unfold count; rw [hbody]
  obtain ⟨f4, f247, hidx, hlo, hhi⟩ := idx_facts ser.length n hc
  rw [fragments_eq_nf _ _ n hn]
  unfold fragmentsNF
  simp only [hbody]
  generalize hfirst : firstSize ser.length = first at *
  have hlastIdx : first + Gen.bodyMax * (nIdx ser.length - 1) = first + 247 * n := by
    rw [hidx, bodyMax_eq]; simp
  rw [hlastIdx]
  obtain ⟨a1, a2, a3, a4⟩ := firstFrag_facts h hh data first f4 f247 (by omega)
  rw [hser] at a1
  have hmid : ∀ j, j < n → first + Gen.bodyMax * j + 247 ≤ ser.length := by
    intro j hj
    have := Nat.mul_le_mul_left 247 (show j + 1 ≤ n by omega)
    rw [bodyMax_eq]; omega
  have hlastlen : (ser.drop (first + 247 * n)).length = ser.length - (first + 247 * n) := by simp
  obtain ⟨c1, c2, c3, c4⟩ := lastFrag_facts (ser.drop (first + 247 * n)) (by omega)
  refine ⟨firstFrag ⟨some h, data⟩ first, lastFrag (ser.drop (first + 247 * n)),
    (List.range n).map (fun j => midFrag ser (first + Gen.bodyMax * j)), rfl, ?_, ?_, a4, c4, ?_, ?_⟩
  · -- concatenation
    simp only [List.map_cons, List.map_append, List.map_map, List.map_nil, List.flatten_cons,
      List.flatten_append, List.flatten_nil, List.append_nil]
    rw [a1, c1]
    have hm : (List.map (bodyOf ∘ fun j => midFrag ser (first + Gen.bodyMax * j)) (List.range n)) =
        (List.range n).map fun j => slice ser (first + 247 * j) (first + 247 * j + 247) := by
      apply List.map_congr_left; intro j hj
      have hj' : j < n := by simpa using hj
      have := (midFrag_facts ser (first + Gen.bodyMax * j) (hmid j hj')).1
      simpa [bodyMax_eq] using this
    rw [hm, windows_append_drop ser first 247 n (by omega), List.take_append_drop]
  · -- sizes and length fields
    intro f hf
    simp only [List.mem_cons, List.mem_append, List.mem_map, List.mem_range,
      List.not_mem_nil, or_false] at hf
    rcases hf with hf | ⟨j, hj, hf⟩ | hf
    · subst hf
      have hlen : (ser.take first).length = first := by simp; omega
      rw [a1, hlen, a2, a3]; omega
    · subst hf
      obtain ⟨b1, b2, b3, b4, _⟩ := midFrag_facts ser (first + Gen.bodyMax * j) (hmid j hj)
      rw [b1, b2, b3, b4]; omega
    · subst hf
      rw [c1, c2, c3, hlastlen]; omega
  · intro m hm
    simp only [List.mem_map, List.mem_range] at hm
    obtain ⟨j, hj, rfl⟩ := hm
    exact (midFrag_facts ser (first + Gen.bodyMax * j) (hmid j hj)).2.2.2.2
  · simp [hn]

/-- stamping a middle fragment (built without `with_flags`) is stamping the same frame with flags 0 -/
theorem stamp_mid (seq : Nat) (ser : Bytes) (idx : Nat) :
    Frame.stamp seq (midFrag ser idx) =
      Frame.stamp seq (Frame.mkData 0 ⟨none, slice ser idx (idx + Gen.bodyMax)⟩ (Gen.bodyMax + 7)) := by
  have hz : LL.flags (LL.base (Gen.bodyMax + 7)) = 0 := by
    simp [LL.base]; exact LL.zero_fields.2.2.2.1
  simp only [Frame.stamp, midFrag, Frame.mkData, hz, LL.flags_withFlags, Nat.zero_mod]
  congr 2

/-! ## non-vacuity; the instance at body length 248 is the case that failed on the pinned tree
    (D6, DESIGN.md section 6) -/
example : ∃ data : Bytes, Gen.bodyMax < (HLPacket.mk (some 0x00020000#32) data).body.length ∧
    (HLPacket.mk (some 0x00020000#32) data).body.length = 248 ∧ (0x00020000#32 : HLH) ≠ 0#32 := by
  refine ⟨List.replicate 244 7, ?_, ?_, by decide⟩ <;>
    rw [body_some _ (by decide), List.length_append, HLH.bytes_length, List.length_replicate]
  rw [bodyMax_eq]; omega

/-- **source tie (translator 4)**: the expressions `count_fragments` and `handle_tx_fragmentation` evaluate in the
    working tree - translated from the Python ast on every run - are the model's, for every body length -/
theorem C09_source_exprs (n : Nat) :
    Gen.countFragmentsExpr n = ((ceilDiv n Gen.bodyMax : Nat) : Int) ∧
    Gen.firstFragSizeExpr n = ((firstSize n : Nat) : Int) := by
  constructor
  · unfold Gen.countFragmentsExpr ceilDiv Gen.bodyMax; omega
  · unfold Gen.firstFragSizeExpr firstSize Gen.pyOr Gen.bodyMax
    by_cases h : n % 247 = 0
    · have h' : ¬ ((n : Int) % 247 ≠ 0) := by omega
      rw [if_neg h', if_pos h]; omega
    · have h' : ((n : Int) % 247 ≠ 0) := by omega
      rw [if_pos h', if_neg h]; omega

end Zboss.Frag
