import ZbossModel.Proofs.Header
/-! # C05 - every frame the host builds is well-formed and decodes back to itself

Part 1: get/set laws of the bit-field code generated from frames.py /
types/commands.py ("changing one header field never alters another"), for every
56-bit (32-bit) header value and every argument.
Part 2: byte image of the frames the host builds (`to_frame`, fragments, ACKs,
after `_set_frame_flag` + `_ll_checksum`), an independent reference decoder, and
the library's own decoder. -/
namespace Zboss
open Gen

/-! ## Part 1: 25 + 9 get/set laws -/
namespace Gen
theorem C05_LLHeader_signature_with_signature (h v : BitVec 56) :
    LLHeader.signature (LLHeader.with_signature h v) = v &&& 0xFFFF#56 := LLHeader.signature_with_signature h v
theorem C05_LLHeader_signature_with_size (h v : BitVec 56) :
    LLHeader.signature (LLHeader.with_size h v) = LLHeader.signature h := LLHeader.signature_with_size h v
theorem C05_LLHeader_signature_with_type (h v : BitVec 56) :
    LLHeader.signature (LLHeader.with_type h v) = LLHeader.signature h := LLHeader.signature_with_type h v
theorem C05_LLHeader_signature_with_flags (h v : BitVec 56) :
    LLHeader.signature (LLHeader.with_flags h v) = LLHeader.signature h := LLHeader.signature_with_flags h v
theorem C05_LLHeader_signature_with_crc8 (h v : BitVec 56) :
    LLHeader.signature (LLHeader.with_crc8 h v) = LLHeader.signature h := LLHeader.signature_with_crc8 h v
theorem C05_LLHeader_size_with_signature (h v : BitVec 56) :
    LLHeader.size (LLHeader.with_signature h v) = LLHeader.size h := LLHeader.size_with_signature h v
theorem C05_LLHeader_size_with_size (h v : BitVec 56) :
    LLHeader.size (LLHeader.with_size h v) = v &&& 0xFFFF#56 := LLHeader.size_with_size h v
theorem C05_LLHeader_size_with_type (h v : BitVec 56) :
    LLHeader.size (LLHeader.with_type h v) = LLHeader.size h := LLHeader.size_with_type h v
theorem C05_LLHeader_size_with_flags (h v : BitVec 56) :
    LLHeader.size (LLHeader.with_flags h v) = LLHeader.size h := LLHeader.size_with_flags h v
theorem C05_LLHeader_size_with_crc8 (h v : BitVec 56) :
    LLHeader.size (LLHeader.with_crc8 h v) = LLHeader.size h := LLHeader.size_with_crc8 h v
theorem C05_LLHeader_frame_type_with_signature (h v : BitVec 56) :
    LLHeader.frame_type (LLHeader.with_signature h v) = LLHeader.frame_type h := LLHeader.frame_type_with_signature h v
theorem C05_LLHeader_frame_type_with_size (h v : BitVec 56) :
    LLHeader.frame_type (LLHeader.with_size h v) = LLHeader.frame_type h := LLHeader.frame_type_with_size h v
theorem C05_LLHeader_frame_type_with_type (h v : BitVec 56) :
    LLHeader.frame_type (LLHeader.with_type h v) = v &&& 0xFF#56 := LLHeader.frame_type_with_type h v
theorem C05_LLHeader_frame_type_with_flags (h v : BitVec 56) :
    LLHeader.frame_type (LLHeader.with_flags h v) = LLHeader.frame_type h := LLHeader.frame_type_with_flags h v
theorem C05_LLHeader_frame_type_with_crc8 (h v : BitVec 56) :
    LLHeader.frame_type (LLHeader.with_crc8 h v) = LLHeader.frame_type h := LLHeader.frame_type_with_crc8 h v
theorem C05_LLHeader_flags_with_signature (h v : BitVec 56) :
    LLHeader.flags (LLHeader.with_signature h v) = LLHeader.flags h := LLHeader.flags_with_signature h v
theorem C05_LLHeader_flags_with_size (h v : BitVec 56) :
    LLHeader.flags (LLHeader.with_size h v) = LLHeader.flags h := LLHeader.flags_with_size h v
theorem C05_LLHeader_flags_with_type (h v : BitVec 56) :
    LLHeader.flags (LLHeader.with_type h v) = LLHeader.flags h := LLHeader.flags_with_type h v
theorem C05_LLHeader_flags_with_flags (h v : BitVec 56) :
    LLHeader.flags (LLHeader.with_flags h v) = v &&& 0xFF#56 := LLHeader.flags_with_flags h v
theorem C05_LLHeader_flags_with_crc8 (h v : BitVec 56) :
    LLHeader.flags (LLHeader.with_crc8 h v) = LLHeader.flags h := LLHeader.flags_with_crc8 h v
theorem C05_LLHeader_crc8_with_signature (h v : BitVec 56) :
    LLHeader.crc8 (LLHeader.with_signature h v) = LLHeader.crc8 h := LLHeader.crc8_with_signature h v
theorem C05_LLHeader_crc8_with_size (h v : BitVec 56) :
    LLHeader.crc8 (LLHeader.with_size h v) = LLHeader.crc8 h := LLHeader.crc8_with_size h v
theorem C05_LLHeader_crc8_with_type (h v : BitVec 56) :
    LLHeader.crc8 (LLHeader.with_type h v) = LLHeader.crc8 h := LLHeader.crc8_with_type h v
theorem C05_LLHeader_crc8_with_flags (h v : BitVec 56) :
    LLHeader.crc8 (LLHeader.with_flags h v) = LLHeader.crc8 h := LLHeader.crc8_with_flags h v
theorem C05_LLHeader_crc8_with_crc8 (h v : BitVec 56) :
    LLHeader.crc8 (LLHeader.with_crc8 h v) = v &&& 0xFF#56 := LLHeader.crc8_with_crc8 h v
theorem C05_HLHeader_version_with_version (h v : BitVec 32) :
    HLHeader.version (HLHeader.with_version h v) = v &&& 0xFF#32 := HLHeader.version_with_version h v
theorem C05_HLHeader_version_with_type (h v : BitVec 32) :
    HLHeader.version (HLHeader.with_type h v) = HLHeader.version h := HLHeader.version_with_type h v
theorem C05_HLHeader_version_with_id (h v : BitVec 32) :
    HLHeader.version (HLHeader.with_id h v) = HLHeader.version h := HLHeader.version_with_id h v
theorem C05_HLHeader_control_type_with_version (h v : BitVec 32) :
    HLHeader.control_type (HLHeader.with_version h v) = HLHeader.control_type h := HLHeader.control_type_with_version h v
theorem C05_HLHeader_control_type_with_type (h v : BitVec 32) :
    HLHeader.control_type (HLHeader.with_type h v) = v &&& 0xFF#32 := HLHeader.control_type_with_type h v
theorem C05_HLHeader_control_type_with_id (h v : BitVec 32) :
    HLHeader.control_type (HLHeader.with_id h v) = HLHeader.control_type h := HLHeader.control_type_with_id h v
theorem C05_HLHeader_id_with_version (h v : BitVec 32) :
    HLHeader.id (HLHeader.with_version h v) = HLHeader.id h := HLHeader.id_with_version h v
theorem C05_HLHeader_id_with_type (h v : BitVec 32) :
    HLHeader.id (HLHeader.with_type h v) = HLHeader.id h := HLHeader.id_with_type h v
theorem C05_HLHeader_id_with_id (h v : BitVec 32) :
    HLHeader.id (HLHeader.with_id h v) = v &&& 0xFFFF#32 := HLHeader.id_with_id h v

/-- every getter's value fits the integer type the Python accessor wraps it in -/
theorem LLHeader.getters_fit (h : BitVec 56) :
    (LLHeader.signature h).toNat < 2 ^ LLHeader.signature_bits ∧
    (LLHeader.size h).toNat < 2 ^ LLHeader.size_bits ∧
    (LLHeader.frame_type h).toNat < 2 ^ LLHeader.frame_type_bits ∧
    (LLHeader.flags h).toNat < 2 ^ LLHeader.flags_bits ∧
    (LLHeader.crc8 h).toNat < 2 ^ LLHeader.crc8_bits := by
  have h1 := LL.sig_eq h; have h2 := LL.size_eq h; have h3 := LL.ftype_eq h
  have h4 := LL.flags_eq h; have h5 := LL.crc_eq h
  simp only [LL.sig, LL.size, LL.ftype, LL.flags, LL.crc] at h1 h2 h3 h4 h5
  have := h.isLt
  simp only [LLHeader.signature_bits, LLHeader.size_bits, LLHeader.frame_type_bits, LLHeader.flags_bits,
    LLHeader.crc8_bits]
  omega

end Gen

/-! ## Part 2: frames on the wire -/

/-- flags byte on the wire: the frame's own flags or-ed with the packet sequence number in bits 2..3 -/
def wireFlags (fl seq : Nat) : Nat := ((seq <<< 2) ||| (fl % 256)) % 256

theorem sigBytes : toLE 2 (Gen.signature % 65536) = [0xDE, 0xAD] := by decide
theorem typeByte : Gen.typeHL % 256 = 6 := by decide

/-- fields of a header built by the host and stamped by the transmitter -/
theorem stamped_fields (fl seq n : Nat) (hlen : n ≤ 65535) :
    let h := LL.sealed (LL.withFlags (LL.withFlags (LL.base n) fl) ((seq <<< 2) ||| LL.flags (LL.withFlags (LL.base n) fl)))
    LL.sig h = Gen.signature % 65536 ∧ LL.size h = n ∧ LL.ftype h = 6 ∧ LL.flags h = wireFlags fl seq ∧
    LL.crc h = (Crc.crc8B (toLE 2 n ++ [6, UInt8.ofNat (wireFlags fl seq)])).toNat := by
  have hn : n % 65536 = n := Nat.mod_eq_of_lt (by omega)
  simp only [LL.sealed, LL.base, LL.sig_withCrc, LL.sig_withFlags, LL.sig_withType, LL.sig_withSize, LL.sig_withSig,
    LL.size_withCrc, LL.size_withFlags, LL.size_withType, LL.size_withSize, LL.ftype_withCrc, LL.ftype_withFlags,
    LL.ftype_withType, LL.flags_withCrc, LL.flags_withFlags, LL.crc_withCrc, LL.crcOf_eq, hn, typeByte, wireFlags,
    true_and]
  have : (Crc.crc8B (toLE 2 n ++ [UInt8.ofNat 6, UInt8.ofNat ((seq <<< 2 ||| fl % 256) % 256)])).toNat < 256 :=
    UInt8.toNat_lt _
  exact Nat.mod_eq_of_lt this

/-- **well-formedness**: every data frame / fragment the host builds, once stamped with a sequence number,
    serializes to marker, length (= bytes after the marker), type 6, flags, CRC8 over length/type/flags,
    CRC16 over the body, body -/
theorem C05_frame_wf (fl seq n : Nat) (p : HLPacket) (hn : n = p.serialize.length + 5) (hlen : n ≤ 65535) :
    (Frame.stamp seq (Frame.mkData fl p n)).serialize =
      [0xDE, 0xAD] ++ toLE 2 n ++
      [6, UInt8.ofNat (wireFlags fl seq), Crc.crc8B (toLE 2 n ++ [6, UInt8.ofNat (wireFlags fl seq)])] ++
      toLE 2 (Crc.crc16B p.body) ++ p.body
    ∧ (Frame.stamp seq (Frame.mkData fl p n)).serialize.length = n + 2 := by
  obtain ⟨h1, h2, h3, h4, h5⟩ := stamped_fields fl seq n hlen
  have hser : (Frame.stamp seq (Frame.mkData fl p n)).serialize =
      [0xDE, 0xAD] ++ toLE 2 n ++
      [6, UInt8.ofNat (wireFlags fl seq), Crc.crc8B (toLE 2 n ++ [6, UInt8.ofNat (wireFlags fl seq)])] ++
      toLE 2 (Crc.crc16B p.body) ++ p.body := by
    simp only [Frame.stamp, Frame.mkData, Frame.serialize, LL.bytes_eq] at *
    rw [h1, h2, h3, h4, h5, sigBytes]
    simp [HLPacket.serialize]
  refine ⟨hser, ?_⟩
  rw [hser]
  simp [HLPacket.serialize] at hn ⊢
  omega

/-- **independent decoder**: a decoder written from the link format alone recovers length, flags and body
    (command header ++ payload) of every frame the host builds and consumes exactly the frame -/
theorem C05_ref_roundtrip (fl seq n : Nat) (p : HLPacket) (r : Bytes)
    (hn : n = p.serialize.length + 5) (hlen : n ≤ 65535) (hdata : wireFlags fl seq % 2 = 0) :
    Ref.decode ((Frame.stamp seq (Frame.mkData fl p n)).serialize ++ r) =
      some (⟨n, wireFlags fl seq, p.body⟩, r) := by
  rw [(C05_frame_wf fl seq n p hn hlen).1]
  have hF : wireFlags fl seq < 256 := by unfold wireFlags; omega
  have hb : p.body.length + 7 = n := by simp [HLPacket.serialize] at hn; omega
  have hc : Crc.crc16B p.body < 65536 := by
    unfold Crc.crc16B; exact (Crc.crc16 _).isLt
  simp only [toLE, List.cons_append, List.nil_append, Ref.decode]
  have e0 : (UInt8.ofNat (n % 256)).toNat + 256 * (UInt8.ofNat (n / 256 % 256)).toNat = n := by
    rw [u8, u8]; omega
  have eF : (UInt8.ofNat (wireFlags fl seq)).toNat = wireFlags fl seq := by
    simp [UInt8.toNat_ofNat']; omega
  rw [e0, eF]
  have hlen2 : ¬ (n < 7 ∨ (UInt8.ofNat (Crc.crc16B p.body % 256) :: UInt8.ofNat (Crc.crc16B p.body / 256 % 256) ::
      (p.body ++ r)).length < n - 5) := by
    simp; omega
  have htake : (UInt8.ofNat (Crc.crc16B p.body % 256) :: UInt8.ofNat (Crc.crc16B p.body / 256 % 256) ::
      (p.body ++ r)).take (n - 5) = UInt8.ofNat (Crc.crc16B p.body % 256) :: UInt8.ofNat (Crc.crc16B p.body / 256 % 256) :: p.body := by
    have : n - 5 = p.body.length + 2 := by omega
    rw [this]; simp
  have hdrop : (UInt8.ofNat (Crc.crc16B p.body % 256) :: UInt8.ofNat (Crc.crc16B p.body / 256 % 256) ::
      (p.body ++ r)).drop (n - 5) = r := by
    have : n - 5 = p.body.length + 2 := by omega
    rw [this]; simp
  have hcrc : fromLE [UInt8.ofNat (Crc.crc16B p.body % 256), UInt8.ofNat (Crc.crc16B p.body / 256 % 256)] =
      Crc.crc16B p.body := by
    simp only [fromLE, u8]; omega
  simp only [htake, hdrop, hlen2, if_false, List.take_succ_cons, List.take_zero, List.drop_succ_cons, List.drop_zero,
    hcrc]
  simp
  omega

/-- the library's decoder on an arbitrary acknowledgement header followed by anything -/
theorem deserialize_ack (ll : LL) (r : Bytes) (hs : LL.sig ll = Gen.signature) (hc : LL.crcOf ll = LL.crc ll)
    (ha : Frame.hasFlag (LL.flags ll) Gen.flagisACK = true) :
    Frame.deserialize (LL.bytes ll ++ r) = .ok (⟨ll, none⟩, r) := by
  have hl := LL.bytes_length ll
  simp [Frame.deserialize, LL.ofBytes_bytes, hl, hs, hc, ha]

/-- **library decoder, complete frames**: what `to_frame` builds (first+last flags, a command header),
    stamped with any sequence number, is decoded by `Frame.deserialize` to the same frame, consuming
    exactly the frame -/
theorem C05_lib_roundtrip (fl seq n : Nat) (h : HLH) (data r : Bytes) (hh : h ≠ 0#32)
    (hn : n = (HLPacket.mk (some h) data).serialize.length + 5) (hlen : n ≤ 65535)
    (hack : Frame.hasFlag (wireFlags fl seq) Gen.flagisACK = false)
    (hfirst : Frame.hasFlag (wireFlags fl seq) Gen.flagFirstFrag = true) :
    Frame.deserialize ((Frame.stamp seq (Frame.mkData fl ⟨some h, data⟩ n)).serialize ++ r) =
      .ok (Frame.stamp seq (Frame.mkData fl ⟨some h, data⟩ n), r) := by
  obtain ⟨h1, h2, h3, h4, h5⟩ := stamped_fields fl seq n hlen
  have hc : Crc.crc16B (HLH.bytes h ++ data) < 65536 := by
    unfold Crc.crc16B; exact (Crc.crc16 _).isLt
  have hb : (HLH.bytes h ++ data).length + 7 = n := by
    simp [HLPacket.serialize, HLPacket.body, hh] at hn ⊢; omega
  have hbl := HLH.bytes_length h
  have hsz : ((n : Int) - 5) = (((HLPacket.mk (some h) data).serialize).length : Int) := by
    simp [HLPacket.serialize, HLPacket.body, hh] at hb ⊢; omega
  simp only [Frame.stamp, Frame.mkData, Frame.serialize, List.append_assoc] at *
  generalize hll : LL.sealed (LL.withFlags (LL.withFlags (LL.base n) fl)
    (seq <<< 2 ||| LL.flags (LL.withFlags (LL.base n) fl))) = ll at *
  have hl := LL.bytes_length ll
  have hcrc : LL.crcOf ll = LL.crc ll := by
    rw [LL.crcOf_eq, h2, h3, h4, h5]; rfl
  have hsig : LL.sig ll = Gen.signature := by rw [h1]; decide
  have hlen7 : ¬ (LL.bytes ll ++ ((HLPacket.mk (some h) data).serialize ++ r)).length < 7 := by simp [hl]
  simp only [Frame.deserialize, hlen7, if_false, LL.ofBytes_bytes, hsig, hcrc, h4, hack, hfirst, h2,
    List.drop_left' hl, ne_eq, not_true_eq_false, Bool.false_eq_true, if_true, hsz]
  have hpt : Frame.pyTake ((HLPacket.mk (some h) data).serialize ++ r)
      (((HLPacket.mk (some h) data).serialize).length : Int) = (HLPacket.mk (some h) data).serialize := by
    simp [Frame.pyTake]
  have hpd : Frame.pyDrop ((HLPacket.mk (some h) data).serialize ++ r)
      (((HLPacket.mk (some h) data).serialize).length : Int) = r := by
    simp [Frame.pyDrop]
  rw [hpt, hpd]
  have hdes : HLPacket.deserialize (HLPacket.mk (some h) data).serialize = .ok ⟨some h, data⟩ := by
    simp only [HLPacket.serialize, HLPacket.body, hh, if_false, HLPacket.deserialize, toLE]
    have hcrc2 : fromLE [UInt8.ofNat (Crc.crc16B (HLH.bytes h ++ data) % 256),
        UInt8.ofNat (Crc.crc16B (HLH.bytes h ++ data) / 256 % 256)] = Crc.crc16B (HLH.bytes h ++ data) := by
      simp only [fromLE, u8]; omega
    simp [hcrc2, HLH.ofBytes_bytes, hbl]
  rw [hdes]

/-- **acknowledgements**: all sequence values and retransmit flags: byte image and library round trip -/
theorem C05_ack (seq : Fin 4) (retransmit : Bool) (r : Bytes) :
    let F := (seq.val <<< 4) ||| 1 ||| (if retransmit then 2 else 0)
    (Frame.ack seq.val retransmit).serialize =
      [0xDE, 0xAD, 5, 0, 6, UInt8.ofNat F, Crc.crc8B [5, 0, 6, UInt8.ofNat F]] ∧
    Frame.deserialize ((Frame.ack seq.val retransmit).serialize ++ r) = .ok (Frame.ack seq.val retransmit, r) := by
  have key : ∀ (s : Fin 4) (b : Bool),
      (Frame.ack s.val b).serialize =
        [0xDE, 0xAD, 5, 0, 6, UInt8.ofNat ((s.val <<< 4) ||| 1 ||| (if b then 2 else 0)),
          Crc.crc8B [5, 0, 6, UInt8.ofNat ((s.val <<< 4) ||| 1 ||| (if b then 2 else 0))]] ∧
      LL.sig (Frame.ack s.val b).ll = Gen.signature ∧ LL.crcOf (Frame.ack s.val b).ll = LL.crc (Frame.ack s.val b).ll ∧
      Frame.hasFlag (LL.flags (Frame.ack s.val b).ll) Gen.flagisACK = true ∧ (Frame.ack s.val b).hl = none := by
    decide +kernel
  obtain ⟨k1, k2, k3, k4, k5⟩ := key seq retransmit
  refine ⟨k1, ?_⟩
  have : (Frame.ack seq.val retransmit) = ⟨(Frame.ack seq.val retransmit).ll, none⟩ := by
    cases hx : Frame.ack seq.val retransmit with
    | mk ll hl => rw [hx] at k5; simp at k5; rw [k5]
  have hser : (Frame.ack seq.val retransmit).serialize = LL.bytes (Frame.ack seq.val retransmit).ll := by
    rw [this]; rfl
  rw [hser, deserialize_ack _ r k2 k3 k4, ← this]

/-! ## non-vacuity: a concrete command frame meets the hypotheses -/
example : let p : HLPacket := ⟨some (HLH.mk 2 0), [1]⟩
    p.serialize.length + 5 = 12 ∧ wireFlags 0xC0 2 % 2 = 0 ∧
    Frame.hasFlag (wireFlags 0xC0 2) Gen.flagisACK = false ∧ Frame.hasFlag (wireFlags 0xC0 2) Gen.flagFirstFrag = true ∧
    HLH.mk 2 0 ≠ 0#32 := by decide

end Zboss
