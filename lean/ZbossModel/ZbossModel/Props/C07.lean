import ZbossModel.Proofs.Link
/-! # C07 - transmission is stop-and-wait: one unacknowledged data frame at a time, in order

The transmit lock is the pair (holder, queue): the holder is the one sender whose frame is on the
wire and unacknowledged; the queue holds the senders waiting, oldest first. -/
namespace Zboss.Link
open Gen Rx

/-- lock invariant: waiters exist only while somebody holds the lock -/
def Inv (st : St) : Prop := st.holder = none → st.queue = []

theorem grant_inv (st : St) (q : List (Nat × Frame)) (hh : st.holder = none) : Inv (grant st q).1 := by
  induction q with
  | nil => intro _; simp [grant]
  | cons x rest ih =>
    obtain ⟨i, f⟩ := x
    unfold grant
    split
    · intro h; simp at h
    · exact ih

theorem C07_inv_init : Inv {} := fun _ => rfl

/-- the invariant holds after every event -/
theorem C07_inv_step (st : St) (e : Ev) (h : Inv st) : Inv (step st e).1 := by
  cases e with
  | send i f =>
    simp only [step]
    cases hh : st.holder with
    | some x => intro h2; simp [hh] at h2
    | none => exact grant_inv st _ hh
  | rx data =>
    simp only [step]
    cases hh : st.holder with
    | none => intro _; exact h hh
    | some x =>
      simp only []
      split
      · exact grant_inv _ _ rfl
      · intro h2; simp [hh] at h2
  | tick =>
    simp only [step]
    cases hh : st.holder with
    | none => exact h
    | some x => exact grant_inv _ _ rfl
  | cancel i =>
    simp only [step]
    cases hh : st.holder with
    | none => exact h
    | some x =>
      simp only []
      split
      · exact grant_inv _ _ rfl
      · split
        · intro h2; simp [hh] at h2
        · exact h
  | close => intro h2; exact h h2
  | reconnect => intro h2; exact h h2

theorem C07_inv_reachable (evs : List Ev) : Inv (runEvents {} evs).1 := by
  suffices h : ∀ (st : St) (log : List (List Out)), Inv st →
      Inv (evs.foldl (fun acc e => let r := step acc.1 e; (r.1, acc.2 ++ [r.2])) (st, log)).1 by
    exact h {} [] C07_inv_init
  induction evs with
  | nil => intro st log h; exact h
  | cons e es ih => intro st log h; exact ih _ _ (C07_inv_step st e h)

theorem grant_wrote (st : St) (q : List (Nat × Frame)) (j s : Nat) (h : Out.wrote j s ∈ (grant st q).2) :
    ∃ f rest, q = (j, f) :: rest ∧ s = st.rx.packSeq ∧ st.rx.transport = true := by
  cases ht : st.rx.transport with
  | false =>
    rw [((grant_shape st q).2.1 ht).1] at h
    simp at h
  | true =>
    cases q with
    | nil => simp [grant] at h
    | cons x rest =>
      obtain ⟨i, f⟩ := x
      rw [((grant_shape st _).1 ht i f rest rfl).1] at h
      simp at h
      exact ⟨f, rest, by rw [h.1], h.2, rfl⟩

theorem rxOuts_no_wrote (l : List Rx.Out) (j s : Nat) : Out.wrote j s ∉ rxOuts l := by
  induction l with
  | nil => simp [rxOuts]
  | cons o l ih =>
    simp only [rxOuts, List.map_cons, List.mem_cons, not_or] at ih ⊢
    exact ⟨by cases o <;> simp, ih⟩

/-- **stop-and-wait**: a data frame is put on the wire in a step only if the link was idle before the
    event (no unacknowledged frame), or the event ended the outstanding frame's wait: bytes containing an
    accepted acknowledgement arrived and set the ACK event, the wait expired, or its sender was cancelled -
    and in that case the outstanding sender completes in the same step, before the write -/
theorem C07_stop_and_wait (st : St) (e : Ev) (j s : Nat) (hw : Out.wrote j s ∈ (step st e).2) :
    st.holder = none ∨
    ∃ h, st.holder = some h ∧
      ((∃ data, e = .rx data ∧ (dataReceived (fun _ => false) st.rx data).1.eventSet = true ∧
          Out.done h.id ∈ (step st e).2) ∨
       (e = .tick ∧ Out.done h.id ∈ (step st e).2) ∨
       (e = .cancel h.id ∧ Out.cancelled h.id ∈ (step st e).2)) := by
  cases hh : st.holder with
  | none => exact Or.inl rfl
  | some h =>
    refine Or.inr ⟨h, rfl, ?_⟩
    cases e with
    | send i f => simp [step, hh] at hw
    | rx data =>
      simp only [step, hh] at hw ⊢
      by_cases hev : (dataReceived (fun _ => false) st.rx data).1.eventSet = true
      · simp only [hev, if_true] at hw ⊢
        exact Or.inl ⟨data, by simp [hev]⟩
      · simp only [hev] at hw
        exact absurd hw (rxOuts_no_wrote _ j s)
    | tick =>
      simp only [step, hh] at hw ⊢
      exact Or.inr (Or.inl (by simp))
    | cancel i =>
      simp only [step, hh] at hw ⊢
      by_cases hi : h.id = i
      · simp only [hi, if_true] at hw ⊢
        subst hi
        exact Or.inr (Or.inr (by simp))
      · simp only [hi, if_false] at hw
        split at hw <;> simp at hw
    | close => simp [step] at hw
    | reconnect => simp [step] at hw

/-- a matching acknowledgement is the only thing received bytes can do to end a wait: the ACK event
    of the current holder becomes set only through an accepted ACK frame -/
theorem C07_event_needs_ack (st : St) (data : Bytes) (hclear : st.rx.eventSet = false)
    (hset : (dataReceived (fun _ => false) st.rx data).1.eventSet = true) :
    ∃ f ∈ (run tryFrame (st.rx.buf ++ data)).1, isAck f = true := by
  have hs := dataReceived_seq (fun _ => false) st.rx data
  have h2 : (dataReceived (fun _ => false) st.rx data).1.eventSet =
      ((run tryFrame (st.rx.buf ++ data)).1.foldl (ackStep st.rx.hasEvent) (st.rx.packSeq, st.rx.eventSet)).2 :=
    congrArg Prod.snd hs
  rw [h2] at hset
  exact fold_ackStep_set _ _ _ hclear hset

/-- the holder's ACK event starts cleared: `grant` creates a fresh event for every frame it writes -/
theorem C07_fresh_event (st : St) (i : Nat) (f : Frame) (rest : List (Nat × Frame)) (ht : st.rx.transport = true) :
    (grant st ((i, f) :: rest)).1.rx.eventSet = false := by simp [grant, ht]

/-- **first come, first served, one at a time**: whoever is written in a step is the *oldest* waiting
    sender (head of the queue with the new request appended), and a step writes at most one data frame -/
theorem C07_fifo (st : St) (e : Ev) (hinv : Inv st) (j s : Nat) (hw : Out.wrote j s ∈ (step st e).2) :
    (∃ f, e = .send j f ∧ st.queue = []) ∨ (∃ f rest, st.queue = (j, f) :: rest) := by
  cases e with
  | send i f =>
    simp only [step] at hw
    cases hh : st.holder with
    | some x => simp [hh] at hw
    | none =>
      simp only [hh] at hw
      have hq := hinv hh
      rw [hq] at hw
      obtain ⟨f', rest, he, _, _⟩ := grant_wrote st _ j s hw
      simp at he
      exact Or.inl ⟨f, by rw [he.1.1], hq⟩
  | rx data =>
    simp only [step] at hw
    cases hh : st.holder with
    | none => simp only [hh] at hw; exact absurd hw (rxOuts_no_wrote _ j s)
    | some x =>
      simp only [hh] at hw
      split at hw
      · simp only [release, List.mem_append, List.mem_cons] at hw
        rcases hw with hw | hw | hw
        · exact absurd hw (rxOuts_no_wrote _ j s)
        · cases hw
        · obtain ⟨f', rest, he, _, _⟩ := grant_wrote _ _ j s hw
          exact Or.inr ⟨f', rest, he⟩
      · exact absurd hw (rxOuts_no_wrote _ j s)
  | tick =>
    simp only [step] at hw
    cases hh : st.holder with
    | none => simp [hh] at hw
    | some x =>
      simp only [hh, release, List.mem_cons] at hw
      rcases hw with hw | hw
      · cases hw
      · obtain ⟨f', rest, he, _, _⟩ := grant_wrote _ _ j s hw
        exact Or.inr ⟨f', rest, he⟩
  | cancel i =>
    simp only [step] at hw
    cases hh : st.holder with
    | none => simp [hh] at hw
    | some x =>
      simp only [hh] at hw
      split at hw
      · simp only [release, List.mem_cons] at hw
        rcases hw with hw | hw
        · cases hw
        · obtain ⟨f', rest, he, _, _⟩ := grant_wrote _ _ j s hw
          exact Or.inr ⟨f', rest, he⟩
      · split at hw <;> simp at hw
  | close => simp [step] at hw
  | reconnect => simp [step] at hw

theorem grant_one_write (st : St) (q : List (Nat × Frame)) : ((grant st q).2.filter isWrote).length ≤ 1 := by
  cases ht : st.rx.transport with
  | false =>
    rw [((grant_shape st q).2.1 ht).1]
    have : (q.map fun x => Out.done x.1).filter isWrote = [] := by
      induction q with
      | nil => rfl
      | cons x t ih => simp [isWrote, ih]
    rw [this]; simp
  | true =>
    cases q with
    | nil => simp [grant]
    | cons x rest =>
      obtain ⟨i, f⟩ := x
      rw [((grant_shape st _).1 ht i f rest rfl).1]; simp [isWrote, List.filter]


/-! ## trace level: the whole output log of any execution is stop-and-wait

`monStep` is a monitor over the output log: it remembers the sender whose data frame is on the wire and
unacknowledged, rejects a second data frame while one is outstanding, and forgets the outstanding frame when
its sender's `send` returns (acknowledged or timed out) or is cancelled. -/

/-- monitor state: `none` = the log was rejected, `some o` = accepted so far with `o` the outstanding sender -/
def monStep : Option (Option Nat) → Out → Option (Option Nat)
  | none, _ => none
  | some o, .wrote i _ => if o = none then some (some i) else none
  | some o, .done i => some (if o = some i then none else o)
  | some o, .cancelled i => some (if o = some i then none else o)
  | some o, _ => some o

theorem mon_rxOuts (l : List Rx.Out) (o : Option Nat) : (rxOuts l).foldl monStep (some o) = some o := by
  induction l with
  | nil => rfl
  | cons x l ih =>
    cases x <;> simpa [rxOuts, monStep] using ih

theorem mon_grant (st : St) (q : List (Nat × Frame)) (hh : st.holder = none) :
    (grant st q).2.foldl monStep (some none) = some ((grant st q).1.holder.map (·.id)) := by
  induction q with
  | nil => simp [grant, hh]
  | cons x rest ih =>
    obtain ⟨i, f⟩ := x
    unfold grant
    split
    · simp [monStep]
    · simp only [List.foldl_cons, monStep]
      simpa using ih

theorem mon_release (st : St) : (release st).2.foldl monStep (some none) = some ((release st).1.holder.map (·.id)) :=
  mon_grant _ _ rfl

/-- one event: the monitor, started in the state that mirrors the lock holder, accepts the step's outputs and ends
    mirroring the new holder -/
theorem mon_step (st : St) (e : Ev) (hinv : Inv st) :
    (step st e).2.foldl monStep (some (st.holder.map (·.id))) = some ((step st e).1.holder.map (·.id)) := by
  cases e with
  | send i f =>
    simp only [step]
    cases hh : st.holder with
    | some x => simp [hh]
    | none => simpa using mon_grant st _ hh
  | rx data =>
    simp only [step]
    cases hh : st.holder with
    | none => simp [mon_rxOuts, hh]
    | some x =>
      simp only []
      split
      · rw [List.foldl_append, mon_rxOuts]
        simp only [List.foldl_cons, monStep, Option.map_some, if_true]
        exact mon_release _
      · simp [mon_rxOuts, hh]
  | tick =>
    simp only [step]
    cases hh : st.holder with
    | none => simp [hh]
    | some x =>
      simp only [List.foldl_cons, monStep, Option.map_some, if_true]
      exact mon_release _
  | cancel i =>
    simp only [step]
    cases hh : st.holder with
    | none => simp [hh]
    | some x =>
      simp only []
      split
      · rename_i hi
        subst hi
        simp only [List.foldl_cons, monStep, Option.map_some, if_true]
        exact mon_release _
      · rename_i hi
        split
        · have : ¬ (some x.id = some i) := by simpa using hi
          simp [monStep, hh, this]
        · simp [hh]
  | close => simp [step]
  | reconnect => simp [step]

/-- **stop-and-wait for whole executions**: for every sequence of events (sends, received bytes in any
    chunking, timer expiries, cancellations, close / reconnect) the output log is accepted by the monitor:
    no data frame is ever written while another one is outstanding, and the outstanding sender is exactly the
    lock holder -/
theorem C07_trace (evs : List Ev) :
    (runEvents {} evs).2.flatten.foldl monStep (some none) = some ((runEvents {} evs).1.holder.map (·.id)) := by
  suffices h : ∀ (st : St) (log : List (List Out)), Inv st →
      log.flatten.foldl monStep (some none) = some (st.holder.map (·.id)) →
      let r := evs.foldl (fun acc e => let r := step acc.1 e; (r.1, acc.2 ++ [r.2])) (st, log)
      r.2.flatten.foldl monStep (some none) = some (r.1.holder.map (·.id)) by
    exact h {} [] C07_inv_init rfl
  induction evs with
  | nil => intro st log _ h; exact h
  | cons e es ih =>
    intro st log hinv h
    simp only [List.foldl_cons]
    apply ih _ _ (C07_inv_step st e hinv)
    rw [List.flatten_append, List.foldl_append, h]
    simpa using mon_step st e hinv

/-- the monitor is not vacuous: it rejects a log with two data frames and nothing in between -/
example : [Out.wrote 1 0, Out.wrote 2 1].foldl monStep (some none) = none := by decide
example : [Out.wrote 1 0, Out.done 1, Out.wrote 2 1].foldl monStep (some none) = some (some 2) := by decide

/-! ## non-vacuity: two senders, the second is written only when the first is acknowledged -/
example : (runEvents {} [.send 1 (Frame.mkData 0xC0 ⟨some 0x20000#32, [1]⟩ 12),
    .send 2 (Frame.mkData 0xC0 ⟨some 0x20000#32, [2]⟩ 12), .rx (Frame.ack 0 false).serialize]).2.map
      (fun l => l.filter isWrote) = [[.wrote 1 0], [], [.wrote 2 1]] := by decide +kernel

end Zboss.Link
