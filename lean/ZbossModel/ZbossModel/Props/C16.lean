import ZbossModel.Proofs.Wire
import ZbossModel.Proofs.WireSound
import ZbossModel.CStruct
import ZbossModel.Proofs.CStructRT
/-! # C16 - wire types are self-delimiting, strict on short input, and invert exactly -/
namespace Zboss.Wire

/-- scalars (integers of every width and signedness, fixed-size blobs): exact inverse, self-delimiting -/
theorem C16_scalar_inverse (t : ST) (v : SV) (b r : Bytes) (h : encS t v = some b) :
    decS t (b ++ r) = .ok (v, r) := decS_encS t v b r h

/-- length-prefixed bytes, count-prefixed lists of records, simple descriptors, scalars: decoding
    `encoding ++ arbitrary further bytes` returns the value and exactly those bytes -/
theorem C16_inverse (w : WT) (v : Val) (b r : Bytes) (hg : w.isGreedy = false) (h : encW w v = some b) :
    decW w (b ++ r) = .ok (v, r) := decW_encW w v b r hg h

/-- greedy lists consume everything by design and invert exactly (records are at least one byte wide) -/
theorem C16_greedy_inverse (ts : List ST) (hpos : 0 < recSize ts) (rs : List (List SV)) (b : Bytes)
    (h : encW (.greedy ts) (.rows rs) = some b) : decW (.greedy ts) b = .ok (.rows rs, []) :=
  decW_encW_greedy ts hpos rs b h

/-- **the other direction of "exact inverses"**: whatever bytes a decoder accepts, if the decoded value is one the
    encoder accepts then its encoding is exactly the bytes consumed (every parameter type, greedy lists included
    when their records are not empty) - a decoder never skips, invents or reinterprets a byte -/
theorem C16_decode_sound (w : WT) (data : Bytes) (val : Val) (rest b : Bytes)
    (hgr : ∀ ts, w = .greedy ts → 0 < recSize ts)
    (h : decW w data = .ok (val, rest)) (he : encW w val = some b) : data = b ++ rest :=
  decW_sound w data val rest b hgr h he

/-- the caveat is real: a 255-byte string behind a one-byte length is decoded but refused by the encoder -/
example : (match decW (.lvBytes 1) (255 :: List.replicate 255 0) with | .ok _ => true | .error _ => false) = true ∧
    encW (.lvBytes 1) (.bytes (List.replicate 255 0)) = none := by decide +kernel

/-- an encoding cut short at *any* point raises a value error - never a truncated value -/
theorem C16_truncated (w : WT) (v : Val) (b : Bytes) (hg : w.isGreedy = false) (h : encW w v = some b)
    (k : Nat) (hk : k < b.length) : decW w (b.take k) = .error .valueError := decW_truncated w v b hg h k hk

/-- a decoder never fails with anything but a value error -/
theorem C16_only_value_errors (w : WT) (data : Bytes) (e : Err) (h : decW w data = .error e) : e = .valueError :=
  decW_error_kind w data e h

/-- the encoding of a list of `n` records of a given layout is `n` times the record size -/
theorem C16_rows_size (ts : List ST) (rs : List (List SV)) (b : Bytes) (h : encRows ts rs = some b) :
    b.length = rs.length * recSize ts := encRows_length ts rs b h

end Zboss.Wire

namespace Zboss.CStruct
open Wire

theorem pad_lt (off a : Nat) (ha : 0 < a) : pad off a < a := Nat.mod_lt _ ha

/-- padding brings the offset to a multiple of the alignment -/
theorem pad_aligned (off a : Nat) (ha : 0 < a) : (off + pad off a) % a = 0 := by
  unfold pad
  have h1 : off % a < a := Nat.mod_lt _ ha
  by_cases h0 : off % a = 0
  · simp [h0, Nat.mod_self]
  · have h2 : (a - off % a) % a = a - off % a := Nat.mod_eq_of_lt (by omega)
    rw [h2]
    have : off + (a - off % a) = a * (off / a) + a := by
      have := Nat.div_add_mod off a
      omega
    rw [this]
    simp

theorem pad_one (off : Nat) : pad off 1 = 0 := by simp [pad, Nat.mod_one]

mutual
theorem align_pos (al : Bool) : ∀ (t : CTy), t.WF = true → 0 < t.align al
  | .int k _, h => by
    simp [CTy.WF] at h
    simp [CTy.align]; split <;> omega
  | .blob _, _ => by simp [CTy.align]
  | .struct fs, _ => by
    simp only [CTy.align]
    exact alignList_pos al fs
theorem alignList_pos (al : Bool) : ∀ (fs : List CTy), 0 < alignList al fs
  | [] => by simp [alignList]
  | f :: fs => by
    simp only [alignList]
    have := alignList_pos al fs
    omega
end

mutual
theorem align_packed : ∀ (t : CTy), t.align false = 1
  | .int k _ => by simp [CTy.align]
  | .blob _ => by simp [CTy.align]
  | .struct fs => by simp only [CTy.align]; exact alignList_packed fs
theorem alignList_packed : ∀ (fs : List CTy), alignList false fs = 1
  | [] => by simp [alignList]
  | f :: fs => by simp only [alignList, align_packed f, alignList_packed fs]; rfl
end

/-- **natural alignment**: for every struct definition (any field list, any nesting) each field starts at a
    multiple of its own alignment -/
theorem C16_offsets_aligned (al : Bool) (fs : List CTy) (hwf : wfList fs = true) (off : Nat) :
    ∀ i (hi : i < fs.length), ((offsets al fs off).getD i 0) % ((fs.get ⟨i, hi⟩).align al) = 0 := by
  induction fs generalizing off with
  | nil => intro i hi; simp at hi
  | cons f fs ih =>
    simp only [wfList, Bool.and_eq_true] at hwf
    intro i hi
    cases i with
    | zero => simp [offsets]; exact pad_aligned off _ (align_pos al f hwf.1)
    | succ j =>
      simp only [offsets, List.getD_cons_succ, List.get]
      exact ih hwf.2 _ j (by simpa using hi)

/-- ... and the struct's size is a multiple of its largest field alignment -/
theorem C16_size_aligned (al : Bool) (fs : List CTy) :
    ((CTy.struct fs).size al) % (alignList al fs) = 0 := by
  simp only [CTy.size]
  exact pad_aligned _ _ (alignList_pos al fs)

theorem layoutEnd_packed (fs : List CTy) (off : Nat) :
    layoutEnd false fs off = off + (fs.map (CTy.size false)).sum := by
  induction fs generalizing off with
  | nil => simp [layoutEnd]
  | cons f fs ih =>
    simp only [layoutEnd, align_packed f, pad_one, ih, List.map_cons, List.sum_cons]
    omega

/-- **packed**: without alignment there is no padding at all: every field starts where the previous one
    ended and the size is the sum of the field sizes -/
theorem C16_packed (fs : List CTy) (off : Nat) :
    (CTy.struct fs).size false = (fs.map (CTy.size false)).sum ∧
    ∀ i, i < fs.length → (offsets false fs off).getD i 0 = off + ((fs.take i).map (CTy.size false)).sum := by
  constructor
  · simp only [CTy.size, layoutEnd_packed, alignList_packed, pad_one]; omega
  · induction fs generalizing off with
    | nil => intro i hi; simp at hi
    | cons f fs ih =>
      intro i hi
      cases i with
      | zero => simp [offsets, align_packed, pad_one]
      | succ j =>
        simp only [offsets, align_packed f, pad_one, List.getD_cons_succ, List.take_succ_cons, List.map_cons,
          List.sum_cons]
        rw [ih _ j (by simpa using hi)]
        omega

/-- padding never exceeds alignment - 1 and alignments are powers of the field sizes present: the
    aligned size is bounded by packed size plus (alignment - 1) per field and at the end -/
theorem C16_padding_small (al : Bool) (f : CTy) (hwf : f.WF = true) (off : Nat) :
    pad off (f.align al) < f.align al := pad_lt _ _ (align_pos al f hwf)

/-! ## NVRAM datasets parsed from the NCP's read layout contain exactly the stored records -/

theorem C16_nvram_addrmap (hdr rec : List ST) (entryIdx : Nat) (hvals : List SV) (rs : List (List SV))
    (hb cb r : Bytes) (hh : encRec hdr hvals = some hb) (hc : encRows rec rs = some cb)
    (hcount : natOf (hvals.getD entryIdx (.num 0)) = rs.length) :
    decNwkAddrMap hdr rec entryIdx (hb ++ cb ++ r) = .ok (rs, r) := by
  simp only [decNwkAddrMap, List.append_assoc, decRec_encRec hdr hvals hb (cb ++ r) hh, hcount]
  exact decRowsN_encRows rec rs cb r hc

theorem C16_nvram_apskeys (rec : List ST) (hpos : 0 < recSize rec) (rs : List (List SV)) (cb skip r : Bytes)
    (hc : encRows rec rs = some cb) (hskip : skip.length = 4) (hfit : rs.length * recSize rec + 4 < 65536) :
    decApsKeys rec (toLE 2 (rs.length * recSize rec + 4) ++ skip ++ cb ++ r) = .ok (rs, r) := by
  have henc := encS_uint 2 (rs.length * recSize rec + 4) (by omega)
  have hd := decS_encS _ _ _ (skip ++ cb ++ r) henc
  simp only [decApsKeys, List.append_assoc] at hd ⊢
  rw [hd]
  simp only [natOf, Int.toNat_natCast, Int.ofNat_eq_natCast]
  have h1 : (rs.length * recSize rec + 4 - 4) / recSize rec = rs.length := by
    rw [Nat.add_sub_cancel]; exact Nat.mul_div_cancel _ hpos
  have h2 : (skip ++ (cb ++ r)).drop 4 = cb ++ r := drop_append_len _ _ _ hskip
  rw [h1, h2]
  exact decRowsN_encRows rec rs cb r hc

/-! ## non-vacuity: a nested aligned struct { u8; { u8; u32 }; u16 } has offsets 0, 4, 12 and size 16 -/
example : offsets true [.int 1 false, .struct [.int 1 false, .int 4 false], .int 2 false] 0 = [0, 4, 12] ∧
    (CTy.struct [.int 1 false, .struct [.int 1 false, .int 4 false], .int 2 false]).size true = 16 ∧
    (CTy.struct [.int 1 false, .struct [.int 1 false, .int 4 false], .int 2 false]).size false = 8 := by decide

end Zboss.CStruct

namespace Zboss.CStruct
open Wire

/-- **C structs invert exactly** (aligned or packed, nested to any depth): the serialization has the struct's
    declared size, and deserializing it - followed by any further bytes - returns the value and exactly those
    bytes; inner and final padding is skipped, never interpreted -/
theorem C16_cstruct_roundtrip (al : Bool) (t : CTy) (v : CVal) (b r : Bytes) (h : encC al t v = some b) :
    b.length = t.size al ∧ decC al t (b ++ r) = .ok (v, r) := encC_roundtrip al t v b r h

/-- non-vacuity: `{u8; {u8; u32}; u16}` aligned: 1 + 3 pad + (1 + 3 pad + 4) + 2 + 2 final pad = 16 bytes -/
example : (encC true (.struct [.int 1 false, .struct [.int 1 false, .int 4 false], .int 2 false])
    (.struct [.num 1, .struct [.num 2, .num 3], .num 4])).map List.length = some 16 := by decide +kernel

end Zboss.CStruct
