import ZbossModel.Proofs.HostBound
import ZbossModel.Proofs.HostRest
import ZbossModel.Proofs.HostKeys
import ZbossModel.Proofs.HostListen
import ZbossModel.Props.C12
/-! # C13 - a finished request leaves nothing behind, however it finished

`Host.step` is the request machine at quiescent points: request start, ACK / response bytes,
timer expiry (ACK wait or response timeout), cancellation of a request task in any phase, close,
connection loss.  `listeners` are the one-shot response listeners `request` registers. -/
namespace Zboss.Host

/-- **no residue, every history**: after any sequence of events every registered response listener belongs
    to a request that is still running -/
theorem C13_no_residue (evs : List Ev) : NoResidue (runEvents {} evs).1 := nr_reachable evs

/-- hence a request that has ended - by response, timeout, cancellation in any phase, close or loss - has no
    listener registered (request ids are unique) -/
theorem C13_finished_has_no_listener (evs : List Ev) (r : Req) (hr : r ∈ (runEvents {} evs).1.reqs)
    (hdone : r.phase = .done) : ∀ l ∈ (runEvents {} evs).1.listeners, l.1 ≠ r.id := by
  intro l hl heq
  obtain ⟨r', hr', hid, hph⟩ := C13_no_residue evs l hl
  have hn := (inv2_reachable evs).1
  have : r' = r := unique_of_id _ hn r' r hr' hr (by rw [hid, heq])
  rw [this] at hph
  exact hph hdone

/-- a response is only ever handed to a running request: the listener it resolves is the first one registered
    for that command, and that listener's request has not finished -/
theorem C13_response_to_running (evs : List Ev) (key i k : Nat)
    (h : (runEvents {} evs).1.listeners.find? (fun l => l.2 == key) = some (i, k)) :
    ∃ r ∈ (runEvents {} evs).1.reqs, r.id = i ∧ r.phase ≠ .done :=
  C13_no_residue evs (i, k) (List.mem_of_find?_eq_some h)

/-- the listener is removed in the very step in which its request finishes (`finish` is the only place a
    request becomes done) -/
theorem C13_finish_removes (st : St) (i : Nat) (o : Outcome) : ∀ l ∈ (finish st i o).listeners, l.1 ≠ i := by
  intro l hl
  simp only [finish, emit, List.mem_filter] at hl
  simpa using hl.2

/-- a task step never registers a listener: listeners only disappear while requests run -/
theorem C13_no_new_listeners (fuel : Nat) (st : St) : ∀ l ∈ (settle fuel st).listeners, l ∈ st.listeners :=
  (frame_settle fuel st).listeners

/-- **no residue under every scheduling order** of the task micro-steps (see `MReach`), not only at the
    quiescent points of the FIFO run -/
theorem C13_no_residue_any_schedule (hist : List Out) (st : St) (h : MReach hist st) : NoResidue st :=
  (mreach_inv hist st h).2

theorem settle_idle (fuel : Nat) (st : St) (h : st.ready = []) : settle fuel st = st := by
  cases fuel with
  | zero => rfl
  | succ n => unfold settle; rw [h]

/-- **a late response is discarded without effect**: when no waiter is registered for its command (the request ended
    by timeout, cancellation, close or loss, or was answered before), a response only gets its link-layer ACK: no
    request changes, no listener appears, nobody is woken -/
theorem C13_late_response_no_effect (st : St) (key : Nat) (hnone : st.listeners.find? (fun l => l.2 == key) = none)
    (hq : st.ready = []) :
    (step st (.rxRsp key)).reqs = st.reqs ∧ (step st (.rxRsp key)).listeners = st.listeners ∧
    (step st (.rxRsp key)).ready = [] ∧ (step st (.rxRsp key)).out = (if st.transport then [.wack] else []) := by
  simp only [step]
  generalize hst1 : (if ({ st with out := [] } : St).transport = true then emit { st with out := [] } Out.wack else { st with out := [] }) = st1
  have h1 : st1.listeners = st.listeners ∧ st1.reqs = st.reqs ∧ st1.ready = st.ready ∧
      st1.out = (if st.transport then [.wack] else []) := by
    rw [← hst1]
    by_cases ht : st.transport = true
    · simp [ht, emit]
    · have ht' : st.transport = false := by simpa using ht
      simp [ht']
  have hf : st1.listeners.find? (fun l => l.2 == key) = none := by rw [h1.1]; exact hnone
  rw [hf]
  simp only []
  rw [settleAll, settle_idle _ _ (by rw [h1.2.2.1]; exact hq)]
  exact ⟨h1.2.1, h1.1, by rw [h1.2.2.1]; exact hq, h1.2.2.2⟩

/-- ... in particular after every history (the loop is at rest in every reachable state) -/
theorem C13_late_response_no_effect_reachable (evs : List Ev) (key : Nat)
    (hnone : (runEvents {} evs).1.listeners.find? (fun l => l.2 == key) = none) :
    (step (runEvents {} evs).1 (.rxRsp key)).reqs = (runEvents {} evs).1.reqs ∧
    (step (runEvents {} evs).1 (.rxRsp key)).listeners = (runEvents {} evs).1.listeners :=
  let h := C13_late_response_no_effect _ key hnone (rest_reachable evs)
  ⟨h.1, h.2.1⟩

/-- **the next request for the same command receives its own response - every history**: if a request is running, has
    not been answered yet, and every other request for its command has ended (however: response, timeout, cancellation,
    close, loss), then the listener that the next response for that command resolves is this request's.  (A listener
    carries its request's command - `Proofs/HostKeys.lean`; its request is running - no residue; a running unanswered request
    is registered - `Covered`.) -/
theorem C13_next_request_gets_its_response (evs : List Ev) (r : Req) (hr : r ∈ (runEvents {} evs).1.reqs)
    (hp : r.phase ≠ .done) (hg : r.got = .nothing)
    (hsole : ∀ r' ∈ (runEvents {} evs).1.reqs, r'.key = r.key → r'.id ≠ r.id → r'.phase = .done) :
    (runEvents {} evs).1.listeners.find? (fun l => l.2 == r.key) = some (r.id, r.key) :=
  sole_waiter_gets_it evs r hr hp hg hsole

/-! ## non-vacuity: request 1 (command 5) times out; request 2 for the same command is issued and acknowledged; the
    response goes to request 2 -/
example : let st := (runEvents {} [.start 1 5 false 1 3013, .rxAck 0, .tick, .start 2 5 false 1 5026, .rxAck 1]).1
    (st.reqs.map fun r => (r.id, r.key, r.phase, r.got)) = [(1, 5, .done, .nothing), (2, 5, .waitRsp, .nothing)] ∧
    st.listeners.find? (fun l => l.2 == 5) = some (2, 5) ∧ (step st (.rxRsp 5)).out = [.wack, .done 2 .ret] := by
  decide +kernel

/-! ## non-vacuity: a request cancelled while queued behind the message lock leaves no listener, and the
    response that arrives later goes to the next request for that command -/
example : let r := runEvents {} [.start 1 5 true 2 3013, .start 2 5 true 1 5026, .cancel 2, .rxAck 0, .rxAck 1,
      .start 3 5 true 1 3039, .rxRsp 5, .rxAck 2, .rxRsp 5]
    r.1.listeners = [] ∧ r.2.getLast? = some [.wack, .done 3 .ret] := by decide +kernel

/-- **the request machine's response routing is the listener table's**: in every reachable state the waiters of the running
    requests form a listener table (`Dispatch.requestTable`: one one-shot listener per waiter, with the all-wildcard
    pattern of its response class, in registration order) on which the dispatch loop of `frame_received` (model of C12)
    resolves exactly the waiter that the request machine's `find?` picks, and after the deferred removal leaves exactly
    the list that its `filter` leaves.  So the abstraction of the listeners used by the C11 / C13 / C14 / C20 theorems
    is a refinement of the C12 model - not a second, independent reading of `api.py`. -/
theorem C13_routing_is_listener_table (evs : List Ev) (key : Nat) (ps : List (Option Nat)) :
    Dispatch.resolvedOf (Dispatch.dispatch ⟨key, ps⟩ (Dispatch.requestTable (runEvents {} evs).1.listeners) false).2 =
        (((runEvents {} evs).1.listeners.find? fun l => l.2 == key).map (·.1)).toList ∧
    ((Dispatch.dispatch ⟨key, ps⟩ (Dispatch.requestTable (runEvents {} evs).1.listeners) false).1.filter fun l => !l.done) =
      match (runEvents {} evs).1.listeners.find? fun l => l.2 == key with
      | none => Dispatch.requestTable (runEvents {} evs).1.listeners
      | some (i, _) => Dispatch.requestTable ((runEvents {} evs).1.listeners.filter (·.1 != i)) :=
  ⟨Dispatch.C12_request_waiters _ key ps, Dispatch.C12_request_waiters_table _ key ps (ln_reachable evs)⟩

/-- one waiter per request, in every reachable state -/
theorem C13_one_waiter_per_request (evs : List Ev) : ((runEvents {} evs).1.listeners.map (·.1)).Nodup := ln_reachable evs

end Zboss.Host
