import ZbossModel.Host
namespace Zboss.Host
theorem C13_placeholder : True := trivial
end Zboss.Host
