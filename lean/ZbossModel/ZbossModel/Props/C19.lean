import ZbossModel.Codec
import ZbossModel.Generated.Commands
import ZbossModel.Pinned
/-! # C19 - command identifiers, field layouts and enum values stay the NCP protocol's

`Gen.commands` is regenerated from /repo's working tree on every run; `Pinned.views` is the committed
golden table of the pinned, interoperating revision. -/
namespace Zboss.Codec
open Wire

/-- the wire view of the working tree's command table -/
def currentViews : List View := Gen.commands.map viewOf

/-- **identity**: every command of the pinned revision is still there with the same header (numeric id,
    control type, version), the same order, width and signedness of every field, the same optional flags
    and the same numeric values of every enumeration / flag type (new commands may be added) -/
theorem C19_table_preserved : Pinned.views.all (fun v => currentViews.contains v) = true := by decide +kernel

theorem C19_view_preserved (v : View) (hv : v ∈ Pinned.views) : v ∈ currentViews := by
  have h := C19_table_preserved
  rw [List.all_eq_true] at h
  have := h v hv
  simpa using this

/-- hence the bytes exchanged with the NCP for a given command and values are the same as at the pinned
    revision, and are decoded the same way: `toBytes` / `fromPayload` read nothing but the view -/
theorem C19_same_bytes (v : View) (hv : v ∈ Pinned.views) (a : Assign) (payload : Bytes) :
    ∃ w ∈ currentViews, w.header = v.header ∧ toBytes w a = toBytes v a ∧ fromPayload w payload = fromPayload v payload :=
  ⟨v, C19_view_preserved v hv, rfl, rfl, rfl⟩

/-- command headers identify command types one-to-one -/
theorem C19_headers_injective : (currentViews.map (·.header)).Nodup := by decide +kernel

/-- no header is zero (so `if self.header:` in `HLPacket.serialize` always includes it) and every
    header fits 32 bits with protocol version 0 -/
theorem C19_headers_sane : currentViews.all (fun v => v.header ≠ 0 && v.header < 2 ^ 32 && v.header % 256 == 0) = true := by
  decide +kernel

/-- every request type is paired with exactly the response type of the same id, and vice versa;
    indications stand alone -/
theorem C19_req_rsp_paired :
    currentViews.all (fun v =>
      if ctype v = 0 then (currentViews.filter fun w => cmdId w = cmdId v ∧ ctype w = 1).length == 1
      else if ctype v = 1 then (currentViews.filter fun w => cmdId w = cmdId v ∧ ctype w = 0).length == 1
      else ctype v == 2) = true := by decide +kernel

/-- every response starts with TSN, status category, status code (one byte each): the three status
    fields `from_frame` relies on -/
theorem C19_rsp_status_prefix :
    currentViews.all (fun v => ctype v ≠ 1 ||
      (v.statusIdx == some 2 && (v.fields.take 3).map (·.wt) == [.sc (.uint 1), .sc (.uint 1), .sc (.uint 1)])) = true := by
  decide +kernel

theorem C19_pinned_count : Pinned.views.length = 145 := by decide +kernel

end Zboss.Codec
