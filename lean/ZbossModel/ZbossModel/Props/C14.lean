import ZbossModel.Host
namespace Zboss.Host
theorem C14_placeholder : True := trivial
end Zboss.Host
