import ZbossModel.Proofs.HostBound
import ZbossModel.Proofs.HostRest
import ZbossModel.Proofs.HostFifo
/-! # C14 - blocking requests are mutually exclusive and served first-come first-served -/
namespace Zboss.Host

/-- **exclusive, every history**: at most one blocking request is past the blocking lock - from before its
    first frame goes out until it ends (response, timeout, cancellation), no other blocking request can
    transmit -/
theorem C14_exclusive (evs : List Ev) (r1 r2 : Req) (h1 : r1 ∈ (runEvents {} evs).1.reqs)
    (h2 : r2 ∈ (runEvents {} evs).1.reqs) (b1 : r1.blocking = true) (b2 : r2.blocking = true)
    (p1 : afterB r1.phase = true) (p2 : afterB r2.phase = true) : r1 = r2 := by
  have hinv := inv2_reachable evs
  have a1 := (hinv.2 r1 h1).1 .B ((hinv.2 r1 h1).2.2.2 b1 p1)
  have a2 := (hinv.2 r2 h2).1 .B ((hinv.2 r2 h2).2.2.2 b2 p2)
  rw [a1] at a2
  exact unique_of_id _ hinv.1 r1 r2 h1 h2 (by simpa using a2)

/-- every phase in which a request writes frames or awaits its response is past the blocking lock -/
theorem C14_transmit_is_afterB (p : Phase) (h : inTransmit p = true ∨ p = .waitRsp) : afterB p = true := by
  rcases h with h | h
  · cases p <;> simp [inTransmit, afterB] at h ⊢
  · subst h; rfl

/-- **first come, first served**: taking a lock appends to the tail of its queue (once), success means being
    the head; releasing pops the head and wakes the new head -/
theorem C14_fifo (st : St) (l : Lock) (i : Nat) :
    queue (acquire st l i).1 l = (if (queue st l).contains i then queue st l else queue st l ++ [i]) ∧
    ((acquire st l i).2 = true ↔ (queue (acquire st l i).1 l).head? = some i) ∧
    queue (release st l i) l = (queue st l).drop 1 := by
  refine ⟨?_, ?_, ?_⟩
  · unfold acquire; simp only []
    generalize (if (queue st l).contains i = true then queue st l else queue st l ++ [i]) = q'
    by_cases hc : q'.head? = some i <;> simp [hc]
  · unfold acquire; simp only []
    generalize (if (queue st l).contains i = true then queue st l else queue st l ++ [i]) = q'
    by_cases hc : q'.head? = some i <;> simp [hc]
  · unfold release; simp only []
    split <;> (cases l <;> simp [queue, setQueue, updReq])

/-- **requests not marked blocking never wait for a blocking request**: they pass the blocking lock without
    touching it and compete for the message / transmit locks only -/
theorem C14_nonblocking_free (st : St) (i : Nat) (r : Req) (fuel : Nat) (hg : getReq st i = some r)
    (hp : r.phase = .waitB) (hnb : r.blocking = false) :
    runReq (fuel + 1) st i = runReq fuel (updReq st i fun r => { r with phase := .waitM }) i := by
  rw [runReq]; simp only [hg, hp, hnb, Bool.false_eq_true, if_false]

/-- **exclusive under every scheduling order** of the task micro-steps (see `MReach`): in every state the
    event loop can be in - also in the middle of a loop iteration - at most one blocking request is past the
    blocking lock -/
theorem C14_exclusive_any_schedule (hist : List Out) (st : St) (h : MReach hist st) (r1 r2 : Req)
    (h1 : r1 ∈ st.reqs) (h2 : r2 ∈ st.reqs) (b1 : r1.blocking = true) (b2 : r2.blocking = true)
    (p1 : afterB r1.phase = true) (p2 : afterB r2.phase = true) : r1 = r2 := by
  have hinv := (mreach_inv hist st h).1.1
  have a1 := (hinv.2 r1 h1).1 .B ((hinv.2 r1 h1).2.2.2 b1 p1)
  have a2 := (hinv.2 r2 h2).1 .B ((hinv.2 r2 h2).2.2.2 b2 p2)
  rw [a1] at a2
  exact unique_of_id _ hinv.1 r1 r2 h1 h2 (by simpa using a2)

/-- **requests not marked blocking never queue for the blocking lock - every history** -/
theorem C14_nonblocking_never_queues (evs : List Ev) (r : Req) (hr : r ∈ (runEvents {} evs).1.reqs)
    (hnb : r.blocking = false) : r.id ∉ (runEvents {} evs).1.bq := by
  intro hm
  have hg := good_reachable evs
  obtain ⟨r', hr', hid, _, hd⟩ := hg.live.qi .B r.id hm
  have : r' = r := unique_of_id _ hg.inv.1 r' r hr' hr hid
  subst this
  rcases hd with ⟨_, hb⟩ | ⟨_, hb, _⟩
  · rw [hb rfl] at hnb; cases hnb
  · rw [hb] at hnb; cases hnb

/-- … and so they are never parked behind a blocking request: what a non-blocking request can wait for is the message
    lock, the transmit lock, its acknowledgement and its own response -/
theorem C14_nonblocking_waits_only_for_the_link (evs : List Ev) (r : Req) (hr : r ∈ (runEvents {} evs).1.reqs)
    (hnb : r.blocking = false) (hp : r.phase ≠ .done) :
    (r.phase = .waitM ∧ r.id ∈ (runEvents {} evs).1.mq) ∨ (r.phase = .waitT ∧ r.id ∈ (runEvents {} evs).1.tq) ∨
    r.phase = .waitAck ∨ (r.phase = .waitRsp ∧ r.got = .nothing) := by
  have hg := good_reachable evs
  rcases hg.live.wake r hr hp (by simp) with hw | hw
  · rw [rest_reachable evs] at hw; cases hw
  · rcases hw with ⟨l, h1, h2, _⟩ | hw | hw
    · cases l with
      | B => exact absurd h2 (C14_nonblocking_never_queues evs r hr hnb)
      | M => exact Or.inl ⟨h1, h2⟩
      | T => exact Or.inr (Or.inl ⟨h1, h2⟩)
    · exact Or.inr (Or.inr (Or.inl hw))
    · exact Or.inr (Or.inr (Or.inr hw))

/-! ## non-vacuity: blocking 1 awaits its response, blocking 2 stays queued, non-blocking 3 is written at once -/
example : ((runEvents {} [.start 1 1 true 1 3013, .rxAck 0, .start 2 2 true 1 5026, .start 3 3 false 1 7039]).2.map
    fun l => l.filter isWD) = [[.write 1 0 0 1], [], [], [.write 3 0 1 1]] := by decide +kernel

/-- **first come, first served - every history**: if blocking request `r1` was issued before blocking request `r2` (it
    stands earlier in the request list) and is still waiting for the blocking lock, then `r2` is not past the lock: it has
    written nothing and awaits nothing.  Blocking requests get their turn in the order in which they were issued - whatever
    ACKs, responses, timeouts, cancellations, closes and reconnects happen in between.  (`Proofs/HostFifo.lean`: the lock's
    queue is always a sub-list of the request list, because a request joins it on its first step, when it is still the
    newest one; the holder is the head of the queue; a waiting request is in the queue.) -/
theorem C14_first_come_first_served (evs : List Ev) (r1 r2 : Req) (pre post : List Req)
    (horder : (runEvents {} evs).1.reqs = pre ++ r1 :: post) (h2 : r2 ∈ post)
    (hb2 : r2.blocking = true) (hw1 : r1.phase = .waitB) : afterB r2.phase = false :=
  fcfs evs r1 r2 pre post horder h2 hb2 hw1

/-- the queue of the blocking lock is ordered like the issue order, in every reachable state -/
theorem C14_queue_in_issue_order (evs : List Ev) :
    (runEvents {} evs).1.bq.Sublist ((runEvents {} evs).1.reqs.map (·.id)) := (qu_reachable evs).sub

/-! ## non-vacuity of `C14_first_come_first_served`: blocking request 1 awaits its response, blocking requests 2 and 3 were
    issued in that order and both wait for the lock (`r1` := request 2, `r2` := request 3); request 1 is cancelled: request 2
    gets its turn, request 3 still waits -/
example : let st := (runEvents {} [.start 1 1 true 1 300013, .rxAck 0, .start 2 2 true 1 500026, .start 3 3 true 1 700039]).1
    st.bq = [1, 2, 3] ∧ (st.reqs.map fun r => (r.id, r.blocking, r.phase)) = [(1, true, .waitRsp), (2, true, .waitB), (3, true, .waitB)] ∧
    (step st (.cancel 1)).bq = [2, 3] ∧
    ((step st (.cancel 1)).reqs.map fun r => (r.id, r.phase)) = [(1, .done), (2, .waitAck), (3, .waitB)] := by decide +kernel

/-! ## across `close()` / `connect()` on the same object: `C14_exclusive` quantifies over every history, `connect` events
    included.  Blocking request 1 awaits its response; a deliberate reset is in progress when the port is closed (the
    listeners are kept) and `connect()` opens a new connection; blocking request 2, issued on the new connection, is not
    written before request 1 has ended (here: by its response timeout) - the lock is the object's, not the connection's -/
example : ((runEvents {} [.start 1 1 true 1 300013, .rxAck 0, .setReset true, .close, .connect, .setReset false,
      .start 2 2 true 1 500026, .tick]).2.map fun l => l.filter isWD) =
    [[.write 1 0 0 1], [], [], [], [], [], [], [.done 1 .timeoutError, .write 2 0 0 1]] := by decide +kernel

end Zboss.Host
