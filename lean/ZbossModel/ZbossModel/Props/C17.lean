import ZbossModel.Dispatch
/-! # C17 - pattern matching is field-wise wildcarding; a listener fires once per match -/
namespace Zboss.Match

/-- field-wise reading of `agree`: every specified parameter of the pattern equals the command's -/
theorem agree_iff (es as : List (Option Nat)) :
    agree es as = true ↔ ∀ i, i < es.length → i < as.length → (es[i]? = some none ∨ es[i]? = as[i]?) := by
  induction es generalizing as with
  | nil => simp [agree]
  | cons e es ih =>
    cases as with
    | nil => simp [agree]
    | cons a as =>
      simp only [agree, Bool.and_eq_true, Bool.or_eq_true, ih as, List.length_cons]
      constructor
      · rintro ⟨h0, hr⟩ i hi1 hi2
        cases i with
        | zero =>
          cases e with
          | none => simp
          | some v => simp at h0 ⊢; exact h0
        | succ j => simpa using hr j (by omega) (by omega)
      · intro h
        refine ⟨?_, fun i h1 h2 => by simpa using h (i + 1) (by omega) (by omega)⟩
        have := h 0 (by omega) (by omega)
        cases e with
        | none => simp
        | some v => simp at this ⊢; exact this

/-- **matching = same type and agreement on every parameter the pattern specifies** -/
theorem C17_matches_iff (p c : Cmd) :
    «matches» p c = true ↔ p.ty = c.ty ∧
      ∀ i, i < p.params.length → i < c.params.length → (p.params[i]? = some none ∨ p.params[i]? = c.params[i]?) := by
  simp [«matches», agree_iff]

theorem agree_refl (l : List (Option Nat)) : agree l l = true := by
  induction l with
  | nil => rfl
  | cons e l ih => simp [agree, ih]

/-- reflexive -/
theorem C17_matches_refl (c : Cmd) : «matches» c c = true := by simp [«matches», agree_refl]

theorem agree_trans (a b c : List (Option Nat)) (hlen : a.length ≤ b.length)
    (h1 : agree a b = true) (h2 : agree b c = true) : agree a c = true := by
  induction a generalizing b c with
  | nil => simp [agree]
  | cons x a ih =>
    cases b with
    | nil => simp at hlen
    | cons y b =>
      cases c with
      | nil => simp [agree]
      | cons z c =>
        simp only [agree, Bool.and_eq_true, Bool.or_eq_true] at h1 h2 ⊢
        refine ⟨?_, ih b c (by simpa using hlen) h1.2 h2.2⟩
        cases x with
        | none => simp
        | some v =>
          have hy : y = some v := by
            rcases h1.1 with h | h
            · simp at h
            · have h' : some v = y := by simpa using h
              exact h'.symm
          subst hy
          rcases h2.1 with h | h
          · simp at h
          · right; exact h

/-- transitive (commands of one type have the same number of parameters) -/
theorem C17_matches_trans (a b c : Cmd) (hlen : a.params.length ≤ b.params.length)
    (h1 : «matches» a b = true) (h2 : «matches» b c = true) : «matches» a c = true := by
  simp only [«matches», Bool.and_eq_true, beq_iff_eq] at h1 h2 ⊢
  exact ⟨h1.1.trans h2.1, agree_trans _ _ _ hlen h1.2 h2.2⟩

/-- every command type has a fixed number of parameters -/
def WF (arity : Nat → Nat) (c : Cmd) : Prop := c.params.length = arity c.ty

theorem insertMax_equiv (arity : Nat → Nat) (ms : List Cmd) (x c : Cmd)
    (hms : ∀ m ∈ ms, WF arity m) (hx : WF arity x) :
    anyMatch (insertMax ms x) c = (anyMatch ms c || «matches» x c) ∧ ∀ m ∈ insertMax ms x, WF arity m := by
  induction ms with
  | nil => simp [insertMax, anyMatch, hx]
  | cons o rest ih =>
    have ho : WF arity o := hms o (by simp)
    have hrest : ∀ m ∈ rest, WF arity m := fun m hm => hms m (by simp [hm])
    unfold insertMax
    by_cases h1 : «matches» o x = true
    · simp only [h1, if_true]
      refine ⟨?_, hms⟩
      -- x is redundant: whatever x matches, o matches
      cases hxc : «matches» x c with
      | false => simp
      | true =>
        have hty : o.ty = x.ty := by
          have := h1; simp only [«matches», Bool.and_eq_true, beq_iff_eq] at this; exact this.1
        have := C17_matches_trans o x c (by rw [ho, hx, hty]; exact Nat.le_refl _) h1 hxc
        simp [anyMatch, this]
    · simp only [h1, Bool.false_eq_true, if_false]
      by_cases h2 : «matches» x o = true
      · simp only [h2, if_true]
        refine ⟨?_, fun m hm => by
          rcases List.mem_cons.mp hm with h | h
          · rw [h]; exact hx
          · exact hrest m h⟩
        -- o is replaced by the more general x
        simp only [anyMatch, List.any_cons]
        cases hoc : «matches» o c with
        | false => simp [Bool.or_comm]
        | true =>
          have hty : x.ty = o.ty := by
            have := h2; simp only [«matches», Bool.and_eq_true, beq_iff_eq] at this; exact this.1
          have := C17_matches_trans x o c (by rw [ho, hx, hty]; exact Nat.le_refl _) h2 hoc
          simp [this]
      · simp only [h2, Bool.false_eq_true, if_false]
        obtain ⟨e, w⟩ := ih hrest
        refine ⟨?_, fun m hm => by
          rcases List.mem_cons.mp hm with h | h
          · rw [h]; exact ho
          · exact w m h⟩
        simp only [anyMatch, List.any_cons] at e ⊢
        rw [e]; simp [Bool.or_assoc]

/-- **de-duplication preserves the matched set**: a listener built from any collection of patterns -
    in any order, with duplicates, with chains general → specific - reacts to exactly the commands matched
    by at least one of the patterns given -/
theorem C17_dedup_equiv (arity : Nat → Nat) (ps : List Cmd) (c : Cmd) (hps : ∀ p ∈ ps, WF arity p) :
    anyMatch (dedup ps) c = anyMatch ps c := by
  suffices h : ∀ (acc : List Cmd), (∀ m ∈ acc, WF arity m) →
      anyMatch (ps.foldl insertMax acc) c = (anyMatch acc c || anyMatch ps c) by
    simpa [dedup, anyMatch] using h [] (by simp)
  induction ps with
  | nil => intro acc _; simp [anyMatch]
  | cons x ps ih =>
    intro acc hacc
    have hx : WF arity x := hps x (by simp)
    obtain ⟨e, w⟩ := insertMax_equiv arity acc x c hacc hx
    simp only [List.foldl_cons]
    rw [ih (fun p hp => hps p (by simp [hp])) _ w, e]
    simp [anyMatch, Bool.or_assoc]

/-- the listener's patterns are never empty when it was built from at least one pattern -/
theorem C17_dedup_nonempty (ps : List Cmd) (h : ps ≠ []) : dedup ps ≠ [] := by
  suffices hh : ∀ (acc : List Cmd) (qs : List Cmd), (acc ≠ [] ∨ qs ≠ []) → qs.foldl insertMax acc ≠ [] by
    exact hh [] ps (Or.inr h)
  intro acc qs
  induction qs generalizing acc with
  | nil => intro h; rcases h with h | h; exact h; exact absurd rfl h
  | cons x qs ih =>
    intro _
    apply ih
    left
    cases acc with
    | nil => simp [insertMax]
    | cons o rest => unfold insertMax; split; simp; split <;> simp

/-! ## non-vacuity: a chain general → specific plus a duplicate collapses to the general pattern -/
example : dedup [⟨7, [some 1, some 2]⟩, ⟨7, [some 1, none]⟩, ⟨7, [some 1, some 2]⟩, ⟨8, [none]⟩] =
    [⟨7, [some 1, none]⟩, ⟨8, [none]⟩] := by decide

end Zboss.Match
