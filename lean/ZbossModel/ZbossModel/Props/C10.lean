import ZbossModel.Reasm
import ZbossModel.Props.C09
import ZbossModel.Props.C01
import ZbossModel.Proofs.RxWire
/-! # C10 - fragmented incoming messages are reassembled into exactly the original

`frameReceived` is the model of the fragment handling at the top of `ZBOSS.frame_received`; the
frames are what the receiver (C01/C06) hands up: a first fragment carries the command header and the
first part of the parameters, continuation fragments carry raw parameter bytes (their own body
checksum verified and stripped by the receiver). -/
namespace Zboss.Reasm
open Gen Rx Codec

/-- feeding frames one after the other; the list of outcomes, one per frame -/
def feedFrames (frags : List Frame) (fs : List Frame) : List Frame × List Outcome :=
  fs.foldl (fun acc f => let r := frameReceived acc.1 f; (r.1, acc.2 ++ [r.2])) (frags, [])

theorem feedFrames_cons (frags : List Frame) (f : Frame) (fs : List Frame) :
    feedFrames frags (f :: fs) =
      ((feedFrames (frameReceived frags f).1 fs).1, (frameReceived frags f).2 :: (feedFrames (frameReceived frags f).1 fs).2) := by
  unfold feedFrames
  simp only [List.foldl_cons, List.nil_append]
  generalize (frameReceived frags f).1 = st
  generalize (frameReceived frags f).2 = o
  suffices h : ∀ (acc : List Outcome) (st : List Frame),
      (fs.foldl (fun acc f => ((frameReceived acc.1 f).1, acc.2 ++ [(frameReceived acc.1 f).2])) (st, acc)) =
      ((fs.foldl (fun acc f => ((frameReceived acc.1 f).1, acc.2 ++ [(frameReceived acc.1 f).2])) (st, [])).1,
        acc ++ (fs.foldl (fun acc f => ((frameReceived acc.1 f).1, acc.2 ++ [(frameReceived acc.1 f).2])) (st, [])).2) by
    simpa using h [o] st
  induction fs with
  | nil => intro acc st; simp
  | cons g gs ih =>
    intro acc st
    simp only [List.foldl_cons, List.nil_append]
    rw [ih (acc ++ [(frameReceived st g).2]), ih [(frameReceived st g).2]]
    simp [List.append_assoc]

/-- continuation fragments are appended while neither flag is set -/
theorem feed_mids (pending : List Frame) (mids : List Frame) (hp : pending ≠ [])
    (hm : ∀ m ∈ mids, isFirst m = false ∧ isLast m = false) :
    feedFrames pending mids = (pending ++ mids, mids.map (fun _ => Outcome.buffered)) := by
  induction mids generalizing pending with
  | nil => simp [feedFrames]
  | cons m ms ih =>
    have h1 := hm m (by simp)
    have hstep : frameReceived pending m = (pending ++ [m], .buffered) := by
      simp [frameReceived, h1.1, h1.2]
    rw [feedFrames_cons, hstep]
    simp only []
    rw [ih (pending ++ [m]) (by simp) (fun x hx => hm x (by simp [hx]))]
    simp

/-- **reassembly**: whatever stale fragments are pending, a train first :: middles ++ [last] whose bodies
    concatenate to `HLH.bytes h ++ payload` hands up exactly one message - command header `h`, parameters
    `payload` - when the last fragment arrives, and leaves nothing pending.  The fragment sizes are arbitrary. -/
theorem C10_reassembly (pending : List Frame) (first last : Frame) (mids : List Frame) (h : HLH) (payload : Bytes)
    (hf : isFirst first = true ∧ isLast first = false)
    (hm : ∀ m ∈ mids, isFirst m = false ∧ isLast m = false)
    (hl : isFirst last = false ∧ isLast last = true)
    (hbody : ((first :: mids ++ [last]).map bodyOf).flatten = HLH.bytes h ++ payload) :
    feedFrames pending (first :: mids ++ [last]) =
      ([], Outcome.buffered :: (mids.map fun _ => Outcome.buffered) ++ [Outcome.msg ⟨some h, payload⟩]) := by
  have h1 : frameReceived pending first = ([first], .buffered) := by
    simp [frameReceived, hf.1, hf.2]
  rw [List.cons_append, feedFrames_cons, h1]
  simp only []
  have hsplit : feedFrames [first] (mids ++ [last]) =
      ((feedFrames (feedFrames [first] mids).1 [last]).1, (feedFrames [first] mids).2 ++ (feedFrames (feedFrames [first] mids).1 [last]).2) := by
    unfold feedFrames
    rw [List.foldl_append]
    generalize (mids.foldl (fun acc f => ((frameReceived acc.1 f).1, acc.2 ++ [(frameReceived acc.1 f).2])) ([first], [])) = s
    obtain ⟨st, o⟩ := s
    simp
  rw [hsplit, feed_mids [first] mids (by simp) hm]
  simp only []
  have hmerge : merge ([first] ++ mids ++ [last]) = some ⟨some h, payload⟩ := by
    unfold merge
    have : (([first] ++ mids ++ [last]).map bodyOf).flatten = HLH.bytes h ++ payload := by
      simpa using hbody
    rw [this]
    have hlen : ¬ (HLH.bytes h ++ payload).length < 4 := by simp [HLH.bytes_length]
    simp only [hlen, if_false, HLH.ofBytes_bytes]
    rw [List.drop_left' (HLH.bytes_length h)]
  have hlast : frameReceived ([first] ++ mids) last = ([], .msg ⟨some h, payload⟩) := by
    simp only [frameReceived, hl.1, hl.2, Bool.false_eq_true, if_false, Bool.not_true]
    have hne : ([first] ++ mids).isEmpty = false := by simp
    simp only [hne, Bool.false_eq_true, if_false, hmerge]
  have hlast' : frameReceived (first :: mids) last = ([], .msg ⟨some h, payload⟩) := by simpa using hlast
  simp [feedFrames, hlast']

/-- **a frame flagged first always starts a new message**: an interrupted fragment sequence never corrupts
    the next complete (first+last) message, which is passed on unchanged -/
theorem C10_restart (pending : List Frame) (f : Frame) (p : HLPacket) (hp : f.hl = some p)
    (hfl : isFirst f = true ∧ isLast f = true) :
    frameReceived pending f = ([], .msg ⟨p.header, p.data⟩) := by
  simp [frameReceived, hfl.1, hfl.2, hp]

/-- ... and the same for an interrupted sequence followed by a new *fragmented* message: the stale fragments
    are discarded by the new first fragment (instance of `C10_reassembly`, which holds for every `pending`) -/
theorem C10_interrupted_then_fragmented (stale : List Frame) (first last : Frame) (mids : List Frame) (h : HLH)
    (payload : Bytes) (hf : isFirst first = true ∧ isLast first = false)
    (hm : ∀ m ∈ mids, isFirst m = false ∧ isLast m = false) (hl : isFirst last = false ∧ isLast last = true)
    (hbody : ((first :: mids ++ [last]).map bodyOf).flatten = HLH.bytes h ++ payload) :
    (feedFrames stale (first :: mids ++ [last])).1 = [] ∧
    (feedFrames stale (first :: mids ++ [last])).2.getLast? = some (Outcome.msg ⟨some h, payload⟩) := by
  rw [C10_reassembly stale first last mids h payload hf hm hl hbody]
  refine ⟨rfl, ?_⟩
  simp only []
  rw [List.getLast?_append]
  simp

/-- first / last flags survive stamping with any sequence number 0..3 -/
theorem flags_stamped (fl : Nat) (seq : Fin 4) (hfl : fl = 0 ∨ fl = 0x40 ∨ fl = 0x80 ∨ fl = 0xC0) :
    Frame.hasFlag (wireFlags fl seq.val) Gen.flagFirstFrag = Frame.hasFlag fl Gen.flagFirstFrag ∧
    Frame.hasFlag (wireFlags fl seq.val) Gen.flagLastFrag = Frame.hasFlag fl Gen.flagLastFrag ∧
    Frame.hasFlag (wireFlags fl seq.val) Gen.flagisACK = false := by
  rcases hfl with h | h | h | h <;> subst h <;> revert seq <;> decide

/-- **own transmitter → own receiver**: the fragments the host's fragmenter produces for a message that does
    not fit (C09), stamped with any sequence numbers, are - as frames - a train whose reassembly is the
    original command header and parameters -/
theorem C10_loopback (h : HLH) (hh : h ≠ 0#32) (data : Bytes)
    (hbig : Gen.bodyMax < (HLPacket.mk (some h) data).body.length) (pending : List Frame) :
    ∃ first last mids, Frag.fragments (Frag.whole ⟨some h, data⟩) ⟨some h, data⟩ = first :: (mids ++ [last]) ∧
      ((first :: mids ++ [last]).map bodyOf).flatten = HLH.bytes h ++ data := by
  obtain ⟨first, last, mids, hfr, hcat, _, _, _, _, _⟩ := Frag.C09_partition h hh data hbig
  refine ⟨first, last, mids, hfr, ?_⟩
  have hb : (HLPacket.mk (some h) data).body = HLH.bytes h ++ data := Frag.body_some h hh data
  rw [← hb, ← hcat, hfr]
  rfl


/-! ## bytes → frames: the receiver's stream decoder on the wire image of a fragment train -/

/-- `f`, stamped with any sequence number, is decoded from its own bytes (followed by anything) by `_extract_frame` -/
def WireOK (f : Frame) : Prop :=
  ∀ (s : Fin 4) (r : Bytes), tryFrame ((Frame.stamp s.val f).serialize ++ r) =
    .ok (Frame.stamp s.val f) (Frame.stamp s.val f).serialize.length

theorem wireOK_first (h : HLH) (hh : h ≠ 0#32) (data : Bytes) (first : Nat) (h4 : 4 ≤ first) (h247 : first ≤ 247)
    (hd : first ≤ 4 + data.length) : WireOK (Frag.firstFrag ⟨some h, data⟩ first) := by
  intro s r
  have hbl := HLH.bytes_length h
  have hn : first + 7 = (HLPacket.mk (some h) (data.take (first - 4))).serialize.length + 5 := by
    simp [HLPacket.serialize, HLPacket.body, hh, hbl]; omega
  obtain ⟨f1, _, f3⟩ := flags_stamped 0x40 s (by simp)
  have hfirst : Frame.hasFlag (wireFlags 0x40 s.val) Gen.flagFirstFrag = true := by rw [f1]; decide
  have := tryFrame_built_first 0x40 s.val (first + 7) h (data.take (first - 4)) r hh hn (by omega) f3 hfirst
  have hl := (C05_frame_wf 0x40 s.val (first + 7) ⟨some h, data.take (first - 4)⟩ hn (by omega)).2
  simp only [Frag.firstFrag]
  rw [show Gen.flagFirstFrag = 0x40 from rfl, hl]
  exact this

theorem wireOK_last (tail : Bytes) (hl : tail.length ≤ 247) : WireOK (Frag.lastFrag tail) := by
  intro s r
  have hn : tail.length + 7 = (HLPacket.mk none tail).serialize.length + 5 := by
    simp [HLPacket.serialize, HLPacket.body]; omega
  obtain ⟨f1, _, f3⟩ := flags_stamped 0x80 s (by simp)
  have hfirst : Frame.hasFlag (wireFlags 0x80 s.val) Gen.flagFirstFrag = false := by rw [f1]; decide
  have := tryFrame_built_cont 0x80 s.val (tail.length + 7) tail r hn (by omega) f3 hfirst
  have hl2 := (C05_frame_wf 0x80 s.val (tail.length + 7) ⟨none, tail⟩ hn (by omega)).2
  simp only [Frag.lastFrag]
  rw [show Gen.flagLastFrag = 0x80 from rfl, hl2]
  exact this

theorem wireOK_mid (ser : Bytes) (idx : Nat) (hwin : idx + 247 ≤ ser.length) : WireOK (Frag.midFrag ser idx) := by
  intro s r
  have hlen : (slice ser idx (idx + Gen.bodyMax)).length = 247 := Frag.slice_length ser idx 247 hwin
  have hn : Gen.bodyMax + 7 = (HLPacket.mk none (slice ser idx (idx + Gen.bodyMax))).serialize.length + 5 := by
    rw [Frag.bodyMax_eq] at hlen ⊢
    simp [HLPacket.serialize, HLPacket.body, hlen]
  obtain ⟨f1, _, f3⟩ := flags_stamped 0 s (by simp)
  have hfirst : Frame.hasFlag (wireFlags 0 s.val) Gen.flagFirstFrag = false := by rw [f1]; decide
  have := tryFrame_built_cont 0 s.val (Gen.bodyMax + 7) _ r hn (by rw [Frag.bodyMax_eq]; omega) f3 hfirst
  have hl2 := (C05_frame_wf 0 s.val (Gen.bodyMax + 7) ⟨none, slice ser idx (idx + Gen.bodyMax)⟩ hn
    (by rw [Frag.bodyMax_eq]; omega)).2
  rw [Frag.stamp_mid, hl2]
  exact this

/-- every fragment the fragmenter produces for a message that does not fit one frame is decodable from its bytes -/
theorem fragments_wireOK (h : HLH) (hh : h ≠ 0#32) (data : Bytes)
    (hbig : Gen.bodyMax < (HLPacket.mk (some h) data).body.length) :
    ∀ f ∈ Frag.fragments (Frag.whole ⟨some h, data⟩) ⟨some h, data⟩, WireOK f := by
  have hbody : (HLPacket.mk (some h) data).body = HLH.bytes h ++ data := Frag.body_some h hh data
  have hbl := HLH.bytes_length h
  rw [hbody] at hbig
  generalize hser : HLH.bytes h ++ data = ser at *
  have hsl : ser.length = 4 + data.length := by rw [← hser]; simp [hbl]
  obtain ⟨n, hn⟩ : ∃ n, Frag.count ⟨some h, data⟩ = n + 2 := by
    refine ⟨Frag.count ⟨some h, data⟩ - 2, ?_⟩
    unfold Frag.count Frag.ceilDiv
    rw [hbody]
    simp only [Frag.bodyMax_eq] at *
    omega
  have hc : Frag.ceilDiv ser.length Gen.bodyMax = n + 2 := by rw [← hn]; unfold Frag.count; rw [hbody]
  obtain ⟨f4, f247, hidx, hlo, hhi⟩ := Frag.idx_facts ser.length n hc
  rw [Frag.fragments_eq_nf _ _ n hn]
  unfold Frag.fragmentsNF
  simp only [hbody]
  generalize hfirst : Frag.firstSize ser.length = first at *
  have hlastIdx : first + Gen.bodyMax * (Frag.nIdx ser.length - 1) = first + 247 * n := by
    rw [hidx, Frag.bodyMax_eq]; simp
  rw [hlastIdx]
  have hmid : ∀ j, j < n → first + Gen.bodyMax * j + 247 ≤ ser.length := by
    intro j hj
    have := Nat.mul_le_mul_left 247 (show j + 1 ≤ n by omega)
    rw [Frag.bodyMax_eq]; omega
  intro f hf
  simp only [List.mem_cons, List.mem_append, List.mem_map, List.mem_range, List.not_mem_nil, or_false] at hf
  rcases hf with hf | ⟨j, hj, hf⟩ | hf
  · subst hf; exact wireOK_first h hh data first f4 f247 (by omega)
  · subst hf; exact wireOK_mid ser _ (hmid j hj)
  · subst hf; exact wireOK_last _ (by simp; omega)

/-- `ws` is `fs` with every frame stamped by the transmitter with some sequence number 0..3 -/
inductive Stamped : List Frame → List Frame → Prop
  | nil : Stamped [] []
  | cons (s : Fin 4) (f : Frame) {fs ws : List Frame} : Stamped fs ws → Stamped (f :: fs) (Frame.stamp s.val f :: ws)

theorem run_nil : run tryFrame [] = ([], []) := by
  have := run_eq zbossScanner []
  simp only [zbossScanner] at this
  rw [this]; rfl

/-- the left-to-right parse of the wire image of a stamped train is the train itself, nothing left over -/
theorem run_train (fs ws : List Frame) (hst : Stamped fs ws) (hok : ∀ f ∈ fs, WireOK f) :
    run tryFrame (ws.map Frame.serialize).flatten = (ws, []) := by
  induction hst with
  | nil => exact run_nil
  | cons s f hrest ih =>
    rename_i fs' ws'
    have hre := run_eq zbossScanner ((Frame.stamp s.val f :: ws').map Frame.serialize).flatten
    simp only [zbossScanner] at hre
    rw [hre]
    simp only [List.map_cons, List.flatten_cons]
    rw [hok f (by simp) s _]
    simp only [List.drop_left]
    rw [ih (fun g hg => hok g (by simp [hg]))]

theorem stamp_hl (s : Nat) (f : Frame) : (Frame.stamp s f).hl = f.hl := rfl

theorem stamp_flags (s : Nat) (f : Frame) : LL.flags (Frame.stamp s f).ll = ((s <<< 2) ||| LL.flags f.ll) % 256 := by
  simp [Frame.stamp, LL.sealed]

theorem stamp_body (s : Nat) (f : Frame) : bodyOf (Frame.stamp s f) = bodyOf f := rfl

theorem stamped_flags (fl : Nat) (s : Fin 4) (f : Frame) (hf : LL.flags f.ll = fl)
    (hfl : fl = 0 ∨ fl = 0x40 ∨ fl = 0x80 ∨ fl = 0xC0) :
    isFirst (Frame.stamp s.val f) = Frame.hasFlag fl Gen.flagFirstFrag ∧
    isLast (Frame.stamp s.val f) = Frame.hasFlag fl Gen.flagLastFrag ∧ isAck (Frame.stamp s.val f) = false := by
  have := flags_stamped fl s hfl
  unfold isFirst isLast isAck
  rw [stamp_flags, hf]
  have e : ((s.val <<< 2) ||| fl) % 256 = wireFlags fl s.val := by
    rcases hfl with h | h | h | h <;> subst h <;> revert s <;> decide
  rw [e]; exact this

theorem stamped_append_inv (a : List Frame) (x : Frame) (ws : List Frame) (h : Stamped (a ++ [x]) ws) :
    ∃ (wa : List Frame) (s : Fin 4), ws = wa ++ [Frame.stamp s.val x] ∧ Stamped a wa := by
  induction a generalizing ws with
  | nil =>
    cases h with
    | cons s f hr => cases hr; exact ⟨[], s, rfl, .nil⟩
  | cons y a ih =>
    cases h with
    | cons s f hr =>
      obtain ⟨wa, s', hw, hs⟩ := ih _ hr
      exact ⟨Frame.stamp s.val y :: wa, s', by rw [hw]; rfl, .cons s y hs⟩

theorem stamped_mids (mids wm : List Frame) (h : Stamped mids wm) (hm : ∀ m ∈ mids, LL.flags m.ll = 0) :
    (∀ m ∈ wm, isFirst m = false ∧ isLast m = false ∧ isAck m = false ∧ m.hl.isSome = true → True) ∧
    (∀ m ∈ wm, isFirst m = false ∧ isLast m = false) ∧ wm.map bodyOf = mids.map bodyOf := by
  induction h with
  | nil => simp
  | cons s f hr ih =>
    obtain ⟨_, i2, i3⟩ := ih (fun m hm' => hm m (by simp [hm']))
    have hf := stamped_flags 0 s f (hm f (by simp)) (by simp)
    refine ⟨fun _ _ _ => trivial, ?_, ?_⟩
    · intro m hm'
      simp only [List.mem_cons] at hm'
      rcases hm' with hm' | hm'
      · subst hm'; exact ⟨by rw [hf.1]; decide, by rw [hf.2.1]; decide⟩
      · exact i2 m hm'
    · simp only [List.map_cons, i3, stamp_body]

theorem stamped_snoc (a wa : List Frame) (x : Frame) (s : Fin 4) (h : Stamped a wa) :
    Stamped (a ++ [x]) (wa ++ [Frame.stamp s.val x]) := by
  induction h with
  | nil => exact .cons s x .nil
  | cons s' f _ ih => exact .cons s' f ih

theorem deliveredOf_append (a b : List Out) : deliveredOf (a ++ b) = deliveredOf a ++ deliveredOf b := by
  simp [deliveredOf]

theorem delivered_all (tr : Bool) (ws : List Frame) (h : ∀ w ∈ ws, isAck w = false ∧ w.hl.isSome = true) :
    deliveredOf (ws.flatMap (outsOf tr)) = ws := by
  induction ws with
  | nil => rfl
  | cons w ws ih =>
    obtain ⟨ha, hs⟩ := h w (by simp)
    obtain ⟨p, hp⟩ := Option.isSome_iff_exists.mp hs
    have h1 : deliveredOf (outsOf tr w) = [w] := by
      simp only [outsOf, ha, Bool.false_eq_true, if_false, hp, deliveredOf]
      cases tr <;> simp
    rw [List.flatMap_cons, deliveredOf_append, h1, ih (fun x hx => h x (by simp [hx]))]
    rfl

/-- **own transmitter → wire → own receiver → reassembly**: a message that does not fit one frame is cut by the
    host's fragmenter, every fragment stamped with any sequence number and serialized; whatever the reads are cut
    into, whatever the handler does and whatever stale fragments were pending, the receiver hands up exactly
    the fragments, and their reassembly is the original command header and parameters, with nothing left pending -/
theorem C10_wire_loopback (hnd : Frame → Bool) (tr : Bool) (h : HLH) (hh : h ≠ 0#32) (data : Bytes)
    (hbig : Gen.bodyMax < (HLPacket.mk (some h) data).body.length) (ws : List Frame)
    (hst : Stamped (Frag.fragments (Frag.whole ⟨some h, data⟩) ⟨some h, data⟩) ws)
    (chunks : List Bytes) (hchunks : chunks.flatten = (ws.map Frame.serialize).flatten) (pending : List Frame) :
    deliveredOf (session hnd { transport := tr } chunks).2 = ws ∧
    (feedFrames pending ws).1 = [] ∧
    (feedFrames pending ws).2.getLast? = some (Outcome.msg ⟨some h, data⟩) := by
  obtain ⟨first, last, mids, hfr, hcat, hsz, hf1, hf2, hfm, _⟩ := Frag.C09_partition h hh data hbig
  have hwire := fragments_wireOK h hh data hbig
  have hrun := run_train _ ws hst hwire
  -- decompose the stamped train
  rw [hfr] at hst
  cases hst with
  | cons s0 f0 hrest =>
    rename_i ws'
    obtain ⟨wm, sl, hws', hsm⟩ := stamped_append_inv mids last ws' hrest
    subst hws'
    obtain ⟨_, hmf, hmb⟩ := stamped_mids mids wm hsm hfm
    have hff := stamped_flags 0x40 s0 first hf1 (by simp)
    have hlf := stamped_flags 0x80 sl last hf2 (by simp)
    -- every fragment carries a packet
    have hsome : ∀ f ∈ first :: (mids ++ [last]), f.hl.isSome = true := by
      intro f hf
      have := (hsz f (by rw [hfr]; exact hf)).1
      cases hhl : f.hl with
      | none => simp [Frag.bodyOf, hhl] at this
      | some p => rfl
    have hack : ∀ w ∈ Frame.stamp s0.val first :: (wm ++ [Frame.stamp sl.val last]),
        isAck w = false ∧ w.hl.isSome = true := by
      -- flags of the stamped frames never carry the ACK bit; `hl` is untouched by stamping
      have hall : ∀ (fs ws : List Frame), Stamped fs ws →
          (∀ f ∈ fs, (LL.flags f.ll = 0 ∨ LL.flags f.ll = 0x40 ∨ LL.flags f.ll = 0x80 ∨ LL.flags f.ll = 0xC0) ∧ f.hl.isSome = true) →
          ∀ w ∈ ws, isAck w = false ∧ w.hl.isSome = true := by
        intro fs ws hs
        induction hs with
        | nil => intro _ w hw; simp at hw
        | cons s f hr ih =>
          intro hfs w hw
          simp only [List.mem_cons] at hw
          rcases hw with hw | hw
          · subst hw
            obtain ⟨hfl, hs'⟩ := hfs f (by simp)
            exact ⟨(stamped_flags _ s f rfl hfl).2.2, by rw [stamp_hl]; exact hs'⟩
          · exact ih (fun g hg => hfs g (by simp [hg])) w hw
      apply hall (first :: (mids ++ [last])) _ (Stamped.cons s0 first (stamped_snoc mids wm last sl hsm))
      intro f hf
      refine ⟨?_, hsome f hf⟩
      simp only [List.mem_cons, List.mem_append, List.not_mem_nil, or_false] at hf
      rcases hf with hf | hf | hf
      · subst hf; right; left; exact hf1
      · left; exact hfm f hf
      · subst hf; right; right; left; exact hf2
    refine ⟨?_, ?_⟩
    · rw [C01_chunking, hchunks, hrun]
      exact delivered_all tr _ hack
    · have hbody : ((Frame.stamp s0.val first :: wm ++ [Frame.stamp sl.val last]).map bodyOf).flatten =
          HLH.bytes h ++ data := by
        have hb : (HLPacket.mk (some h) data).body = HLH.bytes h ++ data := Frag.body_some h hh data
        rw [← hb, ← hcat, hfr]
        simp only [List.map_cons, List.map_append, List.map_nil, stamp_body, hmb]
        rfl
      have := C10_reassembly pending (Frame.stamp s0.val first) (Frame.stamp sl.val last) wm h data
        ⟨by rw [hff.1]; decide, by rw [hff.2.1]; decide⟩ hmf ⟨by rw [hlf.1]; decide, by rw [hlf.2.1]; decide⟩ hbody
      have e : Frame.stamp s0.val first :: (wm ++ [Frame.stamp sl.val last]) =
          Frame.stamp s0.val first :: wm ++ [Frame.stamp sl.val last] := rfl
      rw [e, this]
      refine ⟨rfl, ?_⟩
      simp only []
      rw [List.getLast?_append]
      simp

/-- the hypotheses of `C10_wire_loopback` are satisfiable for every message: stamp every fragment (here with 0 -
    any per-fragment choice works the same way) and deliver the bytes in one read -/
theorem stamped_exists (fs : List Frame) : Stamped fs (fs.map (Frame.stamp 0)) := by
  induction fs with
  | nil => exact .nil
  | cons f fs ih => exact .cons 0 f ih

/-! ## non-vacuity -/
example : isFirst ⟨LL.withFlags (LL.base 20) 0x44, some ⟨some 0x20000#32, [1]⟩⟩ = true ∧
    isLast ⟨LL.withFlags (LL.base 20) 0x44, some ⟨some 0x20000#32, [1]⟩⟩ = false := by decide

end Zboss.Reasm
