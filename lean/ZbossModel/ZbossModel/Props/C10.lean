import ZbossModel.Reasm
import ZbossModel.Props.C09
/-! # C10 - fragmented incoming messages are reassembled into exactly the original

`frameReceived` is the model of the fragment handling at the top of `ZBOSS.frame_received`; the
frames are what the receiver (C01/C06) hands up: a first fragment carries the command header and the
first part of the parameters, continuation fragments carry raw parameter bytes (their own body
checksum verified and stripped by the receiver). -/
namespace Zboss.Reasm
open Gen Rx Codec

/-- feeding frames one after the other; the list of outcomes, one per frame -/
def feedFrames (frags : List Frame) (fs : List Frame) : List Frame × List Outcome :=
  fs.foldl (fun acc f => let r := frameReceived acc.1 f; (r.1, acc.2 ++ [r.2])) (frags, [])

theorem feedFrames_cons (frags : List Frame) (f : Frame) (fs : List Frame) :
    feedFrames frags (f :: fs) =
      ((feedFrames (frameReceived frags f).1 fs).1, (frameReceived frags f).2 :: (feedFrames (frameReceived frags f).1 fs).2) := by
  unfold feedFrames
  simp only [List.foldl_cons, List.nil_append]
  generalize (frameReceived frags f).1 = st
  generalize (frameReceived frags f).2 = o
  suffices h : ∀ (acc : List Outcome) (st : List Frame),
      (fs.foldl (fun acc f => ((frameReceived acc.1 f).1, acc.2 ++ [(frameReceived acc.1 f).2])) (st, acc)) =
      ((fs.foldl (fun acc f => ((frameReceived acc.1 f).1, acc.2 ++ [(frameReceived acc.1 f).2])) (st, [])).1,
        acc ++ (fs.foldl (fun acc f => ((frameReceived acc.1 f).1, acc.2 ++ [(frameReceived acc.1 f).2])) (st, [])).2) by
    simpa using h [o] st
  induction fs with
  | nil => intro acc st; simp
  | cons g gs ih =>
    intro acc st
    simp only [List.foldl_cons, List.nil_append]
    rw [ih (acc ++ [(frameReceived st g).2]), ih [(frameReceived st g).2]]
    simp [List.append_assoc]

/-- continuation fragments are appended while neither flag is set -/
theorem feed_mids (pending : List Frame) (mids : List Frame) (hp : pending ≠ [])
    (hm : ∀ m ∈ mids, isFirst m = false ∧ isLast m = false) :
    feedFrames pending mids = (pending ++ mids, mids.map (fun _ => Outcome.buffered)) := by
  induction mids generalizing pending with
  | nil => simp [feedFrames]
  | cons m ms ih =>
    have h1 := hm m (by simp)
    have hstep : frameReceived pending m = (pending ++ [m], .buffered) := by
      simp [frameReceived, h1.1, h1.2]
    rw [feedFrames_cons, hstep]
    simp only []
    rw [ih (pending ++ [m]) (by simp) (fun x hx => hm x (by simp [hx]))]
    simp

/-- **reassembly**: whatever stale fragments are pending, a train first :: middles ++ [last] whose bodies
    concatenate to `HLH.bytes h ++ payload` hands up exactly one message - command header `h`, parameters
    `payload` - when the last fragment arrives, and leaves nothing pending.  The fragment sizes are arbitrary. -/
theorem C10_reassembly (pending : List Frame) (first last : Frame) (mids : List Frame) (h : HLH) (payload : Bytes)
    (hf : isFirst first = true ∧ isLast first = false)
    (hm : ∀ m ∈ mids, isFirst m = false ∧ isLast m = false)
    (hl : isFirst last = false ∧ isLast last = true)
    (hbody : ((first :: mids ++ [last]).map bodyOf).flatten = HLH.bytes h ++ payload) :
    feedFrames pending (first :: mids ++ [last]) =
      ([], Outcome.buffered :: (mids.map fun _ => Outcome.buffered) ++ [Outcome.msg ⟨some h, payload⟩]) := by
  have h1 : frameReceived pending first = ([first], .buffered) := by
    simp [frameReceived, hf.1, hf.2]
  rw [List.cons_append, feedFrames_cons, h1]
  simp only []
  have hsplit : feedFrames [first] (mids ++ [last]) =
      ((feedFrames (feedFrames [first] mids).1 [last]).1, (feedFrames [first] mids).2 ++ (feedFrames (feedFrames [first] mids).1 [last]).2) := by
    unfold feedFrames
    rw [List.foldl_append]
    generalize (mids.foldl (fun acc f => ((frameReceived acc.1 f).1, acc.2 ++ [(frameReceived acc.1 f).2])) ([first], [])) = s
    obtain ⟨st, o⟩ := s
    simp
  rw [hsplit, feed_mids [first] mids (by simp) hm]
  simp only []
  have hmerge : merge ([first] ++ mids ++ [last]) = some ⟨some h, payload⟩ := by
    unfold merge
    have : (([first] ++ mids ++ [last]).map bodyOf).flatten = HLH.bytes h ++ payload := by
      simpa using hbody
    rw [this]
    have hlen : ¬ (HLH.bytes h ++ payload).length < 4 := by simp [HLH.bytes_length]
    simp only [hlen, if_false, HLH.ofBytes_bytes]
    rw [List.drop_left' (HLH.bytes_length h)]
  have hlast : frameReceived ([first] ++ mids) last = ([], .msg ⟨some h, payload⟩) := by
    simp only [frameReceived, hl.1, hl.2, Bool.false_eq_true, if_false, Bool.not_true]
    have hne : ([first] ++ mids).isEmpty = false := by simp
    simp only [hne, Bool.false_eq_true, if_false, hmerge]
  have hlast' : frameReceived (first :: mids) last = ([], .msg ⟨some h, payload⟩) := by simpa using hlast
  simp [feedFrames, hlast']

/-- **a frame flagged first always starts a new message**: an interrupted fragment sequence never corrupts
    the next complete (first+last) message, which is passed on unchanged -/
theorem C10_restart (pending : List Frame) (f : Frame) (p : HLPacket) (hp : f.hl = some p)
    (hfl : isFirst f = true ∧ isLast f = true) :
    frameReceived pending f = ([], .msg ⟨p.header, p.data⟩) := by
  simp [frameReceived, hfl.1, hfl.2, hp]

/-- ... and the same for an interrupted sequence followed by a new *fragmented* message: the stale fragments
    are discarded by the new first fragment (instance of `C10_reassembly`, which holds for every `pending`) -/
theorem C10_interrupted_then_fragmented (stale : List Frame) (first last : Frame) (mids : List Frame) (h : HLH)
    (payload : Bytes) (hf : isFirst first = true ∧ isLast first = false)
    (hm : ∀ m ∈ mids, isFirst m = false ∧ isLast m = false) (hl : isFirst last = false ∧ isLast last = true)
    (hbody : ((first :: mids ++ [last]).map bodyOf).flatten = HLH.bytes h ++ payload) :
    (feedFrames stale (first :: mids ++ [last])).1 = [] ∧
    (feedFrames stale (first :: mids ++ [last])).2.getLast? = some (Outcome.msg ⟨some h, payload⟩) := by
  rw [C10_reassembly stale first last mids h payload hf hm hl hbody]
  refine ⟨rfl, ?_⟩
  simp only []
  rw [List.getLast?_append]
  simp

/-- first / last flags survive stamping with any sequence number 0..3 -/
theorem flags_stamped (fl : Nat) (seq : Fin 4) (hfl : fl = 0 ∨ fl = 0x40 ∨ fl = 0x80 ∨ fl = 0xC0) :
    Frame.hasFlag (wireFlags fl seq.val) Gen.flagFirstFrag = Frame.hasFlag fl Gen.flagFirstFrag ∧
    Frame.hasFlag (wireFlags fl seq.val) Gen.flagLastFrag = Frame.hasFlag fl Gen.flagLastFrag ∧
    Frame.hasFlag (wireFlags fl seq.val) Gen.flagisACK = false := by
  rcases hfl with h | h | h | h <;> subst h <;> revert seq <;> decide

/-- **own transmitter → own receiver**: the fragments the host's fragmenter produces for a message that does
    not fit (C09), stamped with any sequence numbers, are - as frames - a train whose reassembly is the
    original command header and parameters -/
theorem C10_loopback (h : HLH) (hh : h ≠ 0#32) (data : Bytes)
    (hbig : Gen.bodyMax < (HLPacket.mk (some h) data).body.length) (pending : List Frame) :
    ∃ first last mids, Frag.fragments (Frag.whole ⟨some h, data⟩) ⟨some h, data⟩ = first :: (mids ++ [last]) ∧
      ((first :: mids ++ [last]).map bodyOf).flatten = HLH.bytes h ++ data := by
  obtain ⟨first, last, mids, hfr, hcat, _, _, _, _, _⟩ := Frag.C09_partition h hh data hbig
  refine ⟨first, last, mids, hfr, ?_⟩
  have hb : (HLPacket.mk (some h) data).body = HLH.bytes h ++ data := Frag.body_some h hh data
  rw [← hb, ← hcat, hfr]
  rfl

/-! ## non-vacuity -/
example : isFirst ⟨LL.withFlags (LL.base 20) 0x44, some ⟨some 0x20000#32, [1]⟩⟩ = true ∧
    isLast ⟨LL.withFlags (LL.base 20) 0x44, some ⟨some 0x20000#32, [1]⟩⟩ = false := by decide

end Zboss.Reasm
