import ZbossModel.Proofs.HostTimers
import ZbossModel.Proofs.HostLoss
import ZbossModel.Proofs.HostRest
/-! # C20 - closing or losing the link never strands a caller and is reported once -/
namespace Zboss.Host

/-- **new requests are refused immediately** once the link is gone (closed or lost) -/
theorem C20_refuse_new (st : St) (id key : Nat) (blocking : Bool) (nfrags timeout : Nat) (hclosed : st.isOpen = false)
    (hfresh : st.reqs.any (·.id == id) = false) :
    (step st (.start id key blocking nfrags timeout)).out = [.done id .runtimeError] ∧
    (step st (.start id key blocking nfrags timeout)).reqs = st.reqs := by
  simp [step, hfresh, hclosed, emit]

theorem settle_isOpen (f : Nat) (s : St) : (settle f s).isOpen = s.isOpen := (frame_settle f s).isOpen
theorem settle_transport (f : Nat) (s : St) : (settle f s).transport = s.transport := (frame_settle f s).transport
theorem settle_pack (f : Nat) (s : St) : (settle f s).pack = s.pack := (frame_settle f s).pack
theorem settle_listeners_nil (f : Nat) (s : St) (h : s.listeners = []) : (settle f s).listeners = [] := by
  apply List.eq_nil_iff_forall_not_mem.mpr
  intro l hl
  have := (frame_settle f s).listeners l hl
  rw [h] at this; simp at this

/-- **close cancels every waiter and shuts the link**: afterwards no response listener is registered, the
    link is closed and the transport gone; every request that was waiting for its response is woken -/
theorem C20_close (st : St) (hnr : st.resetting = false) :
    (step st .close).listeners = [] ∧ (step st .close).isOpen = false ∧
    (st.isOpen = true → (step st .close).transport = false ∧ (step st .close).pack = 0) := by
  simp only [step, settleAll, hnr, Bool.false_eq_true, if_false]
  refine ⟨?_, ?_, ?_⟩
  · apply settle_listeners_nil
    split <;> rfl
  · rw [settle_isOpen]
    split
    · rfl
    · rename_i h; simpa using h
  · intro ho
    rw [settle_transport, settle_pack]
    simp [ho, emit]

/-- every request that had a listener at `close` has its response future cancelled -/
theorem C20_close_cancels (st : St) (hnr : st.resetting = false) (l : Nat × Nat) (hl : l ∈ st.listeners) (r : Req)
    (hr : r ∈ st.reqs) (hid : r.id = l.1) :
    ∃ st1, step st .close = settle (settleFuel st1) st1 ∧ ∃ r' ∈ st1.reqs, r'.id = r.id ∧ r'.got = .cancelled := by
  simp only [step, settleAll, hnr, Bool.false_eq_true, if_false]
  have hc : (st.listeners.map (·.1)).contains r.id = true := by
    simp only [List.contains_eq_mem, List.mem_map, decide_eq_true_eq]
    exact ⟨l, hl, hid.symm⟩
  split
  · exact ⟨_, rfl, { r with got := .cancelled }, List.mem_map.mpr ⟨r, hr, if_pos hc⟩, rfl, rfl⟩
  · exact ⟨_, rfl, { r with got := .cancelled }, List.mem_map.mpr ⟨r, hr, if_pos hc⟩, rfl, rfl⟩

/-- **closing again is harmless**: a second close closes nothing and reports nothing but completions -/
theorem C20_close_idempotent (st : St) (hclosed : st.isOpen = false) :
    Out.closeOut ∉ (step st .close).out ∧ Out.appLost ∉ (step st .close).out := by
  simp only [step, settleAll]
  split
  · exact ⟨notmem_of_frame (frame_settle _ _) _ rfl (by simp [hclosed]),
      notmem_of_frame (frame_settle _ _) _ rfl (by simp [hclosed])⟩
  · exact ⟨notmem_of_frame (frame_settle _ _) _ rfl (by simp [hclosed]),
      notmem_of_frame (frame_settle _ _) _ rfl (by simp [hclosed])⟩

/-- **loss is reported exactly once - and not at all while a deliberate reset is in progress** -/
theorem C20_lost_once (st : St) :
    ((step st .lost).out.filter (· == Out.appLost)).length = (if st.resetting then 0 else 1) ∧
    (step st .lost).isOpen = false := by
  simp only [step, settleAll]
  refine ⟨?_, by rw [settle_isOpen]; split <;> rfl⟩
  rw [count_of_frame (frame_settle _ _) Out.appLost rfl]
  by_cases hr : st.resetting = true
  · simp [hr]
  · have hr' : st.resetting = false := by simpa using hr
    simp [hr', emit]

/-- no other event ever reports a loss, and only `close` closes -/
theorem C20_no_spurious_report (st : St) (e : Ev) (he : ∀ b, e ≠ .lost ∧ e ≠ .close ∧ e ≠ .setReset b) (o : Out)
    (ho : o = .appLost ∨ o = .closeOut) : o ∉ (step st e).out := by
  have hwd : isWD o = false := by rcases ho with h | h <;> subst h <;> rfl
  have hne : o ≠ .wack := by rcases ho with h | h <;> subst h <;> simp
  cases e with
  | start id k blocking nfrags timeout =>
    simp only [step, settleAll]
    split
    · simp
    split
    · rcases ho with h | h <;> subst h <;> simp [emit]
    · exact notmem_of_frame (frame_settle _ _) o hwd (by simp)
  | rxAck k => simp only [step]; split <;> exact notmem_of_frame (frame_settle _ _) o hwd (by simp)
  | rxRsp k =>
    simp only [step, settleAll]
    have h1 : o ∉ (if ({ st with out := [] } : St).transport = true then emit { st with out := [] } Out.wack else { st with out := [] }).out := by
      split
      · simp [emit]; exact hne
      · simp
    generalize (if ({ st with out := [] } : St).transport = true then emit { st with out := [] } Out.wack else { st with out := [] }) = st1 at h1
    cases st1.listeners.find? (fun l => l.2 == k) with
    | none => exact notmem_of_frame (frame_settle _ _) o hwd h1
    | some p =>
      obtain ⟨i, k'⟩ := p
      simp only []
      apply notmem_of_frame (frame_settle _ _) o hwd
      split <;> simpa [updReq] using h1
  | tick =>
    simp only [step, settleAll]
    cases nextDeadline { st with out := [] } with
    | none => simp
    | some d =>
      simp only []
      exact notmem_of_frame ((frame_foldl_unwind _ _ _).trans (frame_settle _ _)) o hwd (by simp)
  | cancel id =>
    simp only [step, settleAll]
    cases getReq { st with out := [] } id with
    | none => simp
    | some r =>
      simp only []
      split
      · simp
      · exact notmem_of_frame ((frame_unwind _ _ _).trans (frame_settle _ _)) o hwd (by simp)
  | close => exact absurd rfl (he true).2.1
  | lost => exact absurd rfl (he true).1
  | setReset b => exact absurd rfl (he b).2.2
  | connect => simp only [step]; split <;> simp

/-- `close()` (no reset in progress) leaves the API shut: link gone, listener table empty -/
theorem C20_close_shuts (st : St) (hnr : st.resetting = false) : Shut (step st .close) :=
  ⟨(C20_close st hnr).2.1, (C20_close st hnr).1⟩

/-- … and it stays shut whatever happens afterwards (responses, ACKs, timers, cancellations, further closes,
    loss, new requests - which are refused) - until `connect()` is called on the object again -/
theorem C20_shut_forever (st : St) (h : Shut st) (evs : List Ev) (hnc : ∀ e ∈ evs, e ≠ .connect) :
    Shut (evs.foldl step st) := by
  induction evs generalizing st with
  | nil => exact h
  | cons e es ih =>
    exact ih _ (shut_step st e (hnc e (List.mem_cons_self ..)) h) (fun x hx => hnc x (List.mem_cons_of_mem _ hx))

/-- **none waits for its response after close - every history, every scheduling order**: in any state the
    event loop can be in once the API is shut, every request that is still running carries a response future
    that is already resolved or cancelled (`got ≠ nothing`); its response timeout plays no role any more -/
theorem C20_none_awaits_response (hist : List Out) (st : St) (h : MReach hist st) (hs : Shut st) (r : Req)
    (hr : r ∈ st.reqs) (hp : r.phase ≠ .done) : r.got ≠ .nothing :=
  no_listener_no_wait hist st h hs.2 r hr hp

/-- such a request, once it is in its response wait, ends at its very next task step; and a request that is
    about to hand a fragment to the link ends there with `RuntimeError` -/
theorem C20_next_step_ends (hist : List Out) (st : St) (h : MReach hist st) (hs : Shut st) (i : Nat) (r : Req)
    (hg : getReq st i = some r) :
    (r.phase = .waitRsp → ∃ o, (runReq 1 st i).out = st.out ++ [.done i o]) ∧
    (r.phase = .sendfrag → (runReq 1 st i).out = st.out ++ [.done i .runtimeError]) := by
  refine ⟨fun hp => ?_, fun hp => sendfrag_step_ends st i r hg hp hs.1⟩
  have hrm := (getReq_mem st i r hg).1
  exact waitRsp_step_ends st i r hg hp
    (C20_none_awaits_response hist st h hs r hrm (by rw [hp]; decide))

/-- the converse of C13's "no residue", for every history: a running request that has been neither answered
    nor cancelled still has its listener - so `close()`, which cancels every listener, reaches every request -/
theorem C20_close_reaches_every_request (evs : List Ev) (r : Req) (hr : r ∈ (runEvents {} evs).1.reqs)
    (hp : r.phase ≠ .done) (hg : r.got = .nothing) : (r.id, r.key) ∈ (runEvents {} evs).1.listeners := by
  obtain ⟨hist, _, hm⟩ := mreach_run evs
  exact mreach_cov hist _ hm (core r) (List.mem_map.mpr ⟨r, hr, rfl⟩) hp hg

/-- **the event loop comes to rest after every event of every history** (`Proofs/HostRest.lean`: a measure - four times
    the task steps still possible before the requests block, plus the length of the ready list - drops with every task
    run, and the fuel `step` gives to `settle` covers it).  Events are taken at quiescent points of the loop: this is
    the theorem that every reachable state of the model is one. -/
theorem C20_loop_comes_to_rest (evs : List Ev) : (runEvents {} evs).1.ready = [] := rest_reachable evs

/-- **no caller is stranded - every history**: after any history (the event loop has nothing left to run,
    `C20_loop_comes_to_rest`), a request that is still running is waiting - directly or through a chain of the three locks - for
    an acknowledgement wait or a response wait that is still pending (both are bounded by timers).  If neither is
    pending, nothing is running.  Rests on two invariants proved for every reachable state: queue integrity (every
    queue entry is a running request that waits for or holds that lock) and no lost wake-up (a running request is
    either on the ready queue or parked behind a lock it does not head, in its ACK wait, or in a pending response
    wait) - `Proofs/HostLive.lean` -/
theorem C20_no_stranding (evs : List Ev)
    (hna : ∀ r ∈ (runEvents {} evs).1.reqs, r.phase ≠ .waitAck)
    (hnr : ∀ r ∈ (runEvents {} evs).1.reqs, r.phase = .waitRsp → r.got ≠ .nothing) :
    ∀ r ∈ (runEvents {} evs).1.reqs, r.phase = .done :=
  drain _ (good_reachable evs).live (rest_reachable evs) hna hnr

/-- **after close only the acknowledgement wait keeps anything alive**: in a shut, quiescent state every request
    has ended unless some request is still in its ACK wait - which lasts at most `ACK_TIMEOUT` -/
theorem C20_close_drains (evs : List Ev) (hs : Shut (runEvents {} evs).1)
    (hna : ∀ r ∈ (runEvents {} evs).1.reqs, r.phase ≠ .waitAck) :
    ∀ r ∈ (runEvents {} evs).1.reqs, r.phase = .done :=
  drain_shut _ (good_reachable evs) hs (rest_reachable evs) hna

/-- **every request ends within the acknowledgement wait after close - every history**: let the API be closed in any
    reachable state (no reset in progress); the event loop comes to rest (`C20_loop_comes_to_rest`).  If some request is
    still running then exactly one acknowledgement wait is pending; the next timer to fire is that wait's - the clock
    moves to its deadline, which was set to `now + ACK_TIMEOUT` when the frame was written (`C11_write_step`) - and
    once the loop has come to rest again every request has ended.  No request sits out its response timeout. -/
theorem C20_close_bounded (evs : List Ev) (hnr : (runEvents {} evs).1.resetting = false) :
    (∀ r ∈ (step (step (runEvents {} evs).1 .close) .tick).reqs, r.phase = .done) ∧
    (∀ j ∈ (step (runEvents {} evs).1 .close).reqs, j.phase = .waitAck →
      (step (step (runEvents {} evs).1 .close) .tick).now = max (step (runEvents {} evs).1 .close).now j.deadline) := by
  have hg1 : Good (step (runEvents {} evs).1 .close) := good_step _ _ (good_reachable evs)
  have hs1 : Shut (step (runEvents {} evs).1 .close) := C20_close_shuts _ hnr
  have hq1 : (step (runEvents {} evs).1 .close).ready = [] := rest_step _ _ (good_reachable evs) (rest_reachable evs)
  have hq2 : (step (step (runEvents {} evs).1 .close) .tick).ready = [] := rest_step _ _ hg1 hq1
  obtain ⟨hcalm, htime⟩ := calm_after_tick _ hg1 hs1 hq1
  refine ⟨?_, htime⟩
  apply drain_shut _ (good_step _ _ hg1) (shut_step _ _ (by intro h; cases h) hs1) hq2
  intro r hrm
  exact (hcalm (core r) (List.mem_map.mpr ⟨r, hrm, rfl⟩)).2

/-- **requests in flight terminate by their timeout - one timer event at a time, every history**: if a request waits
    for its response and the clock reaches its deadline at the next timer event, the request has ended (with
    `TimeoutError`) after that event - whether the link is open, lost or closed, whatever else is going on.  With
    `C20_no_stranding` (a running request at a quiescent point waits for a pending ACK or response wait) this is the
    loss clause of the property. -/
theorem C20_response_wait_ends_at_deadline (evs : List Ev) (r : Req) (hr : r ∈ (runEvents {} evs).1.reqs)
    (hp : r.phase = .waitRsp) (hgot : r.got = .nothing) (d : Nat)
    (hnd : nextDeadline ({ (runEvents {} evs).1 with out := [] } : St) = some d)
    (hdue : r.deadline ≤ max (runEvents {} evs).1.now d) :
    ∃ r' ∈ (step (runEvents {} evs).1 .tick).reqs, r'.id = r.id ∧ r'.phase = .done :=
  response_wait_ends _ (good_reachable evs) r hr hp hgot d hnd hdue

/-- the task of a request always blocks or ends within six micro-steps: the fuel of the model's `runReq` (64) is never
    the reason a task stops -/
theorem C20_task_runs_to_a_stop (st : St) (i : Nat) : rank st i ≤ 5 := rank_le st i

/-! ## non-vacuity: the hypotheses of `C20_no_stranding` / `C20_close_drains` on a concrete history - three requests,
    one awaiting its ACK, two queued; close; the ACK wait expires: the loop is quiescent, nothing awaits an ACK, all ended -/
example : let st := (runEvents {} [.start 1 5 true 3 300013, .start 2 1 true 1 500026, .start 3 2 false 2 700039, .close, .tick]).1
    st.ready = [] ∧ (st.reqs.all fun r => r.phase != .waitAck) = true ∧ (st.reqs.all fun r => r.phase == .done) = true ∧
    st.isOpen = false ∧ st.listeners = [] := by decide +kernel

/-! ## non-vacuity of `C20_response_wait_ends_at_deadline`: the link is lost while request 1 awaits its response; its
    timer (300013 ms) is the next one: afterwards the request has ended with `TimeoutError` -/
example : let r := runEvents {} [.start 1 5 false 1 300013, .rxAck 0, .lost, .tick]
    r.2.getLast? = some [.done 1 .timeoutError] ∧ r.1.now = 300013 := by decide +kernel

/-! ## non-vacuity of `C20_close_bounded`: three requests (one awaiting the ACK of its first fragment, written at
    time 0, two queued); close: the loop comes to rest with request 1 still in its ACK wait; the timer fires at
    ACK_TIMEOUT (whatever the working tree sets it to): the loop comes to rest again and every request has ended -/
example : let st := (runEvents {} [.start 1 5 true 3 300013, .start 2 1 true 1 500026, .start 3 2 false 2 700039]).1
    st.resetting = false ∧ (step st .close).ready = [] ∧ (step (step st .close) .tick).ready = [] ∧
    ((step st .close).reqs.any fun r => r.phase == .waitAck) = true ∧
    (step (step st .close) .tick).now = Gen.ackTimeoutMs := by decide +kernel

/-! ## non-vacuity: close with a request awaiting its ACK and one queued: both end within the ACK wait -/
example : let r := runEvents {} [.start 1 5 true 3 300013, .start 2 1 true 1 500026, .close, .tick]
    r.2 = [[.write 1 0 0 3], [], [.closeOut], [.done 1 .runtimeError, .done 2 .runtimeError]] ∧ r.1.now = Gen.ackTimeoutMs := by
  decide +kernel

/-- **requests in flight terminate by their timers after a loss - every history**: lose the link in any reachable
    state.  Give every request the weight 2 while it may still write a frame or waits for an acknowledgement and 1 while
    it is otherwise running; this potential never grows under task steps once the API has no uart and drops with every
    timer expiry while a request is running (`tick_progress`, resting on the no-lost-wake-up invariant).  Hence after as
    many timer expiries as the potential counts - at most two per request: one acknowledgement wait, one response wait -
    every request has ended; none waits for anything but its own timers.  (Each expiry is taken at a quiescent point of
    the event loop - and every reachable state is one, `C20_loop_comes_to_rest`.) -/
theorem C20_loss_requests_end_with_their_timers (evs : List Ev) (n : Nat)
    (hn : 2 * (step (runEvents {} evs).1 .lost).reqs.length ≤ n) :
    ∀ r ∈ (ticks n (step (runEvents {} evs).1 .lost)).reqs, r.phase = .done := by
  have hg : Good (step (runEvents {} evs).1 .lost) := good_step _ _ (good_reachable evs)
  have hclosed : (step (runEvents {} evs).1 .lost).isOpen = false := by
    rw [step_eq_pre]
    have h2 : (pre (runEvents {} evs).1 .lost).2 = true := rfl
    rw [h2]
    show (settle (settleFuel (pre (runEvents {} evs).1 .lost).1) (pre (runEvents {} evs).1 .lost).1).isOpen = false
    rw [(frame_settle _ _).isOpen]
    simp only [pre]
    split <;> rfl
  have hq0 : (step (runEvents {} evs).1 .lost).ready = [] := rest_step _ _ (good_reachable evs) (rest_reachable evs)
  exact loss_drains n _ hg hclosed (fun k _ => rest_ticks k _ hg hq0) (Nat.le_trans (pot_le _) hn)

/-- the same from any reachable state in which the API has no uart (closed, or lost earlier), with the exact count -/
theorem C20_no_uart_requests_end_with_their_timers (evs : List Ev) (n : Nat)
    (hclosed : (runEvents {} evs).1.isOpen = false)
    (hn : pot (view (runEvents {} evs).1) ≤ n) :
    ∀ r ∈ (ticks n (runEvents {} evs).1).reqs, r.phase = .done :=
  loss_drains n _ (good_reachable evs) hclosed (fun k _ => rest_ticks k _ (good_reachable evs) (rest_reachable evs)) hn

/-- every single expiry makes progress -/
theorem C20_timer_expiry_makes_progress (evs : List Ev) (hclosed : (runEvents {} evs).1.isOpen = false)
    (hrun : ∃ r ∈ (runEvents {} evs).1.reqs, r.phase ≠ .done) :
    pot (view (step (runEvents {} evs).1 .tick)) < pot (view (runEvents {} evs).1) :=
  tick_progress _ (good_reachable evs) hclosed (rest_reachable evs) hrun

/-! ## non-vacuity of `C20_loss_requests_end_with_their_timers`: three requests - request 1 (3 fragments, blocking)
    awaits the ACK of its first fragment, request 2 (blocking) queues behind it, request 3 (2 fragments) waits for the
    message lock; the link is lost.  Six timer expiries are allowed for (2 x 3 requests), every one is taken at a
    quiescent point, and all three requests have ended; the first expiry (the ACK wait) already ends all of them. -/
example : let st := step (runEvents {} [.start 1 5 true 3 300013, .start 2 1 true 1 500026, .start 3 2 false 2 700039]).1 .lost
    (∀ k, k < 6 → (ticks k st).ready = []) ∧ 2 * st.reqs.length ≤ 6 ∧ ((ticks 6 st).reqs.all fun r => r.phase == .done) = true ∧
    pot (view st) = 4 ∧ pot (view (ticks 1 st)) = 0 := by decide +kernel

/-! ## ... and with requests that outlive the loss until their own response timeouts: request 1 is fully acknowledged
    and awaits its response (300013 ms), request 2 awaits the ACK of its only fragment: the expiries come at
    ACK_TIMEOUT (request 2 goes on to await its response), at 300013 ms (request 1 ends) and at request 2's deadline -/
example : let st := step (runEvents {} [.start 1 5 false 1 300013, .rxAck 0, .start 2 1 false 1 500026]).1 .lost
    (∀ k, k < 4 → (ticks k st).ready = []) ∧ pot (view st) = 3 ∧ pot (view (ticks 1 st)) = 2 ∧ pot (view (ticks 2 st)) = 1 ∧
    pot (view (ticks 3 st)) = 0 ∧ ((ticks 3 st).reqs.all fun r => r.phase == .done) = true := by decide +kernel

/-- **`connect()` on the same object opens a fresh connection**: the API is open again, the packet numbering starts at
    0, and nothing else changes - no request, no listener, nothing written, nobody woken -/
theorem C20_connect_reopens (st : St) (hclosed : st.isOpen = false) :
    (step st .connect).isOpen = true ∧ (step st .connect).transport = true ∧ (step st .connect).pack = 0 ∧
    (step st .connect).reqs = st.reqs ∧ (step st .connect).listeners = st.listeners ∧ (step st .connect).out = [] ∧
    (step st .connect).gen = st.gen + 1 := by
  simp [step, hclosed]

/-- ... and an acknowledgement that arrives on the new connection does not end the wait of a sender that is still
    waiting on the old one (it waits on the old protocol object's event): its wait ends by expiry -/
theorem C20_ack_on_new_connection (st : St) (k : Nat) (r : Req) (hr : r ∈ st.reqs) (hp : r.phase = .waitAck)
    (hg : r.gen ≠ st.gen) : r ∈ (pre st (.rxAck k)).1.reqs := by
  simp only [pre]
  split
  · refine List.mem_map.mpr ⟨r, hr, ?_⟩
    rw [if_neg]
    simp [hp, hg]
  · exact hr

/-! ## non-vacuity: a 3-fragment request is interrupted by `close()` after its first fragment; `connect()` follows while it
    still sits in its acknowledgement wait; an ACK 0 on the new connection leaves it waiting (but moves the new
    connection's numbering to 1); when its wait expires it goes on with fragments 1 and 2 - stamped with the new
    connection's number - under the message lock, and ends cancelled (its response future was cancelled by the close);
    only then is the new request 2 written -/
example : let r := runEvents {} [.start 1 5 false 3 300013, .close, .connect, .start 2 1 false 1 500026, .rxAck 0, .tick, .tick, .tick]
    (r.2.map fun l => l.filter isWD) = [[.write 1 0 0 3], [], [], [], [], [.write 1 1 1 3], [.write 1 2 1 3],
      [.done 1 .cancelled, .write 2 0 1 1]] ∧ r.1.gen = 1 ∧ r.1.isOpen = true := by
  decide +kernel

end Zboss.Host
