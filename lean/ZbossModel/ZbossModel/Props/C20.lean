import ZbossModel.Host
namespace Zboss.Host
theorem C20_placeholder : True := trivial
end Zboss.Host
