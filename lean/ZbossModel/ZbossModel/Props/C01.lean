import ZbossModel.Proofs.RxLog
/-! # C01 - serial receive decoding is exact and independent of chunk boundaries -/
namespace Zboss.Rx
open Gen

/-- the code's find-based resynchronisation (incl. the kept trailing 0xDE) is the canonical skip -/
theorem C01_resync (b : Bytes) : resyncPy b = skip b.tail := resyncPy_eq b

/-- the frame parser reaches its verdict from a prefix: once it is not "too short", further bytes do
    not change verdict, frame or consumed length -/
theorem C01_verdict_stable (a b : Bytes) (h : tryFrame a ≠ .short) : tryFrame (a ++ b) = tryFrame a :=
  tryFrame_append a b h

/-- every accepted frame consumes at least a header and at most the buffer: the loop terminates -/
theorem C01_progress (a : Bytes) (f : Frame) (n : Nat) (h : tryFrame a = .ok f n) : 7 ≤ n ∧ n ≤ a.length :=
  tryFrame_ok_le a f n h

/-- **chunk independence**: however the stream is cut into reads (and whatever the handler does), the
    frames handed to the upper layer are those of the left-to-right parse of the whole stream -/
theorem C01_chunking (h : Frame → Bool) (tr : Bool) (chunks : List Bytes) :
    deliveredOf (session h { transport := tr } chunks).2 =
      deliveredOf ((run tryFrame chunks.flatten).1.flatMap (outsOf tr)) := by
  have hs := session_out h chunks { transport := tr } [] []
  simp only [List.nil_append, List.length_nil, List.drop_zero] at hs
  unfold session
  rw [hs.1]
  have hc : (chunks.foldl (feed tryFrame) ([], [])).1 = (run tryFrame chunks.flatten).1 := (chunking zbossScanner chunks).1
  rw [hc]

/-- two chunkings of the same stream deliver the same frames in the same order -/
theorem C01_any_two_chunkings (h1 h2 : Frame → Bool) (tr : Bool) (c1 c2 : List Bytes) (hsame : c1.flatten = c2.flatten) :
    deliveredOf (session h1 { transport := tr } c1).2 = deliveredOf (session h2 { transport := tr } c2).2 := by
  rw [C01_chunking, C01_chunking, hsame]

/-- **promptness, prefix form**: after *every* read the cumulative deliveries are exactly those of the
    parse of the bytes received so far - nothing is withheld that the prefix already determines -/
theorem C01_prefix (h : Frame → Bool) (tr : Bool) (chunks : List Bytes) (k : Nat) :
    deliveredOf (session h { transport := tr } (chunks.take k)).2 =
      deliveredOf ((run tryFrame (chunks.take k).flatten).1.flatMap (outsOf tr)) :=
  C01_chunking h tr (chunks.take k)

/-- the pending buffer is what the whole-stream parse leaves, up to already-rejected garbage -/
theorem C01_pending (h : Frame → Bool) (tr : Bool) (chunks : List Bytes) :
    skip (session h { transport := tr } chunks).1.buf = skip (run tryFrame chunks.flatten).2 := by
  have hs := session_out h chunks { transport := tr } [] []
  unfold session
  rw [hs.2.1]
  exact (chunking zbossScanner chunks).2

/-! ## non-vacuity: a cut inside the start marker after pending noise (the D4 case) -/
example : deliveredOf (session (fun _ => false) { transport := true }
      [[1, 2, 3, 4, 5, 6, 7, 0xDE], [0xAD, 0x0c, 0x00, 0x06, 0xc8, 0xe9, 0x31, 0xa4, 0x00, 0x00, 0x02, 0x00, 0x01]]).2
      ≠ [] := by
  rw [C01_chunking]; decide +kernel

end Zboss.Rx
