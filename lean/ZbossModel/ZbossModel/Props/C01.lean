import ZbossModel.Proofs.RxLog
import ZbossModel.Proofs.RxLocated
/-! # C01 - serial receive decoding is exact and independent of chunk boundaries -/
namespace Zboss.Rx
open Gen

/-- the code's find-based resynchronisation (incl. the kept trailing 0xDE) is the canonical skip -/
theorem C01_resync (b : Bytes) : resyncPy b = skip b.tail := resyncPy_eq b

/-- the frame parser reaches its verdict from a prefix: once it is not "too short", further bytes do
    not change verdict, frame or consumed length -/
theorem C01_verdict_stable (a b : Bytes) (h : tryFrame a ≠ .short) : tryFrame (a ++ b) = tryFrame a :=
  tryFrame_append a b h

/-- every accepted frame consumes at least a header and at most the buffer: the loop terminates -/
theorem C01_progress (a : Bytes) (f : Frame) (n : Nat) (h : tryFrame a = .ok f n) : 7 ≤ n ∧ n ≤ a.length :=
  tryFrame_ok_le a f n h

/-- **chunk independence**: however the stream is cut into reads (and whatever the handler does), the
    frames handed to the upper layer are those of the left-to-right parse of the whole stream -/
theorem C01_chunking (h : Frame → Bool) (tr : Bool) (chunks : List Bytes) :
    deliveredOf (session h { transport := tr } chunks).2 =
      deliveredOf ((run tryFrame chunks.flatten).1.flatMap (outsOf tr)) := by
  have hs := session_out h chunks { transport := tr } [] []
  simp only [List.nil_append, List.length_nil, List.drop_zero] at hs
  unfold session
  rw [hs.1]
  have hc : (chunks.foldl (feed tryFrame) ([], [])).1 = (run tryFrame chunks.flatten).1 := (chunking zbossScanner chunks).1
  rw [hc]

/-- chunk independence **in every link state**: whatever the sequence numbers are and whether or not a sender waits for an
    acknowledgement, a receiver with an empty buffer hands up the frames of the left-to-right parse of what it is fed -/
theorem C01_chunking_any_state (h : Frame → Bool) (st : RxState) (hb : st.buf = []) (chunks : List Bytes) :
    deliveredOf (session h st chunks).2 =
      deliveredOf ((run tryFrame chunks.flatten).1.flatMap (outsOf st.transport)) := by
  have hs := session_out h chunks st [] []
  simp only [List.nil_append, List.length_nil, List.drop_zero] at hs
  unfold session
  rw [hs.1, hb]
  have hc : (chunks.foldl (feed tryFrame) ([], [])).1 = (run tryFrame chunks.flatten).1 := (chunking zbossScanner chunks).1
  rw [hc]

/-- ... so two receivers in *different* link states, fed the same stream cut in different ways, hand up the same frames
    (the writes differ only in whether there is a transport to write to) -/
theorem C01_any_two_states (h1 h2 : Frame → Bool) (s1 s2 : RxState) (hb1 : s1.buf = []) (hb2 : s2.buf = [])
    (c1 c2 : List Bytes) (hsame : c1.flatten = c2.flatten) :
    deliveredOf (session h1 s1 c1).2 = deliveredOf (session h2 s2 c2).2 := by
  rw [C01_chunking_any_state h1 s1 hb1, C01_chunking_any_state h2 s2 hb2, hsame]
  have key : ∀ (tr : Bool) (fs : List Frame), deliveredOf (fs.flatMap (outsOf tr)) = deliveredOf (fs.flatMap (outsOf true)) := by
    intro tr fs
    induction fs with
    | nil => rfl
    | cons f fs ih =>
      simp only [List.flatMap_cons, deliveredOf, List.filterMap_append] at ih ⊢
      rw [ih]
      congr 1
      unfold outsOf
      split
      · rfl
      · cases tr <;> cases f.hl <;> simp
  rw [key s1.transport, key s2.transport]

/-- two chunkings of the same stream deliver the same frames in the same order -/
theorem C01_any_two_chunkings (h1 h2 : Frame → Bool) (tr : Bool) (c1 c2 : List Bytes) (hsame : c1.flatten = c2.flatten) :
    deliveredOf (session h1 { transport := tr } c1).2 = deliveredOf (session h2 { transport := tr } c2).2 := by
  rw [C01_chunking, C01_chunking, hsame]

/-- **promptness, prefix form**: after *every* read the cumulative deliveries are exactly those of the
    parse of the bytes received so far - nothing is withheld that the prefix already determines -/
theorem C01_prefix (h : Frame → Bool) (tr : Bool) (chunks : List Bytes) (k : Nat) :
    deliveredOf (session h { transport := tr } (chunks.take k)).2 =
      deliveredOf ((run tryFrame (chunks.take k).flatten).1.flatMap (outsOf tr)) :=
  C01_chunking h tr (chunks.take k)

/-- the pending buffer is what the whole-stream parse leaves, up to already-rejected garbage -/
theorem C01_pending (h : Frame → Bool) (tr : Bool) (chunks : List Bytes) :
    skip (session h { transport := tr } chunks).1.buf = skip (run tryFrame chunks.flatten).2 := by
  have hs := session_out h chunks { transport := tr } [] []
  unfold session
  rw [hs.2.1]
  exact (chunking zbossScanner chunks).2

/-! ## non-vacuity: a cut inside the start marker after pending noise (the D4 case) -/
example : deliveredOf (session (fun _ => false) { transport := true }
      [[1, 2, 3, 4, 5, 6, 7, 0xDE], [0xAD, 0x0c, 0x00, 0x06, 0xc8, 0xe9, 0x31, 0xa4, 0x00, 0x00, 0x02, 0x00, 0x01]]).2
      ≠ [] := by
  rw [C01_chunking]; decide +kernel

end Zboss.Rx

namespace Zboss.Rx
open Gen

/-! ## declarative part: which frames, where, when -/

/-- **each once, in stream order, at a position where the frame is well-formed**: the frames of the whole-stream
    parse come with stream positions; positions increase, frames do not overlap, and at its position every
    frame is accepted by the single-frame parser (`C01_accepted_is_wellformed` says what that means) -/
theorem C01_sound (s : Bytes) :
    (located tryFrame s).map (·.2.1) = (run tryFrame s).1 ∧ Ordered 0 (located tryFrame s) ∧
    ∀ e ∈ located tryFrame s, e.1 + e.2.2 ≤ s.length ∧ tryFrame (s.drop e.1) = .ok e.2.1 e.2.2 := by
  have h1 := located_frames zbossScanner s
  have h2 := extractAt_ordered zbossScanner s (s.length + 1) 0 (Nat.zero_le _)
  have h3 := extractAt_sound zbossScanner s (s.length + 1) 0 (Nat.zero_le _)
  simp only [zbossScanner, List.drop_zero] at h1 h2 h3
  refine ⟨h1, h2, ?_⟩
  intro e he
  have := h3 e he
  exact ⟨this.2.1, this.2.2⟩

/-- **accepted ⇒ well-formed**: start marker, NCP frame type, valid header checksum, a declared length of at
    least 5 that fits the bytes present; the frame consumes at most its declared extent -/
theorem C01_accepted_is_wellformed (b : Bytes) (f : Frame) (n : Nat) (h : tryFrame b = .ok f n) :
    b.take 2 = [0xDE, 0xAD] ∧ (b.getD 4 0).toNat = 6 ∧ (Crc.crc8B (slice b 2 6)).toNat = (b.getD 6 0).toNat ∧
    5 ≤ fromLE (slice b 2 4) ∧ fromLE (slice b 2 4) + 2 ≤ b.length ∧ 7 ≤ n ∧ n ≤ fromLE (slice b 2 4) + 2 := by
  obtain ⟨e, he, hn, hle⟩ := extent_ok b f n h
  have hh : headerOk b = true := by
    cases hh : headerOk b with
    | true => rfl
    | false => simp [extent, hh] at he
  simp only [extent, hh, if_true, Option.some.injEq] at he
  obtain ⟨h7, c1, c2, c3, c4⟩ := (headerOk_iff b).mp hh
  rw [sig_bytes] at c1
  exact ⟨c1, c2, c3, c4, by omega, (tryFrame_ok_le b f n h).1, by omega⟩

theorem hasFlag_or (fl a b : Nat) : Frame.hasFlag fl (a ||| b) = (Frame.hasFlag fl a || Frame.hasFlag fl b) := by
  unfold Frame.hasFlag
  rw [Nat.and_or_distrib_left]
  by_cases h1 : fl &&& a = 0 <;> by_cases h2 : fl &&& b = 0 <;> simp [h1, h2, Nat.or_eq_zero_iff]

/-- a data frame (first fragment, continuation or complete) is accepted only with a valid body checksum over
    exactly the declared body, and then consumes exactly its declared extent -/
theorem C01_accepted_body_crc (b : Bytes) (f : Frame) (n : Nat) (h : tryFrame b = .ok f n) (hdata : isAck f = false) :
    2 ≤ ((b.drop 7).take (fromLE (slice b 2 4) - 5)).length ∧
    fromLE (((b.drop 7).take (fromLE (slice b 2 4) - 5)).take 2) =
      Crc.crc16B (((b.drop 7).take (fromLE (slice b 2 4) - 5)).drop 2) ∧
    n = fromLE (slice b 2 4) + 2 := by
  obtain ⟨e, he, hn, hle⟩ := extent_ok b f n h
  have hh : headerOk b = true := by
    cases hh : headerOk b with
    | true => rfl
    | false => simp [extent, hh] at he
  obtain ⟨h7, c1, c2, c3, c4⟩ := (headerOk_iff b).mp hh
  have h7' : 7 ≤ b.length := by omega
  have hsz := size_ofBytes b h7'
  have hnotshort : ¬ b.length < fromLE (slice b 2 4) + 2 := by
    intro hlt
    have := (short_iff_incomplete b hh).mpr hlt
    rw [this] at h; cases h
  rw [tryFrame_after_header b hh, if_neg hnotshort] at h
  generalize hL : fromLE (slice b 2 4) = L at *
  have hk : ((L : Int) - 5) = ((L - 5 : Nat) : Int) := by omega
  have hpl : (List.take (L - 5) (b.drop 7)).length = L - 5 := by simp; omega
  have hdl : (List.drop (L - 5) (b.drop 7)).length = b.length - (L + 2) := by simp; omega
  -- the library decoder on a buffer that holds the whole extent
  unfold Frame.deserialize at h
  simp only [show ¬ b.length < 7 from h7, if_false, hsz] at h
  by_cases c5 : LL.sig (LL.ofBytes b) ≠ Gen.signature
  · simp [c5] at h
  by_cases c6 : LL.crcOf (LL.ofBytes b) ≠ LL.crc (LL.ofBytes b)
  · simp [c5, c6] at h
  simp only [c5, c6, if_false] at h
  by_cases c7 : Frame.hasFlag (LL.flags (LL.ofBytes b)) Gen.flagisACK = true
  · simp only [c7, if_true, hasFlag_or, Bool.true_or] at h
    injection h with h1 _
    rw [← h1] at hdata
    simp [isAck, c7] at hdata
  have c7' : Frame.hasFlag (LL.flags (LL.ofBytes b)) Gen.flagisACK = false := by simpa using c7
  simp only [c7', Bool.false_eq_true, if_false, hk, Frame.pyTake, Frame.pyDrop, Int.toNat_natCast, Int.natCast_nonneg,
    ge_iff_le, if_true] at h
  by_cases c8 : Frame.hasFlag (LL.flags (LL.ofBytes b)) Gen.flagFirstFrag = true
  · simp only [c8, if_true] at h
    cases hp : HLPacket.deserialize (List.take (L - 5) (b.drop 7)) with
    | error e => rw [hp] at h; cases e <;> simp at h
    | ok p =>
      rw [hp] at h
      simp only [hasFlag_or, c8, Bool.or_true, if_true] at h
      injection h with _ h2
      unfold HLPacket.deserialize at hp
      split at hp
      · cases hp
      · rename_i hl2
        simp only [] at hp
        split at hp
        · cases hp
        · rename_i hcrc
          exact ⟨by omega, by simpa using hcrc, by rw [← h2, hdl]; omega⟩
  · have c8' : Frame.hasFlag (LL.flags (LL.ofBytes b)) Gen.flagFirstFrag = false := by simpa using c8
    simp only [c8', Bool.false_eq_true, if_false, hasFlag_or, c7', Bool.or_self] at h
    split at h
    · cases h
    · rename_i hl2
      split at h
      · cases h
      · rename_i hcrc
        injection h with _ h2
        exact ⟨by omega, by simpa using hcrc, by rw [← h2, hdl]; omega⟩

/-- **complete**: a frame the parser accepts at stream position `i` - fully arrived - is among the frames of the
    parse, unless an earlier position carries a checksum-valid header whose declared extent reaches over `i` -/
theorem C01_complete (s : Bytes) (i n : Nat) (f : Frame) (hok : tryFrame (s.drop i) = .ok f n)
    (hfree : ∀ j, j < i → ∀ e, extent (s.drop j) = some e → j + e ≤ i) : (i, f, n) ∈ located tryFrame s :=
  located_complete zbossScanner zbossExtent s i n f hok hfree

theorem mem_delivered (tr : Bool) (frames : List Frame) (f : Frame) (hf : f ∈ frames) (hd : isAck f = false)
    (p : HLPacket) (hp : f.hl = some p) : f ∈ deliveredOf (frames.flatMap (outsOf tr)) := by
  simp only [deliveredOf, List.mem_filterMap, List.mem_flatMap]
  refine ⟨.deliver f, ⟨f, hf, ?_⟩, rfl⟩
  simp [outsOf, hd, hp]

/-- **prompt**: as soon as the last byte of such a data frame has arrived - whatever the reads were cut into,
    whatever the handler did - the frame has been handed to the upper layer -/
theorem C01_complete_prompt (h : Frame → Bool) (tr : Bool) (chunks : List Bytes) (i n : Nat) (f : Frame) (p : HLPacket)
    (hok : tryFrame (chunks.flatten.drop i) = .ok f n) (hd : isAck f = false) (hp : f.hl = some p)
    (hfree : ∀ j, j < i → ∀ e, extent (chunks.flatten.drop j) = some e → j + e ≤ i) :
    f ∈ deliveredOf (session h { transport := tr } chunks).2 := by
  rw [C01_chunking]
  have hmem := C01_complete chunks.flatten i n f hok hfree
  have hf : f ∈ (run tryFrame chunks.flatten).1 := by
    have h1 := located_frames zbossScanner chunks.flatten
    simp only [zbossScanner] at h1
    rw [← h1]
    exact List.mem_map.mpr ⟨(i, f, n), hmem, rfl⟩
  exact mem_delivered tr _ f hf hd p hp

/-- prompt, **from every link state** with an empty buffer -/
theorem C01_complete_prompt_any_state (h : Frame → Bool) (st : RxState) (hb : st.buf = []) (chunks : List Bytes) (i n : Nat)
    (f : Frame) (p : HLPacket)
    (hok : tryFrame (chunks.flatten.drop i) = .ok f n) (hd : isAck f = false) (hp : f.hl = some p)
    (hfree : ∀ j, j < i → ∀ e, extent (chunks.flatten.drop j) = some e → j + e ≤ i) :
    f ∈ deliveredOf (session h st chunks).2 := by
  rw [C01_chunking_any_state h st hb]
  have hmem := C01_complete chunks.flatten i n f hok hfree
  have hf : f ∈ (run tryFrame chunks.flatten).1 := by
    have h1 := located_frames zbossScanner chunks.flatten
    simp only [zbossScanner] at h1
    rw [← h1]
    exact List.mem_map.mpr ⟨(i, f, n), hmem, rfl⟩
  exact mem_delivered st.transport _ f hf hd p hp

end Zboss.Rx
