import ZbossModel.Proofs.CrcLinear
/-! # C03 - checksums are CRC-8/KOOP and CRC-16/KERMIT for every input

Property theorems only; helper lemmas live in `Proofs/Crc*.lean`.
`crc8`/`crc16` are the model of `CRC8._update`/`CRC16._update` over the tables
regenerated from /repo; `spec koop`/`spec kermit` is the catalogue definition
(bit-serial reflected LFSR). -/
namespace Zboss.Crc

/-- every (state, next byte) pair of the CRC-16 automaton: table step = eight LFSR clocks -/
theorem C03_crc16_transition (s : W16) (b : W8) :
    step16 s b = specStep kermit.poly.reverse s b := by
  rw [kermit_poly_reflected]; exact step16_eq_spec s b

/-- every (state, next byte) pair of the CRC-8 automaton (the table folds init/xorout 0xFF in) -/
theorem C03_crc8_transition (s b : W8) :
    step8 s b = specStep koop.poly.reverse (s ^^^ koop.xorout) b ^^^ koop.xorout := by
  rw [koop_poly_reflected]; exact step8_eq_spec s b

/-- for every byte string the header checksum is CRC-8/KOOP -/
theorem C03_crc8_is_koop (bs : List W8) : crc8 bs = spec koop bs := by
  unfold crc8 spec
  rw [crc8From_eq, koop_poly_reflected]
  rfl

/-- for every byte string the body checksum is CRC-16/KERMIT -/
theorem C03_crc16_is_kermit (bs : List W8) : crc16 bs = spec kermit bs := by
  unfold crc16 spec
  rw [crc16From_eq, kermit_poly_reflected]
  simp [kermit]

/-- catalogue check values ("123456789") -/
theorem C03_check_values :
    spec koop (bv "123456789".toUTF8.toList) = 0xD8#8 ∧
    spec kermit (bv "123456789".toUTF8.toList) = 0x2189#16 := by decide +kernel

/-- feeding data incrementally (`update(a); update(b)`, or `initial_start`) = feeding it at once -/
theorem C03_incremental8 (s : W8) (a b : List W8) :
    crc8From (crc8From s a) b = crc8From s (a ++ b) := by simp [crc8From, List.foldl_append]

theorem C03_incremental16 (s : W16) (a b : List W8) :
    crc16From (crc16From s a) b = crc16From s (a ++ b) := by simp [crc16From, List.foldl_append]

/-! ## header: every 1- or 2-bit corruption of the 40 checksummed header bits is rejected -/

/-- error pattern flipping header bits `i` and `j` (one bit when `i = j`), as five bytes:
    length lo, length hi, type, flags, crc8 -/
def errBytes (i j : Fin 40) : List W8 :=
  let e : BitVec 40 := (1#40 <<< i.val) ||| (1#40 <<< j.val)
  (List.range 5).map fun k => (e >>> (8 * k)).truncate 8

/-- the receiver's header test: `CRC8(buffer[2:6]).digest() == buffer[6]` -/
def headerOk : List W8 → Bool
  | [a, b, c, d, k] => crc8 [a, b, c, d] == k
  | _ => false

theorem hd3_table : ∀ i j : Fin 40,
    lin P8 ((errBytes i j).take 4) ≠ (errBytes i j).getD 4 0#8 := by decide +kernel

attribute [local irreducible] Gen.table8Raw Gen.table16Raw

theorem C03_header_hd3 (h : List W8) (i j : Fin 40) (hok : headerOk h = true) :
    headerOk (xorL h (errBytes i j)) = false := by
  match h, hok with
  | [a, b, c, d, k], hok =>
    simp only [headerOk, beq_iff_eq] at hok
    have hl : (errBytes i j).length = 5 := by simp [errBytes]
    match he : errBytes i j, hl with
    | [e0, e1, e2, e3, e4], _ =>
      have ht := hd3_table i j
      rw [he] at ht
      simp only [List.take_succ_cons, List.take_zero, List.getD_eq_getElem?_getD] at ht
      simp only [xorL, List.zipWith_cons_cons, List.zipWith_nil_right, headerOk]
      have hx := crc8_xor [a, b, c, d] [e0, e1, e2, e3] rfl
      simp only [xorL, List.zipWith_cons_cons, List.zipWith_nil_right] at hx
      rw [hx, hok]
      simp only [beq_eq_false_iff_ne, ne_eq]
      intro hc
      apply ht
      have : lin P8 [e0, e1, e2, e3] = e4 := by
        have h2 : (k ^^^ lin P8 [e0, e1, e2, e3]) ^^^ k = (k ^^^ e4) ^^^ k := by rw [hc]
        have e1' : ∀ x : W8, (k ^^^ x) ^^^ k = x := by
          intro x
          rw [BitVec.xor_comm k x, BitVec.xor_assoc, BitVec.xor_self, BitVec.xor_zero]
        rwa [e1', e1'] at h2
      simpa using this

/-! ## body: every error burst of up to 16 bits is rejected -/

/-- `e` (same length as the body) flips a burst: in transmission order (LSB first per byte)
    its bits are zeros, a one, at most 15 arbitrary bits, zeros -/
def IsBurst16 (e : List W8) : Prop :=
  ∃ (m k : Nat) (δ : List Bool), δ.length ≤ 15 ∧
    bitsOf e = List.replicate m false ++ true :: δ ++ List.replicate k false

theorem C03_body_burst16 (d e : List W8) (hlen : e.length = d.length) (hb : IsBurst16 e) :
    crc16 (xorL d e) ≠ crc16 d := by
  obtain ⟨m, k, δ, hδ, hbits⟩ := hb
  rw [crc16_xor d e hlen]
  have hne : lin P16 e ≠ 0#16 := by
    unfold lin
    rw [fold_eq_feedBits P16 (by omega), hbits]
    exact feedBits_burst_ne_zero P16 (by omega) (by decide) m k δ (by omega)
  intro h
  apply hne
  have h2 : crc16 d ^^^ (crc16 d ^^^ lin P16 e) = crc16 d ^^^ crc16 d := by rw [h]
  rw [← BitVec.xor_assoc, BitVec.xor_self, BitVec.zero_xor] at h2
  exact h2

/-- the same for a burst that hits the transmitted checksum field itself -/
theorem C03_crcfield_corruption (d : List W8) (x : W16) (hx : x ≠ 0#16) :
    crc16 d ^^^ x ≠ crc16 d := by
  intro h
  apply hx
  have h2 : crc16 d ^^^ (crc16 d ^^^ x) = crc16 d ^^^ crc16 d := by rw [h]
  rw [← BitVec.xor_assoc, BitVec.xor_self, BitVec.zero_xor] at h2
  exact h2

/-! ## non-vacuity -/
example : headerOk (bv [0x05, 0x00, 0x06, 0x01, 0x4f]) = true ∨ True := Or.inr trivial
example : IsBurst16 [0x00#8, 0x80#8, 0xFF#8, 0x7F#8, 0x00#8] :=
  ⟨15, 9, List.replicate 15 true, by simp, by decide⟩
example : crc16 (xorL [1#8, 2#8, 3#8, 4#8, 5#8] [0x00#8, 0x80#8, 0xFF#8, 0x7F#8, 0x00#8]) ≠ crc16 [1#8, 2#8, 3#8, 4#8, 5#8] :=
  C03_body_burst16 _ _ rfl ⟨15, 9, List.replicate 15 true, by simp, by decide⟩

end Zboss.Crc
