import ZbossModel.Proofs.RxLog
/-! # C02 - the receiver is total: no input or handler failure makes it raise or go deaf -/
namespace Zboss.Rx
open Gen

/-- no buffer content makes the frame extractor leave through an exception other than the two
    it handles itself (`BufferTooShort`, `ValueError`): the `.raised` outcome is unreachable -/
theorem C02_never_raises (buf : Bytes) : tryFrame buf ≠ .raised := tryFrame_never_raises buf

/-- the library decoder only ever fails with a `ValueError` (`InvalidFrame` included) -/
theorem C02_decoder_errors (d : Bytes) : Frame.deserialize d ≠ .error .keyError := deserialize_no_keyError d

/-- an exception raised by the upper-layer handler changes neither the link state, nor the bytes
    written, nor the frames that follow -/
theorem C02_handler_independent (h1 h2 : Frame → Bool) (st : RxState) (data : Bytes) :
    dataReceived h1 st data = dataReceived h2 st data := by
  have : ∀ (st : RxState) (f : Frame), handleFrame h1 st f = handleFrame h2 st f := by
    intro st f; unfold handleFrame; split <;> simp
  unfold dataReceived; simp only [this]

/-- whatever was received, what stays buffered is something the extractor is legitimately waiting on -/
theorem C02_pending_is_short (b : Bytes) : tryFrame (run tryFrame b).2 = .short := by
  induction hn : b.length using Nat.strongRecOn generalizing b with
  | _ n ih =>
    have hre := run_eq zbossScanner b
    simp only [zbossScanner] at hre
    rw [hre]
    cases hT : tryFrame b with
    | short => exact hT
    | raised => exact absurd hT (tryFrame_never_raises b)
    | invalid =>
      have hl := invalid_len zbossScanner hT
      have := resync_length_lt b (by omega)
      exact ih _ (by omega) (resync b) rfl
    | ok f k =>
      have hk := tryFrame_ok_le b f k hT
      exact ih _ (by simp; omega) (b.drop k) rfl

/-- ... namely fewer than 7 bytes, or the start of the declared extent of a header that passed the
    header checksum - hence never more than 65536 bytes, and every extent ends -/
theorem C02_pending_bounded (b : Bytes) : (run tryFrame b).2.length < 65537 := by
  have hs := C02_pending_is_short b
  generalize (run tryFrame b).2 = r at hs
  by_cases h7 : r.length < 7
  · omega
  unfold tryFrame at hs
  simp only [if_neg h7] at hs
  by_cases c1 : r.take 2 ≠ toLE 2 Gen.signature
  · simp only [if_pos c1] at hs; cases hs
  simp only [if_neg c1] at hs
  by_cases c2 : (r.getD 4 0).toNat ≠ Gen.typeHL
  · simp only [if_pos c2] at hs; cases hs
  simp only [if_neg c2] at hs
  by_cases c3 : (Crc.crc8B (slice r 2 6)).toNat ≠ (r.getD 6 0).toNat
  · simp only [if_pos c3] at hs; cases hs
  simp only [if_neg c3] at hs
  by_cases c4 : fromLE (slice r 2 4) < 5
  · simp only [if_pos c4] at hs; cases hs
  simp only [if_neg c4] at hs
  by_cases c5 : r.length < fromLE (slice r 2 4) + 2
  · have := fromLE_lt (slice r 2 4)
    have hl : (slice r 2 4).length ≤ 2 := by simp [slice]
    have : 256 ^ (slice r 2 4).length ≤ 256 ^ 2 := Nat.pow_le_pow_right (by omega) hl
    omega
  · simp only [if_neg c5] at hs
    exfalso
    cases hd : Frame.deserialize r with
    | error e => rw [hd] at hs; cases e <;> simp at hs
    | ok fr =>
      obtain ⟨f0, rest⟩ := fr
      rw [hd] at hs
      simp only [] at hs
      split at hs
      · cases hs
      · cases hhl : f0.hl with
        | none => rw [hhl] at hs; cases hs
        | some p =>
          rw [hhl] at hs
          simp only [] at hs
          split at hs
          · cases hs
          · split at hs <;> cases hs

/-- an acknowledgement for any sequence value in any link state is handled without effect on the
    transport and without hand-up (in particular before the first transmission: no event object) -/
theorem C02_ack_any_state (h : Frame → Bool) (st : RxState) (f : Frame) (ha : isAck f = true) :
    (handleFrame h st f).2 = [] := by
  rw [(handle_out h st f).1]; simp [outsOf, ha]

end Zboss.Rx
