import ZbossModel.Proofs.RxLog
import ZbossModel.Props.C01
/-! # C02 - the receiver is total: no input or handler failure makes it raise or go deaf -/
namespace Zboss.Rx
open Gen

/-- no buffer content makes the frame extractor leave through an exception other than the two
    it handles itself (`BufferTooShort`, `ValueError`): the `.raised` outcome is unreachable -/
theorem C02_never_raises (buf : Bytes) : tryFrame buf ≠ .raised := tryFrame_never_raises buf

/-- the library decoder only ever fails with a `ValueError` (`InvalidFrame` included) -/
theorem C02_decoder_errors (d : Bytes) : Frame.deserialize d ≠ .error .keyError := deserialize_no_keyError d

/-- an exception raised by the upper-layer handler changes neither the link state, nor the bytes
    written, nor the frames that follow -/
theorem C02_handler_independent (h1 h2 : Frame → Bool) (st : RxState) (data : Bytes) :
    dataReceived h1 st data = dataReceived h2 st data := by
  have : ∀ (st : RxState) (f : Frame), handleFrame h1 st f = handleFrame h2 st f := by
    intro st f; unfold handleFrame; split <;> simp
  unfold dataReceived; simp only [this]

/-- whatever was received, what stays buffered is something the extractor is legitimately waiting on -/
theorem C02_pending_is_short (b : Bytes) : tryFrame (run tryFrame b).2 = .short := by
  induction hn : b.length using Nat.strongRecOn generalizing b with
  | _ n ih =>
    have hre := run_eq zbossScanner b
    simp only [zbossScanner] at hre
    rw [hre]
    cases hT : tryFrame b with
    | short => exact hT
    | raised => exact absurd hT (tryFrame_never_raises b)
    | invalid =>
      have hl := invalid_len zbossScanner hT
      have := resync_length_lt b (by omega)
      exact ih _ (by omega) (resync b) rfl
    | ok f k =>
      have hk := tryFrame_ok_le b f k hT
      exact ih _ (by simp; omega) (b.drop k) rfl

/-- ... namely fewer than 7 bytes, or the start of the declared extent of a header that passed the
    header checksum - hence never more than 65536 bytes, and every extent ends -/
theorem C02_pending_bounded (b : Bytes) : (run tryFrame b).2.length < 65537 := by
  have hs := C02_pending_is_short b
  generalize (run tryFrame b).2 = r at hs
  by_cases h7 : r.length < 7
  · omega
  unfold tryFrame at hs
  simp only [if_neg h7] at hs
  by_cases c1 : r.take 2 ≠ toLE 2 Gen.signature
  · simp only [if_pos c1] at hs; cases hs
  simp only [if_neg c1] at hs
  by_cases c2 : (r.getD 4 0).toNat ≠ Gen.typeHL
  · simp only [if_pos c2] at hs; cases hs
  simp only [if_neg c2] at hs
  by_cases c3 : (Crc.crc8B (slice r 2 6)).toNat ≠ (r.getD 6 0).toNat
  · simp only [if_pos c3] at hs; cases hs
  simp only [if_neg c3] at hs
  by_cases c4 : fromLE (slice r 2 4) < 5
  · simp only [if_pos c4] at hs; cases hs
  simp only [if_neg c4] at hs
  by_cases c5 : r.length < fromLE (slice r 2 4) + 2
  · have := fromLE_lt (slice r 2 4)
    have hl : (slice r 2 4).length ≤ 2 := by simp [slice]
    have : 256 ^ (slice r 2 4).length ≤ 256 ^ 2 := Nat.pow_le_pow_right (by omega) hl
    omega
  · simp only [if_neg c5] at hs
    exfalso
    cases hd : Frame.deserialize r with
    | error e => rw [hd] at hs; cases e <;> simp at hs
    | ok fr =>
      obtain ⟨f0, rest⟩ := fr
      rw [hd] at hs
      simp only [] at hs
      split at hs
      · cases hs
      · cases hhl : f0.hl with
        | none => rw [hhl] at hs; cases hs
        | some p =>
          rw [hhl] at hs
          simp only [] at hs
          split at hs
          · cases hs
          · split at hs <;> cases hs

/-- an acknowledgement for any sequence value in any link state is handled without effect on the
    transport and without hand-up (in particular before the first transmission: no event object) -/
theorem C02_ack_any_state (h : Frame → Bool) (st : RxState) (f : Frame) (ha : isAck f = true) :
    (handleFrame h st f).2 = [] := by
  rw [(handle_out h st f).1]; simp [outsOf, ha]


/-! ## never deaf -/

/-- a declared extent is at most 65537 bytes: no header can claim more of the stream -/
theorem extent_le (b : Bytes) (e : Nat) (h : extent b = some e) : e ≤ 65537 := by
  unfold extent at h
  split at h
  · injection h with h
    have := fromLE_lt (slice b 2 4)
    have hl : (slice b 2 4).length ≤ 2 := by simp [slice]
    have : 256 ^ (slice b 2 4).length ≤ 256 ^ 2 := Nat.pow_le_pow_right (by omega) hl
    omega
  · cases h

/-- a buffer that does not start with the start marker has no extent -/
theorem extent_none_of_head (b : Bytes) (x : UInt8) (t : Bytes) (hb : b = x :: t) (hx : x ≠ 0xDE) : extent b = none := by
  unfold extent
  split
  · rename_i h
    have := (headerOk_iff b).mp h
    have h2 := this.2.1
    subst hb
    exfalso
    have : (toLE 2 Gen.signature) = [0xDE, 0xAD] := by decide
    rw [this] at h2
    cases t with
    | nil => simp at h2
    | cons y t' => simp at h2; exact hx h2.1
  · rfl

/-- **never deaf**: whatever was received before (`g`: noise, hostile headers, truncated frames - anything),
    once 65537 quiet bytes (here: zeros) have passed, the next well-formed data frame is handed to the upper
    layer as soon as it has arrived - under every chunking of the reads and whatever the handler did -/
theorem C02_not_deaf (h : Frame → Bool) (tr : Bool) (chunks : List Bytes) (g w : Bytes) (k : Nat) (f : Frame) (n : Nat)
    (p : HLPacket) (hk : 65537 ≤ k) (hs : chunks.flatten = g ++ List.replicate k 0 ++ w)
    (hok : tryFrame w = .ok f n) (hd : isAck f = false) (hp : f.hl = some p) :
    f ∈ deliveredOf (session h { transport := tr } chunks).2 := by
  apply C01_complete_prompt h tr chunks (g.length + k) n f p
  · rw [hs]
    have : (g ++ List.replicate k 0 ++ w).drop (g.length + k) = w := by
      rw [List.append_assoc, ← List.drop_drop, List.drop_left]
      simp
    rw [this]; exact hok
  · exact hd
  · exact hp
  · intro j hj e he
    rw [hs] at he
    rcases Nat.lt_or_ge j g.length with hlt | hge
    · have := extent_le _ e he
      omega
    · -- inside the quiet bytes: the buffer starts with a zero
      exfalso
      have hd : (g ++ List.replicate k 0 ++ w).drop j = (0 : UInt8) :: (List.replicate (k - (j - g.length) - 1) 0 ++ w) := by
        rw [List.append_assoc]
        have : j = g.length + (j - g.length) := by omega
        rw [this, ← List.drop_drop, List.drop_left, List.drop_append_of_le_length (by simp; omega)]
        rw [List.drop_replicate]
        have : k - (j - g.length) = (k - (g.length + (j - g.length) - g.length) - 1) + 1 := by omega
        rw [this, List.replicate_succ]
        simp
      rw [extent_none_of_head _ 0 _ hd (by decide)] at he
      cases he

/-- never deaf **in every link state**: the same from any state of the sequence numbers, with or without a transport, with
    or without a sender waiting for its acknowledgement (the three situations the property names: before the first
    transmission, while an acknowledgement is awaited, after close) -/
theorem C02_not_deaf_any_state (h : Frame → Bool) (st : RxState) (hb : st.buf = []) (chunks : List Bytes) (g w : Bytes)
    (k : Nat) (f : Frame) (n : Nat)
    (p : HLPacket) (hk : 65537 ≤ k) (hs : chunks.flatten = g ++ List.replicate k 0 ++ w)
    (hok : tryFrame w = .ok f n) (hd : isAck f = false) (hp : f.hl = some p) :
    f ∈ deliveredOf (session h st chunks).2 := by
  apply C01_complete_prompt_any_state h st hb chunks (g.length + k) n f p
  · rw [hs]
    have : (g ++ List.replicate k 0 ++ w).drop (g.length + k) = w := by
      rw [List.append_assoc, ← List.drop_drop, List.drop_left]
      simp
    rw [this]; exact hok
  · exact hd
  · exact hp
  · intro j hj e he
    rw [hs] at he
    rcases Nat.lt_or_ge j g.length with hlt | hge
    · have := extent_le _ e he
      omega
    · exfalso
      have hd : (g ++ List.replicate k 0 ++ w).drop j = (0 : UInt8) :: (List.replicate (k - (j - g.length) - 1) 0 ++ w) := by
        rw [List.append_assoc]
        have : j = g.length + (j - g.length) := by omega
        rw [this, ← List.drop_drop, List.drop_left, List.drop_append_of_le_length (by simp; omega)]
        rw [List.drop_replicate]
        have : k - (j - g.length) = (k - (g.length + (j - g.length) - g.length) - 1) + 1 := by omega
        rw [this, List.replicate_succ]
        simp
      rw [extent_none_of_head _ 0 _ hd (by decide)] at he
      cases he

/-- the premises are satisfiable: a command frame after garbage and a quiet gap -/
example : (match tryFrame (Frame.stamp 0 (Frame.mkData 0xC0 ⟨some 0x20000#32, [1]⟩ 12)).serialize with
    | .ok f n => n == 14 && !isAck f && f.hl.isSome
    | _ => false) = true := by decide +kernel

end Zboss.Rx
