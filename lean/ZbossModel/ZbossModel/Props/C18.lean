import ZbossModel.App
import ZbossModel.Generated.Exprs
/-! # C18 - packets and bind requests cross the radio boundary faithfully, both ways -/
namespace Zboss.App
open Gen Codec

/-- **packet → data request, field by field**: a packet whose endpoints are not the ZDO endpoint and whose
    16-bit address fits becomes exactly one data request that carries the payload unchanged, its length, the
    fixed parameter-section length 21, the same endpoints (absent = 0), cluster, profile and sequence number -/
theorem C18_send_fields (p : Packet) (hzdo : p.srcEp ≠ some 0 ∧ p.dstEp ≠ some 0)
    (haddr : p.dstMode = Gen.addrModeIEEE ∨ p.dstAddr < 65536) :
    ∃ r, sendPacket p = .req r ∧ r.payload = p.data ∧ r.dataLength = p.data.length ∧ r.paramLength = 21 ∧
      r.dstEp = orZero p.dstEp ∧ r.srcEp = orZero p.srcEp ∧ r.cluster = p.cluster ∧ r.profile = p.profile ∧
      r.tsn = p.tsn ∧ r.radius = orZero p.radius := by
  unfold sendPacket
  have h1 : ¬ (p.srcEp = some 0 ∨ p.dstEp = some 0) := by
    intro h; rcases h with h | h
    · exact hzdo.1 h
    · exact hzdo.2 h
  simp only [h1, if_false]
  have h2 : (!decide (p.dstMode = Gen.addrModeIEEE) && decide (p.dstAddr ≥ 65536)) = false := by
    rcases haddr with h | h
    · simp [h]
    · simp; intro _; omega
  simp only [h2, Bool.false_eq_true, if_false]
  exact ⟨_, rfl, rfl, rfl, rfl, rfl, rfl, rfl, rfl, rfl, rfl⟩

/-- the 21 of `ParamLength` is the serialized size of the parameters between `DataLength` and `Payload` in
    the *regenerated* schema of the data request (header 0x03010000 = APS.DataReq.Req) -/
theorem C18_param_section_21 :
    ((Gen.commands.map viewOf).filter (fun v => v.header == 0x03010000)).map
      (fun v => (((v.fields.drop 3).dropLast).map (fun f => minSize f.wt)).sum) = [21] := by
  decide +kernel

/-- **destination, 16-bit modes**: the address is little-endian in the first two address bytes, the rest zero -/
theorem C18_dst_addr_le (p : Packet) (hzdo : p.srcEp ≠ some 0 ∧ p.dstEp ≠ some 0)
    (hm : p.dstMode ≠ Gen.addrModeIEEE) (haddr : p.dstAddr < 65536) :
    ∃ r, sendPacket p = .req r ∧ fromLE (r.dstAddr.take 2) = p.dstAddr ∧ r.dstAddr.drop 2 = [0, 0, 0, 0, 0, 0] ∧
      r.dstAddr.length = 8 := by
  unfold sendPacket
  have h1 : ¬ (p.srcEp = some 0 ∨ p.dstEp = some 0) := by
    intro h; rcases h with h | h
    · exact hzdo.1 h
    · exact hzdo.2 h
  have h2 : (!decide (p.dstMode = Gen.addrModeIEEE) && decide (p.dstAddr ≥ 65536)) = false := by
    simp; intro _; omega
  simp only [h1, if_false, h2, Bool.false_eq_true]
  simp only [hm, decide_false, Bool.false_eq_true, if_false]
  refine ⟨_, rfl, ?_, rfl, rfl⟩
  simp only [List.take_succ_cons, List.take_zero, fromLE]
  have e1 : (UInt8.ofNat (p.dstAddr % 256)).toNat = p.dstAddr % 256 := by simp [UInt8.toNat_ofNat']
  have e2 : (UInt8.ofNat (p.dstAddr / 256)).toNat = p.dstAddr / 256 := by
    simp [UInt8.toNat_ofNat']; omega
  rw [e1, e2]; omega

/-- **destination, 64-bit mode**: the address bytes are passed through unchanged, the mode stays IEEE -/
theorem C18_ieee_unchanged (p : Packet) (hzdo : p.srcEp ≠ some 0 ∧ p.dstEp ≠ some 0) (hm : p.dstMode = Gen.addrModeIEEE) :
    ∃ r, sendPacket p = .req r ∧ r.dstAddr = p.dstIeee ∧ r.dstMode = Gen.addrModeIEEE := by
  unfold sendPacket
  have h1 : ¬ (p.srcEp = some 0 ∨ p.dstEp = some 0) := by
    intro h; rcases h with h | h
    · exact hzdo.1 h
    · exact hzdo.2 h
  simp only [h1, if_false, hm, decide_true, Bool.not_true, Bool.false_and, Bool.false_eq_true]
  exact ⟨_, rfl, by simp, by simp [Gen.addrModeIEEE, Gen.addrModeBroadcast]⟩

/-- **options and addressing mode**: acknowledgement / encryption requests are preserved (and nothing else is
    set); broadcasts are sent in group mode, every other mode is kept -/
theorem C18_options_and_mode (p : Packet) (r : DataReq) (h : sendPacket p = .req r) :
    (r.txOptions &&& Gen.zbossTxAck ≠ 0 ↔ p.txOptions &&& Gen.zigpyTxAck ≠ 0) ∧
    (r.txOptions &&& Gen.zbossTxSec ≠ 0 ↔ p.txOptions &&& Gen.zigpyTxEnc ≠ 0) ∧
    r.txOptions ≤ (Gen.zbossTxAck ||| Gen.zbossTxSec) ∧
    r.dstMode = (if p.dstMode = Gen.addrModeBroadcast then Gen.addrModeGroup else p.dstMode) := by
  unfold sendPacket at h
  split at h
  · cases h
  · simp only [] at h
    split at h
    · cases h
    · injection h with h
      subst h
      simp only []
      by_cases ha : p.txOptions &&& Gen.zigpyTxAck ≠ 0 <;> by_cases he : p.txOptions &&& Gen.zigpyTxEnc ≠ 0 <;>
        simp [ha, he] <;> decide

/-- **indication → packet**: an indication carrying at least two payload bytes is delivered with the same
    source, endpoints, cluster, profile, link quality and exactly the first `PayloadLength` bytes; addressed
    as broadcast, group or unicast according to the frame-control bits (broadcast bit first) -/
theorem C18_indication (own : Nat) (m : Indication) (h2 : 2 ≤ m.payload.length) :
    ∃ k, onIndication own m = some k ∧ k.srcAddr = m.srcAddr ∧ k.srcEp = m.srcEp ∧ k.dstEp = m.dstEp ∧
      k.cluster = m.cluster ∧ k.profile = m.profile ∧ k.lqi = m.lqi ∧ k.rssi = m.rssi ∧
      k.data = m.payload.take m.payloadLength ∧
      (k.dstMode, k.dstAddr) =
        (if m.frameFC &&& Gen.fcBroadcast ≠ 0 then (Gen.addrModeBroadcast, Gen.broadcastAllRouters)
         else if m.frameFC &&& Gen.fcGroup ≠ 0 then (Gen.addrModeGroup, m.grpAddr)
         else (Gen.addrModeNWK, own)) := by
  unfold onIndication
  have : ¬ m.payload.length < 2 := by omega
  simp only [this, if_false]
  refine ⟨_, rfl, rfl, rfl, rfl, rfl, rfl, rfl, rfl, rfl, ?_⟩
  by_cases hb : m.frameFC &&& Gen.fcBroadcast ≠ 0 <;> by_cases hg : m.frameFC &&& Gen.fcGroup ≠ 0 <;> simp [hb, hg]

/-- **sequence numbers are never 255**: after any number of calls from any legal start value -/
def seqAfter : Nat → Nat → Nat
  | 0, s => s
  | n + 1, s => seqAfter n (nextSeq s)

theorem C18_seq_never_255 (s : Nat) (n : Nat) : seqAfter (n + 1) s < 255 := by
  induction n generalizing s with
  | zero => simp only [seqAfter, nextSeq]; exact Nat.mod_lt _ (by decide)
  | succ n ih => rw [seqAfter]; exact ih (nextSeq s)

/-- they run 1, 2, …, 254, 0, 1, … -/
theorem C18_seq_step (s : Nat) (h : s < 255) : nextSeq s = if s = 254 then 0 else s + 1 := by
  unfold nextSeq; split <;> omega

/-- **bind / unbind**: a 64-bit destination is forwarded unchanged, a group destination as its little-endian
    16-bit address padded with zeros; source address, endpoint, cluster are those given, an absent endpoint is 0.
    `Bind_req` and `Unbind_req` are this same map (they differ in the command class only) -/
theorem C18_bind (tsn tn : Nat) (src : Bytes) (sep cl : Nat) (d : BindDst) :
    (d.mode = Gen.addrModeIEEE →
      bindReq tsn tn src sep cl d = some ⟨tsn, tn, src, sep, cl, Gen.bindModeIEEE, d.ieee, orZero d.endpoint⟩) ∧
    (d.mode = Gen.addrModeGroup → d.nwk < 65536 →
      ∃ r, bindReq tsn tn src sep cl d = some r ∧ r.srcIeee = src ∧ r.srcEp = sep ∧ r.cluster = cl ∧
        r.dstAddrMode = Gen.bindModeGroup ∧ fromLE (r.dstAddr.take 2) = d.nwk ∧ r.dstAddr.drop 2 = [0, 0, 0, 0, 0, 0] ∧
        r.dstEp = orZero d.endpoint) := by
  constructor
  · intro h; simp [bindReq, h]
  · intro h hn
    have hne : d.mode ≠ Gen.addrModeIEEE := by rw [h]; decide
    have hlt : ¬ d.nwk ≥ 65536 := by omega
    simp only [bindReq, hne, if_false, h, if_true, hlt]
    refine ⟨_, rfl, rfl, rfl, rfl, rfl, ?_, rfl, rfl⟩
    simp only [List.take_succ_cons, List.take_zero, fromLE]
    have e1 : (UInt8.ofNat (d.nwk % 256)).toNat = d.nwk % 256 := by simp [UInt8.toNat_ofNat']
    have e2 : (UInt8.ofNat (d.nwk / 256)).toNat = d.nwk / 256 := by
      simp [UInt8.toNat_ofNat']; omega
    rw [e1, e2]; omega

/-! ## non-vacuity -/
example : ∃ r, sendPacket ⟨15, 0xFFFD, [], some 1, none, 9, 260, 6, none, 3, [1, 2, 3]⟩ = .req r ∧ r.dstMode = 1 ∧
    r.txOptions = 5 ∧ r.dstAddr = [0xFD, 0xFF, 0, 0, 0, 0, 0, 0] := ⟨_, rfl, rfl, rfl, rfl⟩

/-- **source tie (translator 4)**: the expression `get_sequence` assigns - translated from the Python ast on every
    run - is the model's `nextSeq`, for every current value -/
theorem C18_source_exprs (s : Nat) : Gen.nextSendSeqExpr s = ((nextSeq s : Nat) : Int) := by
  unfold Gen.nextSendSeqExpr nextSeq; omega

end Zboss.App
