import ZbossModel.Proofs.Codec
import ZbossModel.Generated.Commands
/-! # C04 - every typed command survives encode -> wire -> decode unchanged

`View` = what the bytes depend on (header, per wire field: wire type, optional flag); `mkOk` is the
model of `cls(**params)` succeeding, `toBytes` of `to_frame()` (command header + parameters),
`fromPayload` of `from_frame()` on the parameter bytes. -/
namespace Zboss.Codec
open Wire

/-- **layout**: the bytes are the 4-byte little-endian command header followed by the encodings of the
    given parameters in schema order (omitted optionals contribute nothing) -/
theorem C04_layout (v : View) (f : FView) (fs : List FView) (x : Val) (xs : Assign) :
    toBytes v [] = toLE 4 v.header ∧
    encParams (f :: fs) (some x :: xs) = (encW f.wt x).getD [] ++ encParams fs xs ∧
    encParams (f :: fs) (none :: xs) = encParams fs xs := ⟨by simp [toBytes, encParams], rfl, rfl⟩

/-- **refusal**: construction succeeds only if every given value is within the range of its wire type, so
    no out-of-range encoding is ever emitted -/
theorem C04_refusal (v : View) (a : Assign) (h : mkOk v a = true) (i : Nat) (f : FView) (x : Val)
    (hf : v.fields[i]? = some f) (hx : a[i]? = some (some x)) : ∃ b, encW f.wt x = some b := by
  unfold mkOk at h
  simp only [Bool.and_eq_true, List.all_eq_true] at h
  have hmem : (f, some x) ∈ v.fields.zip a := by
    rw [List.mem_iff_getElem?]
    exact ⟨i, by simp [List.getElem?_zip_eq_some, hf, hx]⟩
  have := h.1.2 (f, some x) hmem
  exact Option.isSome_iff_exists.mp this

/-- unsigned integers (also enums and bitmaps) are accepted exactly in `0 ≤ n < 256^k` -/
theorem C04_uint_range (k : Nat) (n : Int) : (encS (.uint k) (.num n)).isSome = true ↔ (0 ≤ n ∧ n < pow256 k) := by
  simp only [encS]; split <;> simp_all

/-- signed integers exactly in `-(256^k)/2 ≤ n < (256^k)/2` -/
theorem C04_sint_range (k : Nat) (n : Int) :
    (encS (.sint k) (.num n)).isSome = true ↔ (-(pow256 k / 2) ≤ n ∧ n < pow256 k / 2) := by
  simp only [encS]; split <;> simp_all

/-- a successful construction is a valid assignment in the sense of the round-trip theorem -/
theorem assignOk_of_mkOk (fs : List FView) (a : Assign) (hf : fieldsOk fs = true) (hl : a.length = fs.length)
    (hs : (fs.zip a).all slotOk = true) (hp : optPrefixOk fs a = true) : assignOk fs a = true := by
  induction fs generalizing a with
  | nil => cases a with
    | nil => rfl
    | cons _ _ => simp at hl
  | cons f fs ih =>
    cases a with
    | nil => simp at hl
    | cons x xs =>
      simp only [List.zip_cons_cons, List.all_cons, Bool.and_eq_true] at hs
      have hl' : xs.length = fs.length := by simpa using hl
      cases x with
      | some x =>
        simp only [optPrefixOk, Option.isNone_some, Bool.and_false, Bool.false_eq_true, if_false] at hp
        simp only [assignOk, Bool.and_eq_true]
        exact ⟨by simpa [slotOk] using hs.1, ih xs (fieldsOk_tail f fs hf) hl' hs.2 hp⟩
      | none =>
        have hopt : f.optional = true := by simpa [slotOk] using hs.1
        simp only [optPrefixOk, hopt, Option.isNone_none, Bool.and_self, if_true, Bool.and_eq_true] at hp
        simp only [assignOk, hopt, Bool.true_and, Bool.and_eq_true, beq_iff_eq]
        refine ⟨?_, hl'⟩
        by_cases hg : f.wt.isGreedy = true
        · have := greedy_last f fs hf hg; subst this
          cases xs with
          | nil => rfl
          | cons _ _ => simp at hl'
        · have hall := optionals_trailing f fs hf hopt (by simpa using hg)
          rw [List.all_eq_true] at hall ⊢
          intro w hw
          obtain ⟨j, hj, rfl⟩ := List.getElem_of_mem hw
          have hjf : j < fs.length := by omega
          have hmem : (fs[j], xs[j]) ∈ fs.zip xs := by
            rw [List.mem_iff_getElem]
            exact ⟨j, by simp; omega, by simp⟩
          have h1 := (List.all_eq_true.mp hp.1) _ hmem
          have h2 := hall fs[j] (List.getElem_mem hjf)
          simpa [h2] using h1

/-- **round trip**: for every schema of the shape the host parses and every valid parameter assignment,
    decoding the bytes produced yields the same assignment with no bytes left over - up to the one
    ambiguity `canon` names (an omitted trailing greedy list reads back as the empty list) -/
theorem C04_roundtrip (v : View) (hs : SchemaOK v = true) (a : Assign) (hmk : mkOk v a = true) :
    ∃ d, fromPayload v (encParams v.fields a) = .ok d ∧ d.assign = canon v.fields a := by
  simp only [SchemaOK, Bool.and_eq_true] at hs
  obtain ⟨⟨hfok, hown⟩, hstat⟩ := hs
  have hmk' := hmk
  unfold mkOk at hmk'
  simp only [Bool.and_eq_true, beq_iff_eq] at hmk'
  have hslots : (v.fields.zip a).all slotOk = true := by
    rw [List.all_eq_true] at hmk' ⊢
    intro p hp
    have := hmk'.1.2 p hp
    obtain ⟨f, x⟩ := p
    cases x <;> simpa [slotOk] using this
  have hassign := assignOk_of_mkOk v.fields a hfok hmk'.1.1 hslots hmk'.2
  obtain ⟨hc1, hc2⟩ := mkOk_canon v a hfok hassign
  have hres := parse_roundtrip v
    (by
      intro hct
      simp only [hct, bne_self_eq_false, Bool.false_or, Bool.and_eq_true, beq_iff_eq] at hstat
      exact hstat.1)
    (by
      intro hct pre f post hfields hopt
      simp only [hct, bne_self_eq_false, Bool.false_or, Bool.and_eq_true, beq_iff_eq] at hstat
      have h3 := hstat.2
      rw [hfields] at h3
      rcases Nat.lt_or_ge pre.length 3 with hlt' | hge
      · exfalso
        -- f is among the first three fields, which are not optional
        have hall : (((pre ++ f :: post).take 3).map (fun g => (g.wt, g.optional))).all (fun p => !p.2) = true := by
          rw [h3]; decide
        rw [List.all_eq_true] at hall
        have hmem : (f.wt, f.optional) ∈ ((pre ++ f :: post).take 3).map (fun g => (g.wt, g.optional)) := by
          apply List.mem_map.mpr
          refine ⟨f, ?_, rfl⟩
          rw [List.mem_iff_getElem]
          refine ⟨pre.length, by simp; omega, ?_⟩
          simp [List.getElem_take]
        have := hall _ hmem
        simp [hopt] at this
      · exact hge)
    (by
      intro pre f post hfields hopt g hg
      unfold optParamsOwn at hown
      rw [List.all_eq_true] at hown
      have hi : pre.length ∈ List.range v.fields.length := by rw [hfields]; simp
      have := hown _ hi
      have hget : v.fields[pre.length]? = some f := by rw [hfields]; simp
      simp only [hget, hopt, Bool.not_true, Bool.false_or] at this
      have htake : v.fields.take pre.length = pre := by rw [hfields]; simp
      rw [htake, List.all_eq_true] at this
      have := this g hg
      simpa using this)
    v.fields a [] [] (by simp) rfl (by simp) hfok hassign (by simpa using hc1) (by simpa using hc2)
  obtain ⟨d, hd, hda⟩ := hres
  exact ⟨d, hd, by simpa using hda⟩

/-- the working tree's table: every response and indication schema has the shape the theorem needs -/
theorem C04_table_ok : ((Gen.commands.map viewOf).filter (fun v => ctype v != 0)).all SchemaOK = true := by
  decide +kernel

/-- **all response / indication classes × all valid assignments** -/
theorem C04_all_classes (v : View) (hv : v ∈ Gen.commands.map viewOf) (hdir : ctype v ≠ 0) (a : Assign)
    (hmk : mkOk v a = true) :
    ∃ d, fromPayload v (encParams v.fields a) = .ok d ∧ d.assign = canon v.fields a := by
  have h := C04_table_ok
  rw [List.all_eq_true] at h
  have := h v (by simp only [List.mem_filter]; exact ⟨hv, by simpa using hdir⟩)
  exact C04_roundtrip v this a hmk

/-- `canon` is the identity unless the last field is an omitted optional greedy list -/
theorem C04_canon_id (fs : List FView) (a : Assign) (h : fs.all (fun f => !(f.wt.isGreedy && f.optional)) = true)
    (ha : assignOk fs a = true) : canon fs a = a := by
  induction fs generalizing a with
  | nil => cases a <;> rfl
  | cons f fs ih =>
    simp only [List.all_cons, Bool.and_eq_true] at h
    cases a with
    | nil => rfl
    | cons x xs =>
      cases x with
      | some x => simp only [assignOk, Bool.and_eq_true] at ha; simp [canon, ih xs h.2 ha.2]
      | none =>
        simp only [assignOk, Bool.and_eq_true] at ha
        have : f.wt.isGreedy = false := by
          have := h.1; simp [ha.1.1] at this; exact this
        simp [canon, this]

/-- exactly one class has such a field (`ZDO.IeeeAddrReq.Rsp`) -/
theorem C04_one_ambiguous_class :
    ((Gen.commands.map viewOf).filter (fun v => !(v.fields.all fun f => !(f.wt.isGreedy && f.optional)))).map (·.header) =
      [0x02020100] := by decide +kernel

/-- ... and there the ambiguity is real: two different valid commands have the same bytes, so *no* decoder
    could return the original for both -/
theorem C04_ambiguous_encoding :
    let fs : List FView := [⟨.sc (.uint 1), true, 0, []⟩, ⟨.greedy [.uint 2], true, 1, []⟩]
    encParams fs [some (.sc (.num 3)), none] = encParams fs [some (.sc (.num 3)), some (.rows [])] := by decide

/-! ## non-vacuity: a response with an omitted optional parameter -/
example : let v : View := ⟨0x00010100, some 2, [⟨.sc (.uint 1), false, 0, []⟩, ⟨.sc (.uint 1), false, 1, []⟩,
      ⟨.sc (.uint 1), false, 2, []⟩, ⟨.sc (.uint 2), true, 3, []⟩]⟩
    SchemaOK v = true ∧ mkOk v [some (.sc (.num 7)), some (.sc (.num 0)), some (.sc (.num 0)), none] = true := by decide

end Zboss.Codec
