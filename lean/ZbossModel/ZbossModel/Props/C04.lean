import ZbossModel.Codec
namespace Zboss.Codec
theorem C04_placeholder : True := trivial
end Zboss.Codec
