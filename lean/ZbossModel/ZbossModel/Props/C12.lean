import ZbossModel.Props.C17
/-! # C12 - a response resolves only the oldest matching waiter and every matching callback -/
namespace Zboss.Dispatch
open Match

/-- a pending one-shot waiter whose pattern list matches the command -/
def eligible (c : Cmd) (l : Listener) : Bool := l.kind == .oneShot && !l.done && anyMatch l.patterns c

/-- a match implies registration under the command's header: a waiter or callback for a different
    command type can never react -/
theorem C12_match_same_type (ps : List Cmd) (c : Cmd) (h : anyMatch ps c = true) :
    ∃ p ∈ ps, p.ty = c.ty ∧ «matches» p c = true := by
  simp only [anyMatch, List.any_eq_true] at h
  obtain ⟨p, hp, hm⟩ := h
  have hty : p.ty = c.ty := by
    have := hm; simp only [«matches», Bool.and_eq_true, beq_iff_eq] at this; exact this.1
  exact ⟨p, hp, hty, hm⟩

theorem underHeader_of_match (l : Listener) (c : Cmd) (h : anyMatch l.patterns c = true) : underHeader l c = true := by
  obtain ⟨p, hp, hty, _⟩ := C12_match_same_type l.patterns c h
  simp only [underHeader, List.any_eq_true]
  exact ⟨p, hp, by simp [hty]⟩

/-- once a one-shot listener has matched in this dispatch, no further one-shot listener is resolved -/
theorem dispatch_osm_no_resolved (c : Cmd) (t : Table) (i : Nat) (d : Cmd) : Out.resolved i d ∉ (dispatch c t true).2 := by
  induction t with
  | nil => simp [dispatch]
  | cons l rest ih =>
    unfold dispatch
    split
    · exact ih
    · split
      · exact ih
      · split
        · exact ih
        · cases hk : l.kind with
          | callback => simp only []; simp [ih]
          | oneShot => simp_all

/-- **oldest matching waiter**: the dispatch resolves a one-shot waiter iff an eligible one exists, and then
    exactly the first eligible one in registration order, with the command received -/
theorem C12_oneshot (c : Cmd) (t : Table) :
    (∀ i d, Out.resolved i d ∈ (dispatch c t false).2 →
        d = c ∧ ∃ pre l post, t = pre ++ l :: post ∧ l.id = i ∧ eligible c l = true ∧ ∀ l' ∈ pre, eligible c l' = false) ∧
    ((∃ l ∈ t, eligible c l = true) → ∃ i, Out.resolved i c ∈ (dispatch c t false).2) := by
  induction t with
  | nil => simp [dispatch]
  | cons l rest ih =>
    by_cases he : eligible c l = true
    · -- l itself is the first eligible waiter
      have hk : l.kind = .oneShot := by simp [eligible] at he; exact he.1.1
      have hd : l.done = false := by simp [eligible] at he; exact he.1.2
      have hm : anyMatch l.patterns c = true := by simp [eligible] at he; exact he.2
      have hu := underHeader_of_match l c hm
      have hstep : dispatch c (l :: rest) false =
          ({ l with done := true } :: (dispatch c rest true).1, .resolved l.id c :: (dispatch c rest true).2) := by
        rw [dispatch]; simp [hu, hm, hk, hd]
      rw [hstep]
      constructor
      · intro i d hmem
        simp only [List.mem_cons] at hmem
        rcases hmem with h | h
        · cases h
          exact ⟨rfl, [], l, rest, rfl, rfl, he, by simp⟩
        · exact absurd h (dispatch_osm_no_resolved c rest i d)
      · intro _; exact ⟨l.id, by simp⟩
    · -- l is not eligible: it is left as it is (a callback may be called), the search continues
      have he' : eligible c l = false := by simpa using he
      have hout : ∀ i d, Out.resolved i d ∈ (dispatch c (l :: rest) false).2 ↔ Out.resolved i d ∈ (dispatch c rest false).2 := by
        intro i d
        rw [dispatch]
        split
        · rfl
        · split
          · rfl
          · split
            · rfl
            · cases hk : l.kind with
              | callback => simp
              | oneShot =>
                have hm : anyMatch l.patterns c = true := by simp_all
                have hd : l.done = true := by
                  simp [eligible, hk, hm] at he'; exact he'
                simp [hd]
      constructor
      · intro i d hmem
        obtain ⟨hd, pre, l0, post, ht, hid, hel, hpre⟩ := ih.1 i d ((hout i d).mp hmem)
        refine ⟨hd, l :: pre, l0, post, by rw [ht]; rfl, hid, hel, ?_⟩
        intro l' hl'
        rcases List.mem_cons.mp hl' with h | h
        · rw [h]; exact he'
        · exact hpre l' h
      · rintro ⟨l0, hl0, hel⟩
        rcases List.mem_cons.mp hl0 with h | h
        · rw [h] at hel; exact absurd hel he
        · obtain ⟨i, hi⟩ := ih.2 ⟨l0, h, hel⟩
          exact ⟨i, (hout i c).mpr hi⟩

/-- at most one waiter is resolved per received command -/
theorem C12_at_most_one (c : Cmd) (t : Table) (osm : Bool) :
    ((dispatch c t osm).2.filter fun o => match o with | .resolved _ _ => true | _ => false).length ≤ 1 := by
  induction t generalizing osm with
  | nil => simp [dispatch]
  | cons l rest ih =>
    rw [dispatch]
    split
    · exact ih osm
    · split
      · exact ih osm
      · split
        · exact ih osm
        · cases hk : l.kind with
          | callback => simpa using ih osm
          | oneShot =>
            simp only []
            split
            · exact ih osm
            · have : (dispatch c rest true).2.filter (fun o => match o with | .resolved _ _ => true | _ => false) = [] := by
                apply List.filter_eq_nil_iff.mpr
                intro o ho
                cases o with
                | resolved i d => exact absurd ho (dispatch_osm_no_resolved c rest i d)
                | called i d => simp
              simp [this]

/-- **callbacks**: the callbacks invoked are exactly the registered callbacks whose pattern list matches,
    in registration order, each with the received command -/
theorem C12_callbacks (c : Cmd) (t : Table) (osm : Bool) :
    (dispatch c t osm).2.filterMap (fun o => match o with | .called i d => some (i, d) | _ => none) =
      (t.filter fun l => l.kind == .callback && anyMatch l.patterns c).map (fun l => (l.id, c)) := by
  induction t generalizing osm with
  | nil => simp [dispatch]
  | cons l rest ih =>
    rw [dispatch]
    by_cases hu : underHeader l c = true
    · simp only [hu, Bool.not_true, Bool.false_eq_true, if_false]
      by_cases h2 : (osm && l.kind == .oneShot) = true
      · have hk : l.kind = .oneShot := by simp at h2; exact h2.2
        have hosm : osm = true := by simp at h2; exact h2.1
        simp [hosm, hk, ih]
      · simp only [h2, if_false]
        by_cases hm : anyMatch l.patterns c = true
        · simp only [hm, Bool.not_true, Bool.false_eq_true, if_false]
          cases hk : l.kind with
          | callback => simp [hk, hm, ih]
          | oneShot =>
            simp only []
            split <;> simp [hk, ih]
        · simp [hm, ih]
    · have hm : anyMatch l.patterns c = false := by
        cases h : anyMatch l.patterns c with
        | false => rfl
        | true => exact absurd (underHeader_of_match l c h) hu
      simp [hu, hm, ih]

/-- the listener table keeps its length and ids through a dispatch: removal of finished one-shot
    listeners is deferred to the end of the event-loop step, so several commands received in one step
    see the resolved waiter as done and pass on to the next one -/
theorem C12_dispatch_keeps_ids (c : Cmd) (t : Table) (osm : Bool) :
    (dispatch c t osm).1.map (·.id) = t.map (·.id) := by
  induction t generalizing osm with
  | nil => simp [dispatch]
  | cons l rest ih =>
    rw [dispatch]
    split
    · simp [ih]
    · split
      · simp [ih]
      · split
        · simp [ih]
        · cases hk : l.kind with
          | callback => simp [ih]
          | oneShot => simp only []; split <;> simp [ih]

/-! ## whole histories: a waiter is resolved at most once, and never after it was cancelled

    `future.set_result` on a future that is already done raises `InvalidStateError`; that no history of registrations,
    cancellations, receptions and event-loop step ends (with removal of finished listeners deferred to the step end, so
    that several commands can arrive in one step) ever resolves a waiter twice, or after its cancellation, is therefore
    what keeps `frame_received` from raising.  Registration ids stand for listener object identities: fresh. -/

def resolvedOf (os : List Out) : List Nat := os.filterMap fun o => match o with | .resolved i _ => some i | _ => none
def resolvedIds (outs : List (List Out)) : List Nat := resolvedOf outs.flatten
def regOf : Ev → List Nat
  | .waiter i _ => [i]
  | .callback i _ => [i]
  | _ => []
def regIds (evs : List Ev) : List Nat := evs.flatMap regOf

/-- ghost state: the table, the ids registered so far, the ids that are *dead* (resolved or cancelled) -/
structure G where
  t : Table
  S : List Nat
  D : List Nat

def cancelOf (S : List Nat) : Ev → List Nat
  | .cancel i => if i ∈ S then [i] else []
  | _ => []

def gstep (g : G) (e : Ev) : G :=
  { t := (step g.t e).1, S := g.S ++ regOf e, D := g.D ++ resolvedOf (step g.t e).2 ++ cancelOf g.S e }

def GInv (g : G) : Prop :=
  (∀ l ∈ g.t, l.id ∈ g.S) ∧ (g.t.map (·.id)).Nodup ∧
  ∀ i ∈ g.D, i ∈ g.S ∧ ∀ l ∈ g.t, l.id = i → (l.done = true ∨ l.kind = .callback)

theorem runEvents_acc (t : Table) (evs : List Ev) (acc : List (List Out)) :
    evs.foldl (fun a e => let r := step a.1 e; (r.1, a.2 ++ [r.2])) (t, acc) =
      ((runEvents t evs).1, acc ++ (runEvents t evs).2) := by
  induction evs generalizing t acc with
  | nil => simp [runEvents]
  | cons e es ih =>
    simp only [runEvents, List.foldl_cons, List.nil_append]
    rw [ih, ih (step t e).1 [(step t e).2]]
    simp [runEvents]

theorem runEvents_cons (t : Table) (e : Ev) (es : List Ev) :
    runEvents t (e :: es) = ((runEvents (step t e).1 es).1, (step t e).2 :: (runEvents (step t e).1 es).2) := by
  simp only [runEvents, List.foldl_cons, List.nil_append]
  rw [runEvents_acc]; simp [runEvents]

theorem runEvents_append (t : Table) (a b : List Ev) :
    runEvents t (a ++ b) = ((runEvents (runEvents t a).1 b).1, (runEvents t a).2 ++ (runEvents (runEvents t a).1 b).2) := by
  induction a generalizing t with
  | nil => simp [runEvents]
  | cons e es ih => rw [List.cons_append, runEvents_cons, runEvents_cons, ih]; simp

/-- every member of the table after a dispatch is a member before it, possibly marked done; a resolved waiter
    was pending, and is marked done afterwards -/
theorem dispatch_members (c : Cmd) (t : Table) (osm : Bool) :
    (∀ l' ∈ (dispatch c t osm).1, ∃ l ∈ t, l'.id = l.id ∧ l'.kind = l.kind ∧ (l.done = true → l'.done = true)) ∧
    (∀ i d, Out.resolved i d ∈ (dispatch c t osm).2 →
      (∃ l ∈ t, l.id = i ∧ l.kind = .oneShot ∧ l.done = false) ∧ ∃ l' ∈ (dispatch c t osm).1, l'.id = i ∧ l'.done = true) := by
  induction t generalizing osm with
  | nil => simp [dispatch]
  | cons l rest ih =>
    have keep : ∀ osm', (dispatch c (l :: rest) osm') = (l :: (dispatch c rest osm').1, (dispatch c rest osm').2) →
        (∀ l' ∈ (dispatch c (l :: rest) osm').1, ∃ l0 ∈ l :: rest, l'.id = l0.id ∧ l'.kind = l0.kind ∧ (l0.done = true → l'.done = true)) ∧
        (∀ i d, Out.resolved i d ∈ (dispatch c (l :: rest) osm').2 →
          (∃ l0 ∈ l :: rest, l0.id = i ∧ l0.kind = .oneShot ∧ l0.done = false) ∧
            ∃ l' ∈ (dispatch c (l :: rest) osm').1, l'.id = i ∧ l'.done = true) := by
      intro osm' h
      rw [h]
      constructor
      · intro l' hl'
        rcases List.mem_cons.mp hl' with h1 | h1
        · exact ⟨l, List.mem_cons_self, by rw [h1], by rw [h1], fun hd => by rw [h1]; exact hd⟩
        · obtain ⟨l0, hl0, h2⟩ := (ih osm').1 l' h1
          exact ⟨l0, List.mem_cons_of_mem _ hl0, h2⟩
      · intro i d hm
        obtain ⟨⟨l0, hl0, h2⟩, ⟨l', hl', h3⟩⟩ := (ih osm').2 i d hm
        exact ⟨⟨l0, List.mem_cons_of_mem _ hl0, h2⟩, ⟨l', List.mem_cons_of_mem _ hl', h3⟩⟩
    by_cases h1 : underHeader l c = false
    · exact keep osm (by rw [dispatch]; simp [h1])
    have h1' : underHeader l c = true := by simpa using h1
    by_cases h2 : (osm && l.kind == .oneShot) = true
    · exact keep osm (by rw [dispatch]; simp only [h1', h2]; simp)
    by_cases h3 : anyMatch l.patterns c = false
    · exact keep osm (by rw [dispatch]; simp only [h1', h2, h3]; simp)
    have h3' : anyMatch l.patterns c = true := by simpa using h3
    cases hk : l.kind with
    | callback =>
      have hd : dispatch c (l :: rest) osm = (l :: (dispatch c rest osm).1, .called l.id c :: (dispatch c rest osm).2) := by
        rw [dispatch]; simp only [h1', h3', hk]; simp
      rw [hd]
      constructor
      · intro l' hl'
        rcases List.mem_cons.mp hl' with h4 | h4
        · exact ⟨l, List.mem_cons_self, by rw [h4], by rw [h4], fun hd => by rw [h4]; exact hd⟩
        · obtain ⟨l0, hl0, h5⟩ := (ih osm).1 l' h4
          exact ⟨l0, List.mem_cons_of_mem _ hl0, h5⟩
      · intro i d hm
        have hm' : Out.resolved i d ∈ (dispatch c rest osm).2 := by
          rcases List.mem_cons.mp hm with h4 | h4
          · cases h4
          · exact h4
        obtain ⟨⟨l0, hl0, h5⟩, ⟨l', hl', h6⟩⟩ := (ih osm).2 i d hm'
        exact ⟨⟨l0, List.mem_cons_of_mem _ hl0, h5⟩, ⟨l', List.mem_cons_of_mem _ hl', h6⟩⟩
    | oneShot =>
      have hosm : osm = false := by
        cases osm with
        | false => rfl
        | true => exact absurd (by simp [hk]) h2
      subst hosm
      by_cases hdone : l.done = true
      · exact keep false (by rw [dispatch]; simp only [h1', h3', hk, hdone]; simp)
      have hdone' : l.done = false := by simpa using hdone
      have hd : dispatch c (l :: rest) false =
          ({ l with done := true } :: (dispatch c rest true).1, .resolved l.id c :: (dispatch c rest true).2) := by
        rw [dispatch]; simp only [h1', h3', hk, hdone']; simp
      rw [hd]
      constructor
      · intro l' hl'
        rcases List.mem_cons.mp hl' with h4 | h4
        · exact ⟨l, List.mem_cons_self, by rw [h4], by rw [h4], fun _ => by rw [h4]⟩
        · obtain ⟨l0, hl0, h5⟩ := (ih true).1 l' h4
          exact ⟨l0, List.mem_cons_of_mem _ hl0, h5⟩
      · intro i d hm
        rcases List.mem_cons.mp hm with h4 | h4
        · cases h4
          exact ⟨⟨l, List.mem_cons_self, rfl, hk, hdone'⟩, ⟨{ l with done := true }, List.mem_cons_self, rfl, rfl⟩⟩
        · exact absurd h4 (dispatch_osm_no_resolved c rest i d)

theorem resolvedOf_length (c : Cmd) (t : Table) (osm : Bool) : (resolvedOf (dispatch c t osm).2).length ≤ 1 := by
  have h := C12_at_most_one c t osm
  have : ∀ os : List Out, (resolvedOf os).length = (os.filter fun o => match o with | .resolved _ _ => true | _ => false).length := by
    intro os
    induction os with
    | nil => rfl
    | cons o os ih => cases o <;> simp [resolvedOf] at ih ⊢ <;> exact ih
  rw [this]; exact h

theorem mem_resolvedOf (os : List Out) (i : Nat) : i ∈ resolvedOf os ↔ ∃ d, Out.resolved i d ∈ os := by
  simp only [resolvedOf, List.mem_filterMap]
  constructor
  · rintro ⟨o, ho, h⟩
    cases o with
    | resolved j d => simp at h; subst h; exact ⟨d, ho⟩
    | called j d => simp at h
  · rintro ⟨d, hd⟩; exact ⟨_, hd, rfl⟩

/-- the ids a step resolves are pending one-shot waiters of the table -/
theorem step_resolved (t : Table) (e : Ev) (i : Nat) (h : i ∈ resolvedOf (step t e).2) :
    ∃ l ∈ t, l.id = i ∧ l.kind = .oneShot ∧ l.done = false := by
  cases e with
  | receive c =>
    obtain ⟨d, hd⟩ := (mem_resolvedOf _ i).mp h
    exact ((dispatch_members c t false).2 i d hd).1
  | waiter _ _ => simp [step, resolvedOf] at h
  | callback _ _ => simp [step, resolvedOf] at h
  | cancel _ => simp [step, resolvedOf] at h
  | settle => simp [step, resolvedOf] at h

theorem nodup_of_length_le_one {α} (l : List α) (h : l.length ≤ 1) : l.Nodup := by
  match l, h with
  | [], _ => exact List.nodup_nil
  | [a], _ => simp
  | _ :: _ :: _, h => simp at h

theorem step_resolved_nodup (t : Table) (e : Ev) : (resolvedOf (step t e).2).Nodup := by
  cases e with
  | receive c => exact nodup_of_length_le_one _ (resolvedOf_length c t false)
  | waiter _ _ => simp [step, resolvedOf]
  | callback _ _ => simp [step, resolvedOf]
  | cancel _ => simp [step, resolvedOf]
  | settle => simp [step, resolvedOf]

theorem unique_by_id (t : Table) (hn : (t.map (·.id)).Nodup) (a b : Listener) (ha : a ∈ t) (hb : b ∈ t) (h : a.id = b.id) : a = b := by
  induction t with
  | nil => cases ha
  | cons x xs ih =>
    simp only [List.map_cons, List.nodup_cons] at hn
    rcases List.mem_cons.mp ha with h1 | h1 <;> rcases List.mem_cons.mp hb with h2 | h2
    · rw [h1, h2]
    · exact absurd (List.mem_map.mpr ⟨b, h2, by rw [← h, h1]⟩) hn.1
    · exact absurd (List.mem_map.mpr ⟨a, h1, by rw [h, h2]⟩) hn.1
    · exact ih hn.2 h1 h2

theorem ginv_gstep (g : G) (e : Ev) (h : GInv g) (hf : ∀ i ∈ regOf e, i ∉ g.S) : GInv (gstep g e) := by
  obtain ⟨h1, h2, h3⟩ := h
  cases e with
  | waiter id ps =>
    have hid : id ∉ g.S := hf id (by simp [regOf])
    refine ⟨?_, ?_, ?_⟩
    · intro l hl
      simp only [gstep, step, regOf, List.mem_append, List.mem_singleton] at hl ⊢
      rcases hl with hl | hl
      · exact Or.inl (h1 l hl)
      · right; rw [hl]
    · simp only [gstep, step, List.map_append, List.map_cons, List.map_nil]
      refine List.nodup_append.mpr ⟨h2, by simp, ?_⟩
      intro a ha b hb
      simp only [List.mem_singleton] at hb
      obtain ⟨l, hl, rfl⟩ := List.mem_map.mp ha
      intro heq; exact hid (by rw [hb] at heq; rw [← heq]; exact h1 l hl)
    · intro i hi
      simp only [gstep, step, resolvedOf, cancelOf, List.filterMap_nil, List.append_nil] at hi
      obtain ⟨hiS, hil⟩ := h3 i hi
      refine ⟨by simp only [gstep]; exact List.mem_append_left _ hiS, ?_⟩
      intro l hl hli
      simp only [gstep, step, List.mem_append, List.mem_singleton] at hl
      rcases hl with hl | hl
      · exact hil l hl hli
      · rw [hl] at hli; simp only at hli; rw [hli] at hid; exact absurd hiS hid
  | callback id ps =>
    have hid : id ∉ g.S := hf id (by simp [regOf])
    refine ⟨?_, ?_, ?_⟩
    · intro l hl
      simp only [gstep, step, regOf, List.mem_append, List.mem_singleton] at hl ⊢
      rcases hl with hl | hl
      · exact Or.inl (h1 l hl)
      · right; rw [hl]
    · simp only [gstep, step, List.map_append, List.map_cons, List.map_nil]
      refine List.nodup_append.mpr ⟨h2, by simp, ?_⟩
      intro a ha b hb
      simp only [List.mem_singleton] at hb
      obtain ⟨l, hl, rfl⟩ := List.mem_map.mp ha
      intro heq; exact hid (by rw [hb] at heq; rw [← heq]; exact h1 l hl)
    · intro i hi
      simp only [gstep, step, resolvedOf, cancelOf, List.filterMap_nil, List.append_nil] at hi
      obtain ⟨hiS, hil⟩ := h3 i hi
      refine ⟨by simp only [gstep]; exact List.mem_append_left _ hiS, ?_⟩
      intro l hl hli
      simp only [gstep, step, List.mem_append, List.mem_singleton] at hl
      rcases hl with hl | hl
      · exact hil l hl hli
      · rw [hl] at hli; simp only at hli; rw [hli] at hid; exact absurd hiS hid
  | cancel id =>
    refine ⟨?_, ?_, ?_⟩
    · intro l hl
      simp only [gstep, step, regOf, List.append_nil, List.mem_map] at hl ⊢
      obtain ⟨l0, hl0, rfl⟩ := hl
      split <;> exact h1 l0 hl0
    · simp only [gstep, step, List.map_map]
      have : (fun l : Listener => (if l.id = id ∧ l.kind = .oneShot then { l with done := true } else l).id) = (·.id) := by
        funext l; split <;> rfl
      rw [show ((fun (x : Listener) => x.id) ∘ fun l => if l.id = id ∧ l.kind = .oneShot then { l with done := true } else l) = (·.id) from this]
      exact h2
    · intro i hi
      simp only [gstep, step, resolvedOf, cancelOf, List.filterMap_nil, List.append_nil, regOf] at hi ⊢
      have key : ∀ l ∈ g.t.map (fun l => if l.id = id ∧ l.kind = .oneShot then { l with done := true } else l),
          l.id = i → (i ∈ g.D ∨ i = id) → (l.done = true ∨ l.kind = .callback) := by
        intro l hl hli hor
        obtain ⟨l0, hl0, rfl⟩ := List.mem_map.mp hl
        by_cases hc : l0.id = id ∧ l0.kind = .oneShot
        · simp only [hc, and_self, if_true]; left; trivial
        · simp only [hc, if_false] at hli ⊢
          rcases hor with hor | hor
          · exact (h3 i hor).2 l0 hl0 hli
          · cases hk : l0.kind with
            | callback => right; rfl
            | oneShot => exact absurd ⟨by rw [hli, hor], hk⟩ hc
      rcases List.mem_append.mp hi with hi | hi
      · exact ⟨(h3 i hi).1, fun l hl hli => key l hl hli (Or.inl hi)⟩
      · split at hi
        · simp only [List.mem_singleton] at hi
          rename_i hmem
          exact ⟨by rw [hi]; exact hmem, fun l hl hli => key l hl hli (Or.inr hi)⟩
        · cases hi
  | settle =>
    refine ⟨?_, ?_, ?_⟩
    · intro l hl
      simp only [gstep, step, regOf, List.append_nil] at hl ⊢
      exact h1 l (List.mem_filter.mp hl).1
    · simp only [gstep, step]
      exact List.Nodup.sublist (List.Sublist.map _ List.filter_sublist) h2
    · intro i hi
      simp only [gstep, step, resolvedOf, cancelOf, List.filterMap_nil, List.append_nil, regOf] at hi ⊢
      exact ⟨(h3 i hi).1, fun l hl hli => (h3 i hi).2 l (List.mem_filter.mp hl).1 hli⟩
  | receive c =>
    have hm := dispatch_members c g.t false
    have hids := C12_dispatch_keeps_ids c g.t false
    refine ⟨?_, ?_, ?_⟩
    · intro l hl
      simp only [gstep, step, regOf, List.append_nil] at hl ⊢
      obtain ⟨l0, hl0, hid, _, _⟩ := hm.1 l hl
      rw [hid]; exact h1 l0 hl0
    · simp only [gstep, step]; rw [hids]; exact h2
    · intro i hi
      simp only [gstep, step, cancelOf, List.append_nil, regOf] at hi ⊢
      rcases List.mem_append.mp hi with hi | hi
      · refine ⟨(h3 i hi).1, ?_⟩
        intro l hl hli
        obtain ⟨l0, hl0, hid, hkind, hdone⟩ := hm.1 l hl
        rcases (h3 i hi).2 l0 hl0 (by rw [← hid]; exact hli) with hd | hk
        · exact Or.inl (hdone hd)
        · right; rw [hkind]; exact hk
      · obtain ⟨d, hd⟩ := (mem_resolvedOf _ i).mp hi
        obtain ⟨⟨l0, hl0, hid0, _, _⟩, ⟨l', hl', hid', hdone'⟩⟩ := hm.2 i d hd
        refine ⟨by rw [← hid0]; exact h1 l0 hl0, ?_⟩
        intro l hl hli
        have : l = l' := unique_by_id _ (by rw [hids]; exact h2) l l' hl hl' (by rw [hli, hid'])
        rw [this]; exact Or.inl hdone'

def grun (g : G) (evs : List Ev) : G := evs.foldl gstep g

theorem grun_t (g : G) (evs : List Ev) : (grun g evs).t = (runEvents g.t evs).1 := by
  induction evs generalizing g with
  | nil => rfl
  | cons e es ih => rw [runEvents_cons]; simp only [grun, List.foldl_cons]; exact ih (gstep g e)

theorem grun_S (g : G) (evs : List Ev) : (grun g evs).S = g.S ++ regIds evs := by
  induction evs generalizing g with
  | nil => simp [grun, regIds]
  | cons e es ih =>
    simp only [grun, List.foldl_cons]
    have := ih (gstep g e)
    simp only [grun] at this
    rw [this]; simp [gstep, regIds, List.flatMap_cons]

theorem ginv_grun (g : G) (evs : List Ev) (h : GInv g) (hn : (regIds evs).Nodup) (hf : ∀ i ∈ regIds evs, i ∉ g.S) :
    GInv (grun g evs) := by
  induction evs generalizing g with
  | nil => exact h
  | cons e es ih =>
    simp only [regIds, List.flatMap_cons] at hn hf
    obtain ⟨hn1, hn2, hdisj⟩ := List.nodup_append.mp hn
    simp only [grun, List.foldl_cons]
    apply ih (gstep g e) (ginv_gstep g e h (fun i hi => hf i (List.mem_append_left _ hi))) hn2
    intro i hi
    simp only [gstep, List.mem_append, not_or]
    exact ⟨hf i (List.mem_append_right _ hi), fun hr => hdisj i hr i hi rfl⟩

/-- from any ghost state satisfying the invariant: the waiters resolved by the rest of the history are pairwise
    distinct and none of them is dead -/
theorem resolved_fresh (g : G) (evs : List Ev) (h : GInv g) (hn : (regIds evs).Nodup) (hf : ∀ i ∈ regIds evs, i ∉ g.S) :
    (resolvedIds (runEvents g.t evs).2).Nodup ∧ ∀ i ∈ resolvedIds (runEvents g.t evs).2, i ∉ g.D := by
  induction evs generalizing g with
  | nil => simp [runEvents, resolvedIds, resolvedOf]
  | cons e es ih =>
    simp only [regIds, List.flatMap_cons] at hn hf
    obtain ⟨hn1, hn2, hdisj⟩ := List.nodup_append.mp hn
    have hg' := ginv_gstep g e h (fun i hi => hf i (List.mem_append_left _ hi))
    have hf' : ∀ i ∈ regIds es, i ∉ (gstep g e).S := by
      intro i hi
      simp only [gstep, List.mem_append, not_or]
      exact ⟨hf i (List.mem_append_right _ hi), fun hr => hdisj i hr i hi rfl⟩
    obtain ⟨ih1, ih2⟩ := ih (gstep g e) hg' hn2 hf'
    have hsplit : resolvedIds (runEvents g.t (e :: es)).2 =
        resolvedOf (step g.t e).2 ++ resolvedIds (runEvents (step g.t e).1 es).2 := by
      rw [runEvents_cons]; simp [resolvedIds, resolvedOf, List.filterMap_append]
    rw [hsplit]
    have hhead : ∀ i ∈ resolvedOf (step g.t e).2, i ∉ g.D := by
      intro i hi hD
      obtain ⟨l, hl, hli, hk, hd⟩ := step_resolved g.t e i hi
      rcases (h.2.2 i hD).2 l hl hli with h5 | h5
      · rw [hd] at h5; cases h5
      · rw [hk] at h5; cases h5
    constructor
    · refine List.nodup_append.mpr ⟨step_resolved_nodup g.t e, ih1, ?_⟩
      intro a ha b hb heq
      subst heq
      exact ih2 a hb (by simp only [gstep]; exact List.mem_append_left _ (List.mem_append_right _ ha))
    · intro i hi
      rcases List.mem_append.mp hi with hi | hi
      · exact hhead i hi
      · intro hD
        exact ih2 i hi (by simp only [gstep]; exact List.mem_append_left _ (List.mem_append_left _ hD))

theorem ginv_init : GInv ⟨[], [], []⟩ := ⟨by simp, by simp, by simp⟩

/-- **at most once over the whole history**: whatever the history of registrations (fresh listener identities),
    cancellations, received commands and event-loop step ends, no waiter is ever resolved twice -/
theorem C12_history_resolved_once (evs : List Ev) (hfresh : (regIds evs).Nodup) :
    (resolvedIds (runEvents [] evs).2).Nodup :=
  (resolved_fresh ⟨[], [], []⟩ evs ginv_init hfresh (by simp)).1

/-- **never after cancellation, never after resolution**: once a registered waiter has been cancelled (`a`, then
    `cancel i`), nothing in the rest `b` of the history resolves it - so `set_result` is never called on a done future -/
theorem C12_history_never_after_cancel (a b : List Ev) (i : Nat) (hfresh : (regIds (a ++ .cancel i :: b)).Nodup)
    (hi : i ∈ regIds a) :
    i ∉ resolvedIds (runEvents (step (runEvents [] a).1 (.cancel i)).1 b).2 := by
  have hsplit : regIds (a ++ .cancel i :: b) = regIds a ++ regIds b := by
    simp [regIds, List.flatMap_append, List.flatMap_cons, regOf]
  rw [hsplit] at hfresh
  obtain ⟨hna, hnb, hdisj⟩ := List.nodup_append.mp hfresh
  have hga := ginv_grun ⟨[], [], []⟩ a ginv_init hna (by simp)
  have hSa : (grun ⟨[], [], []⟩ a).S = regIds a := by rw [grun_S]; simp
  have hgc := ginv_gstep (grun ⟨[], [], []⟩ a) (.cancel i) hga (by simp [regOf])
  have hfb : ∀ j ∈ regIds b, j ∉ (gstep (grun ⟨[], [], []⟩ a) (.cancel i)).S := by
    intro j hj
    simp only [gstep, regOf, List.append_nil, hSa]
    exact fun hr => hdisj j hr j hj rfl
  have hres := (resolved_fresh _ b hgc hnb hfb).2
  have ht : (gstep (grun ⟨[], [], []⟩ a) (.cancel i)).t = (step (runEvents [] a).1 (.cancel i)).1 := by
    simp only [gstep]; rw [grun_t]
  rw [ht] at hres
  intro hmem
  apply hres i hmem
  simp only [gstep, cancelOf, hSa, hi, if_true]
  exact List.mem_append_right _ (by simp)

/-- the outputs of a history split at any point: what follows a prefix is the run from the table the prefix leaves -/
theorem C12_history_split (a b : List Ev) :
    (runEvents [] (a ++ b)).2 = (runEvents [] a).2 ++ (runEvents (runEvents [] a).1 b).2 := by
  rw [runEvents_append]

/-- non-vacuity: a waiter cancelled before its response arrives is passed over - the next waiter gets it; a second,
    identical response in the same event-loop step finds nobody -/
example : (runEvents [] [.waiter 1 [⟨7, [none]⟩], .waiter 2 [⟨7, [none]⟩], .cancel 1, .receive ⟨7, [some 5]⟩,
    .receive ⟨7, [some 5]⟩, .settle, .receive ⟨7, [some 5]⟩]).2.drop 3 =
    [[.resolved 2 ⟨7, [some 5]⟩], [], [], []] := by decide
example : (regIds [.waiter 1 [⟨7, [none]⟩], .waiter 2 [⟨7, [none]⟩], .cancel 1, .receive ⟨7, [some 5]⟩]).Nodup := by decide

/-! ## the request machine's waiters are this table

    The request machine (`Host.lean`, properties C11 / C13 / C14 / C20) keeps the waiters of running requests as a list of
    `(request id, command)` pairs, resolves a response by `find?` on the command and drops the waiter by `filter` on the id.
    Every request waits with the all-wildcard pattern of its response class (`Rsp(partial=True)`), so that list is the
    listener table below; the two theorems say that the request machine's two list operations are exactly what `dispatch`
    and the deferred removal do on it - the abstraction used by the concurrency theorems is a refinement of this model. -/

def requestTable (ls : List (Nat × Nat)) : Table := ls.map fun l => ⟨l.1, .oneShot, [⟨l.2, []⟩], false⟩

theorem dispatch_requestTable_osm (c : Cmd) (ls : List (Nat × Nat)) : dispatch c (requestTable ls) true = (requestTable ls, []) := by
  induction ls with
  | nil => simp [requestTable, dispatch]
  | cons l rest ih =>
    have ih' : dispatch c (List.map (fun l : Nat × Nat => (⟨l.1, .oneShot, [⟨l.2, []⟩], false⟩ : Listener)) rest) true =
        (List.map (fun l : Nat × Nat => (⟨l.1, .oneShot, [⟨l.2, []⟩], false⟩ : Listener)) rest, []) := ih
    simp only [requestTable, List.map_cons]
    rw [dispatch]
    split
    · rw [ih']
    · simp only [Bool.true_and, beq_self_eq_true, if_true]; rw [ih']

/-- **who is resolved**: on the table of request waiters a received response resolves exactly the waiter the request
    machine picks - the first one registered for that command - and nobody if there is none -/
theorem C12_request_waiters (ls : List (Nat × Nat)) (key : Nat) (ps : List (Option Nat)) :
    resolvedOf (dispatch ⟨key, ps⟩ (requestTable ls) false).2 = ((ls.find? fun l => l.2 == key).map (·.1)).toList := by
  induction ls with
  | nil => simp [requestTable, dispatch, resolvedOf]
  | cons l rest ih =>
    have ih' : resolvedOf (dispatch ⟨key, ps⟩ (List.map (fun l : Nat × Nat => (⟨l.1, .oneShot, [⟨l.2, []⟩], false⟩ : Listener)) rest) false).2 =
        ((rest.find? fun l => l.2 == key).map (·.1)).toList := ih
    simp only [requestTable, List.map_cons]
    by_cases hk : l.2 = key
    · have hu : underHeader (⟨l.1, .oneShot, [⟨l.2, []⟩], false⟩ : Listener) ⟨key, ps⟩ = true := by simp [underHeader, hk]
      have hm : anyMatch [(⟨l.2, []⟩ : Cmd)] ⟨key, ps⟩ = true := by simp [anyMatch, «matches», agree, hk]
      rw [dispatch]
      simp only [hu, hm, Bool.not_true, Bool.false_and, Bool.false_eq_true, if_false]
      have := dispatch_requestTable_osm ⟨key, ps⟩ rest
      simp only [requestTable] at this
      rw [this]
      simp [resolvedOf, List.find?_cons, hk]
    · have hu : underHeader (⟨l.1, .oneShot, [⟨l.2, []⟩], false⟩ : Listener) ⟨key, ps⟩ = false := by simp [underHeader, hk]
      rw [dispatch]
      simp only [hu, Bool.not_false, if_true]
      rw [ih']
      simp [List.find?_cons, hk]

/-- **what is left**: after the dispatch and the deferred removal of finished waiters the table is the request machine's
    list with the resolved request's waiter filtered out (request ids are pairwise distinct) -/
theorem C12_request_waiters_table (ls : List (Nat × Nat)) (key : Nat) (ps : List (Option Nat)) (hn : (ls.map (·.1)).Nodup) :
    ((dispatch ⟨key, ps⟩ (requestTable ls) false).1.filter fun l => !l.done) =
      match ls.find? fun l => l.2 == key with
      | none => requestTable ls
      | some (i, _) => requestTable (ls.filter (·.1 != i)) := by
  induction ls with
  | nil => simp [requestTable, dispatch]
  | cons l rest ih =>
    simp only [List.map_cons, List.nodup_cons] at hn
    have ih' := ih hn.2
    simp only [requestTable] at ih'
    simp only [requestTable, List.map_cons]
    by_cases hk : l.2 = key
    · have hu : underHeader (⟨l.1, .oneShot, [⟨l.2, []⟩], false⟩ : Listener) ⟨key, ps⟩ = true := by simp [underHeader, hk]
      have hm : anyMatch [(⟨l.2, []⟩ : Cmd)] ⟨key, ps⟩ = true := by simp [anyMatch, «matches», agree, hk]
      rw [dispatch]
      simp only [hu, hm, Bool.not_true, Bool.false_and, Bool.false_eq_true, if_false]
      have := dispatch_requestTable_osm ⟨key, ps⟩ rest
      simp only [requestTable] at this
      rw [this]
      have hrest : rest.filter (fun x => x.1 != l.1) = rest := by
        apply List.filter_eq_self.mpr
        intro a ha
        have : a.1 ≠ l.1 := fun h => hn.1 (List.mem_map.mpr ⟨a, ha, h⟩)
        simpa using this
      have hall : (List.map (fun l : Nat × Nat => (⟨l.1, .oneShot, [⟨l.2, []⟩], false⟩ : Listener)) rest).filter (fun l => !l.done) =
          List.map (fun l : Nat × Nat => (⟨l.1, .oneShot, [⟨l.2, []⟩], false⟩ : Listener)) rest := by
        apply List.filter_eq_self.mpr
        intro a ha
        obtain ⟨x, _, rfl⟩ := List.mem_map.mp ha
        rfl
      simp [List.find?_cons, hk, List.filter_cons, hrest, hall]
    · have hu : underHeader (⟨l.1, .oneShot, [⟨l.2, []⟩], false⟩ : Listener) ⟨key, ps⟩ = false := by simp [underHeader, hk]
      rw [dispatch]
      simp only [hu, Bool.not_false, if_true, List.filter_cons, Bool.not_false]
      rw [ih']
      have hkb : (l.2 == key) = false := by simp [hk]
      simp only [List.find?_cons, hkb]
      cases hf : rest.find? (fun l => l.2 == key) with
      | none => rfl
      | some p =>
        obtain ⟨i, k⟩ := p
        have hmem : (i, k) ∈ rest := List.mem_of_find?_eq_some hf
        have hne : l.1 ≠ i := fun h => hn.1 (List.mem_map.mpr ⟨(i, k), hmem, h.symm⟩)
        simp [List.filter_cons, hne]

example : resolvedOf (dispatch ⟨7, [some 5]⟩ (requestTable [(1, 8), (2, 7), (3, 7)]) false).2 = [2] := by decide

/-! ## non-vacuity: two waiters for the same command, a callback, a waiter for another command;
    two identical responses in one event-loop step go to the two waiters in order -/
example : (runEvents [] [.waiter 1 [⟨7, [none]⟩], .waiter 2 [⟨7, [some 5]⟩], .callback 3 [⟨7, [none]⟩],
    .waiter 4 [⟨8, [none]⟩], .receive ⟨7, [some 5]⟩, .receive ⟨7, [some 5]⟩, .receive ⟨7, [some 5]⟩]).2.drop 4 =
    [[.resolved 1 ⟨7, [some 5]⟩, .called 3 ⟨7, [some 5]⟩], [.resolved 2 ⟨7, [some 5]⟩, .called 3 ⟨7, [some 5]⟩],
     [.called 3 ⟨7, [some 5]⟩]] := by decide

end Zboss.Dispatch
