import ZbossModel.Props.C17
/-! # C12 - a response resolves only the oldest matching waiter and every matching callback -/
namespace Zboss.Dispatch
open Match

/-- a pending one-shot waiter whose pattern list matches the command -/
def eligible (c : Cmd) (l : Listener) : Bool := l.kind == .oneShot && !l.done && anyMatch l.patterns c

/-- a match implies registration under the command's header: a waiter or callback for a different
    command type can never react -/
theorem C12_match_same_type (ps : List Cmd) (c : Cmd) (h : anyMatch ps c = true) :
    ∃ p ∈ ps, p.ty = c.ty ∧ «matches» p c = true := by
  simp only [anyMatch, List.any_eq_true] at h
  obtain ⟨p, hp, hm⟩ := h
  have hty : p.ty = c.ty := by
    have := hm; simp only [«matches», Bool.and_eq_true, beq_iff_eq] at this; exact this.1
  exact ⟨p, hp, hty, hm⟩

theorem underHeader_of_match (l : Listener) (c : Cmd) (h : anyMatch l.patterns c = true) : underHeader l c = true := by
  obtain ⟨p, hp, hty, _⟩ := C12_match_same_type l.patterns c h
  simp only [underHeader, List.any_eq_true]
  exact ⟨p, hp, by simp [hty]⟩

/-- once a one-shot listener has matched in this dispatch, no further one-shot listener is resolved -/
theorem dispatch_osm_no_resolved (c : Cmd) (t : Table) (i : Nat) (d : Cmd) : Out.resolved i d ∉ (dispatch c t true).2 := by
  induction t with
  | nil => simp [dispatch]
  | cons l rest ih =>
    unfold dispatch
    split
    · exact ih
    · split
      · exact ih
      · split
        · exact ih
        · cases hk : l.kind with
          | callback => simp only []; simp [ih]
          | oneShot => simp_all

/-- **oldest matching waiter**: the dispatch resolves a one-shot waiter iff an eligible one exists, and then
    exactly the first eligible one in registration order, with the command received -/
theorem C12_oneshot (c : Cmd) (t : Table) :
    (∀ i d, Out.resolved i d ∈ (dispatch c t false).2 →
        d = c ∧ ∃ pre l post, t = pre ++ l :: post ∧ l.id = i ∧ eligible c l = true ∧ ∀ l' ∈ pre, eligible c l' = false) ∧
    ((∃ l ∈ t, eligible c l = true) → ∃ i, Out.resolved i c ∈ (dispatch c t false).2) := by
  induction t with
  | nil => simp [dispatch]
  | cons l rest ih =>
    by_cases he : eligible c l = true
    · -- l itself is the first eligible waiter
      have hk : l.kind = .oneShot := by simp [eligible] at he; exact he.1.1
      have hd : l.done = false := by simp [eligible] at he; exact he.1.2
      have hm : anyMatch l.patterns c = true := by simp [eligible] at he; exact he.2
      have hu := underHeader_of_match l c hm
      have hstep : dispatch c (l :: rest) false =
          ({ l with done := true } :: (dispatch c rest true).1, .resolved l.id c :: (dispatch c rest true).2) := by
        rw [dispatch]; simp [hu, hm, hk, hd]
      rw [hstep]
      constructor
      · intro i d hmem
        simp only [List.mem_cons] at hmem
        rcases hmem with h | h
        · cases h
          exact ⟨rfl, [], l, rest, rfl, rfl, he, by simp⟩
        · exact absurd h (dispatch_osm_no_resolved c rest i d)
      · intro _; exact ⟨l.id, by simp⟩
    · -- l is not eligible: it is left as it is (a callback may be called), the search continues
      have he' : eligible c l = false := by simpa using he
      have hout : ∀ i d, Out.resolved i d ∈ (dispatch c (l :: rest) false).2 ↔ Out.resolved i d ∈ (dispatch c rest false).2 := by
        intro i d
        rw [dispatch]
        split
        · rfl
        · split
          · rfl
          · split
            · rfl
            · cases hk : l.kind with
              | callback => simp
              | oneShot =>
                have hm : anyMatch l.patterns c = true := by simp_all
                have hd : l.done = true := by
                  simp [eligible, hk, hm] at he'; exact he'
                simp [hd]
      constructor
      · intro i d hmem
        obtain ⟨hd, pre, l0, post, ht, hid, hel, hpre⟩ := ih.1 i d ((hout i d).mp hmem)
        refine ⟨hd, l :: pre, l0, post, by rw [ht]; rfl, hid, hel, ?_⟩
        intro l' hl'
        rcases List.mem_cons.mp hl' with h | h
        · rw [h]; exact he'
        · exact hpre l' h
      · rintro ⟨l0, hl0, hel⟩
        rcases List.mem_cons.mp hl0 with h | h
        · rw [h] at hel; exact absurd hel he
        · obtain ⟨i, hi⟩ := ih.2 ⟨l0, h, hel⟩
          exact ⟨i, (hout i c).mpr hi⟩

/-- at most one waiter is resolved per received command -/
theorem C12_at_most_one (c : Cmd) (t : Table) (osm : Bool) :
    ((dispatch c t osm).2.filter fun o => match o with | .resolved _ _ => true | _ => false).length ≤ 1 := by
  induction t generalizing osm with
  | nil => simp [dispatch]
  | cons l rest ih =>
    rw [dispatch]
    split
    · exact ih osm
    · split
      · exact ih osm
      · split
        · exact ih osm
        · cases hk : l.kind with
          | callback => simpa using ih osm
          | oneShot =>
            simp only []
            split
            · exact ih osm
            · have : (dispatch c rest true).2.filter (fun o => match o with | .resolved _ _ => true | _ => false) = [] := by
                apply List.filter_eq_nil_iff.mpr
                intro o ho
                cases o with
                | resolved i d => exact absurd ho (dispatch_osm_no_resolved c rest i d)
                | called i d => simp
              simp [this]

/-- **callbacks**: the callbacks invoked are exactly the registered callbacks whose pattern list matches,
    in registration order, each with the received command -/
theorem C12_callbacks (c : Cmd) (t : Table) (osm : Bool) :
    (dispatch c t osm).2.filterMap (fun o => match o with | .called i d => some (i, d) | _ => none) =
      (t.filter fun l => l.kind == .callback && anyMatch l.patterns c).map (fun l => (l.id, c)) := by
  induction t generalizing osm with
  | nil => simp [dispatch]
  | cons l rest ih =>
    rw [dispatch]
    by_cases hu : underHeader l c = true
    · simp only [hu, Bool.not_true, Bool.false_eq_true, if_false]
      by_cases h2 : (osm && l.kind == .oneShot) = true
      · have hk : l.kind = .oneShot := by simp at h2; exact h2.2
        have hosm : osm = true := by simp at h2; exact h2.1
        simp [hosm, hk, ih]
      · simp only [h2, if_false]
        by_cases hm : anyMatch l.patterns c = true
        · simp only [hm, Bool.not_true, Bool.false_eq_true, if_false]
          cases hk : l.kind with
          | callback => simp [hk, hm, ih]
          | oneShot =>
            simp only []
            split <;> simp [hk, ih]
        · simp [hm, ih]
    · have hm : anyMatch l.patterns c = false := by
        cases h : anyMatch l.patterns c with
        | false => rfl
        | true => exact absurd (underHeader_of_match l c h) hu
      simp [hu, hm, ih]

/-- the listener table keeps its length and ids through a dispatch: removal of finished one-shot
    listeners is deferred to the end of the event-loop step, so several commands received in one step
    see the resolved waiter as done and pass on to the next one -/
theorem C12_dispatch_keeps_ids (c : Cmd) (t : Table) (osm : Bool) :
    (dispatch c t osm).1.map (·.id) = t.map (·.id) := by
  induction t generalizing osm with
  | nil => simp [dispatch]
  | cons l rest ih =>
    rw [dispatch]
    split
    · simp [ih]
    · split
      · simp [ih]
      · split
        · simp [ih]
        · cases hk : l.kind with
          | callback => simp [ih]
          | oneShot => simp only []; split <;> simp [ih]

/-! ## non-vacuity: two waiters for the same command, a callback, a waiter for another command;
    two identical responses in one event-loop step go to the two waiters in order -/
example : (runEvents [] [.waiter 1 [⟨7, [none]⟩], .waiter 2 [⟨7, [some 5]⟩], .callback 3 [⟨7, [none]⟩],
    .waiter 4 [⟨8, [none]⟩], .receive ⟨7, [some 5]⟩, .receive ⟨7, [some 5]⟩, .receive ⟨7, [some 5]⟩]).2.drop 4 =
    [[.resolved 1 ⟨7, [some 5]⟩, .called 3 ⟨7, [some 5]⟩], [.resolved 2 ⟨7, [some 5]⟩, .called 3 ⟨7, [some 5]⟩],
     [.called 3 ⟨7, [some 5]⟩]] := by decide

end Zboss.Dispatch
