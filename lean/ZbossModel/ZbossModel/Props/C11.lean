import ZbossModel.Proofs.Host
/-! # C11 - any request reaches the NCP intact, fragments contiguous, each awaiting its ACK

Phases `sendfrag … acked` are the transmission of a message: from taking the message lock M to
releasing it after the last fragment's ACK wait ended. -/
namespace Zboss.Host

/-- **one transmitter, every history**: at most one request is inside the transmission of its message -
    the fragments of one message cannot be interleaved with data frames of another -/
theorem C11_one_transmitter (evs : List Ev) (r1 r2 : Req) (h1 : r1 ∈ (runEvents {} evs).1.reqs)
    (h2 : r2 ∈ (runEvents {} evs).1.reqs) (t1 : inTransmit r1.phase = true) (t2 : inTransmit r2.phase = true) :
    r1 = r2 := by
  have hinv := inv2_reachable evs
  have a1 := (hinv.2 r1 h1).1 .M ((hinv.2 r1 h1).2.1 t1)
  have a2 := (hinv.2 r2 h2).1 .M ((hinv.2 r2 h2).2.1 t2)
  rw [a1] at a2
  exact unique_of_id _ hinv.1 r1 r2 h1 h2 (by simpa using a2)

/-- at most one request awaits an acknowledgement (it is the holder of the transmit lock) -/
theorem C11_one_awaiting_ack (evs : List Ev) (r1 r2 : Req) (h1 : r1 ∈ (runEvents {} evs).1.reqs)
    (h2 : r2 ∈ (runEvents {} evs).1.reqs) (t1 : ackPhase r1.phase = true) (t2 : ackPhase r2.phase = true) :
    r1 = r2 := by
  have hinv := inv2_reachable evs
  have a1 := (hinv.2 r1 h1).1 .T ((hinv.2 r1 h1).2.2.1 t1)
  have a2 := (hinv.2 r2 h2).1 .T ((hinv.2 r2 h2).2.2.1 t2)
  rw [a1] at a2
  exact unique_of_id _ hinv.1 r1 r2 h1 h2 (by simpa using a2)

/-- whoever awaits an acknowledgement is inside its own message: the transmit lock is only taken under the
    message lock -/
theorem C11_ack_wait_inside_message (p : Phase) (h : ackPhase p = true) : inTransmit p = true := by
  cases p <;> simp [ackPhase, inTransmit] at h ⊢

/-- task steps write nothing but data frames and report nothing but completions; they never touch the
    sequence number, the clock, the open / transport flags -/
theorem C11_task_steps_frame (fuel : Nat) (st : St) : Frame st (settle fuel st) := frame_settle fuel st

/-- a fragment goes on the wire only from phase `waitT`, i.e. by the request that holds the message lock, and
    the request then waits for the ACK with a deadline one ACK timeout ahead -/
theorem C11_write_step (st : St) (i : Nat) (r : Req) (fuel : Nat) (hg : getReq st i = some r) (hp : r.phase = .waitT)
    (hok : (acquire st .T i).2 = true) (htr : (acquire st .T i).1.transport = true) :
    (runReq (fuel + 1) st i).out = st.out ++ [.write i r.frag st.pack r.nfrags] := by
  have hf := frame_acquire st .T i
  unfold runReq
  simp only [hg, hp]
  generalize hacq : acquire st .T i = a at hok htr hf
  obtain ⟨st', ok⟩ := a
  simp only [] at hok htr hf ⊢
  obtain ⟨extra, hex, _⟩ := hf.out
  have hout : st'.out = st.out := by
    -- `acquire` emits nothing
    have : (acquire st .T i).1.out = st.out := by
      unfold acquire; simp only []
      generalize (if (queue st .T).contains i = true then queue st .T else queue st .T ++ [i]) = q'
      by_cases hc : q'.head? = some i <;> simp [hc, updReq, setQueue]
    rw [hacq] at this; exact this
  simp only [hok, Bool.not_true, Bool.false_eq_true, if_false, htr, if_true, updReq, emit, hout, hf.pack]

/-! ## non-vacuity: two concurrent two-fragment requests - the D9 scenario of the pinned tree: the wire
    order is first(1), last(1), first(2), last(2) -/
example : ((runEvents {} [.start 1 4 false 2 3013, .start 2 4 false 2 5026, .rxAck 0, .rxAck 1, .rxAck 2, .rxAck 3]).2.map
    fun l => l.filter isWD) =
    [[.write 1 0 0 2], [], [.write 1 1 1 2], [.write 2 0 2 2], [.write 2 1 3 2], []] := by decide +kernel

end Zboss.Host
