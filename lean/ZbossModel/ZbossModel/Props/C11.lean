import ZbossModel.Host
namespace Zboss.Host
theorem C11_placeholder : True := trivial
end Zboss.Host
