import ZbossModel.Proofs.HostTrace2
import ZbossModel.Proofs.HostAck
import ZbossModel.Proofs.NcpWire
/-! # C11 - any request reaches the NCP intact, fragments contiguous, each awaiting its ACK

Phases `sendfrag … acked` are the transmission of a message: from taking the message lock M to
releasing it after the last fragment's ACK wait ended. -/
namespace Zboss.Host

/-- **one transmitter, every history**: at most one request is inside the transmission of its message -
    the fragments of one message cannot be interleaved with data frames of another -/
theorem C11_one_transmitter (evs : List Ev) (r1 r2 : Req) (h1 : r1 ∈ (runEvents {} evs).1.reqs)
    (h2 : r2 ∈ (runEvents {} evs).1.reqs) (t1 : inTransmit r1.phase = true) (t2 : inTransmit r2.phase = true) :
    r1 = r2 := by
  have hinv := inv2_reachable evs
  have a1 := (hinv.2 r1 h1).1 .M ((hinv.2 r1 h1).2.1 t1)
  have a2 := (hinv.2 r2 h2).1 .M ((hinv.2 r2 h2).2.1 t2)
  rw [a1] at a2
  exact unique_of_id _ hinv.1 r1 r2 h1 h2 (by simpa using a2)

/-- at most one request awaits an acknowledgement (it is the holder of the transmit lock) -/
theorem C11_one_awaiting_ack (evs : List Ev) (r1 r2 : Req) (h1 : r1 ∈ (runEvents {} evs).1.reqs)
    (h2 : r2 ∈ (runEvents {} evs).1.reqs) (t1 : ackPhase r1.phase = true) (t2 : ackPhase r2.phase = true) :
    r1 = r2 := by
  have hinv := inv2_reachable evs
  have a1 := (hinv.2 r1 h1).1 .T ((hinv.2 r1 h1).2.2.1 t1)
  have a2 := (hinv.2 r2 h2).1 .T ((hinv.2 r2 h2).2.2.1 t2)
  rw [a1] at a2
  exact unique_of_id _ hinv.1 r1 r2 h1 h2 (by simpa using a2)

/-- whoever awaits an acknowledgement is inside its own message: the transmit lock is only taken under the
    message lock -/
theorem C11_ack_wait_inside_message (p : Phase) (h : ackPhase p = true) : inTransmit p = true := by
  cases p <;> simp [ackPhase, inTransmit] at h ⊢

/-- task steps write nothing but data frames and report nothing but completions; they never touch the
    sequence number, the clock, the open / transport flags -/
theorem C11_task_steps_frame (fuel : Nat) (st : St) : Frame st (settle fuel st) := frame_settle fuel st

/-- a fragment goes on the wire only from phase `waitT`, i.e. by the request that holds the message lock, and
    the request then waits for the ACK with a deadline one ACK timeout ahead -/
theorem C11_write_step (st : St) (i : Nat) (r : Req) (fuel : Nat) (hg : getReq st i = some r) (hp : r.phase = .waitT)
    (hok : (acquire st .T i).2 = true) (htr : (acquire st .T i).1.transport = true) :
    (runReq (fuel + 1) st i).out = st.out ++ [.write i r.frag st.pack r.nfrags] := by
  have hf := frame_acquire st .T i
  unfold runReq
  simp only [hg, hp]
  generalize hacq : acquire st .T i = a at hok htr hf
  obtain ⟨st', ok⟩ := a
  simp only [] at hok htr hf ⊢
  obtain ⟨extra, hex, _⟩ := hf.out
  have hout : st'.out = st.out := by
    -- `acquire` emits nothing
    have : (acquire st .T i).1.out = st.out := by
      unfold acquire; simp only []
      generalize (if (queue st .T).contains i = true then queue st .T else queue st .T ++ [i]) = q'
      by_cases hc : q'.head? = some i <;> simp [hc, updReq, setQueue]
    rw [hacq] at this; exact this
  simp only [hok, Bool.not_true, Bool.false_eq_true, if_false, htr, if_true, updReq, emit, hout, hf.pack]

/-- **contiguous, every history (whole-trace form)**: the complete output log of every event sequence - any
    number of concurrent requests of any size, blocking or not, any ACK / response / timer / cancellation / close
    / loss timing, any number of `close()` / `connect()` cycles on the same object (`Proofs/HostTrace2.lean`) - is
    accepted by the message monitor `monStep`: a fragment numbered 0 is written only when no
    message is open, a fragment numbered `f > 0` only when the open message is this request's and `f` is the
    next fragment; a message stays open until its last fragment is written or its request ends -/
theorem C11_trace (evs : List Ev) : ∃ m, monRun none (runEvents {} evs).2.flatten = some m := mon_accepts_all evs

/-- the same without the monitor: whenever fragment `f > 0` of request `i` is written, the last data frame
    written before it - in the whole history - is fragment `f - 1` of the same request, and the request did not
    end in between.  Hence the fragments of one message are never interleaved with data frames of another -/
theorem C11_contiguous (evs : List Ev) (pre post : List Out) (i f s n : Nat) (hf : 0 < f)
    (hlog : (runEvents {} evs).2.flatten = pre ++ [.write i f s n] ++ post) :
    ∃ pre1 mid s', pre = pre1 ++ [.write i (f - 1) s' n] ++ mid ∧
      ∀ o ∈ mid, isWrite o = false ∧ isDoneOf i o = false :=
  contiguous_of_accepts _ pre post i f s n hf (C11_trace evs) hlog

/-- a message is abandoned for good: once a request has ended, none of its fragments `f > 0` is ever written -/
theorem C11_no_fragment_after_end (evs : List Ev) (pre post : List Out) (i f s n : Nat) (hf : 0 < f) (o : Outcome)
    (hlog : (runEvents {} evs).2.flatten = pre ++ [.write i f s n] ++ post) (s' : Nat) (a b : List Out)
    (hpre : pre = a ++ [.write i (f - 1) s' n] ++ b) (hb : ∀ x ∈ b, isWrite x = false) : Out.done i o ∉ b := by
  obtain ⟨pre1, mid, s'', he, hfree⟩ := C11_contiguous evs pre post i f s n hf hlog
  -- the two decompositions of `pre` around its last data frame coincide
  have hlast : ∀ (l1 l2 m1 m2 : List Out) (w1 w2 : Out), l1 ++ [w1] ++ m1 = l2 ++ [w2] ++ m2 → isWrite w1 = true →
      isWrite w2 = true → (∀ x ∈ m1, isWrite x = false) → (∀ x ∈ m2, isWrite x = false) → m1 = m2 := by
    intro l1 l2 m1 m2 w1 w2 h hw1 hw2 h1 h2
    have hr : m1.reverse ++ w1 :: l1.reverse = m2.reverse ++ w2 :: l2.reverse := by
      have := congrArg List.reverse h
      simpa using this
    have key : ∀ (a b : List Out) (x y : Out) (p q : List Out), a ++ x :: p = b ++ y :: q → isWrite x = true →
        isWrite y = true → (∀ z ∈ a, isWrite z = false) → (∀ z ∈ b, isWrite z = false) → a = b := by
      intro a
      induction a with
      | nil =>
        intro b x y p q h hx hy _ hb
        cases b with
        | nil => rfl
        | cons z zs =>
          simp only [List.nil_append, List.cons_append, List.cons.injEq] at h
          have := hb z (List.mem_cons_self ..)
          rw [← h.1, hx] at this; cases this
      | cons z zs ih =>
        intro b x y p q h hx hy ha hb
        cases b with
        | nil =>
          simp only [List.nil_append, List.cons_append, List.cons.injEq] at h
          have := ha z (List.mem_cons_self ..)
          rw [h.1, hy] at this; cases this
        | cons z' zs' =>
          simp only [List.cons_append, List.cons.injEq] at h
          rw [h.1, ih zs' x y p q h.2 hx hy (fun t ht => ha t (List.mem_cons_of_mem _ ht))
            (fun t ht => hb t (List.mem_cons_of_mem _ ht))]
    have := key m1.reverse m2.reverse w1 w2 _ _ hr hw1 hw2 (fun z hz => h1 z (List.mem_reverse.mp hz))
      (fun z hz => h2 z (List.mem_reverse.mp hz))
    simpa using congrArg List.reverse this
  have hmid : b = mid := hlast a pre1 b mid _ _ (by rw [← hpre, he]) rfl rfl hb (fun x hx => (hfree x hx).1)
  intro hmem
  rw [hmid] at hmem
  have := (hfree _ hmem).2
  simp [isDoneOf] at this

/-- the write a request in `waitT` would *skip* once the transport has gone (`uart.send` returns at once without a
    transport) never happens on a reachable history: in every state without a transport nobody is in `waitT` -/
theorem C11_no_write_is_skipped (evs : List Ev) (h : (runEvents {} evs).1.transport = false) :
    ∀ r ∈ (runEvents {} evs).1.reqs, r.phase ≠ .waitT := never_skips evs h

/-- **every scheduling order**: `MReach` closes the initial state under the immediate effect of any event and
    under single micro-steps of *any* request task in *any* order (ready or not, repeated at will).  In every
    such state - not only at the quiescent points of the FIFO run - at most one request is inside the
    transmission of its message, and everything written so far is accepted by the message monitor -/
theorem C11_any_schedule (hist : List Out) (st : St) (h : MReach hist st) :
    (∀ r1 ∈ st.reqs, ∀ r2 ∈ st.reqs, inTransmit r1.phase = true → inTransmit r2.phase = true → r1 = r2) ∧
    (st.gen = 0 → ∃ m, monRun none (hist ++ st.out) = some m) := by
  obtain ⟨⟨hinv, hmon⟩, _⟩ := mreach_inv hist st h
  refine ⟨?_, fun hg => (by obtain ⟨m, hm, _⟩ := hmon hg; exact ⟨m, hm⟩)⟩
  intro r1 h1 r2 h2 t1 t2
  have a1 := (hinv.2 r1 h1).1 .M ((hinv.2 r1 h1).2.1 t1)
  have a2 := (hinv.2 r2 h2).1 .M ((hinv.2 r2 h2).2.1 t2)
  rw [a1] at a2
  exact unique_of_id _ hinv.1 r1 r2 h1 h2 (by simpa using a2)

/-- the deterministic machine (`step`: FIFO ready queue, each task run until it blocks) is one of those
    schedules, so `C11_any_schedule` is not about an empty set of states -/
theorem C11_run_is_a_schedule (evs : List Ev) :
    ∃ hist, (runEvents {} evs).2.flatten = hist ++ (runEvents {} evs).1.out ∧ MReach hist (runEvents {} evs).1 :=
  mreach_run evs

/-- **each fragment only after the previous one was acknowledged or its wait expired - every schedule**: in any
    state the event loop can be in (`MReach`), while some request is in its acknowledgement wait (frame written,
    ACK not yet processed) no task micro-step of any request writes a data frame -/
theorem C11_no_write_while_ack_pending (hist : List Out) (st : St) (h : MReach hist st) (r : Req) (hr : r ∈ st.reqs)
    (ha : ackPhase r.phase = true) (i : Nat) : writes (runReq 1 st i).out = writes st.out :=
  no_write_micro st i (mreach_inv hist st h).1.1 r hr ha

/-- … and at event granularity, every history: if request `r` awaits an acknowledgement and the next event is
    neither the matching ACK, nor the cancellation of `r`, nor a timer expiry that reaches `r`'s ACK deadline
    (`KeepsWaiting`), then the whole step writes no data frame and `r` is still waiting afterwards.  So between
    two data frames on the wire lies a matching ACK, an expired ACK wait or the cancellation of the sender. -/
theorem C11_each_after_ack_or_expiry (evs : List Ev) (e : Ev) (r : Req) (hr : r ∈ (runEvents {} evs).1.reqs)
    (hp : r.phase = .waitAck) (hk : KeepsWaiting (runEvents {} evs).1 r.id e) :
    writes (step (runEvents {} evs).1 e).out = [] ∧
    ∃ r' ∈ (step (runEvents {} evs).1 e).reqs, r'.id = r.id ∧ r'.phase = .waitAck := by
  obtain ⟨hist, _, hb⟩ := both_reachable evs
  have hw : AckW r.id (view (runEvents {} evs).1) := ⟨core r, List.mem_map.mpr ⟨r, hr, rfl⟩, rfl, hp⟩
  obtain ⟨h1, c, hc, hj, hcp⟩ := no_write_while_waiting hist _ e r.id hb hw hk
  obtain ⟨r', hr', rfl⟩ := List.mem_map.mp hc
  exact ⟨h1, r', hr', hj, hcp⟩

/-! ## non-vacuity: request 1 awaits the ACK of its first fragment; a wrong ACK, a response, a second request,
    a close: nothing is written; the matching ACK releases the next fragment -/
example : let st := (runEvents {} [.start 1 4 false 2 3013]).1
    (∃ r ∈ st.reqs, r.id = 1 ∧ r.phase = .waitAck) ∧
    (step st (.rxAck 1)).out = [] ∧ (step st (.start 2 4 false 1 5026)).out = [] ∧
    (step st (.rxRsp 4)).out = [.wack] ∧ (step st (.rxAck 0)).out = [.write 1 1 1 2] := by decide +kernel

/-! ## non-vacuity: a three-fragment request cancelled after its second fragment, then a two-fragment request:
    the log is accepted, the second message starts only after the first has ended -/
example : ((runEvents {} [.start 1 4 false 3 3013, .start 2 4 false 2 5026, .rxAck 0, .cancel 1, .rxAck 1, .rxAck 2]).2.flatten) =
    [.write 1 0 0 3, .write 1 1 1 3, .done 1 .cancelled, .write 2 0 1 2, .write 2 1 2 2] := by decide +kernel

/-! ## non-vacuity across a reconnect: a three-fragment request is interrupted by `close()` after its first fragment,
    `connect()` follows while it sits in its acknowledgement wait, a second request is issued; the interrupted request's
    fragments 1 and 2 go out on the new connection under the message lock, then the new request - the monitor accepts -/
example : monRun none (runEvents {} [.start 1 5 false 3 300013, .close, .connect, .start 2 1 false 2 500026, .tick, .tick,
    .tick, .rxAck 0]).2.flatten = some none := by decide +kernel

/-! ## non-vacuity: two concurrent two-fragment requests - the D9 scenario of the pinned tree: the wire
    order is first(1), last(1), first(2), last(2) -/
example : ((runEvents {} [.start 1 4 false 2 3013, .start 2 4 false 2 5026, .rxAck 0, .rxAck 1, .rxAck 2, .rxAck 3]).2.map
    fun l => l.filter isWD) =
    [[.write 1 0 0 2], [], [.write 1 1 1 2], [.write 2 0 2 2], [.write 2 1 3 2], []] := by decide +kernel

end Zboss.Host

/-! # the first sentence of C11 at the wire: what a protocol-following NCP receives -/
namespace Zboss.Reasm
open Zboss.Rx Zboss

/-- **an NCP that follows the link protocol receives exactly the request**: the host cuts a message that does not fit
    one frame into fragments, stamps each with whatever sequence number is current and writes them - by `C11_trace`
    with no data frame of another message in between, but possibly with acknowledgement frames for incoming traffic
    interleaved.  A peer that checks every signature, type, length and checksum (`_extract_frame`), ignores
    acknowledgements, and concatenates first..last fragments (`frame_received`) hands up exactly the fragments and
    reassembles exactly the command header and parameter bytes of the request - under every chunking of the byte
    stream and whatever stale fragments of an abandoned message were pending. -/
theorem C11_ncp_sees_request (hnd : Frame → Bool) (tr : Bool) (h : HLH) (hh : h ≠ 0#32) (data : Bytes)
    (hbig : Gen.bodyMax < (HLPacket.mk (some h) data).body.length) (ws : List Frame)
    (hst : Stamped (Frag.fragments (Frag.whole ⟨some h, data⟩) ⟨some h, data⟩) ws)
    (ws' : List Frame) (hwa : WithAcks ws ws')
    (chunks : List Bytes) (hchunks : chunks.flatten = (ws'.map Frame.serialize).flatten) (pending : List Frame) :
    deliveredOf (session hnd { transport := tr } chunks).2 = ws ∧
    (feedFrames pending ws).1 = [] ∧
    (feedFrames pending ws).2.getLast? = some (Outcome.msg ⟨some h, data⟩) := by
  have hwire := fragments_wireOK h hh data hbig
  have hdec := decodes_stamped _ ws hst hwire
  obtain ⟨h1, h2, h3⟩ := C10_wire_loopback hnd tr h hh data hbig ws hst [(ws.map Frame.serialize).flatten] (by simp) pending
  refine ⟨?_, h2, h3⟩
  -- every fragment is a data frame with a packet: that is what the loop-back theorem says about the plain train
  have hgood : ∀ w ∈ ws, good w = true := by
    rw [C01_chunking] at h1
    simp only [List.flatten_cons, List.flatten_nil, List.append_nil] at h1
    rw [run_decodes ws hdec, deliveredOf_filter] at h1
    exact fun w hw => (List.filter_eq_self.mp h1) w hw
  rw [C01_chunking, hchunks, run_decodes ws' (withAcks_decodes ws ws' hwa hdec), deliveredOf_filter]
  exact withAcks_filter ws ws' hwa hgood

/-- … and a request that fits one frame: the frame built by `to_frame`, stamped with whatever number is current and
    written - possibly with acknowledgement frames around it - is handed up as it is, and its command header and
    parameter bytes are passed on unchanged, whatever stale fragments were pending -/
theorem C11_ncp_sees_small_request (hnd : Frame → Bool) (tr : Bool) (h : HLH) (hh : h ≠ 0#32) (data : Bytes)
    (hsmall : (HLPacket.mk (some h) data).serialize.length + 5 ≤ 65535) (s : Fin 4)
    (ws' : List Frame) (hwa : WithAcks [Frame.stamp s.val (Frag.whole ⟨some h, data⟩)] ws')
    (chunks : List Bytes) (hchunks : chunks.flatten = (ws'.map Frame.serialize).flatten) (pending : List Frame) :
    deliveredOf (session hnd { transport := tr } chunks).2 = [Frame.stamp s.val (Frag.whole ⟨some h, data⟩)] ∧
    frameReceived pending (Frame.stamp s.val (Frag.whole ⟨some h, data⟩)) = ([], .msg ⟨some h, data⟩) := by
  have hfl := stamped_flags 0xC0 s (Frag.whole ⟨some h, data⟩) (by simp [Frag.whole, Frame.mkData]; decide) (by simp)
  have hflags : ∀ t : Fin 4, Frame.hasFlag (wireFlags (Gen.flagLastFrag ||| Gen.flagFirstFrag) t.val) Gen.flagisACK = false ∧
      Frame.hasFlag (wireFlags (Gen.flagLastFrag ||| Gen.flagFirstFrag) t.val) Gen.flagFirstFrag = true := by decide
  have hdec : ∀ w ∈ [Frame.stamp s.val (Frag.whole ⟨some h, data⟩)], Decodes w := by
    intro w hw
    simp only [List.mem_singleton] at hw; subst hw
    intro r
    have := tryFrame_built_first (Gen.flagLastFrag ||| Gen.flagFirstFrag) s.val _ h data r hh rfl hsmall
      (hflags s).1 (hflags s).2
    unfold Frag.whole
    rw [this]
    have hl := (C05_frame_wf (Gen.flagLastFrag ||| Gen.flagFirstFrag) s.val _ ⟨some h, data⟩ rfl hsmall).2
    rw [hl]
  have hgood : ∀ w ∈ [Frame.stamp s.val (Frag.whole ⟨some h, data⟩)], good w = true := by
    intro w hw
    simp only [List.mem_singleton] at hw; subst hw
    have h1 := hfl.2.2
    have h2 : (Frame.stamp s.val (Frag.whole ⟨some h, data⟩)).hl.isSome = true := by rw [stamp_hl]; rfl
    simp [good, h1, h2]
  refine ⟨?_, ?_⟩
  · rw [C01_chunking, hchunks, run_decodes ws' (withAcks_decodes _ ws' hwa hdec), deliveredOf_filter]
    exact withAcks_filter _ ws' hwa hgood
  · exact C10_restart pending _ ⟨some h, data⟩ (by rw [stamp_hl]; rfl) ⟨by rw [hfl.1]; decide, by rw [hfl.2.1]; decide⟩

/-! ## non-vacuity: the hypotheses hold for every message - stamp the fragments (any numbers), put an ACK in between -/
example (f g : Frame) : WithAcks [f, g] [f, Frame.ack 2 false, g, Frame.ack 0 true] :=
  .frame f (.ack 2 false (.frame g (.ack 0 true .nil)))

end Zboss.Reasm
