import ZbossModel.Proofs.RxLog
import ZbossModel.Props.C05
import ZbossModel.Generated.Exprs
/-! # C06 - each accepted data frame is acknowledged once, with its own sequence number

`session h st chunks` is the model of feeding `chunks` one by one to `data_received`
with an upper-layer handler that raises exactly on the frames `h` selects. -/
namespace Zboss.Rx
open Gen

/-- **log shape**: for every stream, every chunking and every handler behaviour, the ordered log of
    transport writes and hand-ups is the concatenation, over the frames the scanner accepts in stream
    order, of: nothing for an ACK frame; `[write (ACK of the frame's own sequence number), deliver frame]`
    for a data frame.  Rejected input contributes nothing. -/
theorem C06_log_shape (h : Frame → Bool) (tr : Bool) (chunks : List Bytes) :
    (session h { transport := tr } chunks).2 =
      (run tryFrame chunks.flatten).1.flatMap (outsOf tr) := by
  have hs := session_out h chunks { transport := tr } [] []
  simp only [List.nil_append, List.length_nil, List.drop_zero] at hs
  unfold session
  rw [hs.1]
  have := (chunking zbossScanner chunks).1
  exact congrArg (fun l => List.flatMap (outsOf tr) l) this

/-- the same in **every link state**: whatever the sequence numbers and the pending acknowledgement wait are, a receiver
    whose buffer is empty produces exactly the log of the frames the scanner accepts -/
theorem C06_log_shape_any_state (h : Frame → Bool) (st : RxState) (hb : st.buf = []) (chunks : List Bytes) :
    (session h st chunks).2 = (run tryFrame chunks.flatten).1.flatMap (outsOf st.transport) := by
  have hs := session_out h chunks st [] []
  simp only [List.nil_append, List.length_nil, List.drop_zero] at hs
  unfold session
  rw [hs.1, hb]
  have := (chunking zbossScanner chunks).1
  exact congrArg (fun l => List.flatMap (outsOf st.transport) l) this

/-- `ZbossNcpProtocol.close()`: the buffer is emptied, both sequence numbers go back to 0, the transport is dropped -/
def RxState.closed (st : RxState) : RxState := { st with buf := [], ackSeq := 0, packSeq := 0, transport := false }
/-- `connection_made(transport)` -/
def RxState.opened (st : RxState) : RxState := { st with transport := true }

/-- **the port closed and opened again**: whatever the previous connection left behind - sequence numbers, a pending
    acknowledgement wait, the beginning of a frame in the buffer - after `close()` and `connection_made()` on the same
    object the receiver's log is that of a fresh receiver: every accepted data frame is acknowledged with its own number
    and handed up; nothing of the previous connection's acknowledgements survives -/
theorem C06_reopened_port (h : Frame → Bool) (st : RxState) (chunks : List Bytes) :
    (session h st.closed.opened chunks).2 = (session h { transport := true } chunks).2 := by
  rw [C06_log_shape_any_state h st.closed.opened rfl, C06_log_shape]
  rfl

/-- ... and while the port is closed nothing is written: accepted data frames are still handed up, without a write -/
theorem C06_closed_port_writes_nothing (h : Frame → Bool) (st : RxState) (chunks : List Bytes) :
    ∀ o ∈ (session h st.closed chunks).2, ∃ f, o = Out.deliver f := by
  rw [C06_log_shape_any_state h st.closed rfl]
  intro o ho
  obtain ⟨f, _, hf⟩ := List.mem_flatMap.mp ho
  have htr : st.closed.transport = false := rfl
  rw [htr] at hf
  unfold outsOf at hf
  split at hf
  · cases hf
  · simp only [Bool.false_eq_true, if_false, List.nil_append] at hf
    cases hhl : f.hl with
    | none => rw [hhl] at hf; cases hf
    | some p => rw [hhl] at hf; simp only [List.mem_singleton] at hf; exact ⟨f, hf⟩

/-- non-vacuity: a link state with both numbers advanced, a wait pending and half a signature buffered; closed and opened
    again it logs the ACK and the hand-up of the data frame that arrives, like a fresh receiver -/
example : (session (fun _ => false) (RxState.opened (RxState.closed { buf := [0xDE], packSeq := 2, ackSeq := 3, hasEvent := true }))
      [[0xDE, 0xAD, 0x0c, 0x00, 0x06, 0xc8, 0xe9, 0x31, 0xa4, 0x00, 0x00, 0x02, 0x00, 0x01]]).2.length = 2 := by
  rw [C06_reopened_port, C06_log_shape]; decide +kernel

/-- the handler's failures change nothing at all (they are caught per frame) -/
theorem C06_handler_irrelevant (h1 h2 : Frame → Bool) (st : RxState) (chunks : List Bytes) :
    session h1 st chunks = session h2 st chunks := by
  have : ∀ (st : RxState) (f : Frame), handleFrame h1 st f = handleFrame h2 st f := by
    intro st f; unfold handleFrame; split <;> simp
  have hd : ∀ st d, dataReceived h1 st d = dataReceived h2 st d := by
    intro st d; unfold dataReceived; simp only [this]
  unfold session; simp only [hd]

/-- the sequence number echoed is one of 0..3, so the acknowledgement written is one of the
    well-formed ACK frames of `C05_ack` -/
theorem C06_ack_wellformed (f : Frame) (r : Bytes) :
    seqOf f < 4 ∧
    Frame.deserialize ((Frame.ack (seqOf f) false).serialize ++ r) = .ok (Frame.ack (seqOf f) false, r) := by
  have hlt : seqOf f < 4 := by
    unfold seqOf
    have : LL.flags f.ll &&& Gen.flagPacketSeq ≤ Gen.flagPacketSeq := Nat.and_le_right
    have h12 : Gen.flagPacketSeq = 12 := rfl
    rw [Nat.shiftRight_eq_div_pow]
    omega
  exact ⟨hlt, (C05_ack ⟨seqOf f, hlt⟩ false r).2⟩

/-- per accepted data frame: exactly one write, before the hand-up; per ACK frame: nothing -/
theorem C06_per_frame (f : Frame) (p : HLPacket) (hp : f.hl = some p) :
    outsOf true f = (if isAck f then [] else [Out.write (Frame.ack (seqOf f) false).serialize, Out.deliver f]) := by
  unfold outsOf; split <;> simp [hp]

/-! ## non-vacuity: a concrete stream with garbage, a data frame (seq 2) and an ACK -/
example : (session (fun _ => true) { transport := true }
      [[0x00, 0xDE], [0xDE, 0xAD, 0x0c, 0x00, 0x06, 0xc8, 0xe9, 0x31, 0xa4, 0x00, 0x00, 0x02],
       [0x00, 0x01, 0xDE, 0xAD, 0x05, 0x00, 0x06, 0x11, 0xc0]]).2.length = 2 := by
  rw [C06_log_shape]; decide +kernel

/-- **source tie (translator 4)**: how the receiver takes the sequence number out of a data frame's flags and
    how `Frame.ack` puts it into the acknowledgement - translated from the Python ast on every run - are the model's -/
theorem C06_source_exprs (seq flags : Nat) (hs : seq < 4) (hf : flags < 256) :
    Gen.packSeqOfFlagsExpr flags = (flags &&& Gen.flagPacketSeq) >>> 2 ∧ Gen.ackFlagSeqExpr seq = seq <<< 4 := by
  -- decided over the whole domain (two-bit numbers, one-byte flags): robust against equivalent rewrites of the source
  have h1 : ∀ f, f < 256 → Gen.packSeqOfFlagsExpr f = (f &&& Gen.flagPacketSeq) >>> 2 := by decide +kernel
  have h2 : ∀ s, s < 4 → Gen.ackFlagSeqExpr s = s <<< 4 := by decide +kernel
  exact ⟨h1 flags hf, h2 seq hs⟩

end Zboss.Rx
