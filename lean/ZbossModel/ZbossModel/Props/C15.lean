import ZbossModel.Codec
namespace Zboss.Codec
theorem C15_placeholder : True := trivial
end Zboss.Codec
