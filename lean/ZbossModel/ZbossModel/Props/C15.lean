import ZbossModel.Proofs.Codec
import ZbossModel.Proofs.CodecSound
import ZbossModel.Generated.Commands
/-! # C15 - failure responses cut short after the status are returned, never mis-parsed -/
namespace Zboss.Codec
open Wire

/-- every value given and serializable, one per field, none of the fields greedy -/
def givenOk : List FView → List Val → Bool
  | [], [] => true
  | f :: fs, x :: xs => !f.wt.isGreedy && (encW f.wt x).isSome && givenOk fs xs
  | _, _ => false

def encGiven : List FView → List Val → Bytes
  | f :: fs, x :: xs => (encW f.wt x).getD [] ++ encGiven fs xs
  | _, _ => []

/-- the loop consumes a fully given, non-greedy run of parameters whatever follows -/
theorem parse_prefix (v : View) (pre : List FView) (xs : List Val) (h : givenOk pre xs = true)
    (done rest : List FView) (acc : Assign) (tail : Bytes) :
    parseLoop v done (pre ++ rest) acc (encGiven pre xs ++ tail) =
      parseLoop v (done ++ pre) rest (acc ++ xs.map some) tail := by
  induction pre generalizing xs done acc with
  | nil => cases xs with
    | nil => simp [encGiven]
    | cons _ _ => simp [givenOk] at h
  | cons f pre ih =>
    cases xs with
    | nil => simp [givenOk] at h
    | cons x xs =>
      simp only [givenOk, Bool.and_eq_true, Bool.not_eq_true'] at h
      obtain ⟨b, hb⟩ := Option.isSome_iff_exists.mp h.1.2
      simp only [encGiven, hb, Option.getD_some, List.cons_append, List.append_assoc, List.map_cons]
      rw [parseLoop, decW_encW f.wt x b _ h.1.1 hb]
      have := ih xs h.2 (done ++ [f]) (acc ++ [some x])
      simpa [List.append_assoc] using this

theorem givenOk_length (pre : List FView) (xs : List Val) (h : givenOk pre xs = true) : xs.length = pre.length := by
  induction pre generalizing xs with
  | nil => cases xs with
    | nil => rfl
    | cons _ _ => simp [givenOk] at h
  | cons f pre ih =>
    cases xs with
    | nil => simp [givenOk] at h
    | cons x xs => simp only [givenOk, Bool.and_eq_true] at h; simp [ih xs h.2]

/-- **failure response cut short**: a response whose status code is non-zero and whose bytes stop anywhere
    inside (or right before) parameter `f` - after the three status fields - is delivered as the partial command
    carrying exactly the received TSN, status category, status code and the parameters completely contained in
    the bytes; nothing of the cut parameter, nothing invented -/
theorem C15_failure_prefix (v : View) (pre post : List FView) (f : FView) (xs : List Val) (x : Val) (b : Bytes) (k : Nat)
    (hfields : v.fields = pre ++ f :: post) (hrsp : ctype v = 1) (hsi : v.statusIdx = some 2)
    (hpre : givenOk pre xs = true) (h3 : 3 ≤ pre.length)
    (hstatus : isZeroStatus ((xs.map some).getD 2 none) = false)
    (hg : f.wt.isGreedy = false) (hb : encW f.wt x = some b) (hk : k < b.length)
    (hown : ∀ g ∈ pre, g.param ≠ f.param)
    (hall : allEnc v.fields (xs.map some ++ (f :: post).map (fun _ => none)) = true) :
    fromPayload v (encGiven pre xs ++ b.take k) =
      .ok (.partialCmd (xs.map some ++ (f :: post).map (fun _ => none))) := by
  have hl := givenOk_length pre xs hpre
  unfold fromPayload
  rw [hfields]
  have := parse_prefix v pre xs hpre [] (f :: post) [] (b.take k)
  simp only [List.nil_append] at this
  rw [this, parseLoop, decW_truncated f.wt x b hg hb k hk]
  have hdrop : dropParam pre (xs.map some) f.param = xs.map some :=
    dropParam_id pre _ f.param (by simp [hl]) hown
  have hcond : 2 < (xs.map some).length ∧ ((xs.map some).getD 2 none).isSome = true := by
    refine ⟨by simp; omega, ?_⟩
    have : 2 < xs.length := by omega
    simp [List.getD_eq_getElem?_getD, this]
  simp only [hrsp, if_true, hsi, hdrop, hcond, and_self, hstatus, Bool.not_false, finish, hall]

/-- **status zero, cut short**: the same bytes with status code 0 are rejected - unless the cut is exactly
    at the start of an optional parameter, where the bytes *are* the complete encoding of the shorter command -/
theorem C15_zero_cut_rejected (v : View) (pre post : List FView) (f : FView) (xs : List Val) (x : Val) (b : Bytes) (k : Nat)
    (hfields : v.fields = pre ++ f :: post) (hrsp : ctype v = 1) (hsi : v.statusIdx = some 2)
    (hpre : givenOk pre xs = true) (h3 : 3 ≤ pre.length)
    (hstatus : isZeroStatus ((xs.map some).getD 2 none) = true)
    (hg : f.wt.isGreedy = false) (hb : encW f.wt x = some b) (hk : k < b.length)
    (hown : ∀ g ∈ pre, g.param ≠ f.param) (hcut : 0 < k ∨ f.optional = false) :
    fromPayload v (encGiven pre xs ++ b.take k) = .error .valueError := by
  have hl := givenOk_length pre xs hpre
  unfold fromPayload
  rw [hfields]
  have := parse_prefix v pre xs hpre [] (f :: post) [] (b.take k)
  simp only [List.nil_append] at this
  rw [this, parseLoop, decW_truncated f.wt x b hg hb k hk]
  have hdrop : dropParam pre (xs.map some) f.param = xs.map some :=
    dropParam_id pre _ f.param (by simp [hl]) hown
  have hcond : 2 < (xs.map some).length ∧ ((xs.map some).getD 2 none).isSome = true := by
    refine ⟨by simp; omega, ?_⟩
    have : 2 < xs.length := by omega
    simp [List.getD_eq_getElem?_getD, this]
  have hne : ((b.take k).isEmpty && f.optional) = false := by
    rcases hcut with h | h
    · have : (b.take k).isEmpty = false := by
        have : (b.take k).length = k := by simp; omega
        cases hbt : b.take k with
        | nil => rw [hbt] at this; simp at this; omega
        | cons _ _ => rfl
      simp [this]
    · simp [h]
  simp only [hrsp, if_true, hsi, hdrop, hcond, and_self, hstatus, Bool.not_true, Bool.false_eq_true, if_false, hne]

/-- **surplus bytes**: a complete command followed by further bytes is rejected (last field not greedy) -/
theorem C15_surplus_rejected (v : View) (xs : List Val) (extra : Bytes) (hgiven : givenOk v.fields xs = true)
    (hextra : extra ≠ []) : fromPayload v (encGiven v.fields xs ++ extra) = .error .valueError := by
  unfold fromPayload
  have := parse_prefix v v.fields xs hgiven [] [] [] extra
  simp only [List.nil_append, List.append_nil] at this
  rw [this, parseLoop]
  have : extra.isEmpty = false := by cases extra with
    | nil => exact absurd rfl hextra
    | cons _ _ => rfl
  simp [this]

/-- **cut before the status**: bytes that stop inside the first three fields are rejected (the code raises
    `KeyError` on `params["StatusCode"]`) -/
theorem C15_cut_before_status (v : View) (pre post : List FView) (f : FView) (xs : List Val) (x : Val) (b : Bytes) (k : Nat)
    (hfields : v.fields = pre ++ f :: post) (hrsp : ctype v = 1) (hsi : v.statusIdx = some 2)
    (hpre : givenOk pre xs = true) (h3 : pre.length < 3)
    (hg : f.wt.isGreedy = false) (hb : encW f.wt x = some b) (hk : k < b.length) :
    fromPayload v (encGiven pre xs ++ b.take k) = .error .keyError := by
  have hl := givenOk_length pre xs hpre
  unfold fromPayload
  rw [hfields]
  have := parse_prefix v pre xs hpre [] (f :: post) [] (b.take k)
  simp only [List.nil_append] at this
  rw [this, parseLoop, decW_truncated f.wt x b hg hb k hk]
  have hlen : (dropParam pre (xs.map some) f.param).length = pre.length := by simp [dropParam, hl]
  have hcond : ¬ (2 < (dropParam pre (xs.map some) f.param).length ∧
      ((dropParam pre (xs.map some) f.param).getD 2 none).isSome = true) := by
    rw [hlen]; omega
  simp only [hrsp, if_true, hsi, hcond, if_false]

/-- decoders fail with value errors only: a `KeyError` out of `from_frame` has the single cause above -/
theorem C15_table_rsp : ((Gen.commands.map viewOf).filter (fun v => ctype v == 1)).all
    (fun v => v.statusIdx == some 2 && optParamsOwn v.fields && fieldsOk v.fields) = true := by decide +kernel


/-- **never mis-parsed (complete decode)**: whenever `from_frame` returns a complete command, the command's
    own encoding is exactly the payload that was received - no byte skipped, invented or reinterpreted - and
    the command is one the constructor accepts -/
theorem C15_sound (v : View) (hs : SchemaOK v = true) (payload : Bytes) (a : Assign)
    (h : fromPayload v payload = .ok (.full a)) :
    encParams v.fields a = payload ∧ toBytes v a = toLE 4 v.header ++ payload := by
  simp only [SchemaOK, Bool.and_eq_true] at hs
  obtain ⟨⟨hfok, hown⟩, _⟩ := hs
  have := parse_sound v payload (fieldsOk_greedyPos _ hfok) (optOwn_of _ hown) a v.fields [] [] payload
    (by simp) rfl (fun _ => by simp [encParams]) h
  exact ⟨this, by simp [toBytes, this]⟩

/-- ... for every response / indication class of the regenerated command table -/
theorem C15_sound_all_classes (v : View) (hv : v ∈ Gen.commands.map viewOf) (hdir : ctype v ≠ 0) (payload : Bytes)
    (a : Assign) (h : fromPayload v payload = .ok (.full a)) : encParams v.fields a = payload := by
  have ht : ((Gen.commands.map viewOf).filter (fun v => ctype v != 0)).all SchemaOK = true := by decide +kernel
  rw [List.all_eq_true] at ht
  exact (C15_sound v (ht v (by simp only [List.mem_filter]; exact ⟨hv, by simpa using hdir⟩)) payload a h).1


/-- **never mis-parsed (failure response cut short)**: whenever `from_frame` returns a *partial* command, the
    parameters it carries re-encode to exactly the leading bytes of the payload; the bytes of the parameter that
    was cut are not turned into anything -/
theorem C15_partial_sound (v : View) (hs : SchemaOK v = true) (hc : contigOK v.fields = true) (payload : Bytes)
    (a : Assign) (h : fromPayload v payload = .ok (.partialCmd a)) :
    ∃ tail, encParams v.fields a ++ tail = payload := by
  simp only [SchemaOK, Bool.and_eq_true] at hs
  obtain ⟨⟨hfok, _⟩, _⟩ := hs
  exact parse_partial_sound v payload (fieldsOk_greedyPos _ hfok) hc a v.fields [] [] payload (by simp) rfl
    (fun j hj _ => by
      have : j = 0 := by simpa using hj
      subst this
      exact ⟨payload, by simp [encParams]⟩)
    (fun _ => by simp [encParams]) h

/-- every class of the regenerated table keeps the wire fields of one parameter together -/
theorem C15_table_contig : (Gen.commands.map viewOf).all (fun v => contigOK v.fields) = true := by decide +kernel

theorem C15_partial_sound_all_classes (v : View) (hv : v ∈ Gen.commands.map viewOf) (hdir : ctype v ≠ 0)
    (payload : Bytes) (a : Assign) (h : fromPayload v payload = .ok (.partialCmd a)) :
    ∃ tail, encParams v.fields a ++ tail = payload := by
  have ht : ((Gen.commands.map viewOf).filter (fun v => ctype v != 0)).all SchemaOK = true := by decide +kernel
  rw [List.all_eq_true] at ht
  have hc := C15_table_contig
  rw [List.all_eq_true] at hc
  exact C15_partial_sound v (ht v (by simp only [List.mem_filter]; exact ⟨hv, by simpa using hdir⟩)) (hc v hv) payload a h

/-! ## non-vacuity -/
example : let pre : List FView := [⟨.sc (.uint 1), false, 0, []⟩, ⟨.sc (.uint 1), false, 1, []⟩, ⟨.sc (.uint 1), false, 2, []⟩]
    givenOk pre [.sc (.num 9), .sc (.num 0), .sc (.num 24)] = true ∧
    isZeroStatus (([Val.sc (.num 9), .sc (.num 0), .sc (.num 24)].map some).getD 2 none) = false := by decide

end Zboss.Codec
