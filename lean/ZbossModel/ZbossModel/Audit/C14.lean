import ZbossModel.Props.C14
#print axioms Zboss.Host.C14_placeholder
