import ZbossModel.Props.C14
#print axioms Zboss.Host.C14_exclusive
#print axioms Zboss.Host.C14_transmit_is_afterB
#print axioms Zboss.Host.C14_fifo
#print axioms Zboss.Host.C14_nonblocking_free
#print axioms Zboss.Host.C14_exclusive_any_schedule
#print axioms Zboss.Host.C14_nonblocking_never_queues
#print axioms Zboss.Host.C14_nonblocking_waits_only_for_the_link
#print axioms Zboss.Host.C14_first_come_first_served
#print axioms Zboss.Host.C14_queue_in_issue_order
