import ZbossModel.Props.C20
#print axioms Zboss.Host.C20_refuse_new
#print axioms Zboss.Host.settle_isOpen
#print axioms Zboss.Host.settle_transport
#print axioms Zboss.Host.settle_pack
#print axioms Zboss.Host.settle_listeners_nil
#print axioms Zboss.Host.C20_close
#print axioms Zboss.Host.C20_close_cancels
#print axioms Zboss.Host.C20_close_idempotent
#print axioms Zboss.Host.C20_lost_once
#print axioms Zboss.Host.C20_no_spurious_report
#print axioms Zboss.Host.C20_close_shuts
#print axioms Zboss.Host.C20_shut_forever
#print axioms Zboss.Host.C20_none_awaits_response
#print axioms Zboss.Host.C20_next_step_ends
#print axioms Zboss.Host.C20_close_reaches_every_request
