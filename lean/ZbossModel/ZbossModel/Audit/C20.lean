import ZbossModel.Props.C20
#print axioms Zboss.Host.C20_placeholder
