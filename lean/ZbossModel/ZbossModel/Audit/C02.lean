import ZbossModel.Props.C02
#print axioms Zboss.Rx.C02_never_raises
#print axioms Zboss.Rx.C02_decoder_errors
#print axioms Zboss.Rx.C02_handler_independent
#print axioms Zboss.Rx.C02_pending_is_short
#print axioms Zboss.Rx.C02_pending_bounded
#print axioms Zboss.Rx.C02_ack_any_state
#print axioms Zboss.Rx.extent_le
#print axioms Zboss.Rx.extent_none_of_head
#print axioms Zboss.Rx.C02_not_deaf
#print axioms Zboss.Rx.C02_not_deaf_any_state
