import ZbossModel.Props.C03
#print axioms Zboss.Crc.C03_crc16_transition
#print axioms Zboss.Crc.C03_crc8_transition
#print axioms Zboss.Crc.C03_crc8_is_koop
#print axioms Zboss.Crc.C03_crc16_is_kermit
#print axioms Zboss.Crc.C03_check_values
#print axioms Zboss.Crc.C03_incremental8
#print axioms Zboss.Crc.C03_incremental16
#print axioms Zboss.Crc.hd3_table
#print axioms Zboss.Crc.C03_header_hd3
#print axioms Zboss.Crc.C03_body_burst16
#print axioms Zboss.Crc.C03_crcfield_corruption
