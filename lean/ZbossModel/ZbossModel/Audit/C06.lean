import ZbossModel.Props.C06
#print axioms Zboss.Rx.C06_log_shape
#print axioms Zboss.Rx.C06_log_shape_any_state
#print axioms Zboss.Rx.C06_reopened_port
#print axioms Zboss.Rx.C06_closed_port_writes_nothing
#print axioms Zboss.Rx.C06_handler_irrelevant
#print axioms Zboss.Rx.C06_ack_wellformed
#print axioms Zboss.Rx.C06_per_frame
#print axioms Zboss.Rx.C06_source_exprs
