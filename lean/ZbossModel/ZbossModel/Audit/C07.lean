import ZbossModel.Props.C07
#print axioms Zboss.Link.grant_inv
#print axioms Zboss.Link.C07_inv_init
#print axioms Zboss.Link.C07_inv_step
#print axioms Zboss.Link.C07_inv_reachable
#print axioms Zboss.Link.grant_wrote
#print axioms Zboss.Link.rxOuts_no_wrote
#print axioms Zboss.Link.C07_stop_and_wait
#print axioms Zboss.Link.C07_event_needs_ack
#print axioms Zboss.Link.C07_fresh_event
#print axioms Zboss.Link.C07_fifo
#print axioms Zboss.Link.grant_one_write
#print axioms Zboss.Link.mon_rxOuts
#print axioms Zboss.Link.mon_grant
#print axioms Zboss.Link.mon_release
#print axioms Zboss.Link.mon_step
#print axioms Zboss.Link.C07_trace
