import ZbossModel.Props.C18
#print axioms Zboss.App.C18_send_fields
#print axioms Zboss.App.C18_param_section_21
#print axioms Zboss.App.C18_dst_addr_le
#print axioms Zboss.App.C18_ieee_unchanged
#print axioms Zboss.App.C18_options_and_mode
#print axioms Zboss.App.C18_indication
#print axioms Zboss.App.C18_seq_never_255
#print axioms Zboss.App.C18_seq_step
#print axioms Zboss.App.C18_bind
#print axioms Zboss.App.C18_source_exprs
