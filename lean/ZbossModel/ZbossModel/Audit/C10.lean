import ZbossModel.Props.C10
#print axioms Zboss.Reasm.feedFrames_cons
#print axioms Zboss.Reasm.feed_mids
#print axioms Zboss.Reasm.C10_reassembly
#print axioms Zboss.Reasm.C10_restart
#print axioms Zboss.Reasm.C10_interrupted_then_fragmented
#print axioms Zboss.Reasm.flags_stamped
#print axioms Zboss.Reasm.C10_loopback
