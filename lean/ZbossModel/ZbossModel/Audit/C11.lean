import ZbossModel.Props.C11
#print axioms Zboss.Host.C11_one_transmitter
#print axioms Zboss.Host.C11_one_awaiting_ack
#print axioms Zboss.Host.C11_ack_wait_inside_message
#print axioms Zboss.Host.C11_task_steps_frame
#print axioms Zboss.Host.C11_write_step
#print axioms Zboss.Host.C11_trace
#print axioms Zboss.Host.C11_contiguous
#print axioms Zboss.Host.C11_no_fragment_after_end
#print axioms Zboss.Host.C11_no_write_is_skipped
#print axioms Zboss.Host.C11_any_schedule
#print axioms Zboss.Host.C11_run_is_a_schedule
#print axioms Zboss.Host.C11_no_write_while_ack_pending
#print axioms Zboss.Host.C11_each_after_ack_or_expiry
#print axioms Zboss.Reasm.C11_ncp_sees_request
#print axioms Zboss.Reasm.C11_ncp_sees_small_request
