import ZbossModel.Props.C11
#print axioms Zboss.Host.C11_placeholder
