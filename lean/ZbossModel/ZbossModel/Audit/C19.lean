import ZbossModel.Props.C19
#print axioms Zboss.Codec.C19_table_preserved
#print axioms Zboss.Codec.C19_view_preserved
#print axioms Zboss.Codec.C19_same_bytes
#print axioms Zboss.Codec.C19_headers_injective
#print axioms Zboss.Codec.C19_headers_sane
#print axioms Zboss.Codec.C19_req_rsp_paired
#print axioms Zboss.Codec.C19_rsp_status_prefix
#print axioms Zboss.Codec.C19_pinned_count
