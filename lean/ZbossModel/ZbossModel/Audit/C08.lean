import ZbossModel.Props.C08
#print axioms Zboss.Link.C08_ack_step
#print axioms Zboss.Link.C08_seq_step
#print axioms Zboss.Link.C08_data_frames_dont_move
#print axioms Zboss.Link.C08_range
#print axioms Zboss.Link.C08_zero_only_initially
#print axioms Zboss.Link.C08_stamp
#print axioms Zboss.Link.C08_stamp_bytes
#print axioms Zboss.Link.C08_source_exprs
