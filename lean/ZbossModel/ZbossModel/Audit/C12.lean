import ZbossModel.Props.C12
#print axioms Zboss.Dispatch.C12_match_same_type
#print axioms Zboss.Dispatch.underHeader_of_match
#print axioms Zboss.Dispatch.dispatch_osm_no_resolved
#print axioms Zboss.Dispatch.C12_oneshot
#print axioms Zboss.Dispatch.C12_at_most_one
#print axioms Zboss.Dispatch.C12_callbacks
#print axioms Zboss.Dispatch.C12_dispatch_keeps_ids
