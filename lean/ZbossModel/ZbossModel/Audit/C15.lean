import ZbossModel.Props.C15
#print axioms Zboss.Codec.parse_prefix
#print axioms Zboss.Codec.givenOk_length
#print axioms Zboss.Codec.C15_failure_prefix
#print axioms Zboss.Codec.C15_zero_cut_rejected
#print axioms Zboss.Codec.C15_surplus_rejected
#print axioms Zboss.Codec.C15_cut_before_status
#print axioms Zboss.Codec.C15_table_rsp
#print axioms Zboss.Codec.C15_sound
#print axioms Zboss.Codec.C15_sound_all_classes
#print axioms Zboss.Codec.C15_partial_sound
#print axioms Zboss.Codec.C15_table_contig
#print axioms Zboss.Codec.C15_partial_sound_all_classes
