import ZbossModel.Props.C15
#print axioms Zboss.Codec.C15_placeholder
