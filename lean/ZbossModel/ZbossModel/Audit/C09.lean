import ZbossModel.Props.C09
#print axioms Zboss.Frag.C09_body_max
#print axioms Zboss.Frag.C09_single
#print axioms Zboss.Frag.body_some
#print axioms Zboss.Frag.firstFrag_facts
#print axioms Zboss.Frag.midFrag_facts
#print axioms Zboss.Frag.lastFrag_facts
#print axioms Zboss.Frag.C09_partition
#print axioms Zboss.Frag.stamp_mid
#print axioms Zboss.Frag.C09_source_exprs
