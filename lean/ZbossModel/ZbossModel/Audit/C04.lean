import ZbossModel.Props.C04
#print axioms Zboss.Codec.C04_placeholder
