import ZbossModel.Props.C04
#print axioms Zboss.Codec.C04_layout
#print axioms Zboss.Codec.C04_refusal
#print axioms Zboss.Codec.C04_uint_range
#print axioms Zboss.Codec.C04_sint_range
#print axioms Zboss.Codec.assignOk_of_mkOk
#print axioms Zboss.Codec.C04_roundtrip
#print axioms Zboss.Codec.C04_table_ok
#print axioms Zboss.Codec.C04_all_classes
#print axioms Zboss.Codec.C04_canon_id
#print axioms Zboss.Codec.C04_one_ambiguous_class
#print axioms Zboss.Codec.C04_ambiguous_encoding
