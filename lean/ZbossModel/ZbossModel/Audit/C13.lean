import ZbossModel.Props.C13
#print axioms Zboss.Host.C13_placeholder
