import ZbossModel.Props.C13
#print axioms Zboss.Host.C13_no_residue
#print axioms Zboss.Host.C13_finished_has_no_listener
#print axioms Zboss.Host.C13_response_to_running
#print axioms Zboss.Host.C13_finish_removes
#print axioms Zboss.Host.C13_no_new_listeners
#print axioms Zboss.Host.C13_no_residue_any_schedule
#print axioms Zboss.Host.settle_idle
#print axioms Zboss.Host.C13_late_response_no_effect
#print axioms Zboss.Host.C13_late_response_no_effect_reachable
#print axioms Zboss.Host.C13_next_request_gets_its_response
#print axioms Zboss.Host.C13_routing_is_listener_table
#print axioms Zboss.Host.C13_one_waiter_per_request
