import ZbossModel.Props.C17
#print axioms Zboss.Match.agree_iff
#print axioms Zboss.Match.C17_matches_iff
#print axioms Zboss.Match.agree_refl
#print axioms Zboss.Match.C17_matches_refl
#print axioms Zboss.Match.agree_trans
#print axioms Zboss.Match.C17_matches_trans
#print axioms Zboss.Match.insertMax_equiv
#print axioms Zboss.Match.C17_dedup_equiv
#print axioms Zboss.Match.C17_dedup_nonempty
