import ZbossModel.Props.C01
#print axioms Zboss.Rx.C01_resync
#print axioms Zboss.Rx.C01_verdict_stable
#print axioms Zboss.Rx.C01_progress
#print axioms Zboss.Rx.C01_chunking
#print axioms Zboss.Rx.C01_any_two_chunkings
#print axioms Zboss.Rx.C01_prefix
#print axioms Zboss.Rx.C01_pending
