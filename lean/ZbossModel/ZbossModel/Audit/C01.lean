import ZbossModel.Props.C01
#print axioms Zboss.Rx.C01_resync
#print axioms Zboss.Rx.C01_verdict_stable
#print axioms Zboss.Rx.C01_progress
#print axioms Zboss.Rx.C01_chunking
#print axioms Zboss.Rx.C01_chunking_any_state
#print axioms Zboss.Rx.C01_any_two_states
#print axioms Zboss.Rx.C01_any_two_chunkings
#print axioms Zboss.Rx.C01_prefix
#print axioms Zboss.Rx.C01_pending
#print axioms Zboss.Rx.C01_sound
#print axioms Zboss.Rx.C01_accepted_is_wellformed
#print axioms Zboss.Rx.hasFlag_or
#print axioms Zboss.Rx.C01_accepted_body_crc
#print axioms Zboss.Rx.C01_complete
#print axioms Zboss.Rx.mem_delivered
#print axioms Zboss.Rx.C01_complete_prompt
#print axioms Zboss.Rx.C01_complete_prompt_any_state
