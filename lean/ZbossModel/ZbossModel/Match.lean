import ZbossModel.Basic
/-! Model of `CommandBase.matches`, `deduplicate_commands`, `BaseResponseListener.resolve`
    (types/commands.py, utils.py).  A command is its type (header) and its bound parameters in
    schema order; `none` = not specified (partial command). Parameter values are compared for
    equality only, so they are abstracted to numbers. -/
namespace Zboss.Match

structure Cmd where
  ty : Nat
  params : List (Option Nat)
  deriving DecidableEq, Repr

/-- `expected_value is not None and expected_value != actual_value` never holds -/
def agree : List (Option Nat) → List (Option Nat) → Bool
  | e :: es, a :: as => (e.isNone || e == a) && agree es as
  | _, _ => true            -- `zip` stops at the shorter list

/-- `self.matches(other)` -/
def «matches» (p c : Cmd) : Bool := p.ty == c.ty && agree p.params c.params

/-- one iteration of the outer loop of `deduplicate_commands` -/
def insertMax : List Cmd → Cmd → List Cmd
  | [], c => [c]                                    -- for/else: nothing matched, extend
  | o :: rest, c =>
    if «matches» o c then o :: rest                 -- the other command matches us: redundant
    else if «matches» c o then c :: rest            -- we match the other: replace it
    else o :: insertMax rest c                      -- keep looking

/-- `deduplicate_commands(commands)` -/
def dedup (cs : List Cmd) : List Cmd := cs.foldl insertMax []

/-- `listener.resolve(response)`'s test: `any(c.matches(response) for c in self.matching_commands)` -/
def anyMatch (ps : List Cmd) (c : Cmd) : Bool := ps.any (fun p => «matches» p c)

end Zboss.Match
