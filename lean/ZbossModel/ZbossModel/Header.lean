import ZbossModel.Basic
import ZbossModel.Crc
import ZbossModel.Generated.Bitfields
import ZbossModel.Generated.Tables
/-! Low-level (56 bit) and high-level (32 bit) headers: the generated bit-field
    code of `LLHeader` / `HLCommonHeader` plus their byte images. -/
namespace Zboss
open Gen

abbrev LL := BitVec 56

namespace LL

/-- `LLHeader.serialize()` = `int.to_bytes(7, "little")` -/
def bytes (h : LL) : Bytes := toLE 7 h.toNat
/-- `LLHeader.deserialize(data)[0]` for `len(data) ≥ 7` -/
def ofBytes (bs : Bytes) : LL := BitVec.ofNat 56 (fromLE (bs.take 7))

def sig (h : LL) : Nat := (LLHeader.signature h).toNat
def size (h : LL) : Nat := (LLHeader.size h).toNat
def ftype (h : LL) : Nat := (LLHeader.frame_type h).toNat
def flags (h : LL) : Nat := (LLHeader.flags h).toNat
def crc (h : LL) : Nat := (LLHeader.crc8 h).toNat

def withSig (h : LL) (v : Nat) : LL := LLHeader.with_signature h (BitVec.ofNat 56 v)
def withSize (h : LL) (v : Nat) : LL := LLHeader.with_size h (BitVec.ofNat 56 v)
def withType (h : LL) (v : Nat) : LL := LLHeader.with_type h (BitVec.ofNat 56 v)
def withFlags (h : LL) (v : Nat) : LL := LLHeader.with_flags h (BitVec.ofNat 56 v)
def withCrc (h : LL) (v : Nat) : LL := LLHeader.with_crc8 h (BitVec.ofNat 56 v)

/-- `LLHeader().with_signature(Frame.signature).with_size(size).with_type(TYPE_ZBOSS_NCP_API_HL)` -/
def base (size : Nat) : LL := withType (withSize (withSig 0#56 Gen.signature) size) Gen.typeHL

/-- `CRC8(ll_header.serialize()[2:6]).digest()` -/
def crcOf (h : LL) : Nat := (Crc.crc8B (slice (bytes h) 2 6)).toNat

/-- `_ll_checksum`: `ll_header.with_crc8(CRC8(ll_header.serialize()[2:6]).digest())` -/
def sealed (h : LL) : LL := withCrc h (crcOf h)

end LL

abbrev HLH := BitVec 32

namespace HLH
def bytes (h : HLH) : Bytes := toLE 4 h.toNat
def ofBytes (bs : Bytes) : HLH := BitVec.ofNat 32 (fromLE (bs.take 4))
def version (h : HLH) : Nat := (HLHeader.version h).toNat
def ctype (h : HLH) : Nat := (HLHeader.control_type h).toNat
def id (h : HLH) : Nat := (HLHeader.id h).toNat
/-- `HLCommonHeader().with_id(id).with_type(ty)` -/
def mk (id ty : Nat) : HLH := HLHeader.with_type (HLHeader.with_id 0#32 (BitVec.ofNat 32 id)) (BitVec.ofNat 32 ty)
end HLH

end Zboss
