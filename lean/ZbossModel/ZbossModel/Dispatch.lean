import ZbossModel.Match
/-! Model of the listener table of api.py: `wait_for_responses`, `register_indication_listeners`,
    `frame_received`'s dispatch loop, deferred removal of finished one-shot listeners. -/
namespace Zboss.Dispatch
open Match

inductive Kind where
  | oneShot     -- `OneShotResponseListener`: resolves a future once
  | callback    -- `IndicationListener`
  deriving DecidableEq, Repr

structure Listener where
  id : Nat
  kind : Kind
  patterns : List Cmd       -- `matching_commands` after de-duplication
  done : Bool := false      -- `future.done()` (resolved or cancelled); always false for callbacks
  deriving DecidableEq, Repr

/-- listeners in registration order (every per-header list of `_listeners` is a sub-sequence of it) -/
abbrev Table := List Listener

inductive Ev where
  | waiter (id : Nat) (patterns : List Cmd)      -- `wait_for_responses(patterns)`
  | callback (id : Nat) (patterns : List Cmd)    -- `register_indication_listeners(patterns, cb)`
  | cancel (id : Nat)                            -- the caller cancels the waiter's future
  | receive (c : Cmd)                            -- `frame_received` delivers command `c`
  | settle                                       -- end of the event-loop step: done-callbacks remove finished listeners
  deriving Repr

inductive Out where
  | resolved (id : Nat) (c : Cmd)                -- `future.set_result(c)`
  | called (id : Nat) (c : Cmd)                  -- `callback(c)`
  deriving DecidableEq, Repr

/-- registered under `command.header`? -/
def underHeader (l : Listener) (c : Cmd) : Bool := l.patterns.any (fun p => p.ty == c.ty)

/-- the `for listener in self._listeners[command.header]` loop; `osm` = `one_shot_matched` -/
def dispatch (c : Cmd) : Table → Bool → Table × List Out
  | [], _ => ([], [])
  | l :: rest, osm =>
    if !underHeader l c then
      let r := dispatch c rest osm; (l :: r.1, r.2)
    else if osm && l.kind == .oneShot then
      let r := dispatch c rest osm; (l :: r.1, r.2)                 -- `continue`
    else if !anyMatch l.patterns c then
      let r := dispatch c rest osm; (l :: r.1, r.2)                 -- `resolve` → False
    else
      match l.kind with
      | .callback =>
        let r := dispatch c rest osm; (l :: r.1, .called l.id c :: r.2)
      | .oneShot =>
        if l.done then
          let r := dispatch c rest osm; (l :: r.1, r.2)             -- future already done: `_resolve` → False
        else
          let r := dispatch c rest true; ({ l with done := true } :: r.1, .resolved l.id c :: r.2)

def step (t : Table) : Ev → Table × List Out
  | .waiter id ps => (t ++ [⟨id, .oneShot, dedup ps, false⟩], [])
  | .callback id ps => (t ++ [⟨id, .callback, dedup ps, false⟩], [])
  | .cancel id => (t.map fun l => if l.id = id ∧ l.kind = .oneShot then { l with done := true } else l, [])
  | .receive c => dispatch c t false
  | .settle => (t.filter fun l => !l.done, [])

def runEvents (t : Table) (evs : List Ev) : Table × List (List Out) :=
  evs.foldl (fun acc e => let r := step acc.1 e; (r.1, acc.2 ++ [r.2])) (t, [])

end Zboss.Dispatch
