import ZbossModel.Crc
import ZbossModel.Frame
import ZbossModel.Frag
import ZbossModel.Rx
import ZbossModel.Link
import ZbossModel.Dispatch
import ZbossModel.OpsCodec
import ZbossModel.OpsCStruct
import ZbossModel.OpsApp
import ZbossModel.OpsHost
/-! Dispatch of line-protocol operations to the executable model. -/
namespace Zboss.Ops
open Zboss Zboss.Crc

def hex16 (n : Nat) : String := toHex [UInt8.ofNat (n / 256), UInt8.ofNat (n % 256)]

def showErr : Err → String
  | .invalidFrame => "invalidFrame"
  | .valueError => "valueError"
  | .keyError => "keyError"

def showHL : Option HLPacket → String
  | none => "none"
  | some ⟨none, d⟩ => "raw:" ++ toHex d
  | some ⟨some h, d⟩ => "hdr=" ++ toString h.toNat ++ ":" ++ toHex d

def showFrame (f : Frame) : String := "ll=" ++ toString f.ll.toNat ++ " hl=" ++ showHL f.hl

def llFields (h : LL) : String :=
  s!"{h.toNat} {LL.sig h} {LL.size h} {LL.ftype h} {LL.flags h} {LL.crc h}"

def hlFields (h : HLH) : String := s!"{h.toNat} {HLH.version h} {HLH.ctype h} {HLH.id h}"

def parseHdr (s : String) : Option (Option HLH) :=
  if s == "-" then some none else s.toNat?.map (fun n => some (BitVec.ofNat 32 n))

def handleFrame : List String → Option String
  | ["ll", n, setter, v] => do
    let n ← n.toNat?; let v ← v.toNat?
    let h : LL := BitVec.ofNat 56 n
    let r ← match setter with
      | "none" => some h
      | "sig" => some (LL.withSig h v)
      | "size" => some (LL.withSize h v)
      | "type" => some (LL.withType h v)
      | "flags" => some (LL.withFlags h v)
      | "crc" => some (LL.withCrc h v)
      | _ => none
    pure (llFields r)
  | ["hl", n, setter, v] => do
    let n ← n.toNat?; let v ← v.toNat?
    let h : HLH := BitVec.ofNat 32 n
    let r ← match setter with
      | "none" => some h
      | "id" => some (Gen.HLHeader.with_id h (BitVec.ofNat 32 v))
      | "type" => some (Gen.HLHeader.with_type h (BitVec.ofNat 32 v))
      | "version" => some (Gen.HLHeader.with_version h (BitVec.ofNat 32 v))
      | _ => none
    pure (hlFields r)
  | ["frame", seq, fl, hdr, d] => do
    let seq ← seq.toNat?; let fl ← fl.toNat?; let hdr ← parseHdr hdr; let d ← parseHex d
    let p : HLPacket := ⟨hdr, d⟩
    pure (toHex (Frame.stamp seq (Frame.mkData fl p (p.serialize.length + 5))).serialize)
  | ["deframe", d] => do
    let d ← parseHex d
    match Frame.deserialize d with
    | .ok (f, rest) => pure ("ok " ++ showFrame f ++ " rest=" ++ toHex rest)
    | .error e => pure ("err " ++ showErr e)
  | ["refdecode", d] => do
    let d ← parseHex d
    match Ref.decode d with
    | some (f, rest) => pure s!"ok len={f.length} flags={f.flags} body={toHex f.body} rest={toHex rest}"
    | none => pure "reject"
  | ["frag", hdr, d] => do
    -- fragments of to_frame()'s frame: per fragment `size:flags:wire-bytes`
    let hdr ← parseHdr hdr; let d ← parseHex d
    let p : HLPacket := ⟨hdr, d⟩
    let frs := Frag.fragments (Frag.whole p) p
    pure (" ".intercalate (frs.map fun f => s!"{LL.size f.ll}:{LL.flags f.ll}:{toHex f.serialize}"))
  | ["ack", seq, r] => do
    let seq ← seq.toNat?
    pure (toHex (Frame.ack seq (r == "1")).serialize)
  | _ => none

def showOut : Rx.Out → String
  | .write b => "W" ++ toHex b
  | .deliver f => "D" ++ showFrame f

def showOuts (l : List Rx.Out) : String := if l.isEmpty then "." else ",".intercalate (l.map showOut)

def handleRx : List String → Option String
  | "rx" :: seq :: tr :: ev :: chunks => do
    let seq ← seq.toNat?
    let chunks ← chunks.mapM parseHex
    -- ev: 0 = no send yet, 1 = an ACK event exists (send waiting or timed out), 2 = it exists and is already set
    let st0 : Rx.RxState := { packSeq := seq, transport := tr == "1", hasEvent := ev == "1" || ev == "2",
                              eventSet := ev == "2" }
    let (st, logs) := chunks.foldl (fun (acc : Rx.RxState × List String) c =>
      let r := Rx.dataReceived (fun _ => false) acc.1 c
      (r.1, acc.2 ++ [showOuts r.2])) (st0, [])
    pure (" ".intercalate logs ++
      s!" | seq={st.packSeq} ack={st.ackSeq} ev={if st.eventSet then 1 else 0} buf={toHex st.buf}")
  | ["offline", d] => do
    let d ← parseHex d
    let r := Rx.run Rx.tryFrame d
    pure ((if r.1.isEmpty then "." else ",".intercalate (r.1.map showFrame)) ++ " rem=" ++ toHex r.2)
  | _ => none

def showLinkOut : Link.Out → String
  | .wire b => "W" ++ toHex b
  | .wrote i q => s!"w{i}:{q}"
  | .deliver f => "D" ++ showFrame f
  | .done i => s!"done{i}"
  | .cancelled i => s!"canc{i}"

def parseLinkEv (s : String) : Option Link.Ev :=
  match s.splitOn ":" with
  | ["S", i, fl, hdr, d] => do
    let i ← i.toNat?; let fl ← fl.toNat?; let hdr ← parseHdr hdr; let d ← parseHex d
    let p : HLPacket := ⟨hdr, d⟩
    pure (.send i (Frame.mkData fl p (p.serialize.length + 5)))
  | ["R", d] => do pure (.rx (← parseHex d))
  | ["T"] => some .tick
  | ["C", i] => do pure (.cancel (← i.toNat?))
  | ["X"] => some .close
  | ["N"] => some .reconnect
  | _ => none

def handleLink : List String → Option String
  | "link" :: evs => do
    let evs ← evs.mapM parseLinkEv
    let r := Link.runEvents {} evs
    let logs := r.2.map fun l => if l.isEmpty then "." else ",".intercalate (l.map showLinkOut)
    pure (";".intercalate logs ++ s!" | seq={r.1.rx.packSeq} now={r.1.now} q={r.1.queue.length} h={r.1.holder.isSome}")
  | _ => none

def parseCmd (s : String) : Option Match.Cmd :=
  match s.splitOn ":" with
  | [ty, ps] => do
    let ty ← ty.toNat?
    let ps ← (if ps == "-" then some [] else (ps.splitOn ",").mapM fun x =>
      if x == "_" then some none else x.toNat?.map some)
    pure ⟨ty, ps⟩
  | _ => none

def showCmd (c : Match.Cmd) : String :=
  s!"{c.ty}:" ++ (if c.params.isEmpty then "-" else
    ",".intercalate (c.params.map fun | none => "_" | some v => toString v))

def parseCmds (s : String) : Option (List Match.Cmd) := (s.splitOn "|").mapM parseCmd

def parseDispEv (s : String) : Option Dispatch.Ev :=
  match s.splitOn "/" with
  | ["W", id, ps] => do pure (.waiter (← id.toNat?) (← parseCmds ps))
  | ["B", id, ps] => do pure (.callback (← id.toNat?) (← parseCmds ps))
  | ["X", id] => do pure (.cancel (← id.toNat?))
  | ["R", c] => do pure (.receive (← parseCmd c))
  | ["Z"] => some .settle
  | _ => none

def handleDispatch : List String → Option String
  | ["match", p, c] => do
    let p ← parseCmd p; let c ← parseCmd c
    pure (if Match.matches p c then "1" else "0")
  | ["dedup", ps] => do
    let ps ← parseCmds ps
    pure ("|".intercalate ((Match.dedup ps).map showCmd))
  | "dispatch" :: evs => do
    let evs ← evs.mapM parseDispEv
    let r := Dispatch.runEvents [] evs
    let show1 (o : Dispatch.Out) : String := match o with
      | .resolved i c => s!"r{i}={showCmd c}"
      | .called i c => s!"c{i}={showCmd c}"
    pure (";".intercalate (r.2.map fun l => if l.isEmpty then "." else "+".intercalate (l.map show1)) ++
      s!" | n={r.1.length}")
  | _ => none

def handle : List String → String
  | ["crc8", init, d] =>
    match parseHex init, parseHex d with
    | some [i], some bs => toHex [⟨crc8From i.toBitVec (bv bs)⟩]
    | _, _ => "bad-op"
  | ["crc16", init, d] =>
    match parseHex init, parseHex d with
    | some [hi, lo], some bs =>
      hex16 (crc16From (BitVec.ofNat 16 (hi.toNat * 256 + lo.toNat)) (bv bs)).toNat
    | _, _ => "bad-op"
  | ["crc8spec", d] =>
    match parseHex d with
    | some bs => toHex [⟨spec koop (bv bs)⟩]
    | none => "bad-op"
  | ["crc16spec", d] =>
    match parseHex d with
    | some bs => hex16 (spec kermit (bv bs)).toNat
    | none => "bad-op"
  | toks =>
    match handleFrame toks with
    | some r => r
    | none =>
      match handleRx toks with
      | some r => r
      | none =>
        match handleLink toks with
        | some r => r
        | none =>
          match handleDispatch toks with
          | some r => r
          | none =>
            match OpsCodec.handle toks with
            | some r => r
            | none =>
              match OpsCStruct.handle toks with
              | some r => r
              | none =>
                match OpsApp.handle toks with
                | some r => r
                | none =>
                  match OpsHost.handle toks with
                  | some r => r
                  | none => "bad-op"

end Zboss.Ops
