import ZbossModel.Crc
/-! Dispatch of line-protocol operations to the executable model. -/
namespace Zboss.Ops
open Zboss Zboss.Crc

def hex16 (n : Nat) : String := toHex [UInt8.ofNat (n / 256), UInt8.ofNat (n % 256)]

def handle : List String → String
  | ["crc8", init, d] =>
    match parseHex init, parseHex d with
    | some [i], some bs => toHex [⟨crc8From i.toBitVec (bv bs)⟩]
    | _, _ => "bad-op"
  | ["crc16", init, d] =>
    match parseHex init, parseHex d with
    | some [hi, lo], some bs =>
      hex16 (crc16From (BitVec.ofNat 16 (hi.toNat * 256 + lo.toNat)) (bv bs)).toNat
    | _, _ => "bad-op"
  | ["crc8spec", d] =>
    match parseHex d with
    | some bs => toHex [⟨spec koop (bv bs)⟩]
    | none => "bad-op"
  | ["crc16spec", d] =>
    match parseHex d with
    | some bs => hex16 (spec kermit (bv bs)).toNat
    | none => "bad-op"
  | _ => "bad-op"

end Zboss.Ops
