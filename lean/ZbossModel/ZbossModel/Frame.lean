import ZbossModel.Header
/-! Model of zigpy_zboss/frames.py: `HLPacket`, `Frame.serialize`,
    `Frame.deserialize`, `Frame.ack`. Python exceptions are values. -/
namespace Zboss
open Gen

inductive Err where
  | invalidFrame   -- `InvalidFrame` (a `ValueError`)
  | valueError     -- plain `ValueError` (short data, out-of-range integer)
  | keyError
  deriving DecidableEq, Repr, Inhabited

structure HLPacket where
  header : Option HLH
  data : Bytes
  deriving DecidableEq, Repr, Inhabited

namespace HLPacket
/-- serialized packet without its checksum. `if self.header:` is false for `None` *and* for a zero header. -/
def body (p : HLPacket) : Bytes :=
  match p.header with
  | some h => if h = 0#32 then p.data else HLH.bytes h ++ p.data
  | none => p.data

/-- `HLPacket.serialize()`: CRC16 (little-endian) in front of the body -/
def serialize (p : HLPacket) : Bytes := toLE 2 (Crc.crc16B p.body) ++ p.body

/-- `HLPacket.deserialize(data)` -/
def deserialize (data : Bytes) : Except Err HLPacket :=
  if data.length < 2 then .error .valueError else
  let check := fromLE (data.take 2)
  let d := data.drop 2
  if check ≠ Crc.crc16B d then .error .invalidFrame else
  if d.length < 4 then .error .valueError else
  .ok ⟨some (HLH.ofBytes d), d.drop 4⟩
end HLPacket

structure Frame where
  ll : LL
  hl : Option HLPacket
  deriving DecidableEq, Repr, Inhabited

namespace Frame

def serialize (f : Frame) : Bytes :=
  match f.hl with
  | none => LL.bytes f.ll
  | some p => LL.bytes f.ll ++ p.serialize

def hasFlag (flags mask : Nat) : Bool := (flags &&& mask) ≠ 0

/-- Python `data[:k]`, `data[k:]` for a possibly negative `k` -/
def pyTake (l : List α) (k : Int) : List α :=
  if k ≥ 0 then l.take k.toNat else l.take (l.length - (-k).toNat)
def pyDrop (l : List α) (k : Int) : List α :=
  if k ≥ 0 then l.drop k.toNat else l.drop (l.length - (-k).toNat)

/-- `Frame.deserialize(data)` → frame and remaining bytes -/
def deserialize (data : Bytes) : Except Err (Frame × Bytes) :=
  if data.length < 7 then .error .valueError else
  let ll := LL.ofBytes data
  let rest := data.drop 7
  if LL.sig ll ≠ Gen.signature then .error .invalidFrame else
  if LL.crcOf ll ≠ LL.crc ll then .error .invalidFrame else
  if hasFlag (LL.flags ll) Gen.flagisACK then .ok (⟨ll, none⟩, rest) else
  let length : Int := (LL.size ll : Int) - 5
  let payload := pyTake rest length
  let rest' := pyDrop rest length
  if hasFlag (LL.flags ll) Gen.flagFirstFrag then
    match HLPacket.deserialize payload with
    | .error e => .error e
    | .ok p => .ok (⟨ll, some p⟩, rest')
  else .ok (⟨ll, some ⟨none, payload⟩⟩, rest')

/-- `Frame.ack(ack_seq, retransmit)` -/
def ack (seq : Nat) (retransmit : Bool) : Frame :=
  let flag := (seq <<< 4) ||| Gen.flagisACK ||| (if retransmit then Gen.flagRetransmit else 0)
  ⟨LL.sealed (LL.withFlags (LL.base 5) flag), none⟩

/-- `LLHeader().with_signature(sig).with_size(declared).with_type(TYPE).with_flags(fl)` + packet:
    what `to_frame`, `_create_first_frag`, `_create_last_frag` build -/
def mkData (fl : Nat) (p : HLPacket) (declared : Nat) : Frame := ⟨LL.withFlags (LL.base declared) fl, some p⟩

/-- uart `_set_frame_flag` followed by `_ll_checksum` with packet sequence number `seq` -/
def stamp (seq : Nat) (f : Frame) : Frame :=
  { f with ll := LL.sealed (LL.withFlags f.ll ((seq <<< 2) ||| LL.flags f.ll)) }

end Frame

/-! ## Reference decoder, written from the link format only (not from the library's decoder) -/
namespace Ref

structure RFrame where
  length : Nat      -- declared length = bytes after the marker
  flags : Nat
  body : Bytes      -- bytes after the body checksum (empty for an ACK)
  deriving DecidableEq, Repr

def decode (bs : Bytes) : Option (RFrame × Bytes) :=
  match bs with
  | m0 :: m1 :: l0 :: l1 :: ty :: fl :: c :: rest =>
    let n := l0.toNat + 256 * l1.toNat
    if m0 ≠ 0xDE ∨ m1 ≠ 0xAD then none
    else if ty ≠ 6 then none
    else if Crc.crc8B [l0, l1, ty, fl] ≠ c then none
    else if n < 5 then none
    else if fl.toNat % 2 = 1 then some (⟨n, fl.toNat, []⟩, rest)
    else if n < 7 ∨ rest.length < n - 5 then none
    else
      let blk := rest.take (n - 5)
      if fromLE (blk.take 2) ≠ Crc.crc16B (blk.drop 2) then none
      else some (⟨n, fl.toNat, blk.drop 2⟩, rest.drop (n - 5))
  | _ => none

end Ref
end Zboss
