import ZbossModel.Rx
import ZbossModel.Codec
import ZbossModel.Generated.Commands
/-! Model of `ZBOSS.frame_received` up to the command handed to the listeners: fragment buffer,
    `Frame.handle_rx_fragmentation`, command lookup by header, `from_frame`. -/
namespace Zboss.Reasm
open Gen Rx Codec

/-- `frag.hl_packet.serialize()[2:]` -/
def bodyOf (f : Frame) : Bytes :=
  match f.hl with
  | some p => p.body
  | none => []

/-- what reaches the command layer: the HL packet of a complete message -/
structure Msg where
  header : Option HLH
  data : Bytes
  deriving DecidableEq, Repr

inductive Outcome where
  | buffered                    -- a fragment was stored
  | msg (m : Msg)               -- a complete message is passed on
  | failed                      -- `handle_rx_fragmentation` raised (merged body shorter than a command header)
  deriving DecidableEq, Repr

def isFirst (f : Frame) : Bool := Frame.hasFlag (LL.flags f.ll) Gen.flagFirstFrag
def isLast (f : Frame) : Bool := Frame.hasFlag (LL.flags f.ll) Gen.flagLastFrag

/-- `Frame.handle_rx_fragmentation(fragments)`: concatenate the bodies, read the command header back -/
def merge (frags : List Frame) : Option Msg :=
  let data := (frags.map bodyOf).flatten
  if data.length < 4 then none else some ⟨some (HLH.ofBytes data), data.drop 4⟩

/-- the fragment handling at the top of `frame_received` (state = `_rx_fragments`) -/
def frameReceived (frags : List Frame) (f : Frame) : List Frame × Outcome :=
  let frags := if isFirst f then [] else frags        -- a first fragment always starts a new message
  if !isLast f then (frags ++ [f], .buffered)
  else if frags.isEmpty then
    (frags, .msg (match f.hl with | some p => ⟨p.header, p.data⟩ | none => ⟨none, []⟩))
  else
    match merge (frags ++ [f]) with
    | some m => ([], .msg m)
    | none => (frags ++ [f], .failed)                 -- the exception leaves `_rx_fragments` as it is

inductive Delivery where
  | command (idx : Nat) (d : Decoded)          -- `command_cls.from_frame(frame)` handed to the listeners
  | unknown                                    -- header not in `COMMANDS_BY_ID`
  | raised (e : Err)                           -- `from_frame` raised (caught and logged by the receiver)
  deriving DecidableEq, Repr

def views : List View := Gen.commands.map viewOf

/-- command lookup and decoding -/
def deliver (m : Msg) : Delivery :=
  match m.header with
  | none => .unknown
  | some h =>
    match views.findIdx? (fun v => v.header == h.toNat) with
    | none => .unknown
    | some i =>
      match fromPayload (views.getD i default) m.data with
      | .ok d => .command i d
      | .error e => .raised e

/-- the upper layer as a fold over the frames the receiver hands up -/
def receiveAll (frags : List Frame) (fs : List Frame) : List Frame × List Delivery :=
  fs.foldl (fun acc f =>
    let r := frameReceived acc.1 f
    match r.2 with
    | .msg m => (r.1, acc.2 ++ [deliver m])
    | _ => (r.1, acc.2)) (frags, [])

end Zboss.Reasm
