import ZbossModel.Frame
/-! Model of `Frame.count_fragments` / `handle_tx_fragmentation` and the three
    `_create_*` helpers of frames.py (index based, like the Python). -/
namespace Zboss
open Gen

namespace Frag

/-- `int(-(-n // ZBNCP_LL_BODY_SIZE_MAX))` -/
def ceilDiv (n d : Nat) : Nat := (n + d - 1) / d

/-- `count_fragments`: body = `hl_packet.serialize()[2:]` -/
def count (p : HLPacket) : Nat := ceilDiv p.body.length Gen.bodyMax

/-- `first_frag_size = max(total % MAX or MAX, 4)` -/
def firstSize (total : Nat) : Nat :=
  max (if total % Gen.bodyMax = 0 then Gen.bodyMax else total % Gen.bodyMax) 4

/-- number of entries of `range(first, total, MAX)` -/
def nIdx (total : Nat) : Nat := ceilDiv (total - firstSize total) Gen.bodyMax

/-- `_create_first_frag(frag_size)` -/
def firstFrag (p : HLPacket) (fragSize : Nat) : Frame :=
  Frame.mkData Gen.flagFirstFrag ⟨p.header, p.data.take (fragSize - 4)⟩ (fragSize + 7)

/-- `_create_last_frag(serialized_hl_packet[frag_idxs[-1]:])` -/
def lastFrag (tail : Bytes) : Frame :=
  Frame.mkData Gen.flagLastFrag ⟨none, tail⟩ (tail.length + 7)

/-- `_create_frag(idx, serialized_hl_packet)`: no `with_flags` at all -/
def midFrag (ser : Bytes) (idx : Nat) : Frame :=
  ⟨LL.base (Gen.bodyMax + 7), some ⟨none, slice ser idx (idx + Gen.bodyMax)⟩⟩

/-- `handle_tx_fragmentation` of a frame whose packet is `p` -/
def fragments (whole : Frame) (p : HLPacket) : List Frame :=
  if count p ≤ 1 then [whole] else
  let ser := p.body
  let total := ser.length
  let first := firstSize total
  let lastIdx := first + Gen.bodyMax * (nIdx total - 1)      -- frag_idxs[-1]
  (List.range (count p)).map fun i =>                        -- frag_nbr = i + 1
    if i = 0 then firstFrag p first
    else if i + 1 = count p then lastFrag (ser.drop lastIdx)
    else midFrag ser (first + Gen.bodyMax * (i - 1))         -- frag_idxs[frag_nbr - 2]

/-- `CommandBase.to_frame`'s frame around a packet (flags first|last, size = packet length + 5) -/
def whole (p : HLPacket) : Frame :=
  Frame.mkData (Gen.flagLastFrag ||| Gen.flagFirstFrag) p (p.serialize.length + 5)

/-- what is checksummed and sent as the body of a frame -/
def bodyOf (f : Frame) : Bytes :=
  match f.hl with
  | some p => p.body
  | none => []

end Frag
end Zboss
