import ZbossModel.Wire
/-! Model of `CommandBase.__init__` (binding and range refusal), `to_frame` and `from_frame`
    (types/commands.py) over the wire view of a schema. -/
namespace Zboss.Codec
open Wire

/-- what the bytes of a command depend on: no parameter or class names -/
structure FView where
  wt : WT
  optional : Bool
  param : Nat                  -- index of the Python parameter this wire field belongs to (flattened structs share one)
  enumVals : List Int
  deriving DecidableEq, Repr, Inhabited

structure View where
  header : Nat
  statusIdx : Option Nat       -- wire-field index of the parameter called "StatusCode"
  fields : List FView
  deriving DecidableEq, Repr, Inhabited

def viewOf (d : CmdDesc) : View :=
  { header := d.header, statusIdx := d.statusIdx,
    fields := d.fields.map fun f => ⟨f.wt, f.optional, f.param, f.enumVals⟩ }

def ctype (v : View) : Nat := v.header / 256 % 256
def cmdId (v : View) : Nat := v.header / 65536

/-- one value slot per wire field; `none` = parameter not given -/
abbrev Assign := List (Option Val)

/-- given optionals must be a prefix of the optionals: once one is omitted, all later ones are -/
def optPrefixOk : List FView → Assign → Bool
  | f :: fs, v :: vs =>
    if f.optional && v.isNone then (fs.zip vs).all (fun (g, w) => !g.optional || w.isNone) && optPrefixOk fs vs
    else optPrefixOk fs vs
  | _, _ => true

/-- `cls(**params)` succeeds (no `KeyError`, no `ValueError`): every required parameter given, optionals
    given without skips, every given value serializable -/
def mkOk (v : View) (a : Assign) : Bool :=
  a.length == v.fields.length &&
  (v.fields.zip a).all (fun (f, x) =>
    match x with
    | none => f.optional
    | some val => (encW f.wt val).isSome) &&
  optPrefixOk v.fields a

/-- concatenated parameter encodings in schema order (`to_frame`'s `b"".join(chunks)`) -/
def encParams : List FView → Assign → Bytes
  | f :: fs, some val :: vs => (encW f.wt val).getD [] ++ encParams fs vs
  | _ :: fs, none :: vs => encParams fs vs
  | _, _ => []

/-- `to_frame()`: the HL packet -/
def toPacket (v : View) (a : Assign) : HLPacket := ⟨some (BitVec.ofNat 32 v.header), encParams v.fields a⟩

/-- bytes of the command: the 4-byte command header followed by the parameter encodings -/
def toBytes (v : View) (a : Assign) : Bytes := toLE 4 v.header ++ encParams v.fields a

inductive Decoded where
  | full (a : Assign)          -- `cls(**params)`
  | partialCmd (a : Assign)    -- `cls(**params, partial=True)`: failure response cut short
  deriving DecidableEq, Repr

def isZeroStatus : Option Val → Bool
  | some (.sc (.num n)) => n == 0
  | _ => false

/-- drop the values of wire fields that belong to the parameter that failed to parse -/
def dropParam (fs : List FView) (acc : Assign) (p : Nat) : Assign :=
  (fs.zip acc).map fun (f, x) => if f.param = p then none else x

/-- every given value passes `value.serialize()` in `__init__` (e.g. a 255-byte `LVBytes` parses but is refused) -/
def allEnc (fs : List FView) (a : Assign) : Bool :=
  (fs.zip a).all fun (f, x) => match x with | none => true | some val => (encW f.wt val).isSome

def finish (v : View) (d : Decoded) : Except Err Decoded :=
  match d with
  | .full a => if mkOk v a then .ok d else .error .valueError
  | .partialCmd a => if allEnc v.fields a then .ok d else .error .valueError

/-- the `for param in cls.schema` loop of `from_frame`; `acc` = values parsed so far (reversed order kept
    aligned with `done`), `fs` = fields still to parse -/
def parseLoop (v : View) : List FView → List FView → Assign → Bytes → Except Err Decoded
  | _, [], acc, data =>
    if data.isEmpty then finish v (.full acc) else .error .valueError            -- trailing data
  | done, f :: rest, acc, data =>
    match decW f.wt data with
    | .ok (val, data') => parseLoop v (done ++ [f]) rest (acc ++ [some val]) data'
    | .error .keyError => .error .keyError
    | .error _ =>
      -- `except ValueError:`
      let pad : Assign := (f :: rest).map fun _ => none
      let failedParam := f.param
      let accDropped := dropParam done acc failedParam
      if ctype v = 1 then
        match v.statusIdx with
        | none => .error .keyError
        | some si =>
          -- `status_code = params["StatusCode"]`
          if si < accDropped.length ∧ (accDropped.getD si none).isSome then
            if !isZeroStatus (accDropped.getD si none) then finish v (.partialCmd (accDropped ++ pad))
            else if data.isEmpty && f.optional then finish v (.full (accDropped ++ pad))
            else .error .valueError
          else .error .keyError
      else if data.isEmpty && f.optional then finish v (.full (accDropped ++ pad))
      else .error .valueError

/-- `cls.from_frame(frame)` on the HL payload (header already matched) -/
def fromPayload (v : View) (payload : Bytes) : Except Err Decoded := parseLoop v [] v.fields [] payload

end Zboss.Codec

namespace Zboss.Codec
open Wire

/-- least number of bytes a (non-greedy) parameter occupies -/
def minSize : WT → Nat
  | .sc t => t.size
  | .lvBytes h => h
  | .lvList h _ => h
  | .greedy _ => 0
  | .simpleDesc => 8

def greedyOk : WT → Bool
  | .greedy ts => 0 < recSize ts
  | _ => true

/-- shape every schema the host parses has: a greedy list only as the last field, optional parameters
    trailing, non-greedy optional parameters occupy at least one byte and are parameters of their own -/
def fieldsOk : List FView → Bool
  | [] => true
  | [f] => greedyOk f.wt && (f.wt.isGreedy || !f.optional || 0 < minSize f.wt)
  | f :: g :: rest =>
    !f.wt.isGreedy && (!f.optional || (0 < minSize f.wt && (g :: rest).all (·.optional))) &&
    (!f.optional || true) && fieldsOk (g :: rest)

/-- no earlier wire field belongs to the same Python parameter as an optional field -/
def optParamsOwn (fs : List FView) : Bool :=
  (List.range fs.length).all fun i =>
    match fs[i]? with
    | some f => !f.optional || (fs.take i).all (fun g => g.param != f.param)
    | none => true

def SchemaOK (v : View) : Bool :=
  fieldsOk v.fields && optParamsOwn v.fields &&
  (ctype v != 1 || (v.statusIdx == some 2 && ((v.fields.take 3).map fun f => (f.wt, f.optional)) ==
      [(.sc (.uint 1), false), (.sc (.uint 1), false), (.sc (.uint 1), false)]))

/-- the one ambiguity of the wire format: an omitted optional *greedy* list has the same bytes as an empty
    list, so it decodes to the empty list (the parse only gets there when everything before was given) -/
def canon : List FView → Assign → Assign
  | f :: _, none :: xs => if f.wt.isGreedy then some (.rows []) :: xs else none :: xs
  | _ :: fs, some x :: xs => some x :: canon fs xs
  | _, a => a

/-- a valid assignment for the remaining fields: given values are serializable; a parameter may be
    omitted only if it is optional, and then all later ones are omitted too -/
def assignOk : List FView → Assign → Bool
  | [], [] => true
  | f :: fs, some x :: xs => (encW f.wt x).isSome && assignOk fs xs
  | f :: fs, none :: xs => f.optional && xs.all (·.isNone) && xs.length == fs.length
  | _, _ => false

def Decoded.assign : Decoded → Assign
  | .full a => a
  | .partialCmd a => a

end Zboss.Codec
