import ZbossModel.Frame
/-! Wire types of the command schemas: descriptors, values, encoders and decoders.

Scalars are little-endian integers (unsigned / signed, any byte width) and fixed-size byte blobs
(EUI64, keys, zigpy bit-field structs by their footprint).  Composite types are length-prefixed
bytes, count-prefixed lists of records, greedy lists of records and the simple descriptor.
Python exceptions are values: `none` from an encoder = the value is refused (`ValueError` at
construction), `.error` from a decoder = `ValueError` while parsing. -/
namespace Zboss.Wire

/-- scalar wire type -/
inductive ST where
  | uint (k : Nat)     -- k bytes, little-endian, unsigned (also enums, bitmaps)
  | sint (k : Nat)     -- k bytes, little-endian, two's complement
  | blob (n : Nat)     -- exactly n bytes
  deriving DecidableEq, Repr, Inhabited

/-- scalar value -/
inductive SV where
  | num (n : Int)
  | raw (b : Bytes)
  deriving DecidableEq, Repr, Inhabited

/-- wire type of a schema parameter -/
inductive WT where
  | sc (t : ST)
  | lvBytes (hdr : Nat)                 -- zigpy `LVBytes`: length prefix, at most 256^hdr - 2 bytes
  | lvList (hdr : Nat) (rec : List ST)  -- `LVList`: count prefix, then that many records
  | greedy (rec : List ST)              -- zigpy `List` / `CompleteList`: records until the data ends
  | simpleDesc                          -- `SimpleDescriptor`: 6 scalars, then in+out 16-bit clusters
  deriving DecidableEq, Repr, Inhabited

inductive Val where
  | sc (v : SV)
  | bytes (b : Bytes)
  | rows (r : List (List SV))
  | sd (endpoint profile deviceType deviceVersion : Nat) (ins outs : List Nat)
  deriving DecidableEq, Repr, Inhabited

/-! ## scalars -/

def ST.size : ST → Nat
  | .uint k => k
  | .sint k => k
  | .blob n => n

/-- `value.serialize()`; `none` when the value does not fit the type -/
def pow256 (k : Nat) : Int := ((256 ^ k : Nat) : Int)

def encS : ST → SV → Option Bytes
  | .uint k, .num n => if 0 ≤ n ∧ n < pow256 k then some (toLE k n.toNat) else none
  | .sint k, .num n =>
    if -(pow256 k / 2) ≤ n ∧ n < pow256 k / 2 then
      some (toLE k (if n < 0 then (n + pow256 k).toNat else n.toNat))
    else none
  | .blob m, .raw b => if b.length = m then some b else none
  | _, _ => none

/-- `T.deserialize(data)` -/
def decS (t : ST) (data : Bytes) : Except Err (SV × Bytes) :=
  if data.length < t.size then .error .valueError else
  match t with
  | .uint k => .ok (.num (Int.ofNat (fromLE (data.take k))), data.drop k)
  | .sint k =>
    let u : Int := Int.ofNat (fromLE (data.take k))
    .ok (.num (if u < pow256 k / 2 then u else u - pow256 k), data.drop k)
  | .blob m => .ok (.raw (data.take m), data.drop m)

/-! ## records (a struct of scalars, or a single scalar) -/

def encRec : List ST → List SV → Option Bytes
  | [], [] => some []
  | t :: ts, v :: vs =>
    match encS t v, encRec ts vs with
    | some a, some b => some (a ++ b)
    | _, _ => none
  | _, _ => none

def decRec : List ST → Bytes → Except Err (List SV × Bytes)
  | [], data => .ok ([], data)
  | t :: ts, data =>
    match decS t data with
    | .error e => .error e
    | .ok (v, rest) =>
      match decRec ts rest with
      | .error e => .error e
      | .ok (vs, rest') => .ok (v :: vs, rest')

def recSize (ts : List ST) : Nat := (ts.map ST.size).sum

def encRows (ts : List ST) : List (List SV) → Option Bytes
  | [] => some []
  | r :: rs =>
    match encRec ts r, encRows ts rs with
    | some a, some b => some (a ++ b)
    | _, _ => none

/-- exactly `n` records -/
def decRowsN (ts : List ST) : Nat → Bytes → Except Err (List (List SV) × Bytes)
  | 0, data => .ok ([], data)
  | n + 1, data =>
    match decRec ts data with
    | .error e => .error e
    | .ok (r, rest) =>
      match decRowsN ts n rest with
      | .error e => .error e
      | .ok (rs, rest') => .ok (r :: rs, rest')

/-- records `while data:` (fuel = an upper bound on the number of iterations) -/
def decRowsAll (ts : List ST) : Nat → Bytes → Except Err (List (List SV))
  | 0, _ => .ok []
  | fuel + 1, data =>
    if data.isEmpty then .ok [] else
    match decRec ts data with
    | .error e => .error e
    | .ok (r, rest) =>
      match decRowsAll ts fuel rest with
      | .error e => .error e
      | .ok rs => .ok (r :: rs)

/-! ## parameter types -/

def u16s (l : List Nat) : List (List SV) := l.map fun n => [SV.num (Int.ofNat n)]

def encSD (ep pr dt dv : Nat) (ins outs : List Nat) : Option Bytes :=
  match encRec [.uint 1, .uint 2, .uint 2, .uint 1, .uint 1, .uint 1]
      [.num (Int.ofNat ep), .num (Int.ofNat pr), .num (Int.ofNat dt), .num (Int.ofNat dv),
        .num (Int.ofNat ins.length), .num (Int.ofNat outs.length)],
    encRows [.uint 2] (u16s (ins ++ outs)) with
  | some a, some b => some (a ++ b)
  | _, _ => none

def encW (w : WT) (v : Val) : Option Bytes :=
  match w with
  | .sc t => match v with
    | .sc x => encS t x
    | _ => none
  | .lvBytes h => match v with
    | .bytes b => if b.length + 1 < 256 ^ h then some (toLE h b.length ++ b) else none
    | _ => none
  | .lvList h ts => match v with
    | .rows rs => if rs.length < 256 ^ h then (encRows ts rs).map (toLE h rs.length ++ ·) else none
    | _ => none
  | .greedy ts => match v with
    | .rows rs => encRows ts rs
    | _ => none
  | .simpleDesc => match v with
    | .sd ep pr dt dv ins outs => encSD ep pr dt dv ins outs
    | _ => none

def natOf : SV → Nat
  | .num n => n.toNat
  | .raw _ => 0

def decW (w : WT) (data : Bytes) : Except Err (Val × Bytes) :=
  match w with
  | .sc t =>
    match decS t data with
    | .error e => .error e
    | .ok (v, rest) => .ok (.sc v, rest)
  | .lvBytes h =>
    if data.length < h then .error .valueError else
    let n := fromLE (data.take h)
    if data.length < h + n then .error .valueError else
    .ok (.bytes ((data.drop h).take n), data.drop (h + n))
  | .lvList h ts =>
    if data.length < h then .error .valueError else
    match decRowsN ts (fromLE (data.take h)) (data.drop h) with
    | .error e => .error e
    | .ok (rs, rest) => .ok (.rows rs, rest)
  | .greedy ts =>
    match decRowsAll ts data.length data with
    | .error e => .error e
    | .ok rs => .ok (.rows rs, [])
  | .simpleDesc =>
    match decRec [.uint 1, .uint 2, .uint 2, .uint 1, .uint 1, .uint 1] data with
    | .error e => .error e
    | .ok (hd, rest) =>
      match hd with
      | [ep, pr, dt, dv, ic, oc] =>
        match decRowsN [.uint 2] (natOf ic + natOf oc) rest with
        | .error e => .error e
        | .ok (cl, rest') =>
          let cs := cl.map fun r => natOf (r.headD (.num 0))
          .ok (.sd (natOf ep) (natOf pr) (natOf dt) (natOf dv) (cs.take (natOf ic)) (cs.drop (natOf ic)), rest')
      | _ => .error .valueError

/-- does the type consume all remaining bytes? -/
def WT.isGreedy : WT → Bool
  | .greedy _ => true
  | _ => false

/-! ## schema descriptors (the generated command table is a list of these) -/

structure Field where
  name : String
  wt : WT
  optional : Bool := false
  param : Nat := 0               -- index of the Python parameter (flattened zigpy structs share one index)
  enumVals : List Int := []      -- numeric values of the members when the Python type is an enum / bitmap
  deriving Repr, DecidableEq, Inhabited

structure CmdDesc where
  name : String
  header : Nat                   -- effective `cls.header` (version | type << 8 | id << 16)
  blocking : Bool := false
  statusIdx : Option Nat := none -- wire-field index of the parameter named "StatusCode"
  fields : List Field
  deriving Repr, DecidableEq, Inhabited

end Zboss.Wire
