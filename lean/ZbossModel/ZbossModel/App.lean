import ZbossModel.Codec
import ZbossModel.Generated.Tables
import ZbossModel.Generated.Commands
/-! Model of the radio boundary (zigbee/application.py, zigbee/device.py): `send_packet`,
    `on_apsde_indication`, `get_sequence`, `Bind_req` / `Unbind_req`, as maps between records. -/
namespace Zboss.App
open Gen

/-- the fields of a `zigpy.types.ZigbeePacket` that `send_packet` reads -/
structure Packet where
  dstMode : Nat               -- `packet.dst.addr_mode`
  dstAddr : Nat               -- `packet.dst.address` for 16-bit modes
  dstIeee : Bytes             -- `packet.dst.address` (8 bytes, wire order) for the IEEE mode
  srcEp : Option Nat
  dstEp : Option Nat
  tsn : Nat
  profile : Nat
  cluster : Nat
  radius : Option Nat
  txOptions : Nat             -- `packet.tx_options` (zigpy bitmap)
  data : Bytes                -- `packet.data.serialize()`
  deriving Repr, DecidableEq

/-- `c.APS.DataReq.Req(...)` as built by `send_packet` -/
structure DataReq where
  tsn : Nat
  paramLength : Nat
  dataLength : Nat
  dstAddr : Bytes             -- 8 bytes
  profile : Nat
  cluster : Nat
  dstEp : Nat
  srcEp : Nat
  radius : Nat
  dstMode : Nat
  txOptions : Nat
  useAlias : Nat
  aliasSrc : Nat
  aliasSeq : Nat
  payload : Bytes
  deriving Repr, DecidableEq

inductive Routed where
  | zdo                       -- endpoint 0 involved: handled by `zboss_specific_cmd`, no data request
  | req (r : DataReq)
  | refused                   -- a constructor raised (address component out of range)
  deriving Repr, DecidableEq

def orZero : Option Nat → Nat
  | some n => n
  | none => 0

/-- `send_packet(packet)` -/
def sendPacket (p : Packet) : Routed :=
  if p.srcEp = some 0 ∨ p.dstEp = some 0 then .zdo else
  let opts := (if p.txOptions &&& Gen.zigpyTxAck ≠ 0 then Gen.zbossTxAck else 0) |||
              (if p.txOptions &&& Gen.zigpyTxEnc ≠ 0 then Gen.zbossTxSec else 0)
  let ieee := p.dstMode = Gen.addrModeIEEE
  if !ieee && p.dstAddr ≥ 65536 then .refused else     -- `address >> 8` does not fit an EUI64 element
  let dst : Bytes := if ieee then p.dstIeee
    else [UInt8.ofNat (p.dstAddr % 256), UInt8.ofNat (p.dstAddr / 256), 0, 0, 0, 0, 0, 0]
  let mode := if p.dstMode = Gen.addrModeBroadcast then Gen.addrModeGroup else p.dstMode
  .req { tsn := p.tsn, paramLength := 21, dataLength := p.data.length, dstAddr := dst, profile := p.profile,
         cluster := p.cluster, dstEp := orZero p.dstEp, srcEp := orZero p.srcEp, radius := orZero p.radius,
         dstMode := mode, txOptions := opts, useAlias := 0, aliasSrc := 0, aliasSeq := 0, payload := p.data }

/-- the fields of `APS.DataIndication.Ind` that `on_apsde_indication` reads -/
structure Indication where
  payloadLength : Nat
  frameFC : Nat
  srcAddr : Nat
  grpAddr : Nat
  dstEp : Nat
  srcEp : Nat
  cluster : Nat
  profile : Nat
  lqi : Nat
  rssi : Int
  payload : Bytes
  deriving Repr, DecidableEq

/-- the `ZigbeePacket` handed to `packet_received` -/
structure RxPacket where
  srcAddr : Nat
  srcEp : Nat
  dstMode : Nat
  dstAddr : Nat
  dstEp : Nat
  tsn : Nat
  profile : Nat
  cluster : Nat
  data : Bytes
  encrypted : Bool
  lqi : Nat
  rssi : Int
  deriving Repr, DecidableEq

/-- `on_apsde_indication(msg)`; `none` = `IndexError` on `msg.Payload[1]` -/
def onIndication (ownNwk : Nat) (m : Indication) : Option RxPacket :=
  if m.payload.length < 2 then none else
  let bc := m.frameFC &&& Gen.fcBroadcast ≠ 0
  let grp := m.frameFC &&& Gen.fcGroup ≠ 0
  let (mode, addr) :=
    if bc then (Gen.addrModeBroadcast, Gen.broadcastAllRouters)
    else if grp then (Gen.addrModeGroup, m.grpAddr)
    else (Gen.addrModeNWK, ownNwk)
  some { srcAddr := m.srcAddr, srcEp := m.srcEp, dstMode := mode, dstAddr := addr, dstEp := m.dstEp,
         tsn := (m.payload.getD 1 0).toNat, profile := m.profile, cluster := m.cluster,
         data := m.payload.take m.payloadLength, encrypted := m.frameFC &&& Gen.fcSecure ≠ 0,
         lqi := m.lqi, rssi := m.rssi }

/-- `get_sequence()`: new value of `_send_sequence` (also the value returned) -/
def nextSeq (s : Nat) : Nat := (s + 1) % 255

structure BindDst where
  mode : Nat                  -- `dst_address.addrmode`
  ieee : Bytes
  nwk : Nat
  endpoint : Option Nat
  deriving Repr, DecidableEq

structure BindReq where
  tsn : Nat
  targetNwk : Nat
  srcIeee : Bytes
  srcEp : Nat
  cluster : Nat
  dstAddrMode : Nat
  dstAddr : Bytes
  dstEp : Nat
  deriving Repr, DecidableEq

/-- the request `Bind_req` / `Unbind_req` hand to the NCP (`none`: NWK destinations are not supported and
    raise; group addresses above 16 bits do not fit) -/
def bindReq (tsn targetNwk : Nat) (srcIeee : Bytes) (srcEp cluster : Nat) (d : BindDst) : Option BindReq :=
  if d.mode = Gen.addrModeIEEE then
    some ⟨tsn, targetNwk, srcIeee, srcEp, cluster, Gen.bindModeIEEE, d.ieee, orZero d.endpoint⟩
  else if d.mode = Gen.addrModeGroup then
    if d.nwk ≥ 65536 then none else
    some ⟨tsn, targetNwk, srcIeee, srcEp, cluster, Gen.bindModeGroup,
      [UInt8.ofNat (d.nwk % 256), UInt8.ofNat (d.nwk / 256), 0, 0, 0, 0, 0, 0], orZero d.endpoint⟩
  else none

end Zboss.App
