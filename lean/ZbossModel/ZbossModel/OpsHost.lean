import ZbossModel.Host
namespace Zboss.OpsHost
open Zboss Host

def showOutcome : Outcome → String
  | .ret => "RET" | .timeoutError => "TimeoutError" | .cancelled => "CANCELLED" | .runtimeError => "RuntimeError"

def showOut : Out → String
  | .write i f q n => s!"W{i}.{f}.{q}.{n}"
  | .wack => "WACK"
  | .done i o => s!"D{i}={showOutcome o}"
  | .closeOut => "CLOSE"
  | .appLost => "APPLOST"

def parseEv (s : String) : Option Ev :=
  match s.splitOn ":" with
  | ["S", i, k, b, n, t] => do pure (.start (← i.toNat?) (← k.toNat?) (b == "1") (← n.toNat?) (← t.toNat?))
  | ["A", k] => do pure (.rxAck (← k.toNat?))
  | ["R", k] => do pure (.rxRsp (← k.toNat?))
  | ["T"] => some .tick
  | ["C", i] => do pure (.cancel (← i.toNat?))
  | ["X"] => some .close
  | ["L"] => some .lost
  | ["Z", b] => some (.setReset (b == "1"))
  | ["N"] => some .connect
  | _ => none

def handle : List String → Option String
  | "host" :: evs => do
    let evs ← evs.mapM parseEv
    let r := runEvents {} evs
    let logs := r.2.map fun l => if l.isEmpty then "." else "+".intercalate (l.map showOut)
    let running := (r.1.reqs.filter (·.phase != .done)).length
    -- did the model's event loop come to rest after every event (the fuel of `settle` sufficed)?
    let unsettled := (evs.foldl (fun (acc : St × Nat) e => let s := step acc.1 e; (s, if s.ready.isEmpty then acc.2 else acc.2 + 1))
      (({} : St), 0)).2
    pure (";".intercalate logs ++
      s!" | now={r.1.now} running={running} listeners={r.1.listeners.length} pack={r.1.pack} unsettled={unsettled}")
  | _ => none

end Zboss.OpsHost
