import ZbossModel.Ops
/-! Line protocol driver: one request per line on stdin, one canonical answer
    line on stdout.  Imports model files only (no Mathlib, no proofs). -/
open Zboss

partial def loop (h : IO.FS.Stream) (out : IO.FS.Stream) : IO Unit := do
  let line ← h.getLine
  if line.isEmpty then return ()
  let toks := (line.trimAscii.toString.splitOn " ").filter (· ≠ "")
  out.putStrLn (Ops.handle toks)
  loop h out

def main : IO Unit := do
  let out ← IO.getStdout
  loop (← IO.getStdin) out
  out.flush
