-- Root of the `ZbossModel` library: models, helper lemmas and property theorems.
import ZbossModel.Basic
import ZbossModel.Crc
import ZbossModel.Ops
import ZbossModel.Props.C03
