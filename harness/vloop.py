"""asyncio event loop with a virtual clock, plus the fixture that wires a real
`ZbossNcpProtocol` (and optionally a real `ZBOSS` api) to a recording transport.

`settle()` runs the loop until no callback is ready (a quiescent point);
`advance_to_next()` jumps the clock to the earliest pending timer."""
import asyncio
import heapq
import logging

from common import hx
import rxworld

# The library's log calls are left enabled down to DEBUG - as in a default installation - so that whatever hangs on
# them (filters, eager formatting) runs; the records go to a handler that discards them.
logging.getLogger().addHandler(logging.NullHandler())
logging.getLogger().setLevel(logging.DEBUG)
logging.getLogger("asyncio").setLevel(logging.WARNING)


class VLoop(asyncio.SelectorEventLoop):
    def __init__(self):
        super().__init__()
        self._vt = 0.0

    def time(self):
        return self._vt

    def settle(self):
        n = 0
        while True:
            self.call_soon(self.stop)
            self.run_forever()
            n += 1
            if not self._ready:
                return n
            if n > 10000:
                raise RuntimeError("event loop does not become quiescent")

    def next_timer(self):
        while self._scheduled and self._scheduled[0]._cancelled:
            h = heapq.heappop(self._scheduled)
            h._scheduled = False
        return self._scheduled[0]._when if self._scheduled else None

    def nudge(self, fraction):
        """let a fraction of the time to the next timer pass (no timer becomes due)"""
        w = self.next_timer()
        if w is not None and w > self._vt and 0 < fraction < 1:
            self._vt += fraction * (w - self._vt)

    def advance_to_next(self):
        w = self.next_timer()
        if w is None:
            return False
        self._vt = max(self._vt, w)
        self.settle()
        return True


class LinkWorld:
    """A real ZbossNcpProtocol on a virtual-time loop; senders are bare tasks calling `send`."""

    def __init__(self, with_api=False):
        from zigpy_zboss import uart
        import zigpy_zboss.config as conf
        self.loop = VLoop()
        asyncio.set_event_loop(self.loop)
        self.log = []
        cfg = {conf.CONF_DEVICE_PATH: "/dev/null", conf.CONF_DEVICE_BAUDRATE: 115200, conf.CONF_DEVICE_FLOW_CONTROL: None}
        self.api = rxworld.ApiStub(self.log)

        async def mk():
            return uart.ZbossNcpProtocol(cfg, self.api)
        self.p = self.loop.run_until_complete(mk())
        self.tr = rxworld.RecTransport(self.log)
        self.p.connection_made(self.tr)
        self.tasks = {}

    def mark(self):
        return len(self.log)

    def since(self, m):
        return self.log[m:]

    def start_send(self, i, frame):
        tk = self.loop.create_task(self.p.send(frame))
        self.tasks[i] = tk

        def done(tk, i=i):
            if tk.cancelled():
                self.log.append("canc%d" % i)
            elif tk.exception() is not None:
                self.log.append("exc%d:%s" % (i, type(tk.exception()).__name__))
            else:
                self.log.append("done%d" % i)
        tk.add_done_callback(done)
        self.loop.settle()

    def rx(self, b):
        try:
            self.p.data_received(bytes(b))
        except BaseException as ex:  # noqa
            self.log.append("RAISED:" + type(ex).__name__)
        self.loop.settle()

    def tick(self):
        return self.loop.advance_to_next()

    def cancel(self, i):
        tk = self.tasks.get(i)
        if tk is not None and not tk.done():
            tk.cancel()
        self.loop.settle()

    def close(self):
        self.p.close()
        self.loop.settle()

    def reconnect(self):
        self.p.connection_made(self.tr)
        self.loop.settle()

    def shutdown(self):
        for tk in self.tasks.values():
            if not tk.done():
                tk.cancel()
        try:
            self.loop.settle()
        finally:
            self.loop.close()
            asyncio.set_event_loop(None)


def canon_step(entries):
    """ordered wire/deliver events, then the sorted completion events of the step"""
    wd = [e for e in entries if e[0] in "WD" or e.startswith("RAISED")]
    comp = sorted(e for e in entries if e.startswith(("done", "canc", "exc")))
    return wd + comp
