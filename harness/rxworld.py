"""Real `ZbossNcpProtocol` with a recording transport and API stub, driven
chunk by chunk; produces the same canonical log as the Lean `rx` op."""
import asyncio
import logging

logging.disable(logging.CRITICAL)   # the receiver logs every injected handler failure with a traceback

from common import hx


class RecTransport:
    def __init__(self, log):
        self.log = log

        class S:
            name = "verif"
            baudrate = 115200
        self.serial = S()

    def write(self, b):
        self.log.append("W" + hx(bytes(b)))

    def close(self):
        self.log.append("CLOSE")


def show_frame(f):
    hl = f.hl_packet
    if hl is None:
        s = "none"
    elif hl.header is None:
        s = "raw:" + hx(bytes(hl.data))
    else:
        s = "hdr=%d:%s" % (int(hl.header), hx(bytes(hl.data)))
    return "ll=%d hl=%s" % (int(f.ll_header), s)


class ApiStub:
    def __init__(self, log, raise_at=()):
        self.log = log
        self.raise_at = set(raise_at)
        self.n = 0

    def frame_received(self, frame):
        self.log.append("D" + show_frame(frame))
        k = self.n
        self.n += 1
        if k in self.raise_at:
            raise RuntimeError("handler failure injected at frame %d" % k)

    def connection_lost(self, exc):
        self.log.append("LOST")


_loop = None


def loop():
    global _loop
    if _loop is None:
        _loop = asyncio.new_event_loop()
    return _loop


def make(seq=0, transport=True, has_event=False, raise_at=()):
    from zigpy_zboss import uart
    import zigpy_zboss.config as conf
    cfg = {conf.CONF_DEVICE_PATH: "/dev/null", conf.CONF_DEVICE_BAUDRATE: 115200, conf.CONF_DEVICE_FLOW_CONTROL: None}
    log = []

    async def mk():
        p = uart.ZbossNcpProtocol(cfg, ApiStub(log, raise_at))
        if has_event:
            p._ack_received_event = asyncio.Event()
        return p
    p = loop().run_until_complete(mk())
    p._pack_seq = seq
    p._transport = RecTransport(log) if transport else None
    return p, log


def session(chunks, seq=0, transport=True, has_event=False, raise_at=()):
    """Returns (per-chunk logs, final state string, raised-or-None)."""
    p, log = make(seq, transport, has_event, raise_at)
    outs = []
    raised = None
    for c in chunks:
        mark = len(log)
        try:
            p.data_received(bytes(c))
        except BaseException as ex:  # noqa: the property says nothing may escape
            raised = type(ex).__name__
            log.append("RAISED:" + raised)
        outs.append(",".join(log[mark:]) if len(log) > mark else ".")
    ev = p._ack_received_event
    final = "seq=%d ack=%d ev=%d buf=%s" % (p._pack_seq, p._ack_seq, 1 if (ev is not None and ev.is_set()) else 0,
                                          hx(bytes(p._buffer)))
    return outs, final, raised


def rx_line(chunks, seq=0, transport=True, has_event=False):
    return "rx %d %d %d %s" % (seq, int(transport), int(has_event), " ".join(hx(c) for c in chunks))
