"""Real `ZbossNcpProtocol` with a recording transport and API stub, driven
chunk by chunk; produces the same canonical log as the Lean `rx` op."""
import asyncio
import logging

import priv

# The library's log calls are left enabled down to DEBUG - as in a default installation - so that whatever hangs on
# them (filters, eager formatting) runs; the records go to a handler that discards them.
logging.getLogger().addHandler(logging.NullHandler())
logging.getLogger().setLevel(logging.DEBUG)
logging.getLogger("asyncio").setLevel(logging.WARNING)

from common import hx


class RecTransport:
    def __init__(self, log):
        self.log = log

        class S:
            name = "verif"
            baudrate = 115200
        self.serial = S()

    def write(self, b):
        self.log.append("W" + hx(bytes(b)))

    def close(self):
        self.log.append("CLOSE")


def show_frame(f):
    hl = f.hl_packet
    if hl is None:
        s = "none"
    elif hl.header is None:
        s = "raw:" + hx(bytes(hl.data))
    else:
        s = "hdr=%d:%s" % (int(hl.header), hx(bytes(hl.data)))
    return "ll=%d hl=%s" % (int(f.ll_header), s)


class ApiStub:
    """The upper layer.  `raise_at`: frame positions at which the handler fails with an ordinary exception;
    `base_raise_at`: positions at which it is cancelled (`asyncio.CancelledError` - not an `Exception`: it propagates);
    `close_at`: positions at which it closes the port from inside the hand-up, as `ZBOSS.close()` does"""
    def __init__(self, log, raise_at=(), base_raise_at=(), close_at=()):
        self.log = log
        self.raise_at = set(raise_at)
        self.base_raise_at = set(base_raise_at)
        self.close_at = set(close_at)
        self.proto = None
        self.n = 0

    def frame_received(self, frame):
        self.log.append("D" + show_frame(frame))
        k = self.n
        self.n += 1
        if k in self.close_at and self.proto is not None:
            self.log.append("HANDLER-CLOSES")
            self.proto.close()
        if k in self.base_raise_at:
            raise asyncio.CancelledError()
        if k in self.raise_at:
            raise RuntimeError("handler failure injected at frame %d" % k)

    def connection_lost(self, exc):
        self.log.append("LOST")


_loop = None


def loop():
    global _loop
    if _loop is None:
        _loop = asyncio.new_event_loop()
    return _loop


_DUMMY = None


def _dummy_frame():
    """A small request frame used to put the transmitter into its ACK wait."""
    import zigpy_zboss.commands as c
    return c.NcpConfig.GetModuleVersion.Req(TSN=1).to_frame()


def _ack_bytes(seq):
    import streams
    return streams.ack(seq)


def make(seq=0, transport=True, has_event=False, raise_at=(), reset_flag=False):
    """A protocol object in the given link state, reached through public entry points only:
    the sequence number by feeding the matching acknowledgements, the transport by `connection_made`
    (and `close` for "gone again"), a pending ACK wait by a real `send` task left waiting."""
    from zigpy_zboss import uart
    import zigpy_zboss.config as conf
    cfg = {conf.CONF_DEVICE_PATH: "/dev/null", conf.CONF_DEVICE_BAUDRATE: 115200, conf.CONF_DEVICE_FLOW_CONTROL: None}
    log = []
    api = ApiStub(log, ())
    lp = loop()

    async def mk():
        return uart.ZbossNcpProtocol(cfg, api)
    p = lp.run_until_complete(mk())
    task = None
    setup_raised = None
    mode = int(has_event)          # 0 none, 1 send waiting for its ACK, 2 send ended by its ACK, 3 send ended by expiry
    if mode == 2 and (seq == 0 or not transport):
        mode = 1
    if mode == 3 and not transport:
        mode = 1
    p._verif_mode = mode
    if not transport and mode and seq != 0:
        # not reachable without also setting the event (close() resets the numbering): legacy path
        priv.put(p, "proto", "ack_event", lp.run_until_complete(_mk_event()))
        priv.put(p, "proto", "pack_seq", seq)
    else:
        target = seq
        if mode == 2:
            target = {1: 0, 2: 1, 3: 2}[seq]     # the send's own ACK will advance the number to `seq`
        cur = 0
        for _ in range(target):                   # 0 -> 1 -> 2 -> 3 by matching ACKs (no send is waiting yet)
            try:
                p.data_received(_ack_bytes(cur))
            except BaseException as ex:  # noqa: nothing may escape the receive entry point - reported by `session`
                setup_raised = type(ex).__name__
            cur = cur % 3 + 1
        if transport or mode:
            p.connection_made(RecTransport(log))
        if mode:
            old_to = getattr(uart, "ACK_TIMEOUT", None)
            if mode == 3:
                if old_to is None:
                    mode = 1
                else:
                    uart.ACK_TIMEOUT = 0.005

            async def start():
                t = asyncio.ensure_future(p.send(_dummy_frame()))
                for _ in range(5):
                    await asyncio.sleep(0)
                if mode == 2:
                    p.data_received(_ack_bytes(cur))
                    await t
                    return None
                if mode == 3:
                    await asyncio.wait_for(t, 2)
                    return None
                return t
            try:
                task = lp.run_until_complete(start())
            finally:
                if old_to is not None:
                    uart.ACK_TIMEOUT = old_to
        if not transport and mode:
            p.close()
    del log[:]
    api.raise_at = set(raise_at)
    api.n = 0
    api.proto = p
    p._verif_api = api
    p._verif_task = task
    p._verif_setup_raised = setup_raised
    if reset_flag:
        # what `ZBOSS.reset()` does before it sends the reset request (public property): the receive path and `send`
        # do not depend on it
        try:
            p.reset_flag = True
        except Exception:
            pass
    return p, log


async def _mk_event():
    return asyncio.Event()


def _peek(p, name, default=None):
    return getattr(p, name, default)


def auto_reset_flag(chunks):
    """a deterministic quarter of all sessions runs with the reset flag raised"""
    import zlib
    return zlib.crc32(b"".join(bytes(c) for c in chunks)) % 4 == 0


def session(chunks, seq=0, transport=True, has_event=False, raise_at=(), reset_flag=None):
    """Returns (per-chunk logs, final state string, raised-or-None)."""
    if reset_flag is None:
        reset_flag = auto_reset_flag(chunks)
    p, log = make(seq, transport, has_event, raise_at, reset_flag)
    outs = []
    raised = getattr(p, "_verif_setup_raised", None)     # an acknowledgement fed while reaching the link state escaped
    for c in chunks:
        mark = len(log)
        try:
            p.data_received(bytes(c))
        except BaseException as ex:  # noqa: the property says nothing may escape
            raised = type(ex).__name__
            log.append("RAISED:" + raised)
        outs.append(",".join(log[mark:]) if len(log) > mark else ".")
    # private fields are read for a tighter comparison when they exist; a refactor that renames them only
    # loosens the comparison ("?" components are masked on the model side as well)
    ev = priv.get(p, "proto", "ack_event", "?")
    ps, aseq, buf = priv.get(p, "proto", "pack_seq", "?"), priv.get(p, "proto", "ack_seq", "?"), priv.get(p, "proto", "buffer", "?")
    final = "seq=%s ack=%s ev=%s buf=%s" % (
        ps, aseq, "?" if ev == "?" else (1 if (ev is not None and ev.is_set()) else 0),
        "?" if buf == "?" else hx(bytes(buf)))
    t = getattr(p, "_verif_task", None)
    if t is not None:
        t.cancel()
        try:
            loop().run_until_complete(t)
        except BaseException:
            pass
    return outs, final, raised


def mask_like(model_line, impl_line):
    """Mask in the model's answer the state components the implementation no longer exposes."""
    if "?" not in impl_line.split(" | ")[-1]:
        return model_line
    try:
        head, tail = model_line.rsplit(" | ", 1)
        itail = impl_line.rsplit(" | ", 1)[1]
        out = []
        for m, i in zip(tail.split(" "), itail.split(" ")):
            out.append(i if i.endswith("=?") else m)
        return head + " | " + " ".join(out)
    except Exception:
        return model_line


def rx_line(chunks, seq=0, transport=True, has_event=False):
    mode = int(has_event)
    if mode == 2 and (seq == 0 or not transport):
        mode = 1
    ev = {0: 0, 1: 1, 2: 2, 3: 1}[mode]
    return "rx %d %d %d %s" % (seq, int(transport), ev, " ".join(hx(c) for c in chunks))
