"""Translator 4: closed integer expressions of the algorithms -> Lean `Int` functions (Generated/Exprs.lean).

The hand-written models contain a few arithmetic expressions copied from the source (next packet sequence
number, number of fragments, size of the first fragment, next application sequence number).  Here the
*source's own* expression is located in the Python `ast` of the function it lives in and translated
structurally; the property files prove, for every argument, that it equals the model's expression
(`C08_source_exprs`, `C09_source_exprs`, `C18_source_exprs`).  A change of the expression in the source then
breaks a proof obligation, not only the differential run.

Python -> Lean (`Int`): `+ - *`, unary `-`, `//` and `%` by a *positive constant* (floor division = Lean's
`/` there), `a or b` / `a and b` on integers, `max` / `min`, `int(...)`; names and `self._x` attributes become
parameters, module-level integer constants are evaluated.  When the expression cannot be located (the code was
restructured) the pinned default is emitted instead and the fact is recorded in `exprs_status.json`: the tie for
that expression is then the differential run alone - never an alarm by itself.
"""
from __future__ import annotations

import ast
import importlib
import inspect
import json
import os
import textwrap


class Untranslatable(Exception):
    pass


def _const(node, glob):
    """integer value of a constant expression evaluated in the module's namespace, or None"""
    try:
        v = eval(compile(ast.Expression(node), "<expr>", "eval"), dict(glob))
    except Exception:
        return None
    try:
        if isinstance(v, bool):
            return None
        return int(v)
    except Exception:
        return None


def _is_class(node, glob):
    try:
        v = eval(compile(ast.Expression(node), "<expr>", "eval"), dict(glob))
    except Exception:
        return False
    return isinstance(v, type)


def _single_assignments(fn):
    """{name: value-expression} for local names that are assigned exactly once (plain `name = expr`) in the function"""
    seen, count = {}, {}
    for node in ast.walk(fn):
        tgts = []
        if isinstance(node, ast.Assign):
            tgts = [t for t in node.targets]
        elif isinstance(node, (ast.AugAssign, ast.AnnAssign)):
            tgts = [node.target]
        elif isinstance(node, (ast.For, ast.AsyncFor)):
            tgts = [node.target]
        for t in tgts:
            for nm in ast.walk(t):
                if isinstance(nm, ast.Name):
                    count[nm.id] = count.get(nm.id, 0) + 1
                    if isinstance(node, ast.Assign) and len(node.targets) == 1 and isinstance(t, ast.Name):
                        seen[nm.id] = node.value
    return {k: v for k, v in seen.items() if count.get(k) == 1}


def _inline(n, env, depth=0):
    """replace single-assignment local names by their defining expressions (a refactor that names a sub-expression
    must not change the translation)"""
    if depth > 6:
        return n

    class T(ast.NodeTransformer):
        def visit_Name(self, node):
            if isinstance(node.ctx, ast.Load) and node.id in env:
                return _inline(env[node.id], {k: v for k, v in env.items() if k != node.id}, depth + 1)
            return node
    import copy
    return T().visit(copy.deepcopy(n))


def _tr(n, glob, params, mode="int"):
    lit = (lambda k: "(%d : Int)" % k) if mode == "int" else (lambda k: "%d" % k)

    def rec(x):
        return _tr(x, glob, params, mode)

    def param(name):
        name = name.lstrip("_")
        if name not in params:
            params.append(name)
        return name
    if isinstance(n, ast.Constant):
        if isinstance(n.value, int) and not isinstance(n.value, bool) and (mode == "int" or n.value >= 0):
            return lit(n.value)
        raise Untranslatable("constant %r" % (n.value,))
    if isinstance(n, ast.Name):
        if n.id not in glob or _const(n, glob) is None:
            return param(n.id)
        return lit(_const(n, glob))
    if isinstance(n, ast.Attribute):
        c = _const(n, glob)
        if c is not None and (mode == "int" or c >= 0):
            return lit(c)
        return param(n.attr)          # self._x, frame.ll_header.flags, ... : a value of the surrounding state
    if isinstance(n, ast.UnaryOp) and isinstance(n.op, ast.USub) and mode == "int":
        return "(-%s)" % rec(n.operand)
    if isinstance(n, ast.BinOp):
        a, b = n.left, n.right
        if isinstance(n.op, ast.Add):
            return "(%s + %s)" % (rec(a), rec(b))
        if isinstance(n.op, ast.Sub) and mode == "int":
            return "(%s - %s)" % (rec(a), rec(b))
        if isinstance(n.op, ast.Mult):
            return "(%s * %s)" % (rec(a), rec(b))
        if isinstance(n.op, (ast.FloorDiv, ast.Mod)):
            d = _const(b, glob)
            if d is None or d <= 0:
                raise Untranslatable("division by a non-constant or non-positive value")
            return "(%s %s %d)" % (rec(a), "/" if isinstance(n.op, ast.FloorDiv) else "%", d)
        if mode == "nat":
            if isinstance(n.op, ast.BitAnd):
                return "(%s &&& %s)" % (rec(a), rec(b))
            if isinstance(n.op, ast.BitOr):
                return "(%s ||| %s)" % (rec(a), rec(b))
            if isinstance(n.op, (ast.LShift, ast.RShift)):
                k = _const(b, glob)
                if k is None or k < 0:
                    raise Untranslatable("shift by a non-constant")
                return "(%s %s %d)" % (rec(a), "<<<" if isinstance(n.op, ast.LShift) else ">>>", k)
        raise Untranslatable(ast.dump(n.op))
    if isinstance(n, ast.BoolOp) and mode == "int":
        f = "pyOr" if isinstance(n.op, ast.Or) else "pyAnd"
        acc = rec(n.values[0])
        for v in n.values[1:]:
            acc = "(%s %s %s)" % (f, acc, rec(v))
        return acc
    if isinstance(n, ast.Call) and len(n.args) == 1 and not n.keywords:
        if isinstance(n.func, ast.Name) and n.func.id == "int":
            return rec(n.args[0])
        if _is_class(n.func, glob):        # a wrapper type around an integer: t.LLFlags(...), uint8_t(...)
            return rec(n.args[0])
    if isinstance(n, ast.Call) and isinstance(n.func, ast.Name) and n.func.id in ("max", "min") \
            and len(n.args) == 2 and not n.keywords:
        return "(%s %s %s)" % (n.func.id, rec(n.args[0]), rec(n.args[1]))
    raise Untranslatable(ast.dump(n)[:80])


def _func_ast(obj):
    src = textwrap.dedent(inspect.getsource(obj))
    return ast.parse(src).body[0], inspect.getsourcefile(obj), inspect.getsourcelines(obj)[1]


def _find(fn, pred):
    hits = []
    for node in ast.walk(fn):
        v = pred(node)
        if v is not None:
            hits.append((node, v))
    return hits


def _assign_to_name(name):
    def pred(node):
        if isinstance(node, ast.Assign) and len(node.targets) == 1 and isinstance(node.targets[0], ast.Name) \
                and node.targets[0].id == name:
            return node.value
    return pred


def _assign_to_self(attr):
    def pred(node):
        if isinstance(node, ast.Assign) and len(node.targets) == 1:
            t = node.targets[0]
            if isinstance(t, ast.Attribute) and isinstance(t.value, ast.Name) and t.value.id == "self" and t.attr == attr:
                return node.value
    return pred


def _return(node):
    if isinstance(node, ast.Return) and node.value is not None:
        return node.value


# (lean name, module, qualified function, locator, parameter list of the pinned default, pinned default, doc[, mode])
TARGETS = [
    ("ackSeqOfFlagsExpr", "zigpy_zboss.uart", "ZbossNcpProtocol.data_received", _assign_to_name("ack_seq"), ["flags"],
     "((flags &&& 48) >>> 4)", "sequence number carried by an acknowledgement", "nat"),
    ("packSeqOfFlagsExpr", "zigpy_zboss.uart", "ZbossNcpProtocol.data_received", _assign_to_self("_ack_seq"), ["flags"],
     "((flags &&& 12) >>> 2)", "sequence number of a received data frame (echoed in its ACK)", "nat"),
    ("stampSeqExpr", "zigpy_zboss.uart", "ZbossNcpProtocol._set_frame_flag", _assign_to_name("flag"), ["pack_seq"],
     "(pack_seq <<< 2)", "sequence bits OR-ed into the flags of an outgoing data frame", "nat"),
    ("ackFlagSeqExpr", "zigpy_zboss.frames", "Frame.ack", _assign_to_name("flag"), ["ack_seq"],
     "(ack_seq <<< 4)", "sequence bits of an acknowledgement frame", "nat"),
    ("countFragmentsExpr", "zigpy_zboss.frames", "Frame.count_fragments", _return, ["ll_body_size"],
     "(-((-ll_body_size) / 247))", "number of fragments of a body"),
    ("firstFragSizeExpr", "zigpy_zboss.frames", "Frame.handle_tx_fragmentation", _assign_to_name("first_frag_size"),
     ["total_size"], "(max (pyOr (total_size % 247) (247 : Int)) (4 : Int))", "size of the first fragment"),
    ("nextPackSeqExpr", "zigpy_zboss.uart", "ZbossNcpProtocol.data_received", _assign_to_self("_pack_seq"),
     ["pack_seq"], "((pack_seq % 3) + (1 : Int))", "packet sequence number after a matching ACK"),
    ("nextSendSeqExpr", "zigpy_zboss.zigbee.application", "ControllerApplication.get_sequence",
     _assign_to_self("_send_sequence"), ["send_sequence"], "((send_sequence + (1 : Int)) % 255)",
     "next application sequence number"),
]


def gen_exprs(status_out=None):
    out = ["/- GENERATED by harness/extract_exprs.py from /repo's working tree. Do not edit. -/",
           "namespace Zboss.Gen", "",
           "/-- Python `a or b` on integers -/",
           "def pyOr (a b : Int) : Int := if a ≠ 0 then a else b",
           "/-- Python `a and b` on integers -/",
           "def pyAnd (a b : Int) : Int := if a ≠ 0 then b else a", ""]
    status = {}
    for tgt in TARGETS:
        lean, modname, qual, locator, dparams, default, doc = tgt[:7]
        mode = tgt[7] if len(tgt) > 7 else "int"
        ty = "Int" if mode == "int" else "Nat"
        expr, params, where = None, None, None
        try:
            mod = importlib.import_module(modname)
            obj = mod
            for part in qual.split("."):
                obj = getattr(obj, part)
            obj = inspect.unwrap(obj)
            fn, path, line0 = _func_ast(obj)
            hits = _find(fn, locator)
            env = _single_assignments(fn)
            cands = []
            if len(hits) != 1:
                # assigned on several paths (an if / elif chain, a loop): no single expression stands for the value
                raise Untranslatable("%d assignments / returns match in %s" % (len(hits), qual))
            for node, val in hits:
                # as written first; if that does not mention exactly the expected state variables, with the
                # single-assignment locals of the function inlined
                for variant in (val, _inline(val, {k: v for k, v in env.items() if k not in dparams})):
                    ps = []
                    try:
                        e = _tr(variant, vars(mod), ps, mode)
                    except Untranslatable:
                        continue
                    if sorted(ps) == sorted(dparams):
                        cands.append((e, ps, node.lineno + line0 - 1))
                        break
            if len(cands) == 1:
                expr, params, ln = cands[0]
                where = "%s (%s)" % (modname.replace(".", "/") + ".py", qual)   # no line number: it would churn the build
                status[lean] = dict(located=True, where=where, lean=expr)
            else:
                status[lean] = dict(located=False, reason="%d translatable candidate(s) in %s" % (len(cands), qual))
        except Untranslatable as ex:
            status[lean] = dict(located=False, reason=str(ex))
        except Exception as ex:  # function moved / renamed
            status[lean] = dict(located=False, reason="%s: %s" % (type(ex).__name__, ex))
        if expr is None:
            expr, params = default, dparams
            out.append("/-- %s - NOT LOCATED in `%s` (%s); pinned default -/" % (doc, qual, status[lean]["reason"]))
        else:
            out.append("/-- %s: the expression at %s, parameters in order of appearance -/" % (doc, where))
        out.append("def %s %s : %s := %s" % (lean, " ".join("(%s : %s)" % (p, ty) for p in params), ty, expr))
    out += ["", "end Zboss.Gen"]
    if status_out is not None:
        with open(status_out, "w") as f:
            json.dump(status, f, indent=1)
    return "\n".join(out) + "\n"


if __name__ == "__main__":
    print(gen_exprs())
