#!/bin/bash
# usage: harness/seedround.sh <verif-dir> <label> <worktree> <patch> <demo> <Cxx> [Cyy ...]
# 1. confirms the seeded change in its scratch worktree (harness/seedverify.sh);
# 2. applies it to /repo, runs the quick checks of <verif-dir> (a copy of /verif may be given so that work in
#    /verif itself is not disturbed), undoes it.  One line per step on stdout.
set -u
R="${SEED_REPO:-/repo}"
vd="$1"; label="$2"; wt="$3"; patch="$4"; demo="$5"; shift 5
echo "== $label"
v=$("$vd/harness/seedverify.sh" "$wt" "$patch" "$demo" 2>&1 | tail -1)
echo "$label verify: $v"
case "$v" in
  "demo clean rc=0, mutated rc=1, tests: baseline-ok") ;;
  *) echo "$label NOT CONFIRMED"; exit 0;;
esac
if ! git -C "$R" diff --quiet; then echo "$R is dirty"; exit 2; fi
git -C "$R" apply "$patch" || { echo "$label patch does not apply to /repo"; exit 0; }
for p in "$@"; do
  out=$(cd "$vd" && ZBOSS_REPO="$R" ./check "$p" ${TIER:-quick} 2>&1 | grep -E "VIOLATION|seed=|INFRA" | cut -c1-200 | tr '\n' ' ')
  echo "$label $p: $out"
done
git -C "$R" checkout -- .
