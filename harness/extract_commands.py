"""Translator 3: the complete command table of /repo's working tree -> Generated/Commands.lean.

For every Req / Rsp / Ind class: the *effective* header (`cls.header`, not the CommandDef
arguments), the blocking flag and, per schema parameter, a wire-type descriptor derived from the
parameter's Python type by introspection (integer width and signedness from `_bits`/`_signed`, list
header and item types from the class attributes, struct field lists, blob sizes measured by
deserialising), the optional flag, and for enum / bitmap types the numeric values of the members.
zigpy structs made of plain fields are flattened into consecutive parameters; zigpy bit-field structs
(NodeDescriptor, PowerDescriptor, Neighbor) are blobs of their measured size."""
from __future__ import annotations

import enum


def _all_classes():
    from zigpy_zboss import commands as c
    out = []
    for grp in c.ALL_COMMANDS:
        for cmd in grp:
            for k in (cmd.Req, cmd.Rsp, cmd.Ind):
                if k is not None:
                    out.append(k)
    return out


def _blob_size(T):
    v, rest = T.deserialize(bytes(96))
    n = 96 - len(rest)
    if len(v.serialize()) != n:
        raise ValueError("not a fixed-size type: %r" % T)
    return n


def scalar_of(T):
    """('uint'|'sint'|'blob', size) for a scalar-like type, else None"""
    import zigpy.types as zt
    if isinstance(T, type) and issubclass(T, zt.FixedIntType):
        if T._bits % 8:
            return None
        return ("sint" if T._signed else "uint", T._bits // 8)
    if isinstance(T, type) and issubclass(T, (zt.EUI64, zt.KeyData)):
        return ("blob", _blob_size(T))
    return None


def record_of(T):
    """list of scalars for a list item type (a scalar, a struct of scalars, or a bit-field struct as a blob)"""
    import zigpy.types as zt
    s = scalar_of(T)
    if s is not None:
        return [s]
    if isinstance(T, type) and issubclass(T, zt.Struct):
        fs = [scalar_of(f.type) for f in T.fields]
        if all(x is not None for x in fs):
            return fs
        return [("blob", _blob_size(T))]
    raise NotImplementedError("record type %r" % T)


def fields_of(name, T):
    """[(field name, descriptor, enum values)] - usually one entry, several for flattened structs"""
    import zigpy.types as zt
    import zigpy.zdo.types as zdo_t
    from zigpy_zboss.types import basic
    import zigpy_zboss.types as t
    ev = []
    if isinstance(T, type) and issubclass(T, enum.Enum):
        ev = sorted(set(int(m.value) if not isinstance(m.value, tuple) else int(m) for m in T))
    s = scalar_of(T)
    if s is not None:
        return [(name, ("sc", s), ev)]
    if issubclass(T, t.SimpleDescriptor):
        return [(name, ("simpleDesc",), [])]
    if issubclass(T, zt.LVBytes):
        return [(name, ("lvBytes", T._prefix_length), [])]
    if issubclass(T, basic.LVList):
        h = scalar_of(T._header)
        assert h[0] == "uint"
        return [(name, ("lvList", h[1], record_of(T._item_type)), [])]
    if issubclass(T, basic.CompleteList):
        return [(name, ("greedy", record_of(T._item_type)), [])]
    if issubclass(T, zt.LVList):
        h = scalar_of(T._length_type)
        assert h[0] == "uint"
        return [(name, ("lvList", h[1], record_of(T._item_type)), [])]
    if issubclass(T, zt.List):
        return [(name, ("greedy", record_of(T._item_type)), [])]
    if issubclass(T, zt.Struct):
        plain = True
        out = []
        for f in T.fields:
            try:
                out += fields_of(name + "." + f.name, f.type)
            except NotImplementedError:
                plain = False
                break
        if plain and out:
            return out
        return [(name, ("sc", ("blob", _blob_size(T))), [])]
    raise NotImplementedError("parameter type %r" % T)


def table():
    """[(class, qualname, header, blocking, [(field name, descriptor, optional, enum values)])]"""
    rows = []
    for cls in _all_classes():
        fl = []
        for p in cls.schema:
            for (n, d, ev) in fields_of(p.name, p.type):
                fl.append((n, d, bool(p.optional), ev))
        rows.append((cls, cls.__qualname__, int(cls.header), bool(cls.blocking), fl))
    return rows


def _st(s):
    return ".%s %d" % s


def _wt(d):
    if d[0] == "sc":
        return ".sc (%s)" % _st(d[1])
    if d[0] == "lvBytes":
        return ".lvBytes %d" % d[1]
    if d[0] == "lvList":
        return ".lvList %d [%s]" % (d[1], ", ".join(_st(x) for x in d[2]))
    if d[0] == "greedy":
        return ".greedy [%s]" % ", ".join(_st(x) for x in d[1])
    if d[0] == "simpleDesc":
        return ".simpleDesc"
    raise ValueError(d)


def param_indices(fl):
    """index of the Python parameter each wire field belongs to (flattened struct fields share one)"""
    pidx, k, prev = [], 0, None
    for (n, d, o, ev) in fl:
        base = n.split(".")[0]
        if prev == base:
            pidx.append(k - 1)
        else:
            pidx.append(k)
            k += 1
            prev = base
    return pidx


def status_index(fl):
    return next((i for i, f in enumerate(fl) if f[0] == "StatusCode"), None)


def lean_table(rows, defname, doc):
    out = ["/-- %s -/" % doc, "def %s : List CmdDesc := [" % defname]
    items = []
    for _, qn, hdr, blocking, fl in rows:
        fs = ",\n      ".join(
            "{ name := \"%s\", wt := %s, optional := %s, param := %d, enumVals := [%s] }"
            % (n, _wt(d), "true" if o else "false", pi, ", ".join(str(v) for v in ev))
            for (n, d, o, ev), pi in zip(fl, param_indices(fl)))
        si = status_index(fl)
        items.append("  { name := \"%s\", header := %d, blocking := %s, statusIdx := %s, fields := [\n      %s] }"
                     % (qn, hdr, "true" if blocking else "false", "none" if si is None else "some %d" % si, fs))
    out.append(",\n".join(items))
    out.append("]")
    return "\n".join(out)


def gen_commands() -> str:
    rows = table()
    out = ["/- GENERATED by harness/extract_commands.py from /repo's working tree. Do not edit. -/",
           "import ZbossModel.Wire", "namespace Zboss.Gen", "open Zboss.Wire", "",
           lean_table(rows, "commands", "all Req / Rsp / Ind classes of zigpy_zboss.commands, in definition order"),
           "", "end Zboss.Gen", ""]
    return "\n".join(out)


if __name__ == "__main__":
    print(gen_commands()[:3000])
