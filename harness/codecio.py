"""Bridge between real command objects and the value syntax of the Lean codec ops."""
import extract_commands


_TABLE = None


def table():
    global _TABLE
    if _TABLE is None:
        _TABLE = extract_commands.table()
    return _TABLE


def index_of(cls):
    for i, row in enumerate(table()):
        if row[0] is cls:
            return i
    raise KeyError(cls)


def _sv(st, v):
    kind, n = st
    if kind in ("uint", "sint"):
        return "n%d" % int(v)
    b = v.serialize() if hasattr(v, "serialize") else bytes(v)
    return "x" + (bytes(b).hex() or "-")


def _row(rec, item):
    import zigpy.types as zt
    if len(rec) == 1:
        return _sv(rec[0], item)
    # struct of scalars
    return ",".join(_sv(st, getattr(item, f.name)) for st, f in zip(rec, type(item).fields))


def val_str(desc, v):
    if v is None:
        return "_"
    k = desc[0]
    if k == "sc":
        return _sv(desc[1], v)
    if k == "lvBytes":
        return "b" + (bytes(v).hex() or "-")
    if k == "lvList":
        return "r[" + ";".join(_row(desc[2], it) for it in v) + "]"
    if k == "greedy":
        return "r[" + ";".join(_row(desc[1], it) for it in v) + "]"
    if k == "simpleDesc":
        return "d%d,%d,%d,%d/%s/%s" % (int(v.endpoint), int(v.profile), int(v.device_type), int(v.device_version),
                                      ",".join(str(int(x)) for x in v.input_clusters),
                                      ",".join(str(int(x)) for x in v.output_clusters))
    raise ValueError(desc)


def to_strings(idx, cmd):
    """value strings per wire field of command `cmd` (an instance of table()[idx][0])"""
    out = []
    for (name, desc, optional, ev) in table()[idx][4]:
        parts = name.split(".")
        v = getattr(cmd, parts[0])
        for p in parts[1:]:
            v = None if v is None else getattr(v, p)
        out.append(val_str(desc, v))
    return out


def wt_str(desc):
    def st(s):
        return {"uint": "u", "sint": "s", "blob": "o"}[s[0]] + str(s[1])
    k = desc[0]
    if k == "sc":
        return st(desc[1])
    if k == "lvBytes":
        return "L%d" % desc[1]
    if k == "lvList":
        return "l%d[%s]" % (desc[1], ",".join(st(x) for x in desc[2]))
    if k == "greedy":
        return "g[%s]" % ",".join(st(x) for x in desc[1])
    return "D"
