"""Schedule generator, runner (real code) and model comparison for the request-level properties
C11, C13, C14, C20."""
import priv
import hostworld
import streams
from common import hx

def _ack_ms():
    """the acknowledgement wait of the working tree, in virtual milliseconds (a configuration value, not part of any property)"""
    try:
        from zigpy_zboss import uart
        return int(round(float(uart.ACK_TIMEOUT) * 1000))
    except Exception:
        return 1000


ACK_MS = _ack_ms()


def gen_schedule(r, nsteps, weights=None, kinds="GPZDWZGBEF", max_live=3, allow_close=True, allow_reset=False):
    """abstract schedule: list of (event, arg)"""
    w = dict(start=4, ack=4, rsp=3, rsp2=0.5, tick=3, cancel=1, badack=1, close=0.25, lost=0.15, reset=0.0, connect=0.0, ind=0.6)
    if weights:
        w.update(weights)
    if "connect" not in (weights or {}):
        # `connect()` on the same object only makes sense once the link is gone: as likely as closing / losing it
        w["connect"] = 1.5 * (w["close"] + w["lost"])
    if not allow_close:
        w["close"] = 0
        w["lost"] = 0
        w["connect"] = 0
    if allow_reset:
        w["reset"] = max(w["reset"], 0.3)
    names = list(w)
    evs = []
    for _ in range(nsteps):
        evs.append((r.choices(names, [w[n] for n in names])[0], r.random(), r.choice(kinds), r.choice([3000, 5000, 7000])))
    return evs


def lifecycle_schedule(r, kinds="GPZDWBEF"):
    """a schedule around the life cycle of the connection: traffic, then the link goes (close / loss, with or without a
    deliberate reset in progress), `connect()` on the same object - possibly while an interrupted request still sits in its
    acknowledgement wait -, traffic on the new connection; once or twice"""
    def ev(name):
        return (name, r.random(), r.choice(kinds), r.choice([3000, 5000, 7000, 9000]))

    def traffic(n, names, weights):
        return [ev(r.choices(names, weights)[0]) for _ in range(n)]
    s = []
    for _ in range(r.choice([1, 1, 2])):
        s += traffic(r.randrange(2, 7), ["start", "ack", "rsp"], [4, 5, 1])
        in_reset = r.random() < 0.35
        if in_reset:
            s.append(ev("reset"))
        s.append(ev(r.choice(["close", "close", "lost"])))
        s += traffic(r.randrange(0, 3), ["tick", "ack", "start", "close"], [2, 2, 2, 0.5])
        s.append(ev("connect"))
        if in_reset and r.random() < 0.8:
            s.append(ev("reset"))
        s += traffic(r.randrange(4, 12), ["start", "ack", "rsp", "tick", "cancel", "badack"], [4, 6, 3, 2, 0.7, 0.5])
    return s


def long_schedule(r, cycles, kinds="GPZDWBEF"):
    """a long, mostly sequential history: many requests one after the other, each acknowledged and most of them answered;
    now and then one is cancelled, times out, or overlaps with the next - what only shows after a counter has wrapped or a
    table has filled up"""
    def ev(name, kind="G"):
        return (name, r.random(), kind, r.choice([3000, 5000]))
    s = []
    for _ in range(cycles):
        k = r.choice(kinds)
        s.append(ev("start", k))
        x = r.random()
        if x < 0.08:
            s.append(ev("start", r.choice(kinds)))          # overlap with one more request
        for _ in range(4):
            s.append(ev("ack", k))
        if x < 0.80:
            s.append(ev("rsp", k)); s.append(ev("rsp", k))
        elif x < 0.90:
            s.append(ev("cancel", k))
        else:
            s.append(ev("tick", k)); s.append(ev("tick", k))
        if r.random() < 0.15:
            s.append(ev("ind", k))
    return s


class Trace:
    def __init__(self):
        self.tokens = []       # model event tokens
        self.steps = []        # per step: list of canonical entries (model vocabulary)
        self.labels = []       # per step: event label
        self.times = []        # virtual time (ms) after each step
        self.listeners = []    # registered one-shot listeners after each step
        self.live = []         # live request ids after each step
        self.reqs = {}         # id -> dict(kind, blocking, nfrags, timeout, body(hex of HL bytes), started_step)
        self.writes = []       # (step, id, frag index, raw bytes)
        self.raised = []
        self.rsp_at = {}       # step -> (command key, number of response frames delivered in that step)
        self.merge = set()     # token indices whose model step is merged into the previous one (same real step)


def run_schedule(r, sched, drain=True, max_live=3):
    K = hostworld.kinds()
    w = hostworld.HostWorld()
    tr = Trace()
    tsn = 0
    fragcount = {}
    reset_on = False
    try:
        def record(label, mark):
            entries = w.log[mark:]
            canon = []
            for e in entries:
                if e.startswith("W"):
                    hexpart, _, who = e[1:].partition("#")
                    raw = bytes.fromhex(hexpart)
                    fl = raw[5]
                    if fl & 1:
                        canon.append("WACK")
                        continue
                    rid = int(who)             # id of the request task that performed the write
                    k = fragcount.get(rid, 0)
                    fragcount[rid] = k + 1
                    n = tr.reqs[rid]["nfrags"] if rid in tr.reqs else 0
                    canon.append("W%d.%d.%d.%d" % (rid, k, (fl >> 2) & 3, n))
                    tr.writes.append((len(tr.steps), rid, k, raw))
                elif e.startswith("RAISED"):
                    tr.raised.append((len(tr.steps), e))
                    canon.append(e)
                elif e == "RECONNECTED":
                    continue
                else:
                    canon.append(e)
            wd = [c for c in canon if not c.startswith("D")]
            ds = sorted(c for c in canon if c.startswith("D"))
            tr.steps.append(wd + ds)
            tr.labels.append(label)
            tr.times.append(w.now_ms())
            tr.listeners.append(w.n_listeners())
            tr.live.append(sorted(i for i, tk in w.tasks.items() if not tk.done()))
        for (ev, x, kind, to) in sched:
            live = [i for i, tk in w.tasks.items() if not tk.done()]
            m = w.mark()
            if ev == "start":
                if len(live) >= max_live:
                    continue
                tsn += 1
                mk, Rsp, kw = K[kind]
                req = mk(tsn)
                nfr = len(req.to_frame().handle_tx_fragmentation())
                to_ms = to + tsn * 13
                tr.reqs[tsn] = dict(kind=kind, blocking=bool(req.blocking), nfrags=nfr, timeout=to_ms,
                                    body=req.to_frame().hl_packet.serialize()[2:], step=len(tr.steps), rsp=(Rsp, kw))
                tr.tokens.append("S:%d:%d:%d:%d:%d" % (tsn, hostworld.KEY[kind], int(req.blocking), nfr, to_ms))
                w.start(tsn, req, to_ms / 1000)
                record("start", m)
            elif ev in ("ack", "badack"):
                cur = priv.pack_seq(w.p)
                k = cur if ev == "ack" else (cur + 1 + int(x * 3)) % 4
                tr.tokens.append("A:%d" % k)
                w.rx(streams.ack(k))
                record("ack" if k == cur else "badack", m)
            elif ev == "ind":
                # an unsolicited indication of any kind (nobody listens): acknowledged, and nothing else happens - for the
                # model a response for a command nobody waits for
                b = hostworld.indication_bytes(r, int(x * 4))
                if b is None:
                    continue
                tr.tokens.append("R:999")
                w.rx(b)
                record("ind", m)
            elif ev == "rsp":
                if not tr.reqs:
                    continue
                ids = list(tr.reqs)
                rid = ids[int(x * len(ids))]
                Rsp, kw = tr.reqs[rid]["rsp"]
                tr.tokens.append("R:%d" % hostworld.KEY[tr.reqs[rid]["kind"]])
                w.rx(hostworld.rsp_bytes(Rsp, rid, int(x * 4) % 4, **kw))
                tr.rsp_at[len(tr.steps)] = (hostworld.KEY[tr.reqs[rid]["kind"]], 1)
                record("rsp", m)
            elif ev == "rsp2":
                # two responses for the same command inside ONE read (one data_received call)
                if not tr.reqs:
                    continue
                ids = list(tr.reqs)
                rid = ids[int(x * len(ids))]
                Rsp, kw = tr.reqs[rid]["rsp"]
                key = hostworld.KEY[tr.reqs[rid]["kind"]]
                tr.tokens.append("R:%d" % key)
                tr.tokens.append("R:%d" % key)
                tr.merge.add(len(tr.tokens) - 1)
                w.rx(hostworld.rsp_bytes(Rsp, rid, 1, **kw) + hostworld.rsp_bytes(Rsp, rid, 2, **kw))
                tr.rsp_at[len(tr.steps)] = (key, 2)
                record("rsp2", m)
            elif ev == "tick":
                tr.tokens.append("T")
                w.tick()
                record("tick", m)
            elif ev == "cancel":
                if not live:
                    continue
                rid = live[int(x * len(live))]
                tr.tokens.append("C:%d" % rid)
                w.cancel(rid)
                record("cancel:%d" % rid, m)
            elif ev == "close":
                tr.tokens.append("X")
                w.close()
                record("close", m)
            elif ev == "lost":
                if priv.get(w.api, "api", "uart") is None:
                    continue
                tr.tokens.append("L")
                w.lost()
                record("lost", m)
            elif ev == "connect":
                if priv.get(w.api, "api", "uart", "?") is not None:
                    continue            # `connect()` asserts that the object is not connected
                tr.tokens.append("N")
                w.reconnect()
                record("connect", m)
            elif ev == "reset":
                reset_on = not reset_on
                tr.tokens.append("Z:%d" % int(reset_on))
                w.set_reset(reset_on)
                record("reset:%d" % int(reset_on), m)
        if drain:
            tr.drained = False
            for _ in range(200):
                if not any(not tk.done() for tk in w.tasks.values()):
                    tr.drained = True
                    break
                m = w.mark()
                tr.tokens.append("T")
                if not w.tick():
                    tr.tokens.pop()
                    tr.drained = True          # no timer left: whatever still runs waits for ever
                    break
                record("tick", m)
        tr.final_listeners = w.n_listeners()
        tr.final_live = [i for i, tk in w.tasks.items() if not tk.done()]
    finally:
        w.shutdown()
    return tr


def model_steps(ans):
    body, tail = ans.rsplit(" | ", 1)
    steps = []
    for s in body.split(";"):
        ents = [] if s == "." else s.split("+")
        wd = [c for c in ents if not c.startswith("D")]
        ds = sorted(c for c in ents if c.startswith("D"))
        steps.append(wd + ds)
    info = dict(x.split("=") for x in tail.split(" "))
    return steps, info


def compare(ctx, traces):
    if not ctx.driver:
        return
    ans = ctx.driver.ask(["host " + " ".join(tr.tokens) for tr in traces])
    for tr, a in zip(traces, ans):
        ctx.traces += 1
        if not tr.tokens:
            continue
        ms, info = model_steps(a)
        real_steps = tr.steps
        if int(info.get("unsettled", 0)):
            # the theorems about successive events assume the model's loop is at rest between events
            ctx.mismatch("host-model-not-quiescent", dict(events=tr.tokens), "ready = [] after every event",
                         "%s event(s) left tasks on the ready list" % info["unsettled"])
        if tr.merge:
            # both frames of one read are acknowledged before any task runs: within a merged step compare the
            # ACK writes first, then the data writes in order, then the completions
            def order(st):
                return [c for c in st if c == "WACK"] + [c for c in st if c != "WACK" and not c.startswith("D")] + \
                    sorted(c for c in st if c.startswith("D"))
            merged, flags = [], []
            for k, st in enumerate(ms):
                if k in tr.merge and merged:
                    merged[-1] = order(merged[-1] + st)
                    flags[-1] = True
                else:
                    merged.append(st)
                    flags.append(False)
            ms = merged
            real_steps = [order(st) if f else st for st, f in zip(tr.steps, flags)] if len(flags) == len(tr.steps) else tr.steps
        if ms != real_steps or int(info["now"]) != (tr.times[-1] if tr.times else 0):
            bad = next((i for i, (x, y) in enumerate(zip(ms, real_steps)) if x != y), len(real_steps) - 1)
            ctx.mismatch("host", dict(events=tr.tokens, first_differing_step=bad, event=tr.tokens[bad] if bad < len(tr.tokens) else None),
                         dict(step=ms[bad] if bad < len(ms) else None, now=info["now"]),
                         dict(step=real_steps[bad] if bad < len(real_steps) else None, now=tr.times[-1] if tr.times else 0))


# ---------------------------------------------------------------------------------------------------------
# trace monitors (implementation only)

def monitor_c11(ctx, tr):
    inp = dict(events=tr.tokens)
    # well-formed writes
    for (step, rid, k, raw) in tr.writes:
        ok = raw[:2] == b"\xde\xad" and int.from_bytes(raw[2:4], "little") == len(raw) - 2 and raw[4] == 6 \
            and streams.crc8(raw[2:6]) == raw[6] and int.from_bytes(raw[7:9], "little") == streams.crc16(raw[9:])
        if not ok:
            ctx.counterexample("wire-not-wellformed", dict(inp, step=step), "well-formed frame", hx(raw[:12]), "a byte sequence written is not a well-formed frame")
            return
    # contiguity + reference NCP
    cur, parts, abandoned = None, [], set()
    received = {}
    for (step, rid, k, raw) in tr.writes:
        fl = raw[5]
        if fl & 0x40:
            if cur is not None and cur != rid:
                abandoned.add(cur)
            cur, parts = rid, []
        else:
            if rid != cur:
                ctx.counterexample("fragments-interleaved", dict(inp, step=step), "continuation of message %s" % cur, "fragment of %d" % rid,
                                   "a fragment of one message is written between the fragments of another")
                return
        if rid in abandoned:
            ctx.counterexample("abandoned-message-resumed", dict(inp, step=step), None, rid, "a message interrupted by another one is resumed")
            return
        parts.append(raw[9:])
        if fl & 0x80:
            received[rid] = b"".join(parts)
            cur, parts = None, []
    for rid, body in received.items():
        if body != tr.reqs[rid]["body"]:
            ctx.counterexample("ncp-receives-other-bytes", dict(inp, request=rid), hx(tr.reqs[rid]["body"])[:60], hx(body)[:60],
                               "a protocol-following NCP does not receive exactly the request's header and parameters")
            return
    # each fragment only after the previous one's acknowledgement wait ended: never two data frames in one step
    # unless the first one's wait was ended by this step's event (then the earlier write is from an earlier step)
    per_step = {}
    for (step, rid, k, raw) in tr.writes:
        per_step.setdefault(step, []).append((rid, k))
    for step, ws in per_step.items():
        if len(ws) > 1:
            ctx.counterexample("fragment-without-ack-wait", dict(inp, step=step), "one data frame per step", ws,
                               "a data frame was written without waiting for the previous frame's acknowledgement or expiry")
            return
    # ... and a continuation fragment is only ever written by an event that ends the previous fragment's wait: the
    # matching acknowledgement or the expiry of the wait - not a cancellation, a response, a new request
    for (step, rid, k, raw) in tr.writes:
        if not (raw[5] & 0x40) and step < len(tr.labels) and tr.labels[step].split(":")[0] not in ("ack", "tick"):
            ctx.counterexample("fragment-not-after-ack-or-expiry", dict(inp, step=step, event=tr.labels[step]),
                               "written when the previous fragment is acknowledged or its wait expires", (rid, k),
                               "a continuation fragment was written by an event that neither acknowledged the previous fragment nor expired its wait")
            return
    # every request gets its turn: after the drain (every timer has fired) nothing is still running - a request that is
    # neither written nor ended would wait for ever
    stuck = [i for i in getattr(tr, "final_live", []) or []]
    if stuck and getattr(tr, "drained", False):
        ctx.counterexample("request-never-sent-nor-ended", dict(inp, requests=stuck), "every request is written or ends by its timeout",
                           dict(still_running=stuck, wrote=[i for i in stuck if any(w[1] == i for w in tr.writes)]),
                           "a request is still running after every timer has fired: it was never transmitted and never ended")
        return
    # a response is only awaited (the request only returns) after its last fragment went out
    last_written = {rid: step for (step, rid, k, raw) in tr.writes if raw[5] & 0x80}
    for s, st in enumerate(tr.steps):
        for e in st:
            if e.startswith("D") and e.endswith("=RET"):
                rid = int(e[1:].split("=")[0])
                if rid not in last_written or last_written[rid] > s:
                    ctx.counterexample("returned-before-sent", dict(inp, step=s), "last fragment written first", e,
                                       "a request returned a response before its last fragment was sent")
                    return


def monitor_c08(ctx, tr):
    """packet sequence numbers seen from the API down: every data frame written carries the current number - 0 on a fresh
    connection, advanced (0 -> 1 -> 2 -> 3 -> 1 ...) by a matching acknowledgement and by nothing else (not by a response, an
    indication of any kind, a timer, a cancellation), back to 0 when the port is closed / opened again"""
    inp = dict(events=tr.tokens)
    expect = 0
    by_step = {}
    for (step, rid, k, raw) in tr.writes:
        by_step.setdefault(step, []).append((rid, k, (raw[5] >> 2) & 3))
    for s, lab in enumerate(tr.labels):
        kind = lab.split(":")[0]
        # writes of this step happen after the event's own effect on the number
        if kind == "ack":
            expect = expect % 3 + 1
        elif kind in ("close", "connect"):
            expect = 0
        for (rid, k, seq) in by_step.get(s, []):
            if seq != expect:
                ctx.counterexample("seq-stamp-through-api", dict(inp, step=s, event=lab), expect, seq,
                                   "a data frame is stamped with a packet sequence number that is not the current one")
                return


def monitor_c13(ctx, tr):
    inp = dict(events=tr.tokens)
    for s, st in enumerate(tr.steps):
        if any(e.endswith("=RET-NONE") for e in st):
            ctx.counterexample("returned-none", dict(inp, step=s), "response or exception", st, "a request returned nothing")
            return
        if tr.listeners[s] > len(tr.live[s]):
            ctx.counterexample("listener-residue", dict(inp, step=s), "listeners <= running requests (%d)" % len(tr.live[s]), tr.listeners[s],
                               "a finished request left its response listener registered")
            return
    if not tr.final_live and tr.final_listeners:
        ctx.counterexample("listener-residue", inp, 0, tr.final_listeners, "listeners remain after every request has finished")
    # "the next request for the same command receives its own response": a request that timed out although more
    # responses for its command arrived while it was surely waiting (from its first write to its end) than there
    # were earlier requests for that command still running (each of which can take one) was robbed of its response
    first_write, ended = {}, {}
    for (s, rid, k, raw) in tr.writes:
        first_write.setdefault(rid, s)
    for s, st in enumerate(tr.steps):
        for e in st:
            if e.startswith("D"):
                ended[int(e[1:].split("=")[0])] = (s, e.split("=")[1])
    for rid, (s_end, how) in ended.items():
        if how != "TimeoutError" or rid not in first_write:
            continue
        key = hostworld.KEY[tr.reqs[rid]["kind"]]
        s0 = first_write[rid]
        n_rsp = sum(n for s, (k, n) in tr.rsp_at.items() if k == key and s0 < s <= s_end)
        absorbers = [o for o in tr.reqs if o < rid and hostworld.KEY[tr.reqs[o]["kind"]] == key
                     and (o not in ended or ended[o][0] > s0)]
        if n_rsp > len(absorbers):
            ctx.counterexample("own-response-not-received", dict(inp, request=rid, first_write_step=s0, end_step=s_end),
                               "request %d returns a response (%d responses for its command arrived while it waited, "
                               "%d earlier requests could take one)" % (rid, n_rsp, len(absorbers)), "TimeoutError",
                               "a request did not receive its own response although it arrived while the request was waiting")
            return


def monitor_c14(ctx, tr):
    inp = dict(events=tr.tokens)
    active = None        # blocking request between its first write and its end
    first_write_order = []
    for s, st in enumerate(tr.steps):
        # completions of a step are applied first: the done-callback that logs them runs after the wake-up of
        # the next lock holder, although the lock was released before that holder could write
        for e in st:
            if e.startswith("D") and int(e[1:].split("=")[0]) == active:
                active = None
        for e in st:
            if e.startswith("W") and e != "WACK":
                rid = int(e[1:].split(".")[0])
                if tr.reqs[rid]["blocking"]:
                    if active is not None and active != rid:
                        ctx.counterexample("blocking-overlap", dict(inp, step=s), "only request %d writes" % active, e,
                                           "a frame of another blocking request is written while a blocking request is in progress")
                        return
                    if active is None:
                        active = rid
                        first_write_order.append(rid)
            elif e.startswith("D"):
                rid = int(e[1:].split("=")[0])
                if rid == active:
                    active = None
    if first_write_order != sorted(first_write_order):
        ctx.counterexample("blocking-not-fifo", inp, sorted(first_write_order), first_write_order, "blocking requests are not served in issue order")


def monitor_c20(ctx, tr):
    inp = dict(events=tr.tokens)
    closed_at = None
    in_reset = False
    intervals = []      # (step of close, time of close, first step that is no longer "after that close")
    for s, (lab, st) in enumerate(zip(tr.labels, tr.steps)):
        if lab.startswith("reset:"):
            in_reset = lab.endswith("1")
        if lab == "connect":
            # `connect()` on the same object: the clauses about "after close" end here (a request interrupted by the
            # close goes on with its leftover fragments on the new connection)
            if closed_at is not None:
                intervals.append((closed_at[0], closed_at[1], s))
            closed_at = None
        if lab == "close":
            if in_reset:
                continue        # listeners are kept during a deliberate reset
            if closed_at is None:
                closed_at = (s, tr.times[s])
            elif any(e.startswith("RAISED") for e in st):
                ctx.counterexample("second-close-raises", dict(inp, step=s), "harmless", st, "closing again is not harmless")
        if lab == "start" and closed_at is not None:
            rid = max(i for i, q in tr.reqs.items() if q["step"] <= s)
            if ("D%d=RuntimeError" % rid) not in st:
                ctx.counterexample("request-after-close-accepted", dict(inp, step=s), "refused immediately", st, "a new request after close is not refused immediately")
                return
    if closed_at is not None:
        intervals.append((closed_at[0], closed_at[1], len(tr.steps)))
    for (s0, t0, s1) in intervals:
        for s in range(s0, s1):
            late = [e for e in tr.steps[s] if e.startswith("D") and tr.reqs[int(e[1:].split("=")[0])]["step"] <= s0]
            if tr.times[s] > t0 + ACK_MS and late:
                ctx.counterexample("stranded-after-close", dict(inp, step=s, closed_at_ms=t0), "all requests done by %d ms" % (t0 + ACK_MS),
                                   dict(time=tr.times[s], ended=late), "a request in flight at close() ended only after the acknowledgement wait")
                return
            if tr.times[s] > t0 + ACK_MS and any(i for i in tr.live[s] if tr.reqs[i]["step"] <= s0):
                ctx.counterexample("stranded-after-close", dict(inp, step=s, closed_at_ms=t0), "all requests done by %d ms" % (t0 + ACK_MS),
                                   dict(time=tr.times[s], running=tr.live[s]), "a request in flight at close() is still running after the acknowledgement wait")
                return
    # connection loss: reported once per loss, not during a reset
    resetting = False
    for s, (lab, st) in enumerate(zip(tr.labels, tr.steps)):
        if lab.startswith("reset:"):
            resetting = lab.endswith("1")
        n = st.count("APPLOST")
        if lab == "lost":
            want = 0 if resetting else 1
            if n != want:
                ctx.counterexample("loss-report", dict(inp, step=s), want, n, "connection loss is not reported exactly once (or is reported during a reset)")
                return
        elif n:
            ctx.counterexample("loss-report", dict(inp, step=s), 0, n, "connection loss reported without a loss")
            return
    if tr.final_live:
        ctx.counterexample("never-terminates", inp, "all requests end by their timeout", tr.final_live, "a request never terminates")
