"""Real `ZBOSS` api + `ZbossNcpProtocol` on the virtual-time loop, driven at quiescent points with
the same events as the Lean `Host` model; canonical per-step logs for the comparison and for the
trace monitors of C11 / C13 / C14 / C20."""
import asyncio
import contextvars
from unittest import mock

import priv
import rxworld
import streams
import vloop
from common import hx


def kinds():
    """request kinds: (letter, builder(tsn) -> request, response class, response kwargs)"""
    from zigpy_zboss import commands as c
    import zigpy_zboss.types as t
    import zigpy.types as zt
    ieee = t.EUI64.convert("00:11:22:33:44:55:66:77")

    def datareq(tsn, n=300):
        tsn = tsn % 256
        return c.APS.DataReq.Req(TSN=tsn, ParamLength=21, DataLength=n, DstAddr=ieee, ProfileID=260, ClusterId=6, DstEndpoint=1,
                                 SrcEndpoint=1, Radius=0, DstAddrMode=zt.AddrMode.NWK, TxOptions=c.aps.TransmitOptions.NONE,
                                 UseAlias=0, AliasSrcAddr=0, AliasSeqNbr=0, Payload=t.Payload(bytes([tsn]) * n))

    def wnv(tsn, n=600):
        tsn = tsn % 256
        return c.NcpConfig.WriteNVRAM.Req(TSN=tsn, DatasetCnt=1, DatasetId=t.DatasetId(1), Version=1,
                                         Dataset=t.NVRAMDataset(bytes([tsn]) * n))
    G, P, Z = c.NcpConfig.GetShortAddr, c.NcpConfig.GetParentAddr, c.NcpConfig.GetZigbeeRole
    return {
        "G": (lambda tsn: G.Req(TSN=tsn % 256), G.Rsp, dict(NWKAddr=1)),
        "P": (lambda tsn: P.Req(TSN=tsn % 256), P.Rsp, dict(NWKParentAddr=1)),
        "Z": (lambda tsn: Z.Req(TSN=tsn % 256), Z.Rsp, dict(DeviceRole=t.DeviceRole(0))),
        "D": (lambda tsn: datareq(tsn), c.APS.DataReq.Rsp, dict(DstAddr=ieee, DstEndpoint=1, SrcEndpoint=1, TxTime=0, DstAddrMode=zt.AddrMode.NWK)),
        "W": (lambda tsn: wnv(tsn), c.NcpConfig.WriteNVRAM.Rsp, dict()),
        "B": (lambda tsn: wnv(tsn, 900), c.NcpConfig.WriteNVRAM.Rsp, dict()),
        # body lengths 248 and 497: residues 1 and 3 modulo the fragment size
        "E": (lambda tsn: wnv(tsn, 236), c.NcpConfig.WriteNVRAM.Rsp, dict()),
        "F": (lambda tsn: wnv(tsn, 485), c.NcpConfig.WriteNVRAM.Rsp, dict()),
        # a message of two dozen fragments
        "H": (lambda tsn: wnv(tsn, 5600), c.NcpConfig.WriteNVRAM.Rsp, dict()),
    }


KEY = {"G": 1, "P": 2, "Z": 3, "D": 4, "W": 5, "B": 5, "E": 5, "F": 5, "H": 5}


def rsp_bytes(Rsp, tsn, seq, **kw):
    import zigpy_zboss.types as t
    r = Rsp(TSN=tsn % 256, StatusCat=t.StatusCategory(0), StatusCode=t.StatusCodeGeneric(0), **kw)
    body = r.to_frame().hl_packet.serialize()[2:]
    return streams.raw_frame(0xC0 | (seq << 2), body)


_IND = []


def indication_bytes(r, seq):
    """the wire bytes of a random indication (every indication class the library defines) with generated parameters"""
    import gen
    import zigpy_zboss.types as t
    if not _IND:
        _IND.extend(c for c in gen.all_command_classes() if (int(c.header) >> 8) & 0xFF == 2)
    for _ in range(5):
        cls = r.choice(_IND)
        try:
            body = gen.gen_cmd(cls, r).to_frame().hl_packet.serialize()[2:]
        except Exception:
            continue
        if len(body) <= 247:
            return streams.raw_frame(0xC0 | (seq << 2), body)
    return None


class HostWorld:
    def __init__(self):
        from zigpy_zboss import uart
        from zigpy_zboss.api import ZBOSS
        import zigpy_zboss.config as conf
        self.loop = vloop.VLoop()
        asyncio.set_event_loop(self.loop)
        self.log = []
        self.cfg = cfg = {conf.CONF_DEVICE: {conf.CONF_DEVICE_PATH: "/dev/null", conf.CONF_DEVICE_BAUDRATE: 115200, conf.CONF_DEVICE_FLOW_CONTROL: None}}

        async def mk():
            api = ZBOSS(cfg)
            p = uart.ZbossNcpProtocol(cfg[conf.CONF_DEVICE], api)
            return api, p
        self.api, self.p = self.loop.run_until_complete(mk())
        # the request a write belongs to: every request task carries its id in a context variable
        self.cur = contextvars.ContextVar("request_id", default=0)
        world = self

        class Tr(rxworld.RecTransport):
            def write(self, b):
                self.log.append("W%s#%d" % (hx(bytes(b)), world.cur.get()))
        self.tr = Tr(self.log)
        self.p.connection_made(self.tr)
        priv.put(self.api, "api", "uart", self.p)
        app = mock.Mock()
        app.connection_lost = lambda exc: self.log.append("APPLOST")
        app.get_sequence = lambda: 1
        self.api.set_application(app)
        self.app = app
        self.tasks = {}
        self.results = {}

    def mark(self):
        return len(self.log)

    def start(self, i, req, timeout_s):
        async def runner():
            self.cur.set(i)
            return await self.api.request(req, timeout=timeout_s)
        tk = self.loop.create_task(runner())
        self.tasks[i] = tk

        def done(tk, i=i):
            if tk.cancelled():
                r = "CANCELLED"
            elif tk.exception() is not None:
                r = type(tk.exception()).__name__
            else:
                res = tk.result()
                self.results[i] = res
                r = "RET" if res is not None else "RET-NONE"
            self.log.append("D%d=%s" % (i, r))
        tk.add_done_callback(done)
        self.loop.settle()

    def rx(self, b):
        try:
            self.p.data_received(bytes(b))
        except BaseException as ex:  # noqa
            self.log.append("RAISED:" + type(ex).__name__)
        self.loop.settle()

    def tick(self):
        return self.loop.advance_to_next()

    def cancel(self, i):
        tk = self.tasks.get(i)
        if tk is not None and not tk.done():
            tk.cancel()
        self.loop.settle()

    def close(self):
        self.api.close()
        self.loop.settle()

    def lost(self):
        self.p.connection_lost(None)
        self.loop.settle()

    def set_reset(self, on):
        async def hold():
            async with priv.get(self.api, "api", "reset_lock"):
                await self._release.wait()
        if on:
            self._release = asyncio.Event()
            self._holder = self.loop.create_task(hold())
        else:
            self._release.set()
        self.loop.settle()

    def start_reset(self, real_connect=False, fail_first=0):
        """the real `ZBOSS.reset()`.  By default the serial re-open (`connect`) is replaced by a fresh protocol on a
        recording transport; with `real_connect` the real `ZBOSS.connect()` / `uart.connect()` run and only
        `zigpy.serial.create_serial_connection` is substituted - its first `fail_first` calls raise `OSError` (the
        device node is not back yet), later ones hand the recording transport to a protocol made by the real factory."""
        from zigpy_zboss import uart
        import zigpy_zboss.config as conf
        world = self

        async def connect():
            cfg = self.cfg[conf.CONF_DEVICE]
            p = uart.ZbossNcpProtocol(cfg, self.api)
            p.connection_made(self.tr)
            priv.put(self.api, "api", "uart", p)
            self.p = p
            self.log.append("RECONNECTED")
        if not real_connect:
            self.api.connect = connect
        else:
            import zigpy.serial
            self._opens = 0

            async def create_serial_connection(loop, protocol_factory, url, **kw):
                world._opens += 1
                if world._opens <= fail_first:
                    world.log.append("OPENFAILED")
                    raise OSError(2, "could not open port " + str(url))
                p = protocol_factory()
                p.connection_made(world.tr)
                world.p = p
                world.log.append("RECONNECTED")
                return world.tr, p
            self._serial_patch = mock.patch.object(zigpy.serial, "create_serial_connection", create_serial_connection)
            self._serial_patch.start()

        async def runner():
            self.cur.set(99)
            return await self.api.reset()
        tk = self.loop.create_task(runner())
        self.reset_task = tk
        tk.add_done_callback(lambda tk: self.log.append(
            "RESETDONE=%s" % ("CANCELLED" if tk.cancelled() else type(tk.exception()).__name__ if tk.exception() else "OK")))
        self.loop.settle()

    def reconnect(self):
        """the real `ZBOSS.connect()` on the same object (after `close()`): `uart.connect` runs, only
        `zigpy.serial.create_serial_connection` is substituted by the recording transport"""
        import zigpy.serial
        world = self

        async def create_serial_connection(loop, protocol_factory, url, **kw):
            p = protocol_factory()
            p.connection_made(world.tr)
            world.p = p
            world.log.append("RECONNECTED")
            return world.tr, p
        with mock.patch.object(zigpy.serial, "create_serial_connection", create_serial_connection):
            tk = self.loop.create_task(self.api.connect())
            self.loop.settle()
            if not tk.done():
                tk.cancel()
                self.loop.settle()
                self.log.append("RECONNECT-FAILED")
            elif tk.exception() is not None:
                self.log.append("RECONNECT-FAILED:" + type(tk.exception()).__name__)
            elif priv.get(self.api, "api", "app") is None:
                # the owning application attaches itself again (a plain close() had detached it)
                self.api.set_application(self.app)

    def now_ms(self):
        return int(round(self.loop.time() * 1000))

    def shutdown(self):
        for tk in (list(self.tasks.values()) + ([self._holder] if hasattr(self, "_holder") else [])
                   + ([self.reset_task] if hasattr(self, "reset_task") else [])):
            if not tk.done():
                tk.cancel()
        try:
            self.loop.settle()
        finally:
            if hasattr(self, "_serial_patch"):
                self._serial_patch.stop()
            self.loop.close()
            asyncio.set_event_loop(None)

    def n_listeners(self):
        ls = priv.get(self.api, "api", "listeners")
        return 0 if ls is None else sum(len(v) for v in ls.values())


def canon_real(entries, tsn_of_first):
    """real log entries of one step -> model vocabulary"""
    out = []
    for e in entries:
        if e.startswith("W"):
            raw = bytes.fromhex(e[1:])
            fl = raw[5]
            if fl & 1:
                out.append("WACK")
            else:
                out.append(("W", (fl >> 2) & 3, bool(fl & 0x40), bool(fl & 0x80), raw))
        elif e == "CLOSE" or e == "APPLOST" or e.startswith("D") or e.startswith("RAISED"):
            out.append(e)
    return out
