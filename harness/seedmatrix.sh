#!/bin/bash
# usage: harness/seedmatrix.sh <seeded-id> ...   - for each seeded change: git -C /repo apply, run the quick checks listed in its
# meta.json (checks_to_run), git -C /repo checkout -- . ; one line per (change, check) on stdout
set -u
cd /verif
for sid in "$@"; do
  d=seeded/$sid
  if ! git -C /repo diff --quiet; then echo "/repo is dirty"; exit 2; fi
  git -C /repo apply "/verif/$d/patch.diff" || { echo "$sid patch does not apply"; continue; }
  for p in $(jq -r '.checks_to_run[]' "$d/meta.json"); do
    out=$(./check "$p" quick 2>&1 | grep -E "VIOLATION|seed=|INFRA" | cut -c1-200 | tr '\n' ' ')
    st="pass"; case "$out" in *no-failing-input-found*) st="nfi";; *VIOLATION*) st="VIOL";; *INFRA*) st="INFRA";; esac
    echo "$sid $p $st"
  done
  git -C /repo checkout -- .
done
for p in C01 C03 C04 C19; do ./check $p quick >/dev/null 2>&1; done   # regenerate the clean tables
echo MATRIXDONE
