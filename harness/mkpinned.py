"""One-off generator of the golden protocol table (run against the *pinned, interoperating* revision):

    git -C /repo worktree add /tmp/pin <pinned sha>
    PYTHONPATH=/tmp/pin /venv/bin/python harness/mkpinned.py
    git -C /repo worktree remove --force /tmp/pin

Writes lean/ZbossModel/ZbossModel/Pinned.lean (wire view of every command: header, per wire field the
wire type, optional flag, parameter index, numeric enum values - no names) and
corpus/C19/vectors.json (per class: value assignments with their wire bytes, and the enum member
name -> value maps).  The checks never write these files."""
import enum
import json
import os
import random
import sys

HERE = os.path.dirname(os.path.abspath(__file__))
sys.path.insert(0, HERE)
import extract_commands  # noqa: E402
import gen  # noqa: E402
import codecio  # noqa: E402


def prim(v):
    """language-neutral form of a parameter value"""
    import zigpy.types as zt
    import zigpy_zboss.types as t
    if v is None:
        return None
    if isinstance(v, t.SimpleDescriptor):
        return {"sd": [int(v.endpoint), int(v.profile), int(v.device_type), int(v.device_version),
                       [int(x) for x in v.input_clusters], [int(x) for x in v.output_clusters]]}
    if isinstance(v, zt.Struct):
        return {"raw": v.serialize().hex()}
    if isinstance(v, (zt.EUI64, zt.KeyData)):
        return {"list": [int(x) for x in v]}
    if isinstance(v, bytes):
        return {"bytes": bytes(v).hex()}
    if isinstance(v, list):
        return {"list": [prim(x) for x in v]}
    if isinstance(v, int):
        return int(v)
    raise TypeError(type(v))


def unprim(T, p):
    import zigpy.types as zt
    import zigpy_zboss.types as t
    if p is None:
        return None
    if isinstance(p, dict) and "sd" in p:
        e, pr, dt, dv, i, o = p["sd"]
        return T(endpoint=e, profile=pr, device_type=dt, device_version=dv, input_clusters_count=len(i),
                 output_clusters_count=len(o), input_clusters=i, output_clusters=o)
    if isinstance(p, dict) and "raw" in p:
        return T.deserialize(bytes.fromhex(p["raw"]))[0]
    if isinstance(p, dict) and "bytes" in p:
        return T(bytes.fromhex(p["bytes"]))
    if isinstance(p, dict) and "list" in p:
        it = getattr(T, "_item_type", None)
        return T([unprim(it, x) if isinstance(x, dict) else x for x in p["list"]])
    return T(p)


def enum_values(T, rnd):
    """the integers whose wire image is pinned for an enumeration / flag type: every value of a one-byte type, else the
    members, the boundaries and a fixed random sample"""
    n = len(T(0).serialize()) if True else 1
    if n == 1:
        return list(range(256))
    vals = {int(m) for m in T} | {0, 1, (1 << (8 * n)) - 1, (1 << (8 * n - 1))}
    while len(vals) < len(T) + 40:
        vals.add(rnd.getrandbits(8 * n))
    return sorted(vals)


def enum_wire_of(T, vals):
    """{value: [encoded bytes | 'ERR', decoded integer | 'ERR']}: what a (possibly unlisted) value of the type looks
    like on the wire in both directions"""
    out = {}
    n = None
    for v in vals:
        try:
            b = T(v).serialize()
            n = len(b)
            enc = b.hex()
        except Exception:
            enc = "ERR"
        out[str(v)] = [enc, None]
    for v in vals:
        try:
            x, rest = T.deserialize(int(v).to_bytes(n or 1, "little"))
            out[str(v)][1] = int(x) if rest == b"" else "ERR"
        except Exception:
            out[str(v)][1] = "ERR"
    return out


def enum_wire_main():
    """corpus/C19/enum_wire.json: the wire image of listed AND unlisted values of every enumeration / flag type
    reachable from the command schemas, at the pinned revision"""
    import importlib
    pinned = json.load(open(os.path.join(HERE, "..", "corpus", "C19", "vectors.json")))
    rnd = random.Random(20260930)
    out = {}
    for key in pinned["enums"]:
        mod, _, qn = key.rpartition(".")
        obj = importlib.import_module(mod)
        for part in qn.split("."):
            obj = getattr(obj, part)
        vals = enum_values(obj, rnd)
        out[key] = enum_wire_of(obj, vals)
    with open(os.path.join(HERE, "..", "corpus", "C19", "enum_wire.json"), "w") as f:
        json.dump(out, f)
    print("enum wire images: %d types, %d values" % (len(out), sum(len(v) for v in out.values())))


def param_enums_main():
    """corpus/C19/param_enums.json: for every command (by header) the enumeration / flag type of each parameter (or null), by
    qualified name - the member values themselves are in vectors.json["enums"]"""
    rows = extract_commands.table()
    out = {}
    for cls, qn, hdr, blocking, fl in rows:
        keys = []
        for p in cls.schema:
            if isinstance(p.type, type) and issubclass(p.type, enum.Enum):
                keys.append(p.type.__module__ + "." + p.type.__qualname__)
            else:
                keys.append(None)
        out[str(hdr)] = keys
    with open(os.path.join(HERE, "..", "corpus", "C19", "param_enums.json"), "w") as f:
        json.dump(out, f)
    print("parameter enum types: %d commands, %d enum-typed parameters" % (len(out), sum(1 for v in out.values() for k in v if k)))


def main():
    rows = extract_commands.table()
    # Lean: wire views
    out = ["/- Golden protocol table of the pinned, interoperating revision (harness/mkpinned.py). Committed; never",
           "   regenerated by the checks. Names are deliberately absent: identity is positional and numeric. -/",
           "import ZbossModel.Codec", "namespace Zboss.Pinned", "open Zboss.Wire Zboss.Codec", "",
           "def views : List View := ["]
    items = []
    for cls, qn, hdr, blocking, fl in rows:
        # parameter indices as computed by Codec.paramIdx
        pidx, k, prev = [], 0, None
        for (n, d, o, ev) in fl:
            base = n.split(".")[0]
            if prev == base:
                pidx.append(k - 1)
            else:
                pidx.append(k)
                k += 1
                prev = base
        si = next((i for i, f in enumerate(fl) if f[0] == "StatusCode"), None)
        fs = ",\n      ".join("⟨%s, %s, %d, [%s]⟩" % (extract_commands._wt(d), "true" if o else "false", pi,
                                                    ", ".join(str(v) for v in ev))
                              for (n, d, o, ev), pi in zip(fl, pidx))
        items.append("  { header := %d, statusIdx := %s, fields := [\n      %s] }"
                     % (hdr, "none" if si is None else "some %d" % si, fs))
    out.append(",\n".join(items))
    out += ["]", "", "end Zboss.Pinned", ""]
    with open(os.path.join(HERE, "..", "lean", "ZbossModel", "ZbossModel", "Pinned.lean"), "w") as f:
        f.write("\n".join(out))
    # JSON: byte vectors and enum maps
    rnd = random.Random(20260929)
    vec = []
    enums = {}
    for idx, (cls, qn, hdr, blocking, fl) in enumerate(rows):
        cases = []
        nopts = sum(1 for p in cls.schema if p.optional)
        for k in range(6):
            cmd = gen.gen_cmd(cls, rnd, nopt=k % (nopts + 1))
            kw = {p.name: prim(getattr(cmd, p.name)) for p in cls.schema}
            cases.append({"values": kw, "bytes": cmd.to_frame().hl_packet.serialize()[2:].hex()})
        # successful responses (decoded in full by the host) with empty / one-element / longer lists
        rnd2 = random.Random(hdr)
        names = [p.name for p in cls.schema]
        for k, size in enumerate([0, 1, None, 3] if "StatusCode" in names else [0, 1]):
            cmd = gen.gen_cmd(cls, rnd2, nopt=nopts, size=size)
            kw = {p.name: getattr(cmd, p.name) for p in cls.schema}
            if "StatusCode" in names:
                pc = next(p for p in cls.schema if p.name == "StatusCat")
                ps = next(p for p in cls.schema if p.name == "StatusCode")
                kw["StatusCat"], kw["StatusCode"] = pc.type(0), ps.type(0)
            for p in cls.schema:
                # descriptor with an empty cluster list on either side
                if p.type.__name__ == "SimpleDescriptor" and k < 2:
                    v = kw[p.name]
                    i = [rnd2.getrandbits(16) for _ in range(2 if k == 0 else 0)]
                    o = [rnd2.getrandbits(16) for _ in range(0 if k == 0 else 2)]
                    kw[p.name] = p.type(endpoint=v.endpoint, profile=v.profile, device_type=v.device_type,
                                        device_version=v.device_version, input_clusters_count=len(i),
                                        output_clusters_count=len(o), input_clusters=i, output_clusters=o)
            cmd = cls(**kw)
            cases.append({"values": {p.name: prim(getattr(cmd, p.name)) for p in cls.schema},
                          "bytes": cmd.to_frame().hl_packet.serialize()[2:].hex()})
        vec.append({"index": idx, "header": hdr, "cases": cases})
        for p in cls.schema:
            if isinstance(p.type, type) and issubclass(p.type, enum.Enum):
                key = p.type.__module__ + "." + p.type.__qualname__
                enums[key] = {m.name: int(m) for m in p.type}
    import zigpy_zboss.types as t
    for T in (t.ControlType, t.LLFlags):
        enums[T.__module__ + "." + T.__qualname__] = {m.name: int(m) for m in T}
    os.makedirs(os.path.join(HERE, "..", "corpus", "C19"), exist_ok=True)
    with open(os.path.join(HERE, "..", "corpus", "C19", "vectors.json"), "w") as f:
        json.dump({"vectors": vec, "enums": enums}, f)
    print("pinned: %d commands, %d enums" % (len(rows), len(enums)))


if __name__ == "__main__" and "--enum-wire" in sys.argv:
    enum_wire_main()
elif __name__ == "__main__" and "--param-enums" in sys.argv:
    param_enums_main()
elif __name__ == "__main__":
    main()
