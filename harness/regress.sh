#!/bin/bash
# usage: SEED_REPO=<scratch worktree of /repo> harness/regress.sh [seeds...]      (default seed list: 0)
# Full regression of the machinery against its own record: every seeded change under seeded/Cxx-n/ is applied to the
# scratch worktree and must be reported by the check of its own property with a concrete replay; every harmless change
# under seeded/benign/ must leave all 20 checks silent.  Never touches /repo itself (use harness/seedmatrix.sh for that).
# Run it from a copy of /verif when /verif itself is in use (the Lean build directory and Generated/*.lean are per copy).
set -u
R="${SEED_REPO:?set SEED_REPO to a scratch worktree of /repo (git -C /repo worktree add --detach <dir> HEAD)}"
V="$(cd "$(dirname "$0")/.." && pwd)"
SEEDS="${*:-0}"
cd "$V"
for d in seeded/C*/; do
  sid=$(basename "$d"); p=${sid%-*}
  git -C "$R" checkout -q -- . ; git -C "$R" apply "$V/$d/patch.diff" 2>/dev/null || { echo "$sid does-not-apply"; continue; }
  for sd in $SEEDS; do
    out=$(VERIF_SEED=$sd ZBOSS_REPO="$R" ./check "$p" quick 2>&1 | grep -E "VIOLATION|seed=|INFRA" | cut -c1-220 | tr '\n' ' ')
    st="MISSED"; case "$out" in *no-failing-input-found*) st="nfi";; *VIOLATION*) st="caught";; *INFRA*) st="INFRA";; esac
    echo "$sid $p seed$sd $st"
  done
  git -C "$R" checkout -q -- .
done
for b in seeded/benign/*.diff; do
  git -C "$R" checkout -q -- . ; git -C "$R" apply "$V/$b" || { echo "$b does-not-apply"; continue; }
  for p in C01 C02 C03 C04 C05 C06 C07 C08 C09 C10 C11 C12 C13 C14 C15 C16 C17 C18 C19 C20; do
    out=$(ZBOSS_REPO="$R" ./check "$p" quick 2>&1 | grep -E "VIOLATION|seed=|INFRA" | cut -c1-220 | tr '\n' ' ')
    case "$out" in *VIOLATION*|*INFRA*) echo "$(basename "$b") $p ALARM $out";; esac
  done
  echo "$(basename "$b") done"
  git -C "$R" checkout -q -- .
done
(for p in C01 C03 C04 C19; do ZBOSS_REPO="$R" ./check $p quick >/dev/null 2>&1; done)   # regenerate the clean tables
echo REGRESSDONE
