"""C12 - a response resolves only the oldest matching waiter and every matching callback.

Tie: real `ZBOSS.wait_for_responses` / `register_indication_listeners` / `frame_received` (real
frames built with `to_frame()`), futures cancelled by the caller, several commands received within
one event-loop step (removal of finished listeners is deferred) vs the Lean `Dispatch` model.
Observation checker (implementation only): per received command at most one waiter resolves, it is
the earliest-registered still-pending waiter whose patterns match (independent field-wise spec), it
receives exactly that command; exactly the callbacks whose patterns match fire, once each.
"""
import asyncio

import cmduniv
from common import hx
import priv
import vloop

ASSUMPTIONS = ["callbacks do not register or cancel listeners re-entrantly"]


def mk_api(loop):
    from zigpy_zboss.api import ZBOSS
    import zigpy_zboss.config as conf
    cfg = {conf.CONF_DEVICE: {conf.CONF_DEVICE_PATH: "/dev/null", conf.CONF_DEVICE_BAUDRATE: 115200,
                              conf.CONF_DEVICE_FLOW_CONTROL: None}}

    async def mk():
        return ZBOSS(cfg)
    return loop.run_until_complete(mk())


def gen_history(r, allp, allc, depth):
    evs = []
    nid = 0
    for _ in range(depth):
        k = r.choice(["W", "W", "W", "B", "B", "R", "R", "R", "R", "X", "Z", "Z"])
        if k in "WB":
            nid += 1
            n = r.choice([1, 1, 1, 2, 3])
            evs.append((k, nid, [r.choice(allp) for _ in range(n)]))
        elif k == "R":
            evs.append(("R", r.choice(allc)))
        elif k == "X":
            evs.append(("X", r.randrange(1, max(nid, 1) + 1)))
        else:
            evs.append(("Z",))
    return evs


def run_history(evs, classes):
    """Drive the real api. Returns per-event outputs as in the model ('r<id>=cmd', 'c<id>=cmd')."""
    loop = vloop.VLoop()
    asyncio.set_event_loop(loop)
    enc = lambda c: cmduniv.encode(classes, c)
    outs = []
    try:
        api = mk_api(loop)
        futures = {}
        kinds = {}
        cur = []

        def do(batch):
            for ev in batch:
                cur.clear()
                if ev[0] == "W":
                    fut = api.wait_for_responses(ev[2])
                    futures[ev[1]] = fut
                    kinds[ev[1]] = "W"
                elif ev[0] == "B":
                    i = ev[1]
                    api.register_indication_listeners(ev[2], lambda cmd, i=i: cur.append("c%d=%s" % (i, enc(cmd))))
                    kinds[i] = "B"
                elif ev[0] == "X":
                    f = futures.get(ev[1])
                    if f is not None and not f.done():
                        f.cancel()
                elif ev[0] == "R":
                    before = {i: f.done() for i, f in futures.items()}
                    api.frame_received(ev[1].to_frame())
                    # resolved futures, in listener order (ids ascend with registration)
                    res = ["r%d=%s" % (i, enc(f.result())) for i, f in sorted(futures.items())
                           if f.done() and not before[i] and not f.cancelled()]
                    # order of events inside one dispatch = registration order of the listeners involved
                    merged = sorted(res + list(cur), key=lambda s: int(s[1:].split("=")[0]))
                    outs.append(merged)
                    continue
                outs.append([])
        batch = []
        for ev in evs:
            if ev[0] == "Z":
                if batch:
                    loop.call_soon(do, batch)
                    loop.settle()
                    batch = []
                else:
                    loop.settle()
                outs.append([])
            else:
                batch.append(ev)
        if batch:
            loop.call_soon(do, batch)
            loop.settle()
        n_left = sum(len(v) for v in (priv.get(api, "api", "listeners") or {}).values())
    finally:
        loop.close()
        asyncio.set_event_loop(None)
    return outs


def reorder(evs, outs_by_nonz):
    """outs were appended for non-Z events when their batch ran, and for Z events at the Z; put them in event order"""
    return outs_by_nonz


def check(ctx, evs, outs, classes):
    """observation checker against an independent reading of the property"""
    enc = lambda c: cmduniv.encode(classes, c)
    waiters = []     # [id, patterns, state]  state: pending / done
    callbacks = []
    tokens = [tok(e, classes) for e in evs]
    for k, (ev, out) in enumerate(zip(evs, outs)):
        if ev[0] == "W":
            waiters.append([ev[1], ev[2], "pending"])
        elif ev[0] == "B":
            callbacks.append((ev[1], ev[2]))
        elif ev[0] == "X":
            for w in waiters:
                if w[0] == ev[1] and w[2] == "pending":
                    w[2] = "done"
        elif ev[0] == "R":
            c = ev[1]
            first = next((w for w in waiters if w[2] == "pending" and any(cmduniv.spec_matches(p, c) for p in w[1])), None)
            want = []
            if first is not None:
                want.append("r%d=%s" % (first[0], enc(c)))
                first[2] = "done"
            want += ["c%d=%s" % (i, enc(c)) for i, ps in callbacks if any(cmduniv.spec_matches(p, c) for p in ps)]
            want.sort(key=lambda s: int(s[1:].split("=")[0]))
            if out != want:
                ctx.counterexample("dispatch", dict(events=tokens, step=k), want, out,
                                   "a received command did not resolve exactly the oldest pending matching waiter and every matching callback once")
                return


def tok(ev, classes):
    enc = lambda c: cmduniv.encode(classes, c)
    if ev[0] in "WB":
        return "%s/%d/%s" % (ev[0], ev[1], "|".join(enc(p) for p in ev[2]))
    if ev[0] == "X":
        return "X/%d" % ev[1]
    if ev[0] == "R":
        return "R/" + enc(ev[1])
    return "Z"


def all_classes(ctx):
    """Every response and indication class the library defines, with generated parameter values (lists of structures,
    descriptors, optional parameters present): a callback, a waiter, another callback and a waiter for another command
    are registered under its header; one command is received.  Both callbacks are called once with it, the waiter is
    resolved with it, the other waiter stays pending - whatever the command contains."""
    import gen
    r = ctx.rng
    classes = [c for c in gen.all_command_classes() if (int(c.header) >> 8) & 0xFF in (1, 2)]
    for cls in classes:
        for rep in range(ctx.scale(2, 6)):
            loop = vloop.VLoop()
            asyncio.set_event_loop(loop)
            try:
                api = mk_api(loop)
                # lists non-empty in every second value: what a command *contains* must not matter to the dispatch
                cmd = gen.gen_cmd(cls, r, size=(2 if rep % 2 == 0 else None))
                other = r.choice([c for c in classes if c is not cls])
                got = []

                async def go():
                    api.register_indication_listener(cls(partial=True), lambda c: got.append(("cb1", c)))
                    w = api.wait_for_response(cls(partial=True))
                    api.register_indication_listener(cls(partial=True), lambda c: got.append(("cb2", c)))
                    w2 = api.wait_for_response(other(partial=True))
                    try:
                        api.frame_received(cmd.to_frame())
                        raised = None
                    except Exception as ex:  # noqa
                        raised = type(ex).__name__
                    await asyncio.sleep(0)
                    return w, w2, raised
                w, w2, raised = loop.run_until_complete(go())
                who = [k for k, _ in got]
                resolved = w.done() and not w.cancelled() and w.exception() is None
                ctx.case(("allcls", cls.__qualname__, rep), nontrivial=True, sample=dict(cls=cls.__qualname__, called=who, waiter_resolved=resolved))
                ctx.count("all-classes-dispatch")
                ok = who == ["cb1", "cb2"] and resolved and not w2.done() and raised is None
                if not ok:
                    ctx.counterexample("dispatch-all-classes", dict(cls=cls.__qualname__, command_bytes=hx(cmd.to_frame().hl_packet.serialize())[:160]),
                                       dict(callbacks=["cb1", "cb2"], waiter="resolved", other_waiter="pending", raised=None),
                                       dict(callbacks=who, waiter="resolved" if resolved else "not resolved",
                                            other_waiter="done" if w2.done() else "pending", raised=raised),
                                       "a received command did not reach every matching callback once and the oldest matching waiter")
                w2.cancel()
            finally:
                loop.close()
                asyncio.set_event_loop(None)


def run(ctx):
    all_classes(ctx)
    r = ctx.rng
    classes, doms = cmduniv.universe()
    allp = [p for cls in classes for p in cmduniv.all_patterns(cls, doms[cls])]
    allc = [c for cls in classes for c in cmduniv.all_concrete(cls, doms[cls])]
    # bias towards patterns that match something often
    general = [p for p in allp if sum(1 for c in allc if cmduniv.spec_matches(p, c)) >= 2]
    ctx.rule = ("histories of depth 25 over {register waiter(1..3 patterns), register callback, cancel waiter, receive "
                "command, end of event-loop step} on two real response types with equal and different patterns, "
                "several commands received within one event-loop step; non-trivial = some command had >= 2 candidate "
                "listeners; distinct by event list")
    lines, metas = [], []
    # systematic: 2..3 waiters with the SAME pattern, one of them cancelled, then matching responses
    systematic = []
    for p in r.sample(general, min(len(general), ctx.scale(10, 40))):
        cs = [c for c in allc if cmduniv.spec_matches(p, c)]
        for n in (2, 3):
            for victim in range(1, n + 1):
                for settle_first in (True, False):
                    c = r.choice(cs)
                    evs = [("W", k + 1, [p]) for k in range(n)] + [("X", victim)]
                    if settle_first:
                        evs.append(("Z",))
                    evs += [("R", c), ("Z",), ("R", c), ("R", c), ("Z",), ("R", c)]
                    systematic.append(evs)
    nrand = ctx.scale(250, 6000)
    for it in range(len(systematic) + nrand):
        evs = systematic[it] if it < len(systematic) else gen_history(r, general if r.random() < 0.7 else allp, allc, 25)
        outs = run_history(evs, classes)
        if len(outs) != len(evs):
            # batches run at the next Z: re-align (outs are produced in event order within and across batches)
            raise RuntimeError("harness: output alignment")
        tokens = [tok(e, classes) for e in evs]
        multi = any(len(o) >= 2 for o in outs)
        ctx.case(tuple(tokens), nontrivial=multi, sample=dict(events=tokens[:12], outputs=outs[:12]))
        ctx.count("max-reactions=%d" % max(len(o) for o in outs))
        check(ctx, evs, outs, classes)
        lines.append("dispatch " + " ".join(tokens))
        metas.append((tokens, outs))
    if ctx.driver:
        ans = ctx.driver.ask(lines)
        for (tokens, outs), a in zip(metas, ans):
            body = a.rsplit(" | ", 1)[0]
            m = [[] if s == "." else s.split("+") for s in body.split(";")]
            ctx.traces += 1
            if m != outs:
                bad = next((i for i, (x, y) in enumerate(zip(m, outs)) if x != y), -1)
                ctx.mismatch("dispatch", dict(events=tokens, first_differing_step=bad),
                             m[bad] if bad >= 0 else m, outs[bad] if bad >= 0 else outs)


def search(ctx):
    return None


def replay(ctx, rep):
    print(rep.get("what")); print(rep.get("input")); print("expected", rep.get("expected"), "observed", rep.get("observed"))
    return 1
