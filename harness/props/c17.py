"""C17 - pattern matching is field-wise wildcarding; a listener fires once per match.

Tie: real `CommandBase.matches` / `deduplicate_commands` / `IndicationListener.resolve` vs the Lean
model (`match`, `dedup` ops) over a universe of two real response types with small parameter domains
(all partial patterns: 54 + 27; all concrete commands).
Observation checker (implementation only): matches == independent field-wise spec on every
(pattern, command) pair incl. cross-type; reflexive; transitive on every triple sample; a listener
built from a pattern collection reacts to exactly the commands matched by >= 1 pattern, once.
"""
import itertools

import cmduniv
from common import hx

ASSUMPTIONS = ["parameter values are compared with ==; the universe uses ints, enums and NWK values"]


def run(ctx):
    from zigpy_zboss.utils import deduplicate_commands, IndicationListener
    r = ctx.rng
    classes, doms = cmduniv.universe(optional=True)
    pats = {cls: cmduniv.all_patterns(cls, doms[cls]) for cls in classes}
    conc = {cls: cmduniv.all_concrete(cls, doms[cls]) for cls in classes}
    allc = [c for cls in classes for c in conc[cls]]
    # patterns: every partial command, plus the complete commands that leave optional trailing parameters out
    # (`wait_for_response(Rsp(...))` without `partial=True`): what they leave out is unspecified all the same
    nonpartial = [c for c in allc if any(getattr(c, p.name) is None for p in type(c).schema)]
    allp = [p for cls in classes for p in pats[cls]] + nonpartial
    ctx.count("non-partial patterns with omitted optional parameters", len(nonpartial))
    ctx.rule = ("all %d patterns x all %d concrete commands (three real response types, one with optional trailing "
                "parameters given / omitted in complete and partial commands, cross-type pairs "
                "included) for matches; pattern collections: every list of length <= 2 (thorough: <= 3) over a "
                "24-pattern subset plus random lists of length <= 7 with duplicates and chains, for de-duplication; "
                "non-trivial = collection with a duplicate or a general->specific pair; distinct by encoded input"
                % (len(allp), len(allc)))
    enc = lambda c: cmduniv.encode(classes, c)
    # 1. matches on every pair (patterns against patterns too: partial "actual" values)
    lines, pairs = [], []
    for p in allp:
        for c in allc + r.sample(allp, 6):
            pairs.append((p, c))
            lines.append("match %s %s" % (enc(p), enc(c)))
    ans = ctx.driver.ask(lines) if ctx.driver else [None] * len(lines)
    for (p, c), a in zip(pairs, ans):
        impl = p.matches(c)
        ctx.case(("m", enc(p), enc(c)), nontrivial=type(p) is type(c))
        ctx.count("match:%s" % impl)
        if c in allc and impl != cmduniv.spec_matches(p, c):
            ctx.counterexample("matches-not-fieldwise", dict(pattern=enc(p), command=enc(c)), cmduniv.spec_matches(p, c), impl,
                               "matches() differs from field-wise wildcarding")
        if a is not None and a != ("1" if impl else "0"):
            ctx.mismatch("match", dict(pattern=enc(p), command=enc(c)), a, "1" if impl else "0")
    for p in allp:
        if not p.matches(p):
            ctx.counterexample("not-reflexive", dict(pattern=enc(p)), True, False, "a pattern does not match itself")
    for k in range(ctx.scale(6000, 60000)):
        a, b = r.choice(nonpartial if k % 4 == 0 else allp), r.choice(allp)
        c = r.choice(allc)
        if a.matches(b) and b.matches(c) and not a.matches(c):
            ctx.counterexample("not-transitive", dict(a=enc(a), b=enc(b), c=enc(c)), True, False, "matching is not transitive")
    # 2. de-duplication
    sub = r.sample(allp, 24)
    colls = [list(t) for n in range(1, ctx.scale(2, 3) + 1) for t in itertools.product(sub, repeat=n)]
    if not ctx.thorough():
        colls = r.sample(colls, min(len(colls), 400))
    for _ in range(ctx.scale(400, 6000)):
        n = r.randrange(1, 8)
        base = [r.choice(allp) for _ in range(n)]
        if r.random() < 0.5:
            base.append(r.choice(base))             # duplicate
        r.shuffle(base)
        colls.append(base)
    lines = ["dedup " + "|".join(enc(p) for p in ps) for ps in colls]
    ans = ctx.driver.ask(lines) if ctx.driver else [None] * len(lines)
    # chains general -> several specific ones -> an unrelated pattern, in every rotation: the shapes in which
    # folding patterns together can lose an unrelated one
    for _ in range(ctx.scale(150, 3000)):
        g = r.choice(allp)
        spec = [p for p in allp if g.matches(p) and p is not g]
        other = [p for p in allp if not g.matches(p) and not p.matches(g)]
        if len(spec) < 3 or not other:
            continue
        base = r.sample(spec, r.randrange(3, min(len(spec), 5) + 1)) + r.sample(other, r.randrange(1, min(len(other), 3) + 1))
        pos = r.randrange(0, len(base) + 1)
        base.insert(pos, g)
        if r.random() < 0.5:
            r.shuffle(base)
        colls.append(base)
    lines = ["dedup " + "|".join(enc(p) for p in ps) for ps in colls]
    ans = ctx.driver.ask(lines) if ctx.driver else [None] * len(lines)
    for ps, a in zip(colls, ans):
        try:
            out = deduplicate_commands(ps)
            IndicationListener(tuple(ps), callback=lambda c: None)
        except Exception as ex:
            ctx.counterexample("listener-construction-raised", dict(patterns=[enc(p) for p in ps]), "a listener",
                               "%s: %s" % (type(ex).__name__, ex),
                               "building a listener from a collection of patterns raises")
            continue
        impl = "|".join(enc(p) for p in out)
        chain = any(x is not y and x.matches(y) for x in ps for y in ps)
        ctx.case(("d", tuple(enc(p) for p in ps)), nontrivial=chain,
                 sample=dict(patterns=[enc(p) for p in ps], dedup=[enc(p) for p in out]))
        ctx.count("collection-size=%d" % min(len(ps), 8))
        calls = []
        lst = IndicationListener(tuple(ps), callback=calls.append)
        for c in allc:
            want = any(cmduniv.spec_matches(p, c) for p in ps)
            got = any(p.matches(c) for p in out)
            n0 = len(calls)
            res = lst.resolve(c)
            fired = len(calls) - n0
            if got != want or res != want or fired != (1 if want else 0):
                ctx.counterexample("listener-set", dict(patterns=[enc(p) for p in ps], command=enc(c)),
                                   dict(reacts=want, times=1 if want else 0), dict(dedup_matches=got, resolve=res, fired=fired),
                                   "a listener built from the collection does not react exactly once to exactly the matched commands")
                break
        if a is not None and a != impl:
            ctx.mismatch("dedup", dict(patterns=[enc(p) for p in ps]), a, impl)
    # 2b. "any collection": a generator, an iterator, a list the caller changes afterwards - the listener is made from the
    #     patterns it was given when it was created
    multi0 = [ps for ps in colls if len(ps) >= 1]
    for k, ps in enumerate(r.sample(multi0, min(len(multi0), ctx.scale(90, 900)))):
        form = ["generator", "iterator", "list-changed-later"][k % 3]
        calls = []
        try:
            if form == "generator":
                lst = IndicationListener((p for p in ps), callback=calls.append)
            elif form == "iterator":
                lst = IndicationListener(iter(tuple(ps)), callback=calls.append)
            else:
                mutable = list(ps)
                lst = IndicationListener(mutable, callback=calls.append)
                mutable.extend(r.sample(allp, 3))
                del mutable[0]
        except Exception as ex:
            ctx.counterexample("listener-construction-raised", dict(patterns=[enc(p) for p in ps], given_as=form), "a listener",
                               "%s: %s" % (type(ex).__name__, ex), "building a listener from a collection of patterns raises")
            continue
        ctx.case(("form", form, tuple(enc(p) for p in ps)), sample=dict(patterns=[enc(p) for p in ps][:4], given_as=form))
        ctx.count("collection-given-as:" + form)
        for c in r.sample(allc, min(len(allc), 12)):
            want = any(cmduniv.spec_matches(p, c) for p in ps)
            n0 = len(calls)
            try:
                list(lst.matching_headers())
                res = lst.resolve(c)
            except Exception as ex:
                res = "%s" % type(ex).__name__
            fired = len(calls) - n0
            if res != want or fired != (1 if want else 0):
                ctx.counterexample("listener-set", dict(patterns=[enc(p) for p in ps], given_as=form, command=enc(c)),
                                   dict(reacts=want, times=1 if want else 0), dict(resolve=res, fired=fired),
                                   "a listener built from the collection does not react exactly once to exactly the matched commands")
                break
    # 3. the same through the API: register_indication_listeners + frame_received of a real ZBOSS; in every
    #    second history a one-shot waiter for the same command is registered before each reception (it is resolved and
    #    goes away - the listener under test must not notice)
    from props import c12
    multi = [ps for ps in colls if len(ps) >= 2]
    for k, ps in enumerate(r.sample(multi, min(len(multi), ctx.scale(120, 1500)))):
        with_waiters = k % 2 == 1
        if with_waiters:
            evs, idx = [("W", 1000, [r.choice(allp)]), ("B", 1, ps)], []
            for j, c in enumerate(allc):
                qs = [q for q in allp if q.matches(c)]
                if r.random() < 0.5:
                    evs.append(("W", 2000 + j, [r.choice(qs)]))
                    if r.random() < 0.3:
                        evs.append(("W", 3000 + j, [r.choice(qs)]))
                idx.append(len(evs)); evs.append(("R", c))
                if r.random() < 0.5:
                    evs.append(("Z",))
            allouts = c12.run_history(evs, classes)
            outs = [[e for e in allouts[i] if e.startswith("c1=")] for i in idx]
        else:
            outs = c12.run_history([("B", 1, ps)] + [("R", c) for c in allc], classes)[1:]
        ctx.case(("api", with_waiters, tuple(enc(p) for p in ps)),
                 sample=dict(patterns=[enc(p) for p in ps], via="ZBOSS.register_indication_listeners", one_shot_waiters=with_waiters))
        ctx.count("api-listener-size=%d" % min(len(ps), 8))
        ctx.count("api-with-one-shot-waiters=%s" % with_waiters)
        for c, o in zip(allc, outs):
            want = ["c1=" + enc(c)] if any(cmduniv.spec_matches(p, c) for p in ps) else []
            # a command with optional trailing parameters is delivered re-parsed (an omitted list may come back empty):
            # for those only the number of reactions is compared
            if (len(o) != len(want)) if any(p.optional for p in type(c).schema) else (o != want):
                ctx.counterexample("api-listener-set", dict(patterns=[enc(p) for p in ps], command=enc(c), one_shot_waiters=with_waiters), want, o,
                                   "a listener registered through the API does not react exactly once to exactly the matched commands")
                break


def search(ctx):
    return None


def replay(ctx, rep):
    print(rep.get("what")); print(rep.get("input")); print("expected", rep.get("expected"), "observed", rep.get("observed"))
    return 1
