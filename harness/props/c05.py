"""C05 - every frame the host builds is well-formed and decodes back to itself.

Tie: the bit-field accessors are regenerated from the Python ast (translator 2)
and additionally compared on random header values; real frames (`to_frame`,
`handle_tx_fragmentation`, `Frame.ack`, stamped by a real `ZbossNcpProtocol`)
are compared byte for byte with the model, decoded by the Lean reference decoder
(`Ref.decode`, written from the link format only) and by the real and modelled
`Frame.deserialize`.
"""
from common import hx
import gen
import rxworld

ASSUMPTIONS = ["frames with a body of at most 65530 bytes (the 16-bit length field)",
               "setter arguments are non-negative integers"]

LLF = [("sig", "with_signature", "signature"), ("size", "with_size", "size"), ("type", "with_type", "frame_type"),
       ("flags", "with_flags", "flags"), ("crc", "with_crc8", "crc8")]
HLF = [("version", "with_version", "version"), ("type", "with_type", "control_type"), ("id", "with_id", "id")]
LLKW = ["sign", "size", "frame_type", "flags", "crc8"]       # keyword of the constructor for the same field
HLKW = ["version", "type", "id"]


def mk_protocol():
    from zigpy_zboss import uart
    import zigpy_zboss.config as conf
    import asyncio
    cfg = {conf.CONF_DEVICE_PATH: "/dev/null", conf.CONF_DEVICE_BAUDRATE: 115200, conf.CONF_DEVICE_FLOW_CONTROL: None}
    loop = asyncio.new_event_loop()

    async def mk():
        return uart.ZbossNcpProtocol(cfg, None)
    p = loop.run_until_complete(mk())
    loop.close()
    return p


def _bitfields(ctx):
    from zigpy_zboss.frames import LLHeader
    import zigpy_zboss.types as t
    r = ctx.rng
    lines, cases = [], []
    for _ in range(ctx.scale(400, 20000)):
        n = r.choice([0, (1 << 56) - 1, r.getrandbits(56), r.getrandbits(56)])
        k = r.randrange(5)
        v = r.choice([0, 0xFF, 0xFFFF, r.getrandbits(8), r.getrandbits(16), r.getrandbits(20)])
        cases.append(("ll", n, k, v))
        lines.append("ll %d %s %d" % (n, LLF[k][0], v))
    for _ in range(ctx.scale(200, 10000)):
        n = r.choice([0, (1 << 32) - 1, r.getrandbits(32)])
        k = r.randrange(3)
        v = r.choice([0, 0xFF, 0xFFFF, r.getrandbits(8), r.getrandbits(16), r.getrandbits(20)])
        cases.append(("hl", n, k, v))
        lines.append("hl %d %s %d" % (n, HLF[k][0], v))
    ans = ctx.driver.ask(lines) if ctx.driver else [None] * len(lines)
    for (kind, n, k, v), a in zip(cases, ans):
        if kind == "ll":
            h0 = LLHeader(n)
            h1 = getattr(h0, LLF[k][1])(v)
            impl = [int(h1)] + [int(getattr(h1, g)) for _, _, g in LLF]
            before = [int(getattr(h0, g)) for _, _, g in LLF]
            masks = [0xFFFF, 0xFFFF, 0xFF, 0xFF, 0xFF]
            tab = LLF
        else:
            h0 = t.HLCommonHeader(n)
            h1 = getattr(h0, HLF[k][1])(v)
            impl = [int(h1)] + [int(getattr(h1, g)) for _, _, g in HLF]
            before = [int(getattr(h0, g)) for _, _, g in HLF]
            masks = [0xFF, 0xFF, 0xFFFF]
            tab = HLF
        ctx.case((kind, n, k, v), sample=dict(kind=kind, header=n, setter=tab[k][1], value=v, result=impl))
        ctx.count("bitfield-" + kind)
        # the keyword form of the constructor is the same operation: `Header(n, field=v)` == `Header(n).with_field(v)`
        kwname = (LLKW if kind == "ll" else HLKW)[k]
        try:
            via_ctor = int(type(h0)(n, **{kwname: v}))
        except TypeError:
            via_ctor = None            # the constructor has no such keyword (any more): nothing to compare
        if via_ctor is not None:
            ctx.count("bitfield-constructor-keyword")
            if via_ctor != int(h1):
                ctx.counterexample("bitfield-constructor", dict(kind=kind, header=n, keyword=kwname, value=v), int(h1), via_ctor,
                                   "the header constructor's keyword form does not set the field as the setter does")
        # observation checker: the set field reads back masked, the others are unchanged
        for j in range(len(tab)):
            want = (v & masks[j]) if j == k else before[j]
            if impl[1 + j] != want:
                ctx.counterexample("bitfield-law", dict(kind=kind, header=n, setter=tab[k][1], value=v, getter=tab[j][2]),
                                   want, impl[1 + j], "%s after %s: changing one header field alters another / is not read back" % (tab[j][2], tab[k][1]))
        if a is not None and a != " ".join(str(x) for x in impl):
            ctx.mismatch("bitfield", dict(kind=kind, header=n, setter=tab[k][1], value=v), a, " ".join(str(x) for x in impl))


class Stamper:
    """What the real transmitter writes for a frame when the link's packet sequence number is `seq`: one protocol object
    per number, brought there through public entry points only (matching acknowledgements), a real `send` task per
    frame, cancelled once the frame is on the (recording) transport."""
    def __init__(self):
        import vloop
        import streams
        self.worlds = {}
        for seq in range(4):
            w = vloop.LinkWorld()
            cur = 0
            for _ in range(seq):
                w.rx(streams.ack(cur))
                cur = cur % 3 + 1
            self.worlds[seq] = w
        self.n = 0

    def wire(self, seq, frame):
        import asyncio
        w = self.worlds[seq]
        asyncio.set_event_loop(w.loop)
        self.n += 1
        m = w.mark()
        w.start_send(self.n, frame)
        raws = [bytes.fromhex(e[1:]) for e in w.since(m) if e.startswith("W")]
        w.cancel(self.n)
        w.tasks.pop(self.n, None)
        # one `send` = one write of one frame; several writes (a frame put on the transport in pieces) are joined - the
        # caller reports the pieces
        self.pieces = len(raws)
        return b"".join(raws)

    def shutdown(self):
        for w in self.worlds.values():
            try:
                w.shutdown()
            except Exception:
                pass


def _frames(ctx):
    from zigpy_zboss.frames import Frame
    r = ctx.rng
    stamper = Stamper()
    classes = gen.all_command_classes()
    frames = []
    for cls in classes:
        for _ in range(ctx.scale(1, 12)):
            frames.append(gen.gen_cmd(cls, r).to_frame())
    for n in [0, 1, 100, 236, 237, 238, 300, 494, 700, 1500] + [r.randrange(0, 1500) for _ in range(ctx.scale(5, 200))]:
        big = gen.big_request(r, n).to_frame()
        frames.append(big)
        frames.extend(big.handle_tx_fragmentation())
    lines, cases = [], []
    for f in frames:
        seq = r.randrange(4)
        base_flags = int(f.ll_header.flags)
        hdr = f.hl_packet.header
        data = bytes(f.hl_packet.data)
        raw = stamper.wire(seq, f)
        if stamper.pieces != 1:
            ctx.counterexample("frame-written-in-pieces", dict(seq=seq, flags=base_flags, body_len=len(data) + (4 if hdr is not None else 0)),
                               "one write per frame", "%d writes" % stamper.pieces,
                               "the bytes of one frame reach the transport in several writes, with the event loop running in between "
                               "(an acknowledgement for incoming traffic can land inside the frame)")
        rest = bytes(r.getrandbits(8) for _ in range(r.choice([0, 0, 1, 9])))
        cases.append((seq, base_flags, hdr, data, raw, rest, f))
        lines.append("frame %d %d %s %s" % (seq, base_flags, "-" if hdr is None else int(hdr), hx(data)))
        lines.append("refdecode %s" % hx(raw + rest))
        lines.append("deframe %s" % hx(raw + rest))
    stamper.shutdown()
    ans = ctx.driver.ask(lines) if ctx.driver else None
    for k, (seq, base_flags, hdr, data, raw, rest, f) in enumerate(cases):
        body = (hdr.serialize() if hdr else b"") + data
        ctx.case(("frame", raw), sample=dict(seq=seq, flags=base_flags, body_len=len(body), wire=hx(raw[:16]) + ".."))
        ctx.count("frame-%s" % ("complete" if base_flags & 0xC0 == 0xC0 else "first" if base_flags & 0x40 else "last" if base_flags & 0x80 else "middle"))
        # library round trip on the implementation (complete frames)
        try:
            g, rst = Frame.deserialize(raw + rest)
            impl_de = "ok ll=%d hl=%s rest=%s" % (int(g.ll_header), "none" if g.hl_packet is None else (
                "raw:" + hx(bytes(g.hl_packet.data)) if g.hl_packet.header is None else
                "hdr=%d:%s" % (int(g.hl_packet.header), hx(bytes(g.hl_packet.data)))), hx(rst))
            if base_flags & 0x40 and (g.serialize() != raw or rst != rest):
                ctx.counterexample("lib-roundtrip", dict(wire=hx(raw), rest=hx(rest)), hx(raw), hx(g.serialize()),
                                   "Frame.deserialize does not return the frame it was given")
        except ValueError as ex:
            impl_de = "err " + ("invalidFrame" if type(ex).__name__ == "InvalidFrame" else "valueError")
            if base_flags & 0x40:
                ctx.counterexample("lib-roundtrip", dict(wire=hx(raw), rest=hx(rest)), "accepted", impl_de,
                                   "Frame.deserialize rejects a frame the host built")
        # ... and through the library's stream decoder (the receiver the peer of this host would be running)
        outs, final, raised = rxworld.session([raw])
        want_d = "Dll=%d hl=%s" % (int.from_bytes(raw[:7], "little"), ("raw:" + hx(data)) if hdr is None else "hdr=%d:%s" % (int(hdr), hx(data)))
        got_d = [x for x in outs[0].split(",") if x.startswith("D")]
        if got_d != [want_d]:
            ctx.counterexample("lib-stream-roundtrip", dict(wire=hx(raw)), want_d, outs[0][:200],
                               "the library's stream decoder does not recover the frame the host built")
        if ans is None:
            continue
        m_frame, m_ref, m_de = ans[3 * k:3 * k + 3]
        if m_frame != hx(raw):
            ctx.mismatch("frame", dict(seq=seq, flags=base_flags, hdr=None if hdr is None else int(hdr), data=hx(data)), m_frame, hx(raw))
        want_ref = "ok len=%d flags=%d body=%s rest=%s" % (len(raw) - 2, base_flags | (seq << 2), hx(body), hx(rest))
        if m_ref != want_ref:
            ctx.counterexample("frame-not-wellformed", dict(wire=hx(raw), rest=hx(rest)), want_ref, m_ref,
                               "reference decoder does not recover length/flags/body from the frame the host built")
        if m_de != impl_de:
            ctx.mismatch("deframe", dict(wire=hx(raw + rest)), m_de, impl_de)
    # acknowledgements
    lines, cases = [], []
    for seq in range(4):
        for rt in (False, True):
            raw = Frame.ack(seq, rt).serialize()
            cases.append((seq, rt, raw))
            lines += ["ack %d %d" % (seq, int(rt)), "refdecode %s" % hx(raw)]
    ans = ctx.driver.ask(lines) if ctx.driver else None
    for k, (seq, rt, raw) in enumerate(cases):
        ctx.case(("ack", seq, rt), sample=dict(ack=seq, retransmit=rt, wire=hx(raw)))
        ctx.count("ack")
        g, rst = Frame.deserialize(raw)
        if g.serialize() != raw or rst != b"" or g.hl_packet is not None:
            ctx.counterexample("ack-roundtrip", dict(seq=seq, retransmit=rt), hx(raw), hx(g.serialize()), "ACK does not decode back")
        if ans is not None:
            if ans[2 * k] != hx(raw):
                ctx.mismatch("ack", dict(seq=seq, retransmit=rt), ans[2 * k], hx(raw))
            want = "ok len=5 flags=%d body=- rest=-" % ((seq << 4) | 1 | (2 if rt else 0))
            if ans[2 * k + 1] != want:
                ctx.counterexample("ack-not-wellformed", dict(seq=seq, retransmit=rt, wire=hx(raw)), want, ans[2 * k + 1],
                                   "reference decoder does not accept the acknowledgement frame")


def _wire(ctx):
    """Every write the real transmitter makes - first transmissions and whatever it writes after an ACK wait
    expired, after a wrong / late / duplicate ACK - must be exactly one well-formed frame."""
    import vloop
    import streams
    r = ctx.rng
    w = vloop.LinkWorld()
    writes = []
    try:
        cur = 0
        for k in range(ctx.scale(40, 600)):
            cls = r.choice(gen.all_command_classes())
            cmd_obj = gen.gen_cmd(cls, r)
            pre = cmd_obj.to_frame().serialize()
            f = cmd_obj.to_frame() if r.random() < 0.7 else r.choice(
                gen.big_request(r, r.randrange(300, 900)).to_frame().handle_tx_fragmentation())
            m = w.mark()
            w.start_send(k, f)
            post = cmd_obj.to_frame().serialize()
            if post != pre:
                ctx.counterexample("frame-of-command-changed-by-sending", dict(cls=cls.__qualname__), hx(pre[:16]), hx(post[:16]),
                                   "the frame a command builds differs after an earlier frame of the same command was transmitted")
            how = r.choice(["ack", "ack", "expire", "wrong-then-expire", "expire-late-ack", "dup-ack"])
            if how == "ack":
                w.rx(streams.ack(cur)); cur = cur % 3 + 1
            elif how == "dup-ack":
                w.rx(streams.ack(cur)); w.rx(streams.ack(cur)); cur = cur % 3 + 1
            elif how == "expire":
                while w.tasks[k] is not None and not w.tasks[k].done() and w.tick():
                    pass
            elif how == "wrong-then-expire":
                w.rx(streams.ack((cur + 1) % 4))
                while not w.tasks[k].done() and w.tick():
                    pass
            else:
                while not w.tasks[k].done() and w.tick():
                    pass
                w.rx(streams.ack(cur)); cur = cur % 3 + 1
            for e in w.since(m):
                if e.startswith("W"):
                    writes.append((how, e[1:]))
            ctx.count("wire:" + how)
    finally:
        w.shutdown()
    lines = ["refdecode %s" % x for _, x in writes]
    ans = ctx.driver.ask(lines) if ctx.driver else [None] * len(lines)
    for (how, x), a in zip(writes, ans):
        raw = bytes.fromhex(x)
        ctx.case(("wire", x), sample=dict(ncp=how, wire=x[:24] + ".."))
        ok = (len(raw) >= 7 and raw[:2] == b"\xde\xad" and int.from_bytes(raw[2:4], "little") == len(raw) - 2
              and raw[4] == 6 and streams.crc8(raw[2:6]) == raw[6]
              and (len(raw) == 7 or (len(raw) >= 9 and streams.crc16(raw[9:]) == int.from_bytes(raw[7:9], "little"))))
        if a is not None:
            ok = ok and a.startswith("ok ") and a.endswith("rest=-")
        if not ok:
            ctx.counterexample("written-frame-not-wellformed", dict(ncp=how, wire=x), "one well-formed frame", a or "python reference check failed",
                               "bytes written to the transport are not a well-formed frame (marker, length, type, CRC8, CRC16)")


def run(ctx):
    ctx.rule = ("(a) random 56/32-bit header values x setter x argument (incl. arguments wider than the field); "
                "(b) to_frame() of generated commands of all 145 classes, large requests and all their fragments, "
                "stamped by a real ZbossNcpProtocol with every sequence number, followed by random trailing bytes; "
                "(c) all 8 acknowledgements; distinct by full input, all non-trivial")
    _bitfields(ctx)
    _frames(ctx)
    _wire(ctx)


def search(ctx):
    return None


def replay(ctx, rep):
    print(rep.get("what"))
    print("input:", rep.get("input"))
    print("expected:", rep.get("expected"))
    print("observed at the time:", rep.get("observed"))
    inp = rep.get("input") or {}
    if "wire" in inp and ctx.driver:
        w = inp["wire"] + (inp.get("rest", "-") if inp.get("rest", "-") != "-" else "")
        print("refdecode now:", ctx.driver.ask1("refdecode " + w))
    return 1
