"""C14 - blocking requests are mutually exclusive and served first-come first-served.

Tie: as C11, with 2..4 mixed blocking / non-blocking requests.
Observation checker: from a blocking request's first write to its end no frame of another blocking
request is written; blocking requests start transmitting in issue order; a non-blocking request
issued while a blocking request only waits for its response is transmitted at once.
"""
import hostdrive
from props.c11 import run_generic, replay  # noqa: F401

ASSUMPTIONS = ["events arrive at quiescent points of the event loop; timer ties avoided by construction"]


def free_link_scenarios():
    out = []
    for blk in "WBG":                       # blocking requests (WriteNVRAM 3 / 4 fragments, GetShortAddr)
        for nb in "ZD":                     # non-blocking requests (GetZigbeeRole, DataReq 2 fragments)
            s = [("start", 0.0, blk, 5000)] + [("ack", 0.0, blk, 5000)] * 4 + [("start", 0.0, nb, 3000)]
            out.append((s, len(s) - 1))
    return out


def run(ctx):
    ctx.rule = ("(a) scenarios: a multi-fragment request fully acknowledged and waiting for its response, then a request of "
                "another command: it must be written in the same step; (b) random schedules of 2..4 mixed requests with "
                "ACK / response timing, timeouts, cancellations; non-trivial = >= 2 requests and >= 4 event kinds")
    r = ctx.rng
    traces = []
    for s, at in free_link_scenarios():
        tr = hostdrive.run_schedule(r, s, drain=False)
        ctx.case(tuple(tr.tokens), sample=dict(events=tr.tokens, steps=tr.steps))
        ctx.count("free-link-scenario")
        last = tr.steps[-1]
        if not any(e.startswith("W") and e != "WACK" for e in last):
            ctx.counterexample("nonblocking-waits", dict(events=tr.tokens), "written at once", last,
                               "a request waits for another request's response although the link is free")
        traces.append(tr)
    hostdrive.compare(ctx, traces)
    run_generic(ctx, hostdrive.monitor_c14, ctx.scale(250, 2500), max_live=4 if False else None or 3,
                weights=dict(start=6, ack=6, rsp=3, tick=2, cancel=1.5, badack=0.5, close=0.05, lost=0.05), kinds="GWBDWBZ")


def search(ctx):
    return None
